#!/bin/bash
# run every claimed check (quick by default) on /repo, sequentially; prints one line per check
cd "$(dirname "$0")"
tier=${1:-quick}
for p in $(python3 -c "import json; print(' '.join(c['property_id'] for c in json.load(open('MANIFEST.json'))['checks']))"); do
  ./check $p --tier $tier 2>&1 | grep -v "^Warning" | grep -E "VIOLATION|tier=|KNOWN" | sed 's/^\(KNOWN-FINDING: property=[A-Z0-9]*\).*(\(F[^;]*\);.*/\1 \2/'
done
