#!/bin/bash
# offline build of the Coq development from clean
set -e
cd "$(dirname "$0")"
export PYTHONPATH="${UFO2FT_REPO:-/repo}/Lib:/verif"
/venv/bin/python harness/consts_from_source.py >/dev/null
/venv/bin/python harness/pipeline_from_source.py >/dev/null
/venv/bin/python harness/info_from_source.py >/dev/null
/venv/bin/python harness/imp_from_source.py >/dev/null
/venv/bin/python harness/fea_from_source.py >/dev/null
/venv/bin/python harness/name_from_source.py >/dev/null
cd coq
coq_makefile -f _CoqProject -o Makefile >/dev/null
timeout 3000 make -j16 2>&1 | tail -5
