#!/bin/bash
# usage: showgoal.sh file.v LINE  -- prints the goal just before LINE
f=$1; n=$2
tmp=$(mktemp -d /verif/.work.XXXX)
head -n $((n-1)) $f > $tmp/T.v
echo "Show. Abort." >> $tmp/T.v
cd /verif/coq && timeout 120 coqc -Q theories U2F -w none $tmp/T.v 2>&1 | tail -${3:-40}
rm -rf $tmp
