(* C17: which comment is the insertion marker.  baseFeatureWriter.INSERT_FEATURE_MARKER = r"\s*# Automatic Code.*" used
   with re.match (anchored at the start of the comment text): optional ASCII whitespace, then the literal text, then
   anything.  (\s also matches non-ASCII Unicode spaces; a feaLib comment always starts with "#", so leading whitespace
   never occurs and the model keeps to the ASCII ones.)  Definitions only. *)
From U2F Require Export Base.Prelude.
Open Scope Z_scope.

(* "# Automatic Code" *)
Definition MARK : str := [35; 32; 65; 117; 116; 111; 109; 97; 116; 105; 99; 32; 67; 111; 100; 101].
(* \s on ASCII: space \t \n \v \f \r *)
Definition is_ws (c : Z) : bool := (c =? 32) || ((9 <=? c) && (c <=? 13)).

Fixpoint lstrip (s : str) : str := match s with c :: s' => if is_ws c then lstrip s' else s | [] => [] end.
Fixpoint prefixb (p s : str) : bool :=
  match p, s with [], _ => true | a :: p', b :: s' => (a =? b) && prefixb p' s' | _ :: _, [] => false end.
Definition is_marker (comment : str) : bool := prefixb MARK (lstrip comment).

(* re.search instead of re.match (seeded change C17-sub4): the text anywhere in the comment *)
Fixpoint containsb (p s : str) : bool :=
  prefixb p s || match s with [] => false | _ :: s' => containsb p s' end.
