(* C20: which generated positioning features a script's default language system
   reaches (feaLib's registration rule applied to the blocks the writers emit). *)
From U2F Require Export Base.Prelude.
Open Scope Z_scope.

Definition T_DFLT : str := [68;70;76;84].
Definition L_dflt : str := [100;102;108;116].
Definition F_kern : str := [107;101;114;110].
Definition F_dist : str := [100;105;115;116].

Record reach_in := mkRI {
  ri_langsys : list (str * str);     (* languagesystem statements of the user's feature file, in order *)
  ri_kern_tags : list str;           (* script tags the generated kern block names with `script T;` *)
  ri_dist_tags : list str;           (* same for dist *)
  ri_plain : list str }.             (* generated features emitted without script statements (mark mkmk curs abvm blwm) *)

(* feaLib: with no languagesystem statement the default is DFLT dflt *)
Definition effective_langsys (i : reach_in) : list (str * str) :=
  match ri_langsys i with [] => [(T_DFLT, L_dflt)] | l => l end.

Definition declared (i : reach_in) (t : str) : bool :=
  existsb (fun sl => str_eqb (fst sl) t && str_eqb (snd sl) L_dflt) (effective_langsys i).

(* feature tags in the default language system of script t *)
Definition default_langsys_features (i : reach_in) (t : str) : list str :=
  (if mem t (ri_kern_tags i) then [F_kern] else []) ++
  (if mem t (ri_dist_tags i) then [F_dist] else []) ++
  (if declared i t then ri_plain i else []).

(* the property on a script list (tag -> feature tags of the default language system):
   every script that carries generated kern/dist also carries every generated plain feature *)
Definition has_kerning (feats : list str) : bool := mem F_kern feats || mem F_dist feats.

(* missing (script, feature) pairs *)
Definition unreachable (plain : list str) (scripts : list (str * list str)) : list (str * str) :=
  flat_map (fun tf => if has_kerning (snd tf)
                      then flat_map (fun f => if mem f (snd tf) then [] else [(fst tf, f)]) plain
                      else []) scripts.

Definition spec_C20 (plain : list str) (scripts : list (str * list str)) : bool :=
  match unreachable plain scripts with [] => true | _ => false end.

(* the model's script list *)
Fixpoint dedup_tags (l : list str) : list str :=
  match l with [] => [] | x :: r => if mem x r then dedup_tags r else x :: dedup_tags r end.
Definition model_scripts (i : reach_in) : list (str * list str) :=
  map (fun t => (t, default_langsys_features i t))
      (dedup_tags (map fst (effective_langsys i) ++ ri_kern_tags i ++ ri_dist_tags i)).

(* comparison with an observed script list, restricted to the generated feature tags *)
Definition same_feature_set (a b : list str) : bool :=
  forallb (fun x => mem x b) a && forallb (fun x => mem x a) b.
Definition model_matches (i : reach_in) (obs : list (str * list str)) : bool :=
  forallb (fun tf => match assoc (fst tf) obs with
                     | Some f => same_feature_set (snd tf) f
                     | None => match snd tf with [] => true | _ => false end
                     end) (model_scripts i) &&
  forallb (fun tf => match assoc (fst tf) (model_scripts i) with Some _ => true | None => false end) obs.
