(* C17: what the GDEF writer still has to generate, given the user's hand-written GDEF table
   (GdefFeatureWriter.setContext).  Definitions only. *)
From U2F Require Export Base.Prelude.
Import ListNotations.

Inductive gdef_stmt := GClassDef | GCaretByPos | GCaretByIndex | GAttach | GOther.

(* todo starts as {GlyphClassDefs, LigatureCarets}; a user GlyphClassDef statement discards the first,
   a user LigatureCaretByPos / ByIndex statement the second; then "nothing to write" empties them *)
Record gdef_todo := mkTodo { td_classes : bool; td_carets : bool }.

Definition todo_after_user (user : option (list gdef_stmt)) : gdef_todo :=
  match user with
  | None => mkTodo true true
  | Some stmts =>
      mkTodo (negb (existsb (fun s => match s with GClassDef => true | _ => false end) stmts))
             (negb (existsb (fun s => match s with GCaretByPos | GCaretByIndex => true | _ => false end) stmts))
  end.

Definition gdef_todo_of (user : option (list gdef_stmt)) (has_categories has_carets : bool) : gdef_todo :=
  let t := todo_after_user user in
  mkTodo (td_classes t && has_categories) (td_carets t && has_carets).

Definition todo_code (t : gdef_todo) : Z := ((if td_classes t then 1 else 0) + (if td_carets t then 2 else 0))%Z.
