(* C17 / C18 / C05: hand-written `table` blocks of a feature file.
   featureWriters/ast.findTable (the first block with a tag), the GDEF writer's reading of the user's GDEF table (every GDEF
   block of the file -- repaired defect F27: it used to read the first one only) and ast.getGDEFGlyphClasses (the first
   GlyphClassDef statement of any GDEF block, in file order).  Definitions only. *)
From U2F Require Import Base.Prelude Fea.GdefTodo.

(* a top-level statement: a table block with its tag and body, or anything else.  GlyphClassDef statements carry an id so
   that "which one was found" is observable *)
Inductive tstmt := TClassDef (id : Z) | TStmt (s : gdef_stmt).
Inductive top := TBlock (tag : str) (body : list tstmt) | TOther.

Definition GDEF : str := [71; 68; 69; 70]%Z.

Definition is_block (tag : str) (t : top) : bool := match t with TBlock g _ => str_eqb g tag | TOther => false end.

Definition find_table (tag : str) (l : list top) : option (list tstmt) :=
  match find (is_block tag) l with Some (TBlock _ b) => Some b | _ => None end.

Definition erase (s : tstmt) : gdef_stmt := match s with TClassDef _ => GClassDef | TStmt x => x end.

(* what the GDEF writer takes as "the user's GDEF table": None without any GDEF block, else the statements of ALL of them *)
Definition gdef_bodies (l : list top) : list (list tstmt) :=
  flat_map (fun t => match t with TBlock g b => if str_eqb g GDEF then [b] else [] | TOther => [] end) l.
Definition user_gdef (l : list top) : option (list gdef_stmt) :=
  match gdef_bodies l with [] => None | bs => Some (map erase (concat bs)) end.

(* getGDEFGlyphClasses: the first GlyphClassDef of the GDEF blocks, in file order *)
Fixpoint first_classdef (b : list tstmt) : option Z :=
  match b with [] => None | TClassDef i :: _ => Some i | _ :: r => first_classdef r end.
Definition gdef_classes (l : list top) : option Z := first_classdef (concat (gdef_bodies l)).
