(* C17: the translation of BaseFeatureWriter._contextAt (Generated/FeaGen.v, rewritten from /repo's source on every run) IS the
   hand model `context_at` of Fea/Context.v -- so the theorems about the model (the statements re-create the context, add no rule,
   the split keeps every rule under its context) are theorems about what the code says now. *)
From Coq Require Import ZArith List Bool.
From U2F Require Import Base.Prelude Fea.Context Fea.ContextProofs Generated.FeaGen.
Import ListNotations.

(* the three variables of the loop hold the last script / language / lookupflag STATEMENT; the model holds their tags *)
Definition holds (st : option cstmt * option cstmt * option cstmt) (c : fctx) : Prop :=
  let '(s, l, f) := st in
  s = option_map SScript (c_script c) /\ l = option_map SLanguage (c_language c) /\ f = option_map SFlag (c_flag c).

Lemma step_holds st c x : holds st c -> holds (tr_context_at_step st x) (ctx_step c x).
Proof.
  destruct st as [[s l] f]. intros (Hs & Hl & Hf). subst s l f.
  destruct x as [t|t|t|t]; cbn; repeat split; reflexivity.
Qed.

Lemma fold_holds l : forall st c, holds st c -> holds (fold_left tr_context_at_step l st) (ctx_after l c).
Proof.
  induction l as [|x l IH]; intros st c H; [exact H|]. cbn [fold_left ctx_after]. unfold ctx_after in IH.
  apply IH. apply step_holds. exact H.
Qed.

Theorem translated_context_at_is_the_model l : tr_context_at l = context_at l.
Proof.
  unfold tr_context_at, context_at.
  pose proof (fold_holds l (None, None, None) ctx0 (conj eq_refl (conj eq_refl eq_refl))) as H.
  destruct (fold_left tr_context_at_step l (None, None, None)) as [[s la] f]. destruct H as (Hs & Hl & Hf). subst s la f.
  destruct (c_script (ctx_after l ctx0)), (c_language (ctx_after l ctx0)), (c_flag (ctx_after l ctx0)); reflexivity.
Qed.

(* the theorems of the model, restated for the translated code *)
Theorem code_context_statements_recreate_the_context l : ctx_after (tr_context_at l) ctx0 = ctx_after l ctx0.
Proof. rewrite translated_context_at_is_the_model. apply context_at_recreates. Qed.

Theorem code_context_statements_add_no_rule l c : rules_with_ctx (tr_context_at l) c = [].
Proof. rewrite translated_context_at_is_the_model. apply context_at_has_no_rules. Qed.

(* a script statement ends the lookup flag in effect: what a later flag-less rule is interpreted under *)
Example code_script_resets_the_flag :
  tr_context_at [SFlag 8; SRule 1; SScript 2; SRule 3]%Z = [SScript 2]%Z.
Proof. reflexivity. Qed.
