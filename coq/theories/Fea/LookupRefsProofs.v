From U2F Require Import Base.Prelude.
From U2F Require Import Fea.LookupRefs.

Lemma ls_get_set_same m l v : ls_get (ls_set m l v) l = Some v.
Proof. induction m as [|[k w] m IH]; simpl.
  - rewrite str_eqb_refl. reflexivity.
  - destruct (str_eqb k l) eqn:E; simpl; rewrite E; auto. Qed.

Lemma ls_get_set_other m l l' v : str_eqb l l' = false -> ls_get (ls_set m l v) l' = ls_get m l'.
Proof. intro H. induction m as [|[k w] m IH]; simpl.
  - rewrite H. reflexivity.
  - destruct (str_eqb k l) eqn:E; simpl.
    + apply str_eqb_eq in E. subst k. rewrite H. reflexivity.
    + destruct (str_eqb k l'); auto. Qed.

Lemma ls_set_set m l v w : ls_set (ls_set m l v) l w = ls_set m l w.
Proof. induction m as [|[k u] m IH]; simpl.
  - rewrite str_eqb_refl. reflexivity.
  - destruct (str_eqb k l) eqn:E; simpl; rewrite E; [reflexivity | f_equal; exact IH]. Qed.

Lemma ls_lookups_set_same m l v : ls_lookups (ls_set m l v) l = v.
Proof. unfold ls_lookups. rewrite ls_get_set_same. reflexivity. Qed.

(* folding lookup references into the current language system appends them *)
Lemma fold_refs m cur ls :
  fold_left step (refs ls) (m, cur) = (match ls with [] => m | _ => ls_set m cur (ls_lookups m cur ++ ls) end, cur).
Proof.
  revert m. induction ls as [|n ls IH]; intro m; [reflexivity|].
  cbn [refs map fold_left step]. fold (refs ls). rewrite IH.
  destruct ls as [|n2 ls]; [reflexivity|].
  rewrite ls_lookups_set_same, ls_set_set, <- app_assoc. reflexivity. Qed.

Lemma fold_refs_lookups m cur ls :
  let st := fold_left step (refs ls) (m, cur) in
  snd st = cur /\ ls_lookups (fst st) cur = ls_lookups m cur ++ ls /\
  (forall l, str_eqb cur l = false -> ls_get (fst st) l = ls_get m l) /\
  (ls_get m cur <> None -> ls_get (fst st) cur <> None).
Proof.
  cbv zeta. rewrite fold_refs. cbn [fst snd]. split; [reflexivity|]. destruct ls as [|n ls].
  - rewrite app_nil_r. auto.
  - split; [apply ls_lookups_set_same|]. split.
    + intros l Hl. apply ls_get_set_other. exact Hl.
    + intros _. rewrite ls_get_set_same. discriminate. Qed.

(* named languages added after the default one inherit all its lookups *)
Lemma fold_langs ls : forall m (langs : list str),
  ls_get m dflt = Some ls ->
  (forall l, In l langs -> str_eqb l dflt = false) ->
  let st := fold_left step (map (fun l => SLang l true) langs) (m, dflt) in
  ls_get (fst st) dflt = Some ls /\
  (forall l, In l langs -> ls_get m l = None -> ls_get (fst st) l = Some ls) /\
  (forall l, ls_get m l <> None -> ls_get (fst st) l = ls_get m l).
Proof.
  intros m langs. revert m. generalize dflt at 3 as cur.
  induction langs as [|a langs IH]; intros cur m Hd Hne; simpl.
  - split; auto. split; [intros l []|auto].
  - assert (Ha : str_eqb a dflt = false) by (apply Hne; left; reflexivity).
    assert (Hne' : forall l, In l langs -> str_eqb l dflt = false) by (intros l Hl; apply Hne; right; exact Hl).
    destruct (ls_get m a) as [v|] eqn:Ga.
    + destruct (IH a m Hd Hne') as (I1 & I2 & I3). split; [exact I1|]. split.
      * intros l [El | Hl] Hn; [subst l; congruence | apply I2; assumption].
      * exact I3.
    + unfold ls_lookups. rewrite Hd.
      assert (Hd' : ls_get (ls_set m a ls) dflt = Some ls) by (rewrite ls_get_set_other; assumption).
      destruct (IH a (ls_set m a ls) Hd' Hne') as (I1 & I2 & I3). split; [exact I1|]. split.
      * intros l [El | Hl] Hn.
        -- subst l. rewrite I3; rewrite ls_get_set_same; [reflexivity | discriminate].
        -- destruct (str_eqb a l) eqn:Eal.
           ++ apply str_eqb_eq in Eal. subst l. rewrite I3; rewrite ls_get_set_same; [reflexivity | discriminate].
           ++ apply I2; [exact Hl | rewrite ls_get_set_other; assumption].
      * intros l Hl. destruct (str_eqb a l) eqn:Eal.
        -- apply str_eqb_eq in Eal. subst l. congruence.
        -- rewrite I3; rewrite ls_get_set_other; auto. Qed.

(* THE statement: registered for a script with languages (no exclude_dflt), the default language system and EVERY listed
   language -- wherever it stands in the list -- reach exactly the given lookups, in order *)
Theorem every_listed_language_reaches_the_lookups lookups s languages l :
  l = dflt \/ In l languages ->
  ls_get (read (add_lookup_references lookups (Some s) languages false)) l = Some lookups.
Proof.
  intro Hl. unfold read, add_lookup_references. cbn [fold_left step].
  change (ls_get [] dflt) with (@None (list str)). cbv iota.
  change (ls_set [] dflt (ls_lookups [] dflt)) with ([(dflt, [])] : lsmap).
  rewrite fold_left_app, fold_refs.
  set (m1 := match lookups with [] => _ | _ => _ end).
  assert (Hd : ls_get m1 dflt = Some lookups).
  { subst m1. destruct lookups as [|n ls]; [reflexivity|]. rewrite ls_get_set_same. reflexivity. }
  assert (F3 : forall x, str_eqb dflt x = false -> ls_get m1 x = None).
  { intros x Hx. subst m1. destruct lookups as [|n ls]; [|rewrite ls_get_set_other by exact Hx];
    cbn [ls_get]; rewrite Hx; reflexivity. }
  set (named := filter (fun l0 => negb (str_eqb l0 dflt)) languages).
  assert (Hne : forall x, In x named -> str_eqb x dflt = false).
  { intros x Hx. apply filter_In in Hx. destruct Hx as [_ Hx]. destruct (str_eqb x dflt); [discriminate|reflexivity]. }
  destruct (fold_langs lookups m1 named Hd Hne) as (I1 & I2 & I3).
  destruct Hl as [Hl | Hl].
  - subst l. exact I1.
  - destruct (str_eqb l dflt) eqn:El.
    + apply str_eqb_eq in El. subst l. exact I1.
    + assert (Hin : In l named) by (apply filter_In; split; [exact Hl | rewrite El; reflexivity]).
      apply I2; [exact Hin|].
      apply F3. rewrite str_eqb_neq in El |- *. congruence.
Qed.

(* with exclude_dflt every listed language gets the lookups itself (and inherits nothing) *)
Example exclude_dflt_example :
  let a := [65]%Z in let b := [66]%Z in let k := [107]%Z in
  read (add_lookup_references [k] (Some [115]%Z) [a; b] true) = [(a, [k]); (b, [k])].
Proof. vm_compute. reflexivity. Qed.

(* the position of dflt in the list is immaterial, a language named first is not skipped *)
Example named_language_first :
  let trk := [84; 82; 75; 32]%Z in let k := [107]%Z in
  read (add_lookup_references [k] (Some [108]%Z) [trk; dflt] false) = [(dflt, [k]); (trk, [k])].
Proof. vm_compute. reflexivity. Qed.

(* without a script: plain references, registered by feaLib under every declared language system *)
Theorem no_script_plain_references lookups languages ex :
  add_lookup_references lookups None languages ex = refs lookups.
Proof. reflexivity. Qed.
