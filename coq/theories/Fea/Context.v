(* C17: the script / language / lookupflag context of the rules of a feature block, and what BaseFeatureWriter._insert does with
   it when the '# Automatic Code' marker stands in the MIDDLE of a hand-written feature (after repair F36): the statements after
   the marker move to a new block of that feature, which starts with `_contextAt(statements before the marker)`.
   Statements: a script statement resets the language and the lookup flag (feaLib: set_script), a language or lookupflag statement
   replaces the current one, every other statement (a rule) is interpreted under the context in effect.  Definitions only. *)
From Coq Require Import ZArith List Bool.
From U2F Require Import Base.Prelude.
Import ListNotations.

Inductive cstmt :=
| SScript (tag : Z)
| SLanguage (tag : Z)
| SFlag (flag : Z)
| SRule (id : Z).                       (* any other statement: a positioning rule, a lookup reference, a comment *)

Record fctx := mkCtx { c_script : option Z; c_language : option Z; c_flag : option Z }.
Definition ctx0 : fctx := mkCtx None None None.

Definition ctx_step (c : fctx) (s : cstmt) : fctx :=
  match s with
  | SScript t => mkCtx (Some t) None None
  | SLanguage t => mkCtx (c_script c) (Some t) (c_flag c)
  | SFlag f => mkCtx (c_script c) (c_language c) (Some f)
  | SRule _ => c
  end.
Definition ctx_after (l : list cstmt) (c : fctx) : fctx := fold_left ctx_step l c.

(* every rule of a block together with the context it is interpreted under *)
Fixpoint rules_with_ctx (l : list cstmt) (c : fctx) : list (Z * fctx) :=
  match l with
  | [] => []
  | SRule r :: l' => (r, c) :: rules_with_ctx l' c
  | s :: l' => rules_with_ctx l' (ctx_step c s)
  end.

(* BaseFeatureWriter._contextAt: the statements that re-create the context in effect after `l` *)
Definition context_at (l : list cstmt) : list cstmt :=
  let c := ctx_after l ctx0 in
  (match c_script c with Some t => [SScript t] | None => [] end) ++
  (match c_language c with Some t => [SLanguage t] | None => [] end) ++
  (match c_flag c with Some f => [SFlag f] | None => [] end).

(* the split: the block `before ++ after` (the marker stood between them) becomes the two blocks `before` and
   `context_at before ++ after`; before the repair the second block was `after` alone *)
Definition split_blocks (before after : list cstmt) : list cstmt * list cstmt := (before, context_at before ++ after).
Definition split_blocks_v0 (before after : list cstmt) : list cstmt * list cstmt := (before, after).

(* comparison with the real function: statement kinds and tags *)
Definition cstmt_eqb (a b : cstmt) : bool :=
  match a, b with
  | SScript x, SScript y | SLanguage x, SLanguage y | SFlag x, SFlag y | SRule x, SRule y => Z.eqb x y
  | _, _ => false
  end.
