From U2F Require Import Base.Prelude Fea.Insert.
Open Scope nat_scope.

Definition sleaves (s : stmt) : list (nat + (str * nat)) := leaves [s].

Lemma leaves_cons s f : leaves (s :: f) = sleaves s ++ leaves f.
Proof. unfold sleaves, leaves. simpl. rewrite app_nil_r. reflexivity. Qed.

Lemma leaves_app a b : leaves (a ++ b) = leaves a ++ leaves b.
Proof. unfold leaves. apply flat_map_app. Qed.

Lemma leaves_insert_at n s f : sleaves s = [] -> leaves (insert_at n s f) = leaves f.
Proof.
  revert f. induction n as [|n IH]; intros f Hs.
  - cbn [insert_at]. rewrite leaves_cons, Hs. reflexivity.
  - destruct f as [|y r]; cbn [insert_at].
    + rewrite leaves_cons, Hs. reflexivity.
    + rewrite !leaves_cons, IH by exact Hs. reflexivity.
Qed.

Lemma leaves_remove_at n f s : nth_error f n = Some s -> sleaves s = [] -> leaves (remove_at n f) = leaves f.
Proof.
  revert f. induction n as [|n IH]; intros [|y r] E Hs; cbn [nth_error remove_at] in *; try discriminate.
  - inversion E; subst. rewrite leaves_cons, Hs. reflexivity.
  - rewrite !leaves_cons, (IH r E Hs). reflexivity.
Qed.

Lemma leaves_replace_at n f s s' :
  nth_error f n = Some s -> sleaves s' = sleaves s -> leaves (replace_at n s' f) = leaves f.
Proof.
  revert f. induction n as [|n IH]; intros [|y r] E Hs; cbn [nth_error replace_at] in *; try discriminate.
  - inversion E; subst. rewrite !leaves_cons, Hs. reflexivity.
  - rewrite !leaves_cons, (IH r E Hs). reflexivity.
Qed.

Lemma leaves_split n f s s1 s2 :
  nth_error f n = Some s -> sleaves s = sleaves s1 ++ sleaves s2 ->
  leaves (insert_at (S n) s2 (replace_at n s1 f)) = leaves f.
Proof.
  revert f. induction n as [|n IH]; intros [|y r] E Hs; cbn [nth_error replace_at insert_at] in *; try discriminate.
  - inversion E; subst. rewrite !leaves_cons, Hs, app_assoc. reflexivity.
  - rewrite !leaves_cons. f_equal. apply IH; assumption.
Qed.

(* items *)
Lemma item_leaves_app a b : item_leaves (a ++ b) = item_leaves a ++ item_leaves b.
Proof. unfold item_leaves. apply flat_map_app. Qed.

Lemma item_leaves_comments its : forallb is_comment its = true -> item_leaves its = [].
Proof.
  induction its as [|i its IH]; simpl; [reflexivity|]. intro H. apply andb_true_iff in H. destruct H as [H1 H2].
  destruct i; simpl in *; try discriminate; apply IH; exact H2.
Qed.

Lemma index_of_marker_nth its k : index_of_marker its = Some k -> nth_error its k = Some Marker.
Proof.
  revert k. induction its as [|i its IH]; intros k E; simpl in E; [discriminate|].
  destruct i; try (destruct (index_of_marker its) as [j|]; simpl in E; [|discriminate]; inversion E; subst; simpl; apply IH; reflexivity).
  inversion E; subst. reflexivity.
Qed.

Lemma item_leaves_remove_marker its k :
  nth_error its k = Some Marker -> item_leaves (remove_at k its) = item_leaves its.
Proof.
  revert its. induction k as [|k IH]; intros [|i its] E; simpl in *; try discriminate.
  - inversion E; subst. reflexivity.
  - unfold item_leaves in *. simpl. rewrite (IH its E). reflexivity.
Qed.

Lemma sleaves_block b t its : sleaves (Block b t its) = map (fun n => inr (t, n)) (item_leaves its).
Proof. unfold sleaves, leaves. simpl. rewrite app_nil_r. reflexivity. Qed.

Lemma firstn_skipn_leaves k (its : list item) :
  item_leaves (firstn k its) ++ item_leaves (skipn k its) = item_leaves its.
Proof. rewrite <- item_leaves_app, firstn_skipn. reflexivity. Qed.

Lemma leaves_fold_insert_gen index deps f :
  leaves (fold_left (fun f d => insert_at index (Gen d) f) deps f) = leaves f.
Proof.
  revert f. induction deps as [|d deps IH]; intro f; simpl; [reflexivity|].
  rewrite IH. apply leaves_insert_at. reflexivity.
Qed.

(* one marked feature: the user's statements are untouched *)
Lemma insert_marked_leaves feats ix t bid fresh s :
  leaves (st_f (insert_marked feats ix t bid fresh s)) = leaves (st_f s).
Proof.
  unfold insert_marked.
  destruct (block_index bid (st_f s)) as [bi|]; [|reflexivity].
  destruct (nth_error (st_f s) bi) as [[ | b bt its | | | | ]|] eqn:En; try reflexivity.
  destruct (index_of_marker its) as [k|] eqn:Ek; [|reflexivity].
  pose proof (index_of_marker_nth its k Ek) as Hm.
  pose proof (item_leaves_remove_marker its k Hm) as Hr.
  set (its' := remove_at k its) in *.
  destruct (forallb is_comment (firstn k its)) eqn:Eb, (forallb is_comment (skipn k its)) eqn:Ea;
    cbn [andb]; cbn [st_f]; rewrite leaves_fold_insert_gen, leaves_insert_at by reflexivity.
  - (* block of comments only: removed *)
    apply (leaves_remove_at bi (st_f s) _ En). rewrite sleaves_block.
    rewrite <- (firstn_skipn_leaves k its), (item_leaves_comments _ Eb), (item_leaves_comments _ Ea). reflexivity.
  - apply (leaves_replace_at bi (st_f s) _ _ En). rewrite !sleaves_block, Hr. reflexivity.
  - apply (leaves_replace_at bi (st_f s) _ _ En). rewrite !sleaves_block, Hr. reflexivity.
  - apply (leaves_split bi (st_f s) _ _ _ En). rewrite !sleaves_block, <- map_app, firstn_skipn_leaves, Hr. reflexivity.
Qed.

Lemma fold_marked_leaves feats markers fresh l : forall s ix,
  leaves (st_f (fst (fold_left (fun (sn : ins_state * nat) (t : str) =>
                              let '(s, ix) := sn in
                              match assoc t markers with
                              | Some bid => if mem t (st_done s) then (s, S ix)
                                            else (insert_marked feats ix t bid (fresh + ix) s, S ix)
                              | None => (s, S ix)
                              end) l (s, ix)))) = leaves (st_f s).
Proof.
  induction l as [|t l IH]; intros s ix; [reflexivity|].
  cbn [fold_left]. destruct (assoc t markers) as [bid|].
  - destruct (mem t (st_done s)).
    + apply IH.
    + rewrite IH. apply insert_marked_leaves.
  - apply IH.
Qed.

Lemma fold_append_leaves l : forall s,
  leaves (st_f (fold_left (fun s t => if mem t (st_done s) then s
                                  else mkIS (st_f s ++ [Gen t]) (st_indices s ++ [length (st_f s)]) (st_done s ++ [t]))
                      l s)) = leaves (st_f s).
Proof.
  induction l as [|t l IH]; intro s; [reflexivity|]. cbn [fold_left].
  destruct (mem t (st_done s)); [apply IH|]. rewrite IH. cbn [st_f]. rewrite leaves_app.
  change (leaves [Gen t]) with (@nil (nat + (str * nat))). apply app_nil_r.
Qed.

Lemma leaves_gen_lookups n m : leaves (map GenLookup (seq n m)) = [].
Proof. revert n. induction m as [|m IH]; intro n; cbn [seq map]; [reflexivity|]. rewrite leaves_cons, IH. reflexivity. Qed.
Lemma leaves_gen_defs n m : leaves (map GenDef (seq n m)) = [].
Proof. revert n. induction m as [|m IH]; intro n; cbn [seq map]; [reflexivity|]. rewrite leaves_cons, IH. reflexivity. Qed.

(* every statement of the user's feature file survives, unchanged and in the same order,
   whatever is generated and wherever the markers are *)
Theorem insert_preserves_user_statements f feats markers nlookups ndefs fresh :
  leaves (insert_all f feats markers nlookups ndefs fresh) = leaves f.
Proof.
  unfold insert_all.
  set (s1 := fst (fold_left _ feats (mkIS f [] [], 0))).
  set (s2 := fold_left _ feats s1).
  assert (leaves (st_f s2) = leaves f) as H2.
  { unfold s2. rewrite fold_append_leaves. unfold s1. rewrite fold_marked_leaves. reflexivity. }
  rewrite leaves_app.
  assert (leaves (if ndefs =? 0 then [] else map GenDef (seq 0 ndefs) ++ [GenBlank]) = []) as ->.
  { destruct (ndefs =? 0); [reflexivity|]. rewrite leaves_app, leaves_gen_defs. reflexivity. }
  cbn [app].
  destruct (nlookups =? 0); [exact H2|].
  rewrite !leaves_app, leaves_gen_lookups. cbn [app].
  rewrite <- leaves_app, firstn_skipn. exact H2.
Qed.

(* a feature the user wrote without the marker is not regenerated *)
Theorem no_overwrite_without_marker f tags t :
  In t (existing_tags f) -> ~ In t (keys (collect_markers f tags)) -> ~ In t (todo f tags).
Proof.
  intros He Hm Ht. unfold todo in Ht. apply filter_In in Ht. destruct Ht as [_ Ht].
  apply orb_true_iff in Ht. destruct Ht as [Ht|Ht].
  - apply negb_true_iff, mem_false in Ht. contradiction.
  - apply mem_In in Ht. contradiction.
Qed.
