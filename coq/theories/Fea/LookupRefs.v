(* C20: featureWriters/ast.addLookupReferences -- the statements a writer appends to a generated feature block so that its
   lookups are registered under a script and its languages -- and the reading feaLib gives them: inside a feature block a
   `script` statement starts a script, `language L` starts language system L (which, unless `exclude_dflt` is written,
   first inherits the lookups the script's default language system has collected so far), a lookup reference is added to
   the current language system. *)
From U2F Require Import Base.Prelude.

Inductive fstmt := SScript (s : str) | SLang (l : str) (include_default : bool) | SLookup (n : str).

Definition dflt : str := [100; 102; 108; 116]%Z.

Definition refs (lookups : list str) : list fstmt := map SLookup lookups.

(* addLookupReferences(feature, lookups, script, languages, exclude_dflt) -- what it appends *)
Definition add_lookup_references (lookups : list str) (script : option str) (languages : list str) (exclude_dflt : bool)
  : list fstmt :=
  match script with
  | None => refs lookups
  | Some s =>
      SScript s ::
      (if exclude_dflt
       then flat_map (fun l => SLang l false :: refs lookups) (match languages with [] => [dflt] | _ => languages end)
       else SLang dflt true :: refs lookups ++
            map (fun l => SLang l true) (filter (fun l => negb (str_eqb l dflt)) languages))
  end.

(* ---- feaLib's reading, for ONE script: language system -> lookups, as an association list in order of first mention ---- *)
Definition lsmap := list (str * list str).
Fixpoint ls_get (m : lsmap) (l : str) : option (list str) :=
  match m with [] => None | (k, v) :: m' => if str_eqb k l then Some v else ls_get m' l end.
Fixpoint ls_set (m : lsmap) (l : str) (v : list str) : lsmap :=
  match m with [] => [(l, v)] | (k, w) :: m' => if str_eqb k l then (k, v) :: m' else (k, w) :: ls_set m' l v end.
Definition ls_lookups (m : lsmap) (l : str) : list str := match ls_get m l with Some v => v | None => [] end.

(* state: the map and the current language *)
Definition step (st : lsmap * str) (s : fstmt) : lsmap * str :=
  let '(m, cur) := st in
  match s with
  | SScript _ => (m, dflt)
  | SLang l inc =>
      match ls_get m l with
      | Some _ => (m, l)                                                 (* already started: continue it *)
      | None => (ls_set m l (if inc then ls_lookups m dflt else []), l)  (* inherits what dflt has so far *)
      end
  | SLookup n => (ls_set m cur (ls_lookups m cur ++ [n]), cur)
  end.
Definition read (stmts : list fstmt) : lsmap := fst (fold_left step stmts ([], dflt)).
