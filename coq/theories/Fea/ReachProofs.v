From U2F Require Import Base.Prelude Fea.Reach.
Open Scope Z_scope.

Lemma In_unreachable plain scripts t f :
  In (t, f) (unreachable plain scripts) ->
  exists feats, In (t, feats) scripts /\ has_kerning feats = true /\ In f plain /\ mem f feats = false.
Proof.
  unfold unreachable. intro H. apply in_flat_map in H. destruct H as [[t0 feats] [Hin H]]. simpl in H.
  destruct (has_kerning feats) eqn:Ek; [|destruct H].
  apply in_flat_map in H. destruct H as [f0 [Hf H]].
  destruct (mem f0 feats) eqn:Em; [destruct H|]. destruct H as [H|[]]. inversion H; subst.
  exists feats. auto.
Qed.

(* a script named by a languagesystem statement reaches every generated feature that is emitted
   without script statements *)
Theorem reach_if_declared i t f :
  declared i t = true -> In f (ri_plain i) -> In f (default_langsys_features i t).
Proof.
  intros Hd Hf. unfold default_langsys_features. rewrite Hd.
  apply in_or_app. right. apply in_or_app. right. exact Hf.
Qed.

(* hence: if every script the kern/dist blocks name is declared, the model's script list satisfies the property *)
Theorem model_satisfies_spec_if_all_declared i :
  (forall t, In t (ri_kern_tags i ++ ri_dist_tags i) -> declared i t = true) ->
  spec_C20 (ri_plain i) (model_scripts i) = true.
Proof.
  intro Hall. unfold spec_C20. destruct (unreachable (ri_plain i) (model_scripts i)) as [|[t f] r] eqn:E; [reflexivity|].
  exfalso.
  assert (In (t, f) (unreachable (ri_plain i) (model_scripts i))) as Hin by (rewrite E; left; reflexivity).
  destruct (In_unreachable _ _ _ _ Hin) as [feats [Hs [Hk [Hf Hm]]]].
  unfold model_scripts in Hs. apply in_map_iff in Hs. destruct Hs as [t0 [Eq _]]. inversion Eq; subst.
  assert (declared i t = true) as Hd.
  { destruct (declared i t) eqn:Ed; [reflexivity|]. exfalso.
    unfold has_kerning, default_langsys_features in Hk. rewrite Ed in Hk.
    destruct (mem t (ri_kern_tags i)) eqn:E1.
    - assert (declared i t = true) as C by (apply Hall, in_or_app; left; apply mem_In; exact E1). congruence.
    - destruct (mem t (ri_dist_tags i)) eqn:E2.
      + assert (declared i t = true) as C by (apply Hall, in_or_app; right; apply mem_In; exact E2). congruence.
      + simpl in Hk. discriminate. }
  pose proof (reach_if_declared i t f Hd Hf) as Hr. apply mem_In in Hr. congruence.
Qed.

(* without a languagesystem statement the property fails on the faithful model: the kern block
   registers script latn, which then holds only kern (finding F6) *)
Example reach_refuted :
  let i := mkRI [] [T_DFLT; [108;97;116;110]] [] [[109;97;114;107]] in
  spec_C20 (ri_plain i) (model_scripts i) = false.
Proof. vm_compute. reflexivity. Qed.
