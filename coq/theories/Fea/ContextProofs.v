From Coq Require Import ZArith List Bool.
From U2F Require Import Base.Prelude.
From U2F Require Import Fea.Context.
Import ListNotations.

(* the statements `context_at l` re-create, from scratch, exactly the context in effect after `l` *)
Lemma context_at_recreates l : ctx_after (context_at l) ctx0 = ctx_after l ctx0.
Proof.
  unfold context_at. destruct (ctx_after l ctx0) as [s g f]. cbn [c_script c_language c_flag].
  destruct s as [s|]; destruct g as [g|]; destruct f as [f|]; reflexivity.
Qed.

Lemma ctx_after_app a b c : ctx_after (a ++ b) c = ctx_after b (ctx_after a c).
Proof. unfold ctx_after. apply fold_left_app. Qed.

Lemma rules_with_ctx_app a b c : rules_with_ctx (a ++ b) c = rules_with_ctx a c ++ rules_with_ctx b (ctx_after a c).
Proof.
  revert c. induction a as [|s a IH]; intro c; cbn [app rules_with_ctx]; [reflexivity|].
  destruct s; cbn [rules_with_ctx app]; rewrite IH; try reflexivity.
Qed.

Lemma context_at_has_no_rules l c : rules_with_ctx (context_at l) c = [].
Proof.
  unfold context_at. destruct (c_script _) as [s|]; destruct (c_language _) as [g|]; destruct (c_flag _) as [f|]; reflexivity.
Qed.

(* the context in effect at the start of the second block is the one in effect at the marker, whatever context (none) a new
   block starts with -- a script statement in `context_at` overrides anything, and without one nothing before matters because a
   new block starts from ctx0 *)
Theorem split_keeps_every_rule_and_its_context before after :
  let '(b1, b2) := split_blocks before after in
  rules_with_ctx b1 ctx0 ++ rules_with_ctx b2 ctx0 = rules_with_ctx (before ++ after) ctx0.
Proof.
  cbn [split_blocks]. rewrite (rules_with_ctx_app before after), (rules_with_ctx_app (context_at before) after).
  rewrite context_at_has_no_rules, context_at_recreates. reflexivity.
Qed.

(* before the repair: a rule after the marker lost its script *)
Example split_v0_loses_the_context :
  let before := [SScript 1; SLanguage 2; SRule 10] in let after := [SRule 20] in
  let '(b1, b2) := split_blocks_v0 before after in
  rules_with_ctx b1 ctx0 ++ rules_with_ctx b2 ctx0 <> rules_with_ctx (before ++ after) ctx0.
Proof. cbn. intro H. discriminate. Qed.

(* `context_at` is minimal and canonical: at most one statement of each kind, script first *)
Theorem context_at_shape l : exists s g f,
  context_at l = (match s with Some t => [SScript t] | None => [] end) ++
                 (match g with Some t => [SLanguage t] | None => [] end) ++
                 (match f with Some x => [SFlag x] | None => [] end)
  /\ ctx_after l ctx0 = mkCtx s g f.
Proof.
  exists (c_script (ctx_after l ctx0)), (c_language (ctx_after l ctx0)), (c_flag (ctx_after l ctx0)).
  split; [reflexivity|]. destruct (ctx_after l ctx0); reflexivity.
Qed.

(* idempotent: taking the context of the re-created context gives the same statements *)
Theorem context_at_idempotent l : context_at (context_at l) = context_at l.
Proof. unfold context_at at 1. rewrite context_at_recreates. reflexivity. Qed.
