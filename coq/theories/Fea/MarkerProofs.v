From U2F Require Import Base.Prelude.
From U2F Require Import Fea.Marker.
Open Scope Z_scope.

Lemma prefixb_spec p s : prefixb p s = true <-> exists rest, s = p ++ rest.
Proof.
  revert s. induction p as [|a p IH]; intro s; cbn [prefixb].
  - split; [intros _; exists s; reflexivity|reflexivity].
  - destruct s as [|b s]; [split; [discriminate|intros [r H]; discriminate]|].
    rewrite andb_true_iff, Z.eqb_eq, IH. split.
    + intros [-> [r ->]]. exists r. reflexivity.
    + intros [r H]. cbn in H. injection H as -> ->. split; [reflexivity|exists r; reflexivity].
Qed.

Lemma lstrip_spec s : exists ws, s = ws ++ lstrip s /\ forallb is_ws ws = true /\
  match lstrip s with c :: _ => is_ws c = false | [] => True end.
Proof.
  induction s as [|c s [ws [E [Hw Hh]]]]; [exists []; repeat split|]. cbn [lstrip]. destruct (is_ws c) eqn:Ec.
  - exists (c :: ws). cbn [app forallb]. rewrite Ec, Hw. repeat split; [f_equal; exact E|exact Hh].
  - exists []. repeat split. exact Ec.
Qed.

(* a comment is the marker exactly when it is: optional whitespace, the text "# Automatic Code", anything *)
Theorem is_marker_spec c :
  is_marker c = true <-> exists ws rest, c = ws ++ MARK ++ rest /\ forallb is_ws ws = true.
Proof.
  unfold is_marker. rewrite prefixb_spec. split.
  - intros [rest E]. destruct (lstrip_spec c) as [ws [Ec [Hw _]]]. exists ws, rest. rewrite <- E. auto.
  - intros [ws [rest [-> Hw]]]. exists rest.
    induction ws as [|w ws IH]; [reflexivity|]. cbn [forallb] in Hw. apply andb_true_iff in Hw. destruct Hw as [H1 H2].
    cbn [app lstrip]. rewrite H1. apply IH. exact H2.
Qed.

(* in particular a comment that starts with another '#', or with any other text, is NOT the marker, even when the
   marker text occurs further on (the look-alikes the check generates) *)
Theorem commented_out_marker_is_no_marker rest : is_marker (35 :: 35 :: rest) = false.
Proof. reflexivity. Qed.

Example lookalikes :
  is_marker (35 :: MARK) = false /\ containsb MARK (35 :: MARK) = true /\      (* "## Automatic Code" *)
  is_marker ([35; 32] ++ MARK) = false /\                                     (* "# # Automatic Code" *)
  is_marker (MARK ++ [32; 120]) = true /\ is_marker ([32; 9] ++ MARK) = true.
Proof. vm_compute. repeat split. Qed.
