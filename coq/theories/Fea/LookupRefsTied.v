(* C20 / C05: the translation of featureWriters/ast.addLookupReferences (Generated/FeaGen.v, rewritten from /repo's source on every
   run) IS the hand model of Fea/LookupRefs.v -- so the theorems about the model (every listed language reaches the lookups, ...)
   are theorems about what the code says now. *)
From Coq Require Import ZArith List Bool.
From U2F Require Import Base.Prelude Fea.LookupRefs Fea.LookupRefsProofs Generated.FeaGen.
Import ListNotations.

Lemma fold_append_map {A B} (f : A -> B) (l : list A) : forall out,
  fold_left (fun (out_ : list B) (x : A) => out_ ++ [f x]) l out = out ++ map f l.
Proof.
  induction l as [|x l IH]; intro out; cbn [fold_left map]; [now rewrite app_nil_r|].
  rewrite IH, <- app_assoc. reflexivity.
Qed.

Lemma fold_append_flat {A B} (f : A -> list B) (l : list A) : forall out,
  fold_left (fun (out_ : list B) (x : A) => out_ ++ f x) l out = out ++ flat_map f l.
Proof.
  induction l as [|x l IH]; intro out; cbn [fold_left flat_map]; [now rewrite app_nil_r|].
  rewrite IH, <- app_assoc. reflexivity.
Qed.

Lemma fold_append_filter {A B} (p : A -> bool) (f : A -> B) (l : list A) : forall out,
  fold_left (fun (out_ : list B) (x : A) => if p x then out_ else out_ ++ [f x]) l out
  = out ++ map f (filter (fun x => negb (p x)) l).
Proof.
  induction l as [|x l IH]; intro out; cbn [fold_left filter map]; [now rewrite app_nil_r|].
  destruct (p x); cbn [negb map]; rewrite IH; [reflexivity|]. rewrite <- app_assoc. reflexivity.
Qed.

Lemma fold_left_ext_eq {A B} (f g : A -> B -> A) : (forall a b, f a b = g a b) -> forall l a, fold_left f l a = fold_left g l a.
Proof. intros H l. induction l as [|x l IH]; intro a; cbn [fold_left]; [reflexivity|]. rewrite H. apply IH. Qed.

Lemma or_list_nil l : or_list l [] = l.
Proof. destruct l; reflexivity. Qed.

(* Python takes an empty string for "no script" as well as None; the model's `option` has the one absent value *)
Theorem translated_add_lookup_refs_is_the_model out lookups script languages ex :
  script <> Some [] ->
  tr_add_lookup_refs out lookups script languages ex = out ++ add_lookup_references lookups script languages ex.
Proof.
  intro Hs. unfold tr_add_lookup_refs, add_lookup_references. cbv zeta.
  destruct script as [[|c s]|]; [congruence| |].
  - cbn [truthy negb oget]. destruct ex.
    + (* exclude_dflt: every language gets its own copy of the references *)
      rewrite (fold_left_ext_eq _ (fun out_ l => out_ ++ (SLang l false :: refs lookups)))
        by (intros o l; rewrite fold_append_map; unfold refs; rewrite <- app_assoc; reflexivity).
      rewrite fold_append_flat, <- app_assoc. cbn [app]. unfold or_list. destruct languages; reflexivity.
    + rewrite or_list_nil, fold_append_filter, fold_append_map. unfold refs, dflt.
      rewrite <- !app_assoc. cbn [app]. reflexivity.
  - cbn [truthy negb]. rewrite fold_append_map. reflexivity.
Qed.

(* the theorems of the model, restated for the translated code *)
Theorem code_every_listed_language_reaches_the_lookups lookups s languages l :
  s <> [] -> l = dflt \/ In l languages ->
  ls_get (read (tr_add_lookup_refs [] lookups (Some s) languages false)) l = Some lookups.
Proof.
  intros Hs Hl. rewrite translated_add_lookup_refs_is_the_model by (intro E; inversion E; congruence).
  cbn [app]. apply every_listed_language_reaches_the_lookups. exact Hl.
Qed.

Theorem code_no_script_plain_references out lookups languages ex :
  tr_add_lookup_refs out lookups None languages ex = out ++ refs lookups.
Proof. rewrite translated_add_lookup_refs_is_the_model by discriminate. reflexivity. Qed.
