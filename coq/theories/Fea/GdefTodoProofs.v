From Coq Require Import List Bool.
From U2F Require Import Base.Prelude Fea.GdefTodo.
Import ListNotations.

(* whatever kind of ligature-caret statement the user wrote -- by position OR by contour point --
   no ligature carets are generated; a user GlyphClassDef likewise stops the generated classes *)
Theorem user_carets_are_left_alone stmts hc hk :
  (In GCaretByPos stmts \/ In GCaretByIndex stmts) -> td_carets (gdef_todo_of (Some stmts) hc hk) = false.
Proof.
  intro H. unfold gdef_todo_of, todo_after_user. cbn [td_carets].
  assert (existsb (fun s => match s with GCaretByPos | GCaretByIndex => true | _ => false end) stmts = true) as ->.
  { apply existsb_exists. destruct H as [H|H]; [exists GCaretByPos|exists GCaretByIndex]; split; try exact H; reflexivity. }
  reflexivity.
Qed.

Theorem user_classes_are_left_alone stmts hc hk :
  In GClassDef stmts -> td_classes (gdef_todo_of (Some stmts) hc hk) = false.
Proof.
  intro H. unfold gdef_todo_of, todo_after_user. cbn [td_classes].
  assert (existsb (fun s => match s with GClassDef => true | _ => false end) stmts = true) as ->
    by (apply existsb_exists; exists GClassDef; split; [exact H|reflexivity]).
  reflexivity.
Qed.

(* and what the user did not write is generated exactly when the font has data for it *)
Theorem missing_parts_are_generated stmts hc hk :
  ~ In GClassDef stmts -> td_classes (gdef_todo_of (Some stmts) hc hk) = hc.
Proof.
  intro H. unfold gdef_todo_of, todo_after_user. cbn [td_classes].
  assert (existsb (fun s => match s with GClassDef => true | _ => false end) stmts = false) as ->.
  { destruct (existsb _ stmts) eqn:E; [|reflexivity]. apply existsb_exists in E. destruct E as [s [Hs Hm]].
    destruct s; try discriminate. contradiction. }
  reflexivity.
Qed.
