From U2F Require Import Base.Prelude Fea.GdefTodo.
From U2F Require Import Fea.Tables.

Definition no_block (tag : str) (l : list top) : Prop := forall t, In t l -> is_block tag t = false.

(* findTable: the first block with the tag, whatever other blocks and statements precede it *)
Theorem find_table_skips_other_blocks tag pre l :
  no_block tag pre -> find_table tag (pre ++ l) = find_table tag l.
Proof.
  unfold find_table. induction pre as [|t pre IH]; intro H; [reflexivity|].
  simpl. rewrite (H t (or_introl eq_refl)). apply IH. intros x Hx. apply H. right. exact Hx. Qed.

Theorem find_table_first tag pre b post :
  no_block tag pre -> find_table tag (pre ++ TBlock tag b :: post) = Some b.
Proof. intro H. rewrite find_table_skips_other_blocks by exact H. unfold find_table. simpl. rewrite str_eqb_refl. reflexivity. Qed.

Theorem find_table_none_iff tag l : find_table tag l = None <-> no_block tag l.
Proof.
  unfold find_table, no_block. induction l as [|t l IH]; simpl.
  - split; [intros _ x [] | reflexivity].
  - destruct (is_block tag t) eqn:E.
    + destruct t as [g b|]; [|discriminate E]. split; [discriminate|]. intro H. rewrite (H _ (or_introl eq_refl)) in E. discriminate.
    + rewrite IH. split.
      * intros H x [Hx | Hx]; [subst x; exact E | apply H; exact Hx].
      * intros H x Hx. apply H. right. exact Hx. Qed.

(* ---- the user's GDEF table does not depend on how it is split into blocks ---- *)
Lemma gdef_bodies_app a b : gdef_bodies (a ++ b) = gdef_bodies a ++ gdef_bodies b.
Proof. unfold gdef_bodies. apply flat_map_app. Qed.

Theorem user_gdef_split_invariant pre x y post :
  user_gdef (pre ++ TBlock GDEF (x ++ y) :: post) = user_gdef (pre ++ TBlock GDEF x :: TBlock GDEF y :: post).
Proof.
  unfold user_gdef. rewrite !gdef_bodies_app.
  change (gdef_bodies (TBlock GDEF (x ++ y) :: post)) with ((x ++ y) :: gdef_bodies post).
  change (gdef_bodies (TBlock GDEF x :: TBlock GDEF y :: post)) with (x :: y :: gdef_bodies post).
  destruct (gdef_bodies pre) as [|p ps]; simpl; rewrite ?concat_app; simpl; rewrite ?app_assoc; reflexivity. Qed.

(* blocks of other tables and other statements between, before or after are immaterial *)
Theorem user_gdef_ignores_other_blocks tag b l1 l2 :
  str_eqb tag GDEF = false -> user_gdef (l1 ++ TBlock tag b :: l2) = user_gdef (l1 ++ l2).
Proof. intro H. unfold user_gdef. rewrite !gdef_bodies_app. simpl. rewrite H. reflexivity. Qed.

(* hence what is left to generate (Fea/GdefTodo.v) is the same however the user's table is split *)
Theorem todo_split_invariant pre x y post hc hk :
  gdef_todo_of (user_gdef (pre ++ TBlock GDEF (x ++ y) :: post)) hc hk =
  gdef_todo_of (user_gdef (pre ++ TBlock GDEF x :: TBlock GDEF y :: post)) hc hk.
Proof. rewrite user_gdef_split_invariant. reflexivity. Qed.

(* a class definition or a caret statement in ANY GDEF block is the user's: nothing of that kind is generated *)
Lemma existsb_map_erase p l : existsb p (map erase l) = existsb (fun s => p (erase s)) l.
Proof. induction l as [|a l IH]; simpl; [reflexivity|rewrite IH; reflexivity]. Qed.

Theorem classes_in_any_block_are_left_alone l b i hc hk :
  In (TBlock GDEF b) l -> In (TClassDef i) b -> td_classes (gdef_todo_of (user_gdef l) hc hk) = false.
Proof.
  intros Hb Hi. unfold user_gdef.
  assert (Hin : In b (gdef_bodies l)).
  { unfold gdef_bodies. apply in_flat_map. exists (TBlock GDEF b). split; [exact Hb|]. simpl. left. reflexivity. }
  destruct (gdef_bodies l) as [|p ps] eqn:E; [contradiction|].
  unfold gdef_todo_of, todo_after_user. cbn [td_classes].
  assert (Hex : existsb (fun s => match s with GClassDef => true | _ => false end) (map erase (concat (p :: ps))) = true).
  { rewrite existsb_map_erase. apply existsb_exists. exists (TClassDef i). split; [|reflexivity].
    apply in_concat. exists b. split; [rewrite <- E in Hin; rewrite E in Hin; exact Hin | exact Hi]. }
  rewrite Hex. reflexivity. Qed.

Theorem carets_in_any_block_are_left_alone l b s hc hk :
  In (TBlock GDEF b) l -> In (TStmt s) b -> (s = GCaretByPos \/ s = GCaretByIndex) ->
  td_carets (gdef_todo_of (user_gdef l) hc hk) = false.
Proof.
  intros Hb Hi Hs. unfold user_gdef.
  assert (Hin : In b (gdef_bodies l)).
  { unfold gdef_bodies. apply in_flat_map. exists (TBlock GDEF b). split; [exact Hb|]. simpl. left. reflexivity. }
  destruct (gdef_bodies l) as [|p ps] eqn:E; [contradiction|].
  unfold gdef_todo_of, todo_after_user. cbn [td_carets].
  assert (Hex : existsb (fun s => match s with GCaretByPos | GCaretByIndex => true | _ => false end) (map erase (concat (p :: ps))) = true).
  { rewrite existsb_map_erase. apply existsb_exists. exists (TStmt s). split.
    - apply in_concat. exists b. split; [exact Hin | exact Hi].
    - destruct Hs; subst s; reflexivity. }
  rewrite Hex. reflexivity. Qed.

(* ---- getGDEFGlyphClasses ---- *)
Lemma first_classdef_app a b :
  first_classdef (a ++ b) = match first_classdef a with Some i => Some i | None => first_classdef b end.
Proof. induction a as [|s a IH]; [reflexivity|]. destruct s; simpl; [reflexivity | exact IH]. Qed.

(* GDEF blocks without a class definition (say, one holding only ligature carets) before the one that has it do not hide it *)
Theorem gdef_classes_skips_blocks_without_classdef pre l :
  (forall b, In b (gdef_bodies pre) -> first_classdef b = None) ->
  gdef_classes (pre ++ l) = gdef_classes l.
Proof.
  intro H. unfold gdef_classes. rewrite gdef_bodies_app, concat_app, first_classdef_app.
  assert (E : first_classdef (concat (gdef_bodies pre)) = None).
  { induction (gdef_bodies pre) as [|b bs IH]; [reflexivity|]. simpl. rewrite first_classdef_app, (H b (or_introl eq_refl)).
    apply IH. intros x Hx. apply H. right. exact Hx. }
  rewrite E. reflexivity. Qed.

Example classes_in_second_block :
  gdef_classes [TOther; TBlock GDEF [TStmt GCaretByPos]; TBlock [104]%Z []; TBlock GDEF [TStmt GAttach; TClassDef 7]] = Some 7%Z
  /\ find_table GDEF [TBlock [104]%Z []; TBlock GDEF [TClassDef 1]] = Some [TClassDef 1%Z].
Proof. vm_compute. auto. Qed.
