(* C17: BaseFeatureWriter.setContext (todo list) / collectInsertMarkers / _insert on an
   abstract feature file.  Definitions only. *)
From U2F Require Export Base.Prelude.
Open Scope nat_scope.

(* items of a user feature block *)
Inductive item :=
| It (id : nat)          (* a user statement (rule, lookup reference, script/language ...) *)
| Cmt (id : nat)         (* a user comment *)
| Marker.                (* the '# Automatic Code' insertion comment *)

(* top-level statements *)
Inductive stmt :=
| User (id : nat)                               (* languagesystem, class definition, lookup block, table ... *)
| Block (bid : nat) (tag : str) (items : list item)   (* a user feature block; bid identifies the object *)
| Gen (tag : str)                               (* generated feature block *)
| GenLookup (n : nat)
| GenDef (n : nat)
| GenBlank.                                     (* the empty comment written after generated definitions *)

Definition is_comment (i : item) : bool := match i with It _ => false | _ => true end.

(* the user's statements, in order (comments are not statements) *)
Definition item_leaves (its : list item) : list nat :=
  flat_map (fun i => match i with It n => [n] | _ => [] end) its.
Definition leaves (f : list stmt) : list (nat + (str * nat)) :=
  flat_map (fun s => match s with
                     | User n => [inl n]
                     | Block _ t its => map (fun n => inr (t, n)) (item_leaves its)
                     | _ => [] end) f.

(* ---- setContext in "skip" mode ---- *)
Fixpoint index_of_marker (its : list item) : option nat :=
  match its with
  | [] => None
  | Marker :: _ => Some 0
  | _ :: r => option_map S (index_of_marker r)
  end.

(* collectInsertMarkers: first top-level feature block per tag (among the writer's tags) that holds a marker *)
Definition collect_markers (f : list stmt) (tags : list str) : list (str * nat) :=   (* tag -> block id *)
  fold_left (fun acc s => match s with
                          | Block bid t its =>
                              if mem t tags && negb (mem t (keys acc)) then
                                match index_of_marker its with Some _ => acc ++ [(t, bid)] | None => acc end
                              else acc
                          | _ => acc end) f [].

Definition existing_tags (f : list stmt) : list str :=
  flat_map (fun s => match s with Block _ t _ => [t] | _ => [] end) f.

(* todo = features - (existing - marked) *)
Definition todo (f : list stmt) (tags : list str) : list str :=
  let marked := keys (collect_markers f tags) in
  filter (fun t => negb (mem t (existing_tags f)) || mem t marked) tags.

(* ---- _insert ---- *)
Fixpoint block_index (bid : nat) (f : list stmt) : option nat :=
  match f with
  | [] => None
  | Block b _ _ :: r => if Nat.eqb b bid then Some 0 else option_map S (block_index bid r)
  | _ :: r => option_map S (block_index bid r)
  end.

Fixpoint insert_at {A} (n : nat) (x : A) (l : list A) : list A :=
  match n, l with
  | O, _ => x :: l
  | S k, y :: r => y :: insert_at k x r
  | S _, [] => [x]
  end.
Fixpoint remove_at {A} (n : nat) (l : list A) : list A :=
  match n, l with
  | _, [] => []
  | O, _ :: r => r
  | S k, y :: r => y :: remove_at k r
  end.
Fixpoint replace_at {A} (n : nat) (x : A) (l : list A) : list A :=
  match n, l with
  | _, [] => []
  | O, _ :: r => x :: r
  | S k, y :: r => y :: replace_at k x r
  end.

Record ins_state := mkIS { st_f : list stmt; st_indices : list nat; st_done : list str }.

(* handle feature number ix (tag t) whose marker sits in block bid (markerIndex =
   block.statements.index(comment), recomputed here); fresh is a new block id for a split *)
Definition insert_marked (feats : list str) (ix : nat) (t : str) (bid fresh : nat) (s : ins_state) : ins_state :=
  match block_index bid (st_f s) with
  | None => s
  | Some bi =>
      match nth_error (st_f s) bi with
      | Some (Block _ bt its) =>
        match index_of_marker its with
        | None => s
        | Some k =>
          let before := forallb is_comment (firstn k its) in
          let after := forallb is_comment (skipn k its) in
          let its' := remove_at k its in
          let '(f1, index) :=
            if before && after then (remove_at bi (st_f s), bi)
            else if before then (replace_at bi (Block bid bt its') (st_f s), bi)
            else if after then (replace_at bi (Block bid bt its') (st_f s), S bi)
            else (insert_at (S bi) (Block fresh bt (skipn k its'))
                            (replace_at bi (Block bid bt (firstn k its')) (st_f s)), S bi) in
          let f2 := insert_at index (Gen t) f1 in
          (* walk the feature list backwards: dependent features not yet inserted go right before *)
          let deps := (fix walk (i : nat) (acc : list str) : list str :=
                         match i with
                         | O => acc
                         | S j => match nth_error feats j with
                                  | Some d => if mem d (st_done s) then acc else walk j (acc ++ [d])
                                  | None => acc end
                         end) ix [] in
          let f3 := fold_left (fun f d => insert_at index (Gen d) f) deps f2 in
          let ind := fold_left (fun ind _ => index :: map S ind) deps (st_indices s ++ [index]) in
          mkIS f3 ind (st_done s ++ [t] ++ deps)
        end
      | _ => s
      end
  end.

Definition insert_all (f : list stmt) (feats : list str) (markers : list (str * nat))
           (nlookups ndefs : nat) (fresh : nat) : list stmt :=
  let s1 := fst (fold_left (fun (sn : ins_state * nat) (t : str) =>
                              let '(s, ix) := sn in
                              match assoc t markers with
                              | Some bid => if mem t (st_done s) then (s, S ix)
                                            else (insert_marked feats ix t bid (fresh + ix) s, S ix)
                              | None => (s, S ix)
                              end) feats (mkIS f [] [], 0)) in
  let s2 := fold_left (fun s t => if mem t (st_done s) then s
                                  else mkIS (st_f s ++ [Gen t]) (st_indices s ++ [length (st_f s)]) (st_done s ++ [t]))
                      feats s1 in
  let minindex := fold_left Nat.min (st_indices s2) (length (st_f s2)) in
  let f3 := if Nat.eqb nlookups 0 then st_f s2
            else firstn minindex (st_f s2) ++ map GenLookup (seq 0 nlookups) ++ skipn minindex (st_f s2) in
  (if Nat.eqb ndefs 0 then [] else map GenDef (seq 0 ndefs) ++ [GenBlank]) ++ f3.

(* ---- comparison ---- *)
Definition item_eqb (a b : item) : bool :=
  match a, b with It x, It y | Cmt x, Cmt y => Nat.eqb x y | Marker, Marker => true | _, _ => false end.
Definition stmt_eqb (a b : stmt) : bool :=
  match a, b with
  | User x, User y => Nat.eqb x y
  | Block _ t its, Block _ t' its' => str_eqb t t' && list_eqb item_eqb its its'
  | Gen t, Gen t' => str_eqb t t'
  | GenLookup x, GenLookup y | GenDef x, GenDef y => Nat.eqb x y
  | GenBlank, GenBlank => true
  | _, _ => false
  end.
Definition leaf_eqb (a b : nat + (str * nat)) : bool :=
  match a, b with
  | inl x, inl y => Nat.eqb x y
  | inr (t, x), inr (t', y) => str_eqb t t' && Nat.eqb x y
  | _, _ => false
  end.
