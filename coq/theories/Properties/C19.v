(* C19 -- instances equal masters at master locations and the model's blend elsewhere.
   PARTIAL: the multi-axis VariationModel and fontMath are environment; the two-master axis and the
   glyph swap are modelled. *)
From Coq Require Import QArith Qcanon.
From U2F Require Import Base.Prelude Geometry.Model Interp.Instance Interp.InstanceProofs.
Open Scope Qc_scope.

Theorem C19_instance_at_master_is_the_master : forall m0 m1,
  instance_at m0 m1 qc0 = m0 /\ instance_at m0 m1 qc1 = m1.
Proof. exact instance_at_master. Qed.
Print Assumptions C19_instance_at_master_is_the_master.

Theorem C19_two_master_axis_is_exact_linear_blend : forall m0 m1 t k a b,
  t <> qc0 -> t <> qc1 -> nth_error m0 k = Some a -> nth_error m1 k = Some b ->
  nth_error (instance_at m0 m1 t) k = Some (a + t * (b - a)).
Proof. exact two_master_linear. Qed.
Print Assumptions C19_two_master_axis_is_exact_linear_blend.

Theorem C19_blend_agrees_with_masters_at_the_ends : forall m0 m1,
  length m0 = length m1 -> blend m0 m1 0 = m0 /\ blend m0 m1 1 = m1.
Proof. exact blend_endpoints. Qed.
Print Assumptions C19_blend_agrees_with_masters_at_the_ends.

Theorem C19_swap_does_not_move_code_points : forall a b f f' n g,
  swap_glyph_names a b f = Some f' -> assoc n (sf_glyphs f) = Some g ->
  exists g', assoc n (sf_glyphs f') = Some g' /\ sg_unicodes g' = sg_unicodes g.
Proof. exact swap_keeps_unicodes. Qed.
Print Assumptions C19_swap_does_not_move_code_points.

Theorem C19_swapping_twice_restores_kerning_and_groups : forall a b f f1 f2,
  swap_glyph_names a b f = Some f1 -> swap_glyph_names a b f1 = Some f2 ->
  sf_kerning f2 = sf_kerning f /\ sf_groups f2 = sf_groups f.
Proof. exact swap_twice_restores_references. Qed.
Print Assumptions C19_swapping_twice_restores_kerning_and_groups.

Example C19_swap_twice_example :
  let f := mkSF [([97]%Z, mkSG 1 500 [] [] [97%Z]); ([98]%Z, mkSG 2 600 [] [[97]%Z] [98%Z]); ([99]%Z, mkSG 3 0 [] [[97]%Z; [98]%Z] [])]
                [(([97]%Z, [98]%Z), (-10)%Z)] [([103]%Z, [[97]%Z; [99]%Z])] in
  match swap_glyph_names [97]%Z [98]%Z f with
  | Some f1 => match swap_glyph_names [97]%Z [98]%Z f1 with Some f2 => sfont_eqb f2 f | None => false end
  | None => false end = true.
Proof. vm_compute. reflexivity. Qed.
Print Assumptions C19_swap_twice_example.

(* ---- any number of masters and axes: the variation model reproduces every master at its location ---- *)
From U2F Require Import Interp.VarModel Interp.VarModelProofs Interp.GlyphMasters Interp.GlyphMastersProofs.

Theorem C19_every_master_reproduced_at_its_location : forall ms rows,
  rows_ok (length ms) rows = true ->
  forall i m r, nth_error ms i = Some m -> nth_error rows i = Some r ->
  interpolate r (get_deltas ms rows []) = m.
Proof. exact model_reproduces_masters. Qed.
Print Assumptions C19_every_master_reproduced_at_its_location.

(* two masters on one axis: the model IS the linear blend of Interp/Instance.v *)
Theorem C19_two_master_model_is_the_blend : forall m0 m1 t : Qc,
  interpolate [1; t]%Qc (get_deltas [m0; m1] [[1; 0]; [1; 1]]%Qc []) = (m0 + t * (m1 - m0))%Qc.
Proof. exact two_master_instance. Qed.
Print Assumptions C19_two_master_model_is_the_blend.

(* ---- which sources take part in a glyph's model (collect_glyph_masters) ---- *)
Theorem C19_glyph_masters_do_not_depend_on_source_order : forall srcs srcs',
  Permutation srcs srcs' ->
  match collect srcs, collect srcs' with
  | Some a, Some b => Permutation a b
  | None, None => True
  | _, _ => False
  end.
Proof. exact collect_order_independent. Qed.
Print Assumptions C19_glyph_masters_do_not_depend_on_source_order.

Theorem C19_default_source_always_takes_part : forall srcs kept,
  collect srcs = Some kept -> forall s, In s srcs -> s_default s = true -> In s kept.
Proof. exact default_kept. Qed.
Print Assumptions C19_default_source_always_takes_part.

(* a glyph that is empty in the default source (a space) keeps all its masters, each with its own advance *)
Theorem C19_empty_glyph_keeps_all_masters : forall srcs kept,
  collect srcs = Some kept -> forall d s,
  In d srcs -> s_default d = true -> s_glyph d = Empty -> In s srcs -> s_glyph s = Empty -> In s kept.
Proof. exact empty_kept_when_default_empty. Qed.
Print Assumptions C19_empty_glyph_keeps_all_masters.

Theorem C19_outlined_master_always_takes_part : forall srcs kept,
  collect srcs = Some kept -> forall s, In s srcs -> s_glyph s = Outlined -> In s kept.
Proof. exact outlined_kept. Qed.
Print Assumptions C19_outlined_master_always_takes_part.

Example C19_single_pass_depends_on_source_order :
  let l := mkSrc 100 false Empty in let r := mkSrc 400 true Empty in let b := mkSrc 700 false Empty in
  collect [l; r; b] = Some [l; r; b] /\ collect_single_pass false [l; r; b] = [r; b] /\ collect_single_pass false [r; l; b] = [r; l; b].
Proof. exact single_pass_order_dependent. Qed.
Print Assumptions C19_single_pass_depends_on_source_order.
