(* C19 -- instances equal masters at master locations and the model's blend elsewhere.
   PARTIAL: the multi-axis VariationModel and fontMath are environment; the two-master axis and the
   glyph swap are modelled. *)
From Coq Require Import QArith Qcanon.
From U2F Require Import Base.Prelude Geometry.Model Interp.Instance Interp.InstanceProofs.
Open Scope Qc_scope.

Theorem C19_instance_at_master_is_the_master : forall m0 m1,
  instance_at m0 m1 qc0 = m0 /\ instance_at m0 m1 qc1 = m1.
Proof. exact instance_at_master. Qed.
Print Assumptions C19_instance_at_master_is_the_master.

Theorem C19_two_master_axis_is_exact_linear_blend : forall m0 m1 t k a b,
  t <> qc0 -> t <> qc1 -> nth_error m0 k = Some a -> nth_error m1 k = Some b ->
  nth_error (instance_at m0 m1 t) k = Some (a + t * (b - a)).
Proof. exact two_master_linear. Qed.
Print Assumptions C19_two_master_axis_is_exact_linear_blend.

Theorem C19_blend_agrees_with_masters_at_the_ends : forall m0 m1,
  length m0 = length m1 -> blend m0 m1 0 = m0 /\ blend m0 m1 1 = m1.
Proof. exact blend_endpoints. Qed.
Print Assumptions C19_blend_agrees_with_masters_at_the_ends.

Theorem C19_swap_does_not_move_code_points : forall a b f f' n g,
  swap_glyph_names a b f = Some f' -> assoc n (sf_glyphs f) = Some g ->
  exists g', assoc n (sf_glyphs f') = Some g' /\ sg_unicodes g' = sg_unicodes g.
Proof. exact swap_keeps_unicodes. Qed.
Print Assumptions C19_swap_does_not_move_code_points.

Theorem C19_swapping_twice_restores_kerning_and_groups : forall a b f f1 f2,
  swap_glyph_names a b f = Some f1 -> swap_glyph_names a b f1 = Some f2 ->
  sf_kerning f2 = sf_kerning f /\ sf_groups f2 = sf_groups f.
Proof. exact swap_twice_restores_references. Qed.
Print Assumptions C19_swapping_twice_restores_kerning_and_groups.

Example C19_swap_twice_example :
  let f := mkSF [([97]%Z, mkSG 1 500 [] [] [97%Z]); ([98]%Z, mkSG 2 600 [] [[97]%Z] [98%Z]); ([99]%Z, mkSG 3 0 [] [[97]%Z; [98]%Z] [])]
                [(([97]%Z, [98]%Z), (-10)%Z)] [([103]%Z, [[97]%Z; [99]%Z])] in
  match swap_glyph_names [97]%Z [98]%Z f with
  | Some f1 => match swap_glyph_names [97]%Z [98]%Z f1 with Some f2 => sfont_eqb f2 f | None => false end
  | None => false end = true.
Proof. vm_compute. reflexivity. Qed.
Print Assumptions C19_swap_twice_example.
