(* C10 -- a variable font reproduces each master at that master's location.
   PARTIAL: gvar/HVAR/CFF2 blending, the multi-axis VariationModel and the feature variation
   builder are varLib/feaLib (environment); observed by instantiating compiled variable fonts. *)
From Coq Require Import QArith Qcanon.
From U2F Require Import Base.Prelude Geometry.Model Kern.Model Interp.Instance Interp.InstanceProofs Kern.VarKern Kern.VarKernProofs.
Open Scope Qc_scope.

Theorem C10_every_source_contributes_its_own_kerning : forall g1s g2s sources a b i k,
  nth_error sources i = Some k ->
  nth_error (var_kern_values g1s g2s sources a b) i = Some (ufo_kern g1s g2s k a b).
Proof. exact var_kern_nth. Qed.
Print Assumptions C10_every_source_contributes_its_own_kerning.

Theorem C10_variable_value_at_master_locations : forall v0 v1,
  var_scalar_at v0 v1 0 = v0 /\ var_scalar_at v0 v1 1 = v1.
Proof. exact var_scalar_at_masters. Qed.
Print Assumptions C10_variable_value_at_master_locations.

Theorem C10_variable_kerning_at_master : forall g1s g2s k0 k1 a b,
  var_scalar_at (ufo_kern g1s g2s k0 a b) (ufo_kern g1s g2s k1 a b) 0 = ufo_kern g1s g2s k0 a b /\
  var_scalar_at (ufo_kern g1s g2s k0 a b) (ufo_kern g1s g2s k1 a b) 1 = ufo_kern g1s g2s k1 a b.
Proof. exact var_kerning_at_master. Qed.
Print Assumptions C10_variable_kerning_at_master.

Theorem C10_outline_vectors_at_master_locations : forall m0 m1,
  length m0 = length m1 -> blend m0 m1 0 = m0 /\ blend m0 m1 1 = m1.
Proof. exact blend_endpoints. Qed.
Print Assumptions C10_outline_vectors_at_master_locations.

(* ---- any number of masters, any number of axes ----
   ufo2ft's Variator and varLib build instances / variation data with VariationModel.getDeltas and interpolateFromDeltas.
   rows: row i = the scalars of all regions at master i's location (masters in the model's order).  Hypothesis rows_ok
   (region i has scalar 1 at master i, every later region scalar 0 there) is evaluated on the real model's scalars by the
   check; under it the model reproduces EVERY master at that master's location. *)
From U2F Require Import Interp.VarModel Interp.VarModelProofs.

Theorem C10_every_master_reproduced_at_its_location : forall ms rows,
  rows_ok (length ms) rows = true ->
  forall i m r, nth_error ms i = Some m -> nth_error rows i = Some r ->
  interpolate r (get_deltas ms rows []) = m.
Proof. exact model_reproduces_masters. Qed.
Print Assumptions C10_every_master_reproduced_at_its_location.

Example C10_three_master_rows_ok : rows_ok 3 [[1; 0; 0]; [1; 1; 0]; [1; 0; 1]]%Qc = true.
Proof. exact three_master_rows_ok. Qed.
Print Assumptions C10_three_master_rows_ok.

(* ---- variable values that are written as constants (util.collapse_varscalar, default threshold 0) ---- *)
From U2F Require Import Interp.Collapse Interp.CollapseProofs.

(* a collapsed value is the value of EVERY master ... *)
Theorem C10_collapsed_value_is_every_masters_value : forall values c,
  collapse values qc0 = Some c -> forall v, In v values -> v = c.
Proof. exact collapse_sound. Qed.
Print Assumptions C10_collapsed_value_is_every_masters_value.

(* ... and a variation model whose masters all have that value yields it at every location: nothing is lost *)
Theorem C10_constant_masters_interpolate_constant : forall c rows scalars tl,
  rows <> [] -> (forall r, In r rows -> exists t, r = qc1 :: t) -> scalars = qc1 :: tl ->
  interpolate scalars (get_deltas (repeat c (length rows)) rows []) = c.
Proof. exact constant_masters_interpolate_constant. Qed.
Print Assumptions C10_constant_masters_interpolate_constant.

Example C10_collapse_slips_refuted :
  let vs := [Q2Qc (-40 # 1); Q2Qc (-70 # 1); Q2Qc (-40 # 1)] in
  collapse vs qc0 = None /\ collapse_first_last vs qc0 = Some (Q2Qc (-40 # 1)) /\
  collapse [Q2Qc 250; Q2Qc 250; Q2Qc 270] qc0 = None /\ collapse_any [Q2Qc 250; Q2Qc 250; Q2Qc 270] qc0 = Some (Q2Qc 250).
Proof. exact slips_refuted. Qed.
Print Assumptions C10_collapse_slips_refuted.
