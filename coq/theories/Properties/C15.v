(* C15 -- component/transform filters preserve rendering; anchors follow components. *)
From Coq Require Import QArith Qcanon.
From U2F Require Import Base.Prelude Geometry.Model Geometry.ModelProofs Geometry.Filters Geometry.FiltersProofs Geometry.FlattenProofs Geometry.TransformProofs.
Open Scope Qc_scope.

(* Decomposing (fully, or only the glyphs with transformed components) replaces a
   glyph's components by exactly the nested resolved outline: the fully resolved
   contours are identical before and after, mirrored components reversed. *)
Theorem C15_decompose_preserves_render : forall fuel gs g,
  wf_glyphset_P gs -> wf_glyph_P g -> decompose fuel gs g = resolve (S fuel) gs g.
Proof. exact decompose_resolve. Qed.
Print Assumptions C15_decompose_preserves_render.

Theorem C15_place_through_composed_matrix : forall a t c,
  det a <> qc0 -> det t <> qc0 -> wf_closed c -> place (compose a t) c = place a (place t c).
Proof. exact place_compose. Qed.
Print Assumptions C15_place_through_composed_matrix.

(* _flattenComponent: translate then 2x2 = composition of the two matrices *)
Theorem C15_flatten_composes : forall outer inner, flat_tr outer inner = compose outer inner.
Proof. exact flatten_compose. Qed.
Print Assumptions C15_flatten_composes.

(* TransformationsFilter: inverse compensation for already transformed bases *)
Theorem C15_transform_compensation : forall m t,
  det m <> qc0 -> compose (compose m (compose t (inverse m))) m = compose m t.
Proof. exact transform_compensation. Qed.
Print Assumptions C15_transform_compensation.

Theorem C15_compensation_keeps_orientation : forall m t,
  det m <> qc0 -> det (compose m (compose t (inverse m))) = det t.
Proof. exact compensation_keeps_orientation. Qed.
Print Assumptions C15_compensation_keeps_orientation.

Theorem C15_inverse_is_inverse : forall t, det t <> qc0 -> compose (inverse t) t = aff_id.
Proof. exact inverse_left. Qed.
Print Assumptions C15_inverse_is_inverse.

(* FlattenComponentsFilter (nested references replaced by references to the leaves, matrices composed):
   whenever it succeeds, the flattened glyph resolves -- with the same fuel -- to exactly the same list of
   contours; for every glyph set with non-singular component matrices and closed contours, any depth *)
Theorem C15_flattening_preserves_rendering : forall gs g g',
  wf_glyphset_P gs -> wf_glyph_P g -> flatten_glyph gs g = Some g' ->
  forall F r, resolve F gs g = Some r -> resolve F gs g' = Some r.
Proof. exact flatten_render. Qed.
Print Assumptions C15_flattening_preserves_rendering.

(* TransformationsFilter over a whole glyph set (own contours mapped, components rewritten to M.T.M^-1): every glyph
   of the transformed set renders exactly the image, under the requested matrix, of what it rendered before --
   all glyph sets, all invertible matrices, any nesting *)
Theorem C15_transformed_set_renders_the_image : forall m gs, det m <> qc0 -> forall F g r,
  resolve F gs g = Some r ->
  resolve F (transform_set m gs) (transform_glyph m g) = Some (map (aff_contour m) r).
Proof. exact transform_render. Qed.
Print Assumptions C15_transformed_set_renders_the_image.

From U2F Require Import Geometry.Examples.
(* non-vacuity: halving the example glyph set *)
Example C15_transform_on_example :
  let m := mkA (qq 1 2) qc0 qc0 (qq 1 2) qc0 qc0 in
  det m <> qc0 /\ resolve_n (transform_set m ex_gs) n_c = option_map (map (aff_contour m)) (resolve_n ex_gs n_c).
Proof. exact ex_transform. Qed.
Print Assumptions C15_transform_on_example.

(* ---- the matrix TransformationsFilter builds from its options ----
   set_context appends translate(Offset), translate(0, origin), scale, skew(Slant), translate(0, -origin), skipping each
   step that is the identity; for all option values this is the closed form the check states independently as the
   "requested matrix" (t = tan of the slant angle), and it acts on a point as: slant about the origin height, then
   scale about it, then offset. *)
From U2F Require Import Geometry.TransformMatrix Geometry.TransformMatrixProofs.

Theorem C15_requested_matrix_closed_form : forall ox oy fx fy t h,
  build_matrix ox oy fx fy t h = closed_form ox oy fx fy t h.
Proof. exact build_matrix_closed_form. Qed.
Print Assumptions C15_requested_matrix_closed_form.

Theorem C15_requested_matrix_on_a_point : forall ox oy fx fy t h p,
  aff_pnt (build_matrix ox oy fx fy t h) p =
  mkP (ox + fx * (px p + t * (py p - h))) (oy + h + fy * (py p - h)) (on p).
Proof. exact build_matrix_point. Qed.
Print Assumptions C15_requested_matrix_on_a_point.

Example C15_scale_and_slant_do_not_commute :
  let m := compose (compose aff_id (a_skew (Q2Qc (1#2)))) (a_scale (Q2Qc 2) (Q2Qc 1)) in
  affine_eqb m (build_matrix qc0 qc0 (Q2Qc 2) (Q2Qc 1) (Q2Qc (1#2)) qc0) = false.
Proof. exact swapped_order_differs. Qed.
Print Assumptions C15_scale_and_slant_do_not_commute.

(* ---- anchor propagation (filters/propagateAnchors.py transcribed: Geometry/Propagate.v) ---- *)
From U2F Require Import Geometry.Propagate Geometry.PropagateProofs.

(* nothing but anchors changes; what is added never has the name of an anchor the composite already has *)
Theorem C15_propagation_never_overrides : forall gs mk name g g',
  propagate_step gs mk name g = Some g' ->
  gcontours g' = gcontours g /\ gcomps g' = gcomps g /\ gwidth g' = gwidth g /\
  exists added, ganchors g' = ganchors g ++ added /\
                forall k v, In (k, v) added -> forall a, In a (ganchors g) -> fst a <> k.
Proof. exact propagation_never_overrides. Qed.
Print Assumptions C15_propagation_never_overrides.

(* every added anchor sits where one of the composite's components maps an anchor of its own glyph *)
Theorem C15_added_anchor_is_a_component_image : forall gs mk name g g' k v,
  propagate_step gs mk name g = Some g' -> In (k, v) (ganchors g') ->
  In (k, v) (ganchors g) \/ image_of_a_component gs g v.
Proof. exact added_anchor_is_a_component_image. Qed.
Print Assumptions C15_added_anchor_is_a_component_image.

(* applied a second time it adds nothing *)
Theorem C15_second_propagation_adds_nothing : forall gs mk name g g',
  propagate_step gs mk name g = Some g' -> propagate_step gs mk name g' = Some g'.
Proof. exact second_run_adds_nothing. Qed.
Print Assumptions C15_second_propagation_adds_nothing.

(* ---- the same three statements for a mark made only of marks, where one mark component is PROMOTED to base (which one is
   decided by outline bounds: an input `promo` of the model, computed by the check with fontTools' BoundsPen) ---- *)
Theorem C15_propagation_with_promotion_never_overrides : forall gs mk promo name g g',
  propagate_step_p gs mk promo name g = Some g' ->
  gcontours g' = gcontours g /\ gcomps g' = gcomps g /\ gwidth g' = gwidth g /\
  exists added, ganchors g' = ganchors g ++ added /\
                forall k v, In (k, v) added -> forall a, In a (ganchors g) -> fst a <> k.
Proof. exact propagation_never_overrides_p. Qed.
Print Assumptions C15_propagation_with_promotion_never_overrides.

Theorem C15_added_anchor_is_a_component_image_with_promotion : forall gs mk promo name g g' k v,
  propagate_step_p gs mk promo name g = Some g' -> In (k, v) (ganchors g') ->
  In (k, v) (ganchors g) \/ image_of_a_component gs g v.
Proof. exact added_anchor_is_a_component_image_p. Qed.
Print Assumptions C15_added_anchor_is_a_component_image_with_promotion.

Theorem C15_second_propagation_adds_nothing_with_promotion : forall gs mk promo name g g',
  propagate_step_p gs mk promo name g = Some g' -> propagate_step_p gs mk promo name g' = Some g'.
Proof. exact second_run_adds_nothing_p. Qed.
Print Assumptions C15_second_propagation_adds_nothing_with_promotion.

(* ---- the transformations filter scales EVERY glyph's advance -- a glyph with nothing in it (space) too (repair F44) ---- *)
Theorem C15_transform_scales_every_advance : forall m gs n g,
  assoc n gs = Some g -> option_map gwidth (assoc n (transform_set m gs)) = Some (xx m * gwidth g).
Proof. exact transform_scales_every_advance. Qed.
Print Assumptions C15_transform_scales_every_advance.
