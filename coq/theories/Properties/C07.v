(* C07 -- compiling never modifies the caller's sources unless inplace is requested.
   PARTIAL: object aliasing lives in CPython.  The theorem is about the copy discipline: a glyph
   set built with copy = true holds only fresh objects, so no sequence of writes addressed through
   it reaches a source object.  Writers that address source objects directly (font.lib, other
   layers, features) are outside this discipline; the check measures them on the implementation
   (before/after snapshots of every source object) and matches them against KNOWN_FINDINGS. *)
From U2F Require Import Base.Prelude Heap.CopyDiscipline Heap.CopyDisciplineProofs.

Theorem C07_copy_isolation : forall h layer ws,
  let '(h1, gs) := from_layer true h layer in
  h_src (run_writes gs h1 ws) = h_src h.
Proof. exact copy_isolation. Qed.
Print Assumptions C07_copy_isolation.

Theorem C07_glyph_set_copies_are_fresh : forall h layer, all_fresh (snd (from_layer true h layer)).
Proof. exact from_layer_copy_fresh. Qed.
Print Assumptions C07_glyph_set_copies_are_fresh.

Example C07_inplace_reaches_source :
  let h := mkH [(0, 5%Z)] [] in
  let '(h1, gs) := from_layer false h [([97]%Z, 0)] in
  h_src (run_writes gs h1 [([97]%Z, 9%Z)]) = [(0, 9%Z)].
Proof. exact inplace_writes_source. Qed.
Print Assumptions C07_inplace_reaches_source.

Example C07_refuted_by_a_direct_writer :
  h_src (direct_write (mkH [(0, 20%Z)] []) 0 0%Z) <> h_src (mkH [(0, 20%Z)] []).
Proof. exact direct_write_changes_source. Qed.
Print Assumptions C07_refuted_by_a_direct_writer.
