(* C16 -- any valid font info compiles; explicit values win, absent ones fall back. *)
From Coq Require Import QArith Qcanon List.
From U2F Require Import Base.Prelude Generated.Constants Geometry.Model Info.PSName Info.PSNameProofs
     Info.Fallback Info.FallbackProofs Info.NameTable Info.NameTableProofs.

(* The generated PostScript font name contains only printable ASCII without
   spaces or any of []{}<>()/% -- for every string and EVERY Unicode
   decomposition function (the character sets are read from the source). *)
Theorem C16_generated_psname_clean : forall nfkd family style,
  ps_clean (ps_font_name_fallback nfkd family style) = true.
Proof. exact ps_font_name_fallback_clean. Qed.
Print Assumptions C16_generated_psname_clean.

Theorem C16_normalize_for_postscript_clean : forall nfkd s, ps_clean (normalize_ps nfkd false s) = true.
Proof. exact psname_clean. Qed.
Print Assumptions C16_normalize_for_postscript_clean.

Theorem C16_cff_strings_reduced_to_ascii : forall nfkd s,
  forallb (fun x => ps_clean_char x || Z.eqb x 32) (normalize_ps nfkd true s) = true.
Proof. exact psstring_clean. Qed.
Print Assumptions C16_cff_strings_reduced_to_ascii.

(* the statement was false of the code before the repair fa90da0 *)
Theorem C16_psname_refuted_before_fix : exists nfkd s, ps_clean (normalize_ps_v0 nfkd false s) = false.
Proof. exact psname_v0_refuted. Qed.
Print Assumptions C16_psname_refuted_before_fix.

(* explicit values win *)
Theorem C16_explicit_wins : forall i,
  (forall v, i_upm i = Some v -> get_upm i = v) /\
  (forall v, i_ascender i = Some v -> get_ascender i = v) /\
  (forall v, i_descender i = Some v -> get_descender i = v) /\
  (forall v, i_typoAsc i = Some v -> get_typoAsc i = v) /\
  (forall v, i_typoDesc i = Some v -> get_typoDesc i = v) /\
  (forall v, i_typoGap i = Some v -> get_typoGap i = v) /\
  (forall v, i_winAsc i = Some v -> get_winAsc i = v) /\
  (forall v, i_winDesc i = Some v -> get_winDesc i = v) /\
  (forall v, i_hheaAsc i = Some v -> get_hheaAsc i = v) /\
  (forall v, i_hheaDesc i = Some v -> get_hheaDesc i = v).
Proof. exact explicit_wins. Qed.
Print Assumptions C16_explicit_wins.

(* derived values always fit their unsigned fields (totality of compilation for these fields) *)
Theorem C16_derived_values_fit : forall i,
  (i_winAsc i = None -> (0 <= otRound (get_winAsc i))%Z) /\
  (i_winDesc i = None -> (0 <= otRound (get_winDesc i))%Z) /\
  (i_typoGap i = None -> (0 <= otRound (get_typoGap i))%Z).
Proof. exact derived_fits. Qed.
Print Assumptions C16_derived_values_fit.

Theorem C16_win_ascent_refuted_before_fix : exists asc gap : Qc, (otRound (asc + gap) < 0)%Z.
Proof. exact win_ascent_v0_refuted. Qed.
Print Assumptions C16_win_ascent_refuted_before_fix.

(* bit lists (fsType, fsSelection, unicode/codepage ranges, head flags) *)
Theorem C16_intListToNum_bits : forall l start len k, (0 <= k)%Z ->
  Z.testbit (int_list_to_num l start len) k = ((k <? Z.of_nat len)%Z && existsb (Z.eqb (start + k)) l).
Proof. exact intListToNum_bits. Qed.
Print Assumptions C16_intListToNum_bits.

(* ---- the name table (Info/NameTable.v): which records are written, given the resolved values ---- *)
(* every resolved, non-empty name other than the typographic pair is written as given *)
Theorem C16_names_written_as_given : forall vals k v,
  NoDup (map fst vals) -> k <> 16%nat -> k <> 17%nat -> nassoc k vals = Some v -> v <> [] ->
  nassoc k (name_records vals) = Some v.
Proof. exact other_names_written. Qed.
Print Assumptions C16_names_written_as_given.

(* IDs 16/17 are dropped only when BOTH equal IDs 1/2, so a reader (16 else 1, 17 else 2) always gets the preferred
   family and subfamily *)
Theorem C16_typographic_names_always_readable : forall vals f s f1 s1,
  NoDup (map fst vals) ->
  nassoc 16 vals = Some f -> nassoc 17 vals = Some s -> nassoc 1 vals = Some f1 -> nassoc 2 vals = Some s1 ->
  f <> [] -> s <> [] -> f1 <> [] -> s1 <> [] ->
  typographic_family (name_records vals) = f /\ typographic_subfamily (name_records vals) = s.
Proof. exact typographic_names_readable. Qed.
Print Assumptions C16_typographic_names_always_readable.

(* ---- vertical tables: built exactly when all three vhea metrics are present; the generated .notdef is always accepted ---- *)
From U2F Require Import Info.Fallback Info.Vertical Info.VerticalProofs.

Theorem C16_vertical_tables_iff_all_three_metrics : forall a d g,
  vertical_enabled a d g = true <-> (a <> None /\ d <> None /\ g <> None).
Proof. exact vertical_iff_all_three. Qed.
Print Assumptions C16_vertical_tables_iff_all_three_metrics.

Theorem C16_generated_notdef_height_accepted : forall i, vmtx_accepts (stub_height i) = true.
Proof. exact notdef_height_accepted. Qed.
Print Assumptions C16_generated_notdef_height_accepted.

(* repaired defect F22: the plain difference ascender - descender was rejected for ascender 0, descender 100 *)
Example C16_plain_difference_rejected : vmtx_accepts (0 - 100) = false.
Proof. exact plain_difference_rejected. Qed.
Print Assumptions C16_plain_difference_rejected.
