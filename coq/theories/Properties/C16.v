(* C16 -- any valid font info compiles; explicit values win, absent ones fall back. *)
From Coq Require Import QArith Qcanon List.
From U2F Require Import Base.Prelude Generated.Constants Geometry.Model Info.PSName Info.PSNameProofs
     Info.Fallback Info.FallbackProofs Info.NameTable Info.NameTableProofs.

(* The generated PostScript font name contains only printable ASCII without
   spaces or any of []{}<>()/% -- for every string and EVERY Unicode
   decomposition function (the character sets are read from the source). *)
Theorem C16_generated_psname_clean : forall nfkd family style,
  ps_clean (ps_font_name_fallback nfkd family style) = true.
Proof. exact ps_font_name_fallback_clean. Qed.
Print Assumptions C16_generated_psname_clean.

Theorem C16_normalize_for_postscript_clean : forall nfkd s, ps_clean (normalize_ps nfkd false s) = true.
Proof. exact psname_clean. Qed.
Print Assumptions C16_normalize_for_postscript_clean.

Theorem C16_cff_strings_reduced_to_ascii : forall nfkd s,
  forallb (fun x => ps_clean_char x || Z.eqb x 32) (normalize_ps nfkd true s) = true.
Proof. exact psstring_clean. Qed.
Print Assumptions C16_cff_strings_reduced_to_ascii.

(* the statement was false of the code before the repair fa90da0 *)
Theorem C16_psname_refuted_before_fix : exists nfkd s, ps_clean (normalize_ps_v0 nfkd false s) = false.
Proof. exact psname_v0_refuted. Qed.
Print Assumptions C16_psname_refuted_before_fix.

(* explicit values win *)
Theorem C16_explicit_wins : forall i,
  (forall v, i_upm i = Some v -> get_upm i = v) /\
  (forall v, i_ascender i = Some v -> get_ascender i = v) /\
  (forall v, i_descender i = Some v -> get_descender i = v) /\
  (forall v, i_typoAsc i = Some v -> get_typoAsc i = v) /\
  (forall v, i_typoDesc i = Some v -> get_typoDesc i = v) /\
  (forall v, i_typoGap i = Some v -> get_typoGap i = v) /\
  (forall v, i_winAsc i = Some v -> get_winAsc i = v) /\
  (forall v, i_winDesc i = Some v -> get_winDesc i = v) /\
  (forall v, i_hheaAsc i = Some v -> get_hheaAsc i = v) /\
  (forall v, i_hheaDesc i = Some v -> get_hheaDesc i = v).
Proof. exact explicit_wins. Qed.
Print Assumptions C16_explicit_wins.

(* derived values always fit their unsigned fields (totality of compilation for these fields) *)
Theorem C16_derived_values_fit : forall i,
  (i_winAsc i = None -> (0 <= otRound (get_winAsc i))%Z) /\
  (i_winDesc i = None -> (0 <= otRound (get_winDesc i))%Z) /\
  (i_typoGap i = None -> (0 <= otRound (get_typoGap i))%Z).
Proof. exact derived_fits. Qed.
Print Assumptions C16_derived_values_fit.

Theorem C16_win_ascent_refuted_before_fix : exists asc gap : Qc, (otRound (asc + gap) < 0)%Z.
Proof. exact win_ascent_v0_refuted. Qed.
Print Assumptions C16_win_ascent_refuted_before_fix.

(* bit lists (fsType, fsSelection, unicode/codepage ranges, head flags) *)
Theorem C16_intListToNum_bits : forall l start len k, (0 <= k)%Z ->
  Z.testbit (int_list_to_num l start len) k = ((k <? Z.of_nat len)%Z && existsb (Z.eqb (start + k)) l).
Proof. exact intListToNum_bits. Qed.
Print Assumptions C16_intListToNum_bits.

(* ---- the name table (Info/NameTable.v): which records are written, given the resolved values ---- *)
(* every resolved, non-empty name other than the typographic pair is written as given *)
Theorem C16_names_written_as_given : forall vals k v,
  NoDup (map fst vals) -> k <> 16%nat -> k <> 17%nat -> nassoc k vals = Some v -> v <> [] ->
  nassoc k (name_records vals) = Some v.
Proof. exact other_names_written. Qed.
Print Assumptions C16_names_written_as_given.

(* IDs 16/17 are dropped only when BOTH equal IDs 1/2, so a reader (16 else 1, 17 else 2) always gets the preferred
   family and subfamily *)
Theorem C16_typographic_names_always_readable : forall vals f s f1 s1,
  NoDup (map fst vals) ->
  nassoc 16 vals = Some f -> nassoc 17 vals = Some s -> nassoc 1 vals = Some f1 -> nassoc 2 vals = Some s1 ->
  f <> [] -> s <> [] -> f1 <> [] -> s1 <> [] ->
  typographic_family (name_records vals) = f /\ typographic_subfamily (name_records vals) = s.
Proof. exact typographic_names_readable. Qed.
Print Assumptions C16_typographic_names_always_readable.

(* ---- vertical tables: built exactly when all three vhea metrics are present; the generated .notdef is always accepted ---- *)
From U2F Require Import Info.Fallback Info.Vertical Info.VerticalProofs.

Theorem C16_vertical_tables_iff_all_three_metrics : forall a d g,
  vertical_enabled a d g = true <-> (a <> None /\ d <> None /\ g <> None).
Proof. exact vertical_iff_all_three. Qed.
Print Assumptions C16_vertical_tables_iff_all_three_metrics.

Theorem C16_generated_notdef_height_accepted : forall i, vmtx_accepts (stub_height i) = true.
Proof. exact notdef_height_accepted. Qed.
Print Assumptions C16_generated_notdef_height_accepted.

(* repaired defect F22: the plain difference ascender - descender was rejected for ascender 0, descender 100 *)
Example C16_plain_difference_rejected : vmtx_accepts (0 - 100) = false.
Proof. exact plain_difference_rejected. Qed.
Print Assumptions C16_plain_difference_rejected.

(* ---- the fallback functions as TRANSLATED from /repo's fontInfoData.py on this run (Generated/InfoFallbacks.v) ---- *)
From U2F Require Import Generated.InfoFallbacks Info.FallbackTied.

(* the translated code is the hand model that the correspondence check runs against the real functions *)
Theorem C16_code_fallbacks_are_the_model : tr_getattr_shape_ok = true /\ forall i, tr_table_metrics i = table_metrics i.
Proof. exact code_is_the_model. Qed.
Print Assumptions C16_code_fallbacks_are_the_model.

(* "every absent one is filled by the documented fallback derived from unitsPerEm": the code, as it reads now, computes the
   documented value of all thirteen vertical-metric attributes, for every info *)
Theorem C16_code_computes_the_documented_fallbacks : forall i,
  tr_unitsPerEm i = doc_upm i /\ tr_ascender i = doc_ascender i /\ tr_descender i = doc_descender i /\
  tr_capHeight i = doc_capHeight i /\ tr_xHeight i = doc_xHeight i /\
  tr_openTypeOS2TypoAscender i = doc_typoAsc i /\ tr_openTypeOS2TypoDescender i = doc_typoDesc i /\
  tr_openTypeOS2TypoLineGap i = doc_typoGap i /\
  tr_openTypeHheaAscender i = doc_hheaAsc i /\ tr_openTypeHheaDescender i = doc_hheaDesc i /\
  tr_openTypeHheaLineGap i = doc_hheaGap i /\
  tr_openTypeOS2WinAscent i = doc_winAsc i /\ tr_openTypeOS2WinDescent i = doc_winDesc i.
Proof. exact code_is_the_documented_fallback. Qed.
Print Assumptions C16_code_computes_the_documented_fallbacks.

Theorem C16_code_explicit_wins : forall i,
  (forall v, i_upm i = Some v -> tr_unitsPerEm i = v) /\
  (forall v, i_ascender i = Some v -> tr_ascender i = v) /\
  (forall v, i_descender i = Some v -> tr_descender i = v) /\
  (forall v, i_capHeight i = Some v -> tr_capHeight i = v) /\
  (forall v, i_xHeight i = Some v -> tr_xHeight i = v) /\
  (forall v, i_typoAsc i = Some v -> tr_openTypeOS2TypoAscender i = v) /\
  (forall v, i_typoDesc i = Some v -> tr_openTypeOS2TypoDescender i = v) /\
  (forall v, i_typoGap i = Some v -> tr_openTypeOS2TypoLineGap i = v) /\
  (forall v, i_winAsc i = Some v -> tr_openTypeOS2WinAscent i = v) /\
  (forall v, i_winDesc i = Some v -> tr_openTypeOS2WinDescent i = v) /\
  (forall v, i_hheaAsc i = Some v -> tr_openTypeHheaAscender i = v) /\
  (forall v, i_hheaDesc i = Some v -> tr_openTypeHheaDescender i = v) /\
  (forall v, i_hheaGap i = Some v -> tr_openTypeHheaLineGap i = v).
Proof. exact code_explicit_wins. Qed.
Print Assumptions C16_code_explicit_wins.

Theorem C16_code_derived_values_fit : forall i,
  (i_winAsc i = None -> (0 <= otRound (tr_openTypeOS2WinAscent i))%Z) /\
  (i_winDesc i = None -> (0 <= otRound (tr_openTypeOS2WinDescent i))%Z) /\
  (i_typoGap i = None -> (0 <= otRound (tr_openTypeOS2TypoLineGap i))%Z).
Proof. exact code_derived_values_fit. Qed.
Print Assumptions C16_code_derived_values_fit.

Theorem C16_code_default_metrics_consistent : forall i,
  i_typoAsc i = None -> i_hheaAsc i = None -> i_winAsc i = None -> i_typoGap i = None ->
  tr_openTypeHheaAscender i = (tr_openTypeOS2TypoAscender i + tr_openTypeOS2TypoLineGap i)%Qc /\
  (this (tr_openTypeOS2TypoAscender i + tr_openTypeOS2TypoLineGap i)%Qc <= this (tr_openTypeOS2WinAscent i))%Q /\
  (0 <= this (tr_openTypeOS2TypoLineGap i))%Q.
Proof. exact code_default_metrics_consistent. Qed.
Print Assumptions C16_code_default_metrics_consistent.

Example C16_code_defaults_of_empty_info :
  tr_table_metrics (mkInfo None None None None None None None None None None None None None)
  = mkVM 1000 500 700 800 (-200) 200 1000 200 1000 (-200) 0.
Proof. exact code_defaults_of_empty_info. Qed.
Print Assumptions C16_code_defaults_of_empty_info.

(* ---- explicit values win in the NAME TABLE of a variable font whose designspace overrides font info: the merge of the
   override's records into the default source's table (InfoCompiler.setupTable_name, TRANSLATED from /repo's current source into
   Generated/NameMergeGen.v and proved equal to the model of Info/NameMerge.v), for all record lists ---- *)
From U2F Require Import Info.NameMerge Info.NameMergeProofs Generated.NameMergeGen Info.NameMergeTied.

Theorem C16_translated_name_merge_is_the_model : forall temp orig, tr_name_merge temp orig = name_merge temp orig.
Proof. exact translated_name_merge_is_the_model. Qed.
Print Assumptions C16_translated_name_merge_is_the_model.

Theorem C16_code_overridden_name_record_wins : forall temp orig k v,
  kfind k (kdict temp) = Some v -> kfind k (tr_name_merge temp orig) = Some v.
Proof. exact code_override_wins. Qed.
Print Assumptions C16_code_overridden_name_record_wins.

Theorem C16_code_no_stale_record_of_an_overridden_name : forall temp orig k v,
  rewritten temp k = true -> kfind k (tr_name_merge temp orig) = Some v -> kfind k (kdict temp) = Some v.
Proof. exact code_no_stale_record_of_a_rewritten_name. Qed.
Print Assumptions C16_code_no_stale_record_of_an_overridden_name.

Theorem C16_code_predefined_names_are_the_overrides : forall temp orig k,
  predefined_windows_english k = true -> kfind k (tr_name_merge temp orig) = kfind k (kdict temp).
Proof. exact code_predefined_names_are_the_overrides. Qed.
Print Assumptions C16_code_predefined_names_are_the_overrides.

Theorem C16_code_other_name_records_untouched : forall temp orig k,
  rewritten temp k = false -> predefined_windows_english k = false ->
  kfind k (tr_name_merge temp orig) = kfind k (kdict orig).
Proof. exact code_other_records_untouched. Qed.
Print Assumptions C16_code_other_name_records_untouched.

Theorem C16_code_merged_keys_distinct : forall temp orig, NoDup (map fst (tr_name_merge temp orig)).
Proof. exact code_merge_keys_distinct. Qed.
Print Assumptions C16_code_merged_keys_distinct.
