(* C17 -- automatic features only add to the user's feature file. *)
From Coq Require Import List.
From U2F Require Import Base.Prelude Fea.Insert Fea.InsertProofs Fea.GdefTodo Fea.GdefTodoProofs.

(* Every statement of the user's feature file survives, unchanged and in the same order,
   through BaseFeatureWriter._insert -- for every feature file, every list of generated
   features, lookups and definitions, and every marker placement (top / bottom / middle /
   alone), including the block splitting and the dependent-feature walk. *)
Theorem C17_user_statements_survive_in_order : forall f feats markers nlookups ndefs fresh,
  leaves (insert_all f feats markers nlookups ndefs fresh) = leaves f.
Proof. exact insert_preserves_user_statements. Qed.
Print Assumptions C17_user_statements_survive_in_order.

(* a feature the user already wrote is not generated again unless it carries the marker *)
Theorem C17_no_overwrite_without_marker : forall f tags t,
  In t (existing_tags f) -> ~ In t (keys (collect_markers f tags)) -> ~ In t (todo f tags).
Proof. exact no_overwrite_without_marker. Qed.
Print Assumptions C17_no_overwrite_without_marker.

(* ---- the GDEF writer (Fea/GdefTodo.v): what the user wrote in table GDEF is not generated again ---- *)
Theorem C17_user_ligature_carets_are_left_alone : forall stmts hc hk,
  (In GCaretByPos stmts \/ In GCaretByIndex stmts) -> td_carets (gdef_todo_of (Some stmts) hc hk) = false.
Proof. exact user_carets_are_left_alone. Qed.
Print Assumptions C17_user_ligature_carets_are_left_alone.

Theorem C17_user_glyph_classes_are_left_alone : forall stmts hc hk,
  In GClassDef stmts -> td_classes (gdef_todo_of (Some stmts) hc hk) = false.
Proof. exact user_classes_are_left_alone. Qed.
Print Assumptions C17_user_glyph_classes_are_left_alone.

(* ---- which comment is the insertion marker ---- *)
From U2F Require Import Fea.Marker Fea.MarkerProofs.

Theorem C17_marker_is_anchored_at_the_start : forall c,
  is_marker c = true <-> exists ws rest, c = ws ++ MARK ++ rest /\ forallb is_ws ws = true.
Proof. exact is_marker_spec. Qed.
Print Assumptions C17_marker_is_anchored_at_the_start.

Theorem C17_commented_out_marker_is_no_marker : forall rest, is_marker (35%Z :: 35%Z :: rest) = false.
Proof. exact commented_out_marker_is_no_marker. Qed.
Print Assumptions C17_commented_out_marker_is_no_marker.

(* ---- hand-written table blocks (Fea/Tables.v): findTable, and the user's GDEF table however it is split into blocks ---- *)
From U2F Require Import Fea.Tables Fea.TablesProofs.

Theorem C17_find_table_skips_other_blocks : forall tag pre b post,
  no_block tag pre -> find_table tag (pre ++ TBlock tag b :: post) = Some b.
Proof. exact find_table_first. Qed.
Print Assumptions C17_find_table_skips_other_blocks.

Theorem C17_find_table_none_iff_no_block : forall tag l, find_table tag l = None <-> no_block tag l.
Proof. exact find_table_none_iff. Qed.
Print Assumptions C17_find_table_none_iff_no_block.

Theorem C17_gdef_todo_does_not_depend_on_the_split : forall pre x y post hc hk,
  gdef_todo_of (user_gdef (pre ++ TBlock GDEF (x ++ y) :: post)) hc hk =
  gdef_todo_of (user_gdef (pre ++ TBlock GDEF x :: TBlock GDEF y :: post)) hc hk.
Proof. exact todo_split_invariant. Qed.
Print Assumptions C17_gdef_todo_does_not_depend_on_the_split.

Theorem C17_other_table_blocks_are_immaterial : forall tag b l1 l2,
  str_eqb tag GDEF = false -> user_gdef (l1 ++ TBlock tag b :: l2) = user_gdef (l1 ++ l2).
Proof. exact user_gdef_ignores_other_blocks. Qed.
Print Assumptions C17_other_table_blocks_are_immaterial.

(* ---- the script / language / lookupflag context of the user's rules when the marker stands in the middle of a feature
   (Fea/Context.v; BaseFeatureWriter._contextAt after repair F36) ---- *)
From U2F Require Import Fea.Context Fea.ContextProofs.

(* splitting a hand-written feature at the marker keeps every rule AND the context it is interpreted under: the rules of the two
   resulting blocks, each with its script / language / lookupflag, are those of the original block *)
Theorem C17_split_at_the_marker_keeps_every_rule_and_its_context : forall before after,
  let '(b1, b2) := split_blocks before after in
  rules_with_ctx b1 ctx0 ++ rules_with_ctx b2 ctx0 = rules_with_ctx (before ++ after) ctx0.
Proof. exact split_keeps_every_rule_and_its_context. Qed.
Print Assumptions C17_split_at_the_marker_keeps_every_rule_and_its_context.

(* the statements put at the head of the second block re-create exactly the context in effect at the marker, are at most one of
   each kind (script first), and contain no rule *)
Theorem C17_context_statements_recreate_the_context : forall l, ctx_after (context_at l) ctx0 = ctx_after l ctx0.
Proof. exact context_at_recreates. Qed.
Print Assumptions C17_context_statements_recreate_the_context.

Theorem C17_context_statements_add_no_rule : forall l c, rules_with_ctx (context_at l) c = [].
Proof. exact context_at_has_no_rules. Qed.
Print Assumptions C17_context_statements_add_no_rule.

(* the statement was false of the code before the repair 824fe5b *)
Example C17_split_lost_the_context_before_the_fix :
  let before := [SScript 1; SLanguage 2; SRule 10] in let after := [SRule 20] in
  let '(b1, b2) := split_blocks_v0 before after in
  rules_with_ctx b1 ctx0 ++ rules_with_ctx b2 ctx0 <> rules_with_ctx (before ++ after) ctx0.
Proof. exact split_v0_loses_the_context. Qed.
Print Assumptions C17_split_lost_the_context_before_the_fix.

(* ---- the same statements about the code AS TRANSLATED from /repo's current source (Generated/FeaGen.v: BaseFeatureWriter._contextAt;
   Fea/ContextTied.v proves the translation equal to the model) ---- *)
From U2F Require Import Generated.FeaGen Fea.ContextTied.

Theorem C17_translated_contextAt_is_the_model : forall l, tr_context_at l = context_at l.
Proof. exact translated_context_at_is_the_model. Qed.
Print Assumptions C17_translated_contextAt_is_the_model.

Theorem C17_code_context_statements_recreate_the_context : forall l, ctx_after (tr_context_at l) ctx0 = ctx_after l ctx0.
Proof. exact code_context_statements_recreate_the_context. Qed.
Print Assumptions C17_code_context_statements_recreate_the_context.

Theorem C17_code_context_statements_add_no_rule : forall l c, rules_with_ctx (tr_context_at l) c = [].
Proof. exact code_context_statements_add_no_rule. Qed.
Print Assumptions C17_code_context_statements_add_no_rule.
