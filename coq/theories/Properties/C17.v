(* C17 -- automatic features only add to the user's feature file. *)
From U2F Require Import Base.Prelude Fea.Insert Fea.InsertProofs.

(* Every statement of the user's feature file survives, unchanged and in the same order,
   through BaseFeatureWriter._insert -- for every feature file, every list of generated
   features, lookups and definitions, and every marker placement (top / bottom / middle /
   alone), including the block splitting and the dependent-feature walk. *)
Theorem C17_user_statements_survive_in_order : forall f feats markers nlookups ndefs fresh,
  leaves (insert_all f feats markers nlookups ndefs fresh) = leaves f.
Proof. exact insert_preserves_user_statements. Qed.
Print Assumptions C17_user_statements_survive_in_order.

(* a feature the user already wrote is not generated again unless it carries the marker *)
Theorem C17_no_overwrite_without_marker : forall f tags t,
  In t (existing_tags f) -> ~ In t (keys (collect_markers f tags)) -> ~ In t (todo f tags).
Proof. exact no_overwrite_without_marker. Qed.
Print Assumptions C17_no_overwrite_without_marker.
