(* C17 -- automatic features only add to the user's feature file. *)
From Coq Require Import List.
From U2F Require Import Base.Prelude Fea.Insert Fea.InsertProofs Fea.GdefTodo Fea.GdefTodoProofs.

(* Every statement of the user's feature file survives, unchanged and in the same order,
   through BaseFeatureWriter._insert -- for every feature file, every list of generated
   features, lookups and definitions, and every marker placement (top / bottom / middle /
   alone), including the block splitting and the dependent-feature walk. *)
Theorem C17_user_statements_survive_in_order : forall f feats markers nlookups ndefs fresh,
  leaves (insert_all f feats markers nlookups ndefs fresh) = leaves f.
Proof. exact insert_preserves_user_statements. Qed.
Print Assumptions C17_user_statements_survive_in_order.

(* a feature the user already wrote is not generated again unless it carries the marker *)
Theorem C17_no_overwrite_without_marker : forall f tags t,
  In t (existing_tags f) -> ~ In t (keys (collect_markers f tags)) -> ~ In t (todo f tags).
Proof. exact no_overwrite_without_marker. Qed.
Print Assumptions C17_no_overwrite_without_marker.

(* ---- the GDEF writer (Fea/GdefTodo.v): what the user wrote in table GDEF is not generated again ---- *)
Theorem C17_user_ligature_carets_are_left_alone : forall stmts hc hk,
  (In GCaretByPos stmts \/ In GCaretByIndex stmts) -> td_carets (gdef_todo_of (Some stmts) hc hk) = false.
Proof. exact user_carets_are_left_alone. Qed.
Print Assumptions C17_user_ligature_carets_are_left_alone.

Theorem C17_user_glyph_classes_are_left_alone : forall stmts hc hk,
  In GClassDef stmts -> td_classes (gdef_todo_of (Some stmts) hc hk) = false.
Proof. exact user_classes_are_left_alone. Qed.
Print Assumptions C17_user_glyph_classes_are_left_alone.

(* ---- which comment is the insertion marker ---- *)
From U2F Require Import Fea.Marker Fea.MarkerProofs.

Theorem C17_marker_is_anchored_at_the_start : forall c,
  is_marker c = true <-> exists ws rest, c = ws ++ MARK ++ rest /\ forallb is_ws ws = true.
Proof. exact is_marker_spec. Qed.
Print Assumptions C17_marker_is_anchored_at_the_start.

Theorem C17_commented_out_marker_is_no_marker : forall rest, is_marker (35%Z :: 35%Z :: rest) = false.
Proof. exact commented_out_marker_is_no_marker. Qed.
Print Assumptions C17_commented_out_marker_is_no_marker.
