(* C08 -- output is a pure function of UFO content and options.
   PARTIAL: iteration order of real set objects, state cached on live objects, the two UFO libraries
   and the disk round trip are runtime behaviour; observed by the check (byte comparison across
   interpreter hash seeds, call histories, libraries, reloads). *)
From Coq Require Import List Permutation.
From U2F Require Import Base.Prelude Heap.CopyDiscipline Heap.CopyDisciplineProofs Heap.Determinism Mark.Color Mark.ColorProofs.

Theorem C08_sorted_serialisation_is_hash_seed_independent : forall l l' : list str,
  Permutation l l' -> sort_str l = sort_str l'.
Proof. exact sorted_serialisation_order_independent. Qed.
Print Assumptions C08_sorted_serialisation_is_hash_seed_independent.

Theorem C08_membership_is_order_independent : forall (l l' : list str) x,
  Permutation l l' -> mem x l = mem x l'.
Proof. exact membership_order_independent. Qed.
Print Assumptions C08_membership_is_order_independent.

Theorem C08_second_call_same : forall Out (compile : list (nat * Z) -> Out) h layer ws,
  let '(h1, gs) := from_layer true h layer in
  compile (h_src (run_writes gs h1 ws)) = compile (h_src h).
Proof. exact @second_call_same. Qed.
Print Assumptions C08_second_call_same.

Theorem C08_refuted_by_a_direct_writer :
  exists (compile : list (nat * Z) -> Z) h, compile (h_src (direct_write h 0 0%Z)) <> compile (h_src h).
Proof. exact second_call_differs_after_direct_write. Qed.
Print Assumptions C08_refuted_by_a_direct_writer.

(* a concrete instance of (a): the mark-class grouping (colorGraph) visits the vertices in sorted order and looks at
   neighbour SETS only, so two enumerations of the same conflict graph -- dict keys in another order, every neighbour
   set in another order, as another PYTHONHASHSEED produces them -- give the same groups, member for member *)
Theorem C08_mark_class_grouping_is_enumeration_independent : forall adj adj',
  Permutation (keys adj) (keys adj') ->
  (forall v x, In x (nbrs adj v) <-> In x (nbrs adj' v)) ->
  color_graph adj = color_graph adj'.
Proof. exact color_graph_enumeration_independent. Qed.
Print Assumptions C08_mark_class_grouping_is_enumeration_independent.
