(* C05 -- generated kerning applies the UFO kerning value to every pair, once.
   (theorems are added to this file as they are proved; see Kern/ModelProofs.v) *)
From Coq Require Import QArith Qcanon.
From U2F Require Import Base.Prelude Geometry.Model Kern.Model Kern.ModelProofs.
Open Scope Qc_scope.

Theorem C05_specific_pair_first_definition_wins : forall rules a b v,
  kassoc (a, b) (flat_map expand rules) = Some v -> lookup_value rules a b = v.
Proof. exact lookup_value_specific. Qed.
Print Assumptions C05_specific_pair_first_definition_wins.

Theorem C05_ufo_kern_glyph_pair_first : forall g1s g2s k a b v,
  kassoc (a, b) k = Some v -> ufo_kern g1s g2s k a b = v.
Proof. exact ufo_kern_glyph_glyph. Qed.
Print Assumptions C05_ufo_kern_glyph_pair_first.
