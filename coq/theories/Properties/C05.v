(* C05 -- generated kerning applies the UFO kerning value to every pair, once.
   (theorems are added to this file as they are proved; see Kern/ModelProofs.v) *)
From Coq Require Import QArith Qcanon.
From U2F Require Import Base.Prelude Geometry.Model Kern.Model Kern.ModelProofs.
Open Scope Qc_scope.

Theorem C05_specific_pair_first_definition_wins : forall rules a b v,
  kassoc (a, b) (flat_map expand rules) = Some v -> lookup_value rules a b = v.
Proof. exact lookup_value_specific. Qed.
Print Assumptions C05_specific_pair_first_definition_wins.

Theorem C05_ufo_kern_glyph_pair_first : forall g1s g2s k a b v,
  kassoc (a, b) k = Some v -> ufo_kern g1s g2s k a b = v.
Proof. exact ufo_kern_glyph_glyph. Qed.
Print Assumptions C05_ufo_kern_glyph_pair_first.

(* the writer's ordering of rules (KerningPair.__lt__) puts glyph-glyph before glyph-class before
   class-glyph before class-class, whatever the input order *)
Theorem C05_rules_sorted_by_specificity : forall l, kind_sorted (sort_rules l).
Proof. exact sort_rules_kind_sorted. Qed.
Print Assumptions C05_rules_sorted_by_specificity.

(* in such a lookup (specific pairs first-definition-wins, then the class subtable) a pair gets the
   value of the first rule that covers it *)
Theorem C05_first_covering_rule_decides : forall rules a b,
  kind_sorted rules ->
  lookup_value rules a b = match find (fun r => covers r a b) rules with Some r => kv r | None => qc0 end.
Proof. exact lookup_first_cover. Qed.
Print Assumptions C05_first_covering_rule_decides.

(* hence UFO precedence: the most specific covering rule decides, 0 when none covers -- for every
   rule list in which equally specific covering rules agree (one entry per key, a glyph in at most
   one group per side) *)
Theorem C05_most_specific_rule_wins : forall rules a b,
  (forall r s, In r rules -> In s rules -> covers r a b = true -> covers s a b = true -> kind r = kind s -> kv r = kv s) ->
  (forall r, In r rules -> covers r a b = true ->
     (forall s, In s rules -> covers s a b = true -> (kind r <= kind s)%nat) ->
     lookup_value (sort_rules rules) a b = kv r) /\
  ((forall r, In r rules -> covers r a b = false) -> lookup_value (sort_rules rules) a b = qc0).
Proof. exact lookup_most_specific_rule_wins. Qed.
Print Assumptions C05_most_specific_rule_wins.
