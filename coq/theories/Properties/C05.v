(* C05 -- generated kerning applies the UFO kerning value to every pair, once.
   (theorems are added to this file as they are proved; see Kern/ModelProofs.v) *)
From Coq Require Import QArith Qcanon.
From U2F Require Import Base.Prelude Geometry.Model Kern.Model Kern.ModelProofs Kern.UfoProofs Kern.Merge Kern.MergeProofs.
Open Scope Qc_scope.

Theorem C05_specific_pair_first_definition_wins : forall rules a b v,
  kassoc (a, b) (flat_map expand rules) = Some v -> lookup_value rules a b = v.
Proof. exact lookup_value_specific. Qed.
Print Assumptions C05_specific_pair_first_definition_wins.

Theorem C05_ufo_kern_glyph_pair_first : forall g1s g2s k a b v,
  kassoc (a, b) k = Some v -> ufo_kern g1s g2s k a b = v.
Proof. exact ufo_kern_glyph_glyph. Qed.
Print Assumptions C05_ufo_kern_glyph_pair_first.

(* the writer's ordering of rules (KerningPair.__lt__) puts glyph-glyph before glyph-class before
   class-glyph before class-class, whatever the input order *)
Theorem C05_rules_sorted_by_specificity : forall l, kind_sorted (sort_rules l).
Proof. exact sort_rules_kind_sorted. Qed.
Print Assumptions C05_rules_sorted_by_specificity.

(* in such a lookup (specific pairs first-definition-wins, then the class subtable) a pair gets the
   value of the first rule that covers it *)
Theorem C05_first_covering_rule_decides : forall rules a b,
  kind_sorted rules ->
  lookup_value rules a b = match find (fun r => covers r a b) rules with Some r => kv r | None => qc0 end.
Proof. exact lookup_first_cover. Qed.
Print Assumptions C05_first_covering_rule_decides.

(* hence UFO precedence: the most specific covering rule decides, 0 when none covers -- for every
   rule list in which equally specific covering rules agree (one entry per key, a glyph in at most
   one group per side) *)
Theorem C05_most_specific_rule_wins : forall rules a b,
  (forall r s, In r rules -> In s rules -> covers r a b = true -> covers s a b = true -> kind r = kind s -> kv r = kv s) ->
  (forall r, In r rules -> covers r a b = true ->
     (forall s, In s rules -> covers s a b = true -> (kind r <= kind s)%nat) ->
     lookup_value (sort_rules rules) a b = kv r) /\
  ((forall r, In r rules -> covers r a b = false) -> lookup_value (sort_rules rules) a b = qc0).
Proof. exact lookup_most_specific_rule_wins. Qed.
Print Assumptions C05_most_specific_rule_wins.

(* THE CONNECTION TO THE UFO: for every kerning dictionary over valid groups (distinct group names,
   pairwise disjoint members per side, group names that are not glyph names, one entry per key) and
   every pair of glyphs of the font, the lookup compiled from the writer's pair list -- pairs naming
   unknown glyphs dropped, zero class/class pairs dropped, values quantised, rules sorted -- gives
   the pair exactly its UFO kerning value (glyph/glyph, then glyph/group, then group/glyph, then
   group/group, else 0), quantised. *)
Theorem C05_compiled_lookup_is_ufo_kerning : forall g1s g2s gl q k,
  wf_ufo g1s g2s gl k -> forall a b, mem a gl = true -> mem b gl = true ->
  lookup_value (sort_rules (kerning_pairs g1s g2s gl q k)) a b = quantize (ufo_kern g1s g2s k a b) q.
Proof. exact lookup_is_ufo_kerning. Qed.
Print Assumptions C05_compiled_lookup_is_ufo_kerning.

(* the groups the writer itself builds (getKerningGroups: pruned to the glyph set, a group skipped when a
   member already belongs to an accepted one, first definition of a name wins) always are valid groups *)
Theorem C05_writer_groups_are_valid : forall prefix gl gs, groups_ok (kerning_groups prefix gl gs).
Proof. exact kerning_groups_ok. Qed.
Print Assumptions C05_writer_groups_are_valid.

(* hence, with the writer's own groups, for EVERY font.groups dictionary *)
Theorem C05_compiled_lookup_is_ufo_kerning_for_any_groups : forall prefix1 prefix2 gl ufo_groups q k a b,
  let g1s := kerning_groups prefix1 gl ufo_groups in
  let g2s := kerning_groups prefix2 gl ufo_groups in
  (forall g, mem g gl = true -> assoc g g1s = None /\ assoc g g2s = None) ->
  NoDup (map fst k) -> mem a gl = true -> mem b gl = true ->
  lookup_value (sort_rules (kerning_pairs g1s g2s gl q k)) a b = quantize (ufo_kern g1s g2s k a b) q.
Proof. exact lookup_is_ufo_kerning_pruned_groups. Qed.
Print Assumptions C05_compiled_lookup_is_ufo_kerning_for_any_groups.

(* the hypotheses are satisfiable and the statement is not vacuous: glyphs 1,2,3; group 10 = {1} on side 1,
   group 20 = {2,3} on side 2; entries (10,20) = -50, (1,3) = 7: pair (1,2) gets the class value, (1,3) the exception *)
Example C05_ufo_example :
  let g1s := [([10%Z], [[1%Z]])] in let g2s := [([20%Z], [[2%Z]; [3%Z]])] in
  let gl := [[1%Z]; [2%Z]; [3%Z]] in
  let k := [(([10%Z], [20%Z]), Q2Qc (-50)); (([1%Z], [3%Z]), Q2Qc 7)] in
  lookup_value (sort_rules (kerning_pairs g1s g2s gl qc1 k)) [1%Z] [2%Z] = Q2Qc (-50) /\
  lookup_value (sort_rules (kerning_pairs g1s g2s gl qc1 k)) [1%Z] [3%Z] = Q2Qc 7 /\
  ufo_kern g1s g2s k [1%Z] [2%Z] = Q2Qc (-50) /\ ufo_kern g1s g2s k [1%Z] [3%Z] = Q2Qc 7.
Proof. vm_compute. repeat split; reflexivity. Qed.
Print Assumptions C05_ufo_example.

(* ---- the script split (kernFeatureWriter.mergeScripts, transcribed in Kern/Merge.v) ---- *)
(* for every list of script-set keys: the merged sets are pairwise disjoint, every non-empty key lies inside one
   of them, and they hold nothing but input scripts *)
Theorem C05_merged_script_sets : forall keys,
  pairwise (merge_sets keys) /\
  (forall k, In k keys -> k <> [] -> exists y, In y (merge_sets keys) /\ incl k y) /\
  (forall y e, In y (merge_sets keys) -> In e y -> exists k, In k keys /\ In e k).
Proof. exact merge_sets_spec. Qed.
Print Assumptions C05_merged_script_sets.

(* so the re-assignment never fails for a non-empty key and the merged set it picks contains the WHOLE key:
   the pairs of a bucket end up in a lookup that carries every script of that bucket *)
Theorem C05_bucket_lands_under_all_its_scripts : forall keys k,
  In k keys -> k <> [] ->
  exists z, find (fun z => intersects z k) (merge_sets keys) = Some z /\ incl k z.
Proof. exact assignment_total_and_whole. Qed.
Print Assumptions C05_bucket_lands_under_all_its_scripts.

(* ---- which glyphs are marks for the kern writers: the user's GlyphClassDef, found in whichever GDEF block holds it ---- *)
From U2F Require Import Fea.GdefTodo Fea.Tables Fea.TablesProofs.

Theorem C05_user_mark_class_found_in_any_gdef_block : forall pre l,
  (forall b, In b (gdef_bodies pre) -> first_classdef b = None) -> gdef_classes (pre ++ l) = gdef_classes l.
Proof. exact gdef_classes_skips_blocks_without_classdef. Qed.
Print Assumptions C05_user_mark_class_found_in_any_gdef_block.

Example C05_classes_in_second_block :
  gdef_classes [TOther; TBlock GDEF [TStmt GCaretByPos]; TBlock [104]%Z []; TBlock GDEF [TStmt GAttach; TClassDef 7]] = Some 7%Z
  /\ find_table GDEF [TBlock [104]%Z []; TBlock GDEF [TClassDef 1]] = Some [TClassDef 1%Z].
Proof. exact classes_in_second_block. Qed.
Print Assumptions C05_classes_in_second_block.

(* ---- kerning is registered through featureWriters/ast.addLookupReferences: AS TRANSLATED from /repo's current source
   (Generated/FeaGen.v, Fea/LookupRefsTied.v), the script's default language system and EVERY language listed for it -- wherever
   `dflt` stands in the list -- reach exactly the kerning lookups ---- *)
From Coq Require Import List.
From U2F Require Import Fea.LookupRefs Generated.FeaGen Fea.LookupRefsTied.

Theorem C05_code_kerning_lookups_reach_every_listed_language : forall lookups s languages l,
  s <> nil -> l = dflt \/ In l languages ->
  ls_get (read (tr_add_lookup_refs nil lookups (Some s) languages false)) l = Some lookups.
Proof. exact code_every_listed_language_reaches_the_lookups. Qed.
Print Assumptions C05_code_kerning_lookups_reach_every_listed_language.
