(* C20 -- generated positioning features are reachable from every registered script. *)
From U2F Require Import Base.Prelude Fea.Reach Fea.ReachProofs.
Open Scope Z_scope.

Theorem C20_reachable_if_script_is_declared : forall i t f,
  declared i t = true -> In f (ri_plain i) -> In f (default_langsys_features i t).
Proof. exact reach_if_declared. Qed.
Print Assumptions C20_reachable_if_script_is_declared.

Theorem C20_holds_when_all_kerning_scripts_are_declared : forall i,
  (forall t, In t (ri_kern_tags i ++ ri_dist_tags i) -> declared i t = true) ->
  spec_C20 (ri_plain i) (model_scripts i) = true.
Proof. exact model_satisfies_spec_if_all_declared. Qed.
Print Assumptions C20_holds_when_all_kerning_scripts_are_declared.

(* the full statement is false of the faithful model (known finding F6) *)
Theorem C20_refuted_without_languagesystem :
  let i := mkRI [] [T_DFLT; [108;97;116;110]] [] [[109;97;114;107]] in
  spec_C20 (ri_plain i) (model_scripts i) = false.
Proof. exact reach_refuted. Qed.
Print Assumptions C20_refuted_without_languagesystem.

(* ---- kerning between scripts: the lookup of a pair's bucket is registered under EVERY script of that bucket ----
   (kernFeatureWriter.mergeScripts, Kern/Merge.v: the merged set a bucket is assigned to contains the whole bucket key) *)
From U2F Require Import Kern.Merge Kern.MergeProofs.

Theorem C20_cross_script_bucket_registered_under_all_its_scripts : forall keys k,
  In k keys -> k <> [] ->
  exists z, find (fun z => intersects z k) (merge_sets keys) = Some z /\ incl k z.
Proof. exact assignment_total_and_whole. Qed.
Print Assumptions C20_cross_script_bucket_registered_under_all_its_scripts.

(* ---- registering lookups under a script's languages (featureWriters/ast.addLookupReferences, Fea/LookupRefs.v) ---- *)
From U2F Require Import Fea.LookupRefs Fea.LookupRefsProofs.

Theorem C20_every_listed_language_reaches_the_lookups : forall lookups s languages l,
  l = dflt \/ In l languages ->
  ls_get (read (add_lookup_references lookups (Some s) languages false)) l = Some lookups.
Proof. exact every_listed_language_reaches_the_lookups. Qed.
Print Assumptions C20_every_listed_language_reaches_the_lookups.

Theorem C20_without_script_plain_references : forall lookups languages ex,
  add_lookup_references lookups None languages ex = refs lookups.
Proof. exact no_script_plain_references. Qed.
Print Assumptions C20_without_script_plain_references.

Example C20_named_language_listed_first :
  let trk := [84; 82; 75; 32]%Z in let k := [107]%Z in
  read (add_lookup_references [k] (Some [108]%Z) [trk; dflt] false) = [(dflt, [k]); (trk, [k])].
Proof. exact named_language_first. Qed.
Print Assumptions C20_named_language_listed_first.

Example C20_exclude_dflt :
  let a := [65]%Z in let b := [66]%Z in let k := [107]%Z in
  read (add_lookup_references [k] (Some [115]%Z) [a; b] true) = [(a, [k]); (b, [k])].
Proof. exact exclude_dflt_example. Qed.
Print Assumptions C20_exclude_dflt.

(* ---- the same statements about the code AS TRANSLATED from /repo's current source (Generated/FeaGen.v:
   featureWriters/ast.addLookupReferences; Fea/LookupRefsTied.v proves the translation equal to the model) ---- *)
From U2F Require Import Generated.FeaGen Fea.LookupRefsTied.

Theorem C20_translated_addLookupReferences_is_the_model : forall out lookups script languages ex,
  script <> Some [] ->
  tr_add_lookup_refs out lookups script languages ex = out ++ add_lookup_references lookups script languages ex.
Proof. exact translated_add_lookup_refs_is_the_model. Qed.
Print Assumptions C20_translated_addLookupReferences_is_the_model.

Theorem C20_code_every_listed_language_reaches_the_lookups : forall lookups s languages l,
  s <> [] -> l = dflt \/ In l languages ->
  ls_get (read (tr_add_lookup_refs [] lookups (Some s) languages false)) l = Some lookups.
Proof. exact code_every_listed_language_reaches_the_lookups. Qed.
Print Assumptions C20_code_every_listed_language_reaches_the_lookups.

Theorem C20_code_without_script_plain_references : forall out lookups languages ex,
  tr_add_lookup_refs out lookups None languages ex = out ++ refs lookups.
Proof. exact code_no_script_plain_references. Qed.
Print Assumptions C20_code_without_script_plain_references.
