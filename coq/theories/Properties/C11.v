(* C11 -- production names rename glyphs and change nothing else. *)
From U2F Require Import Base.Prelude Generated.Constants Order.ProdNames Order.ProdNamesProofs.
Open Scope Z_scope.

(* final names are unique: one fresh name per glyph of the glyph set, in glyph order *)
Theorem C11_production_names_distinct : forall gs ps order m,
  rename_map gs ps order [] = Some m ->
  NoDup (map snd m) /\ map fst m = filter (fun n => mem n (keys gs)) order.
Proof. exact rename_names_distinct. Qed.
Print Assumptions C11_production_names_distinct.

Theorem C11_unique_name_is_fresh : forall name seen r seen',
  unique_name name seen = Some (r, seen') ->
  assoc r seen = None /\ assoc r seen' <> None /\ (forall k, assoc k seen <> None -> assoc k seen' <> None).
Proof. exact unique_name_fresh. Qed.
Print Assumptions C11_unique_name_is_fresh.

(* renaming glyphs by an injective map leaves every glyph at its index, hence
   cmap, GSUB, GPOS, metrics and outlines refer to the same glyph indices *)
Theorem C11_rename_preserves_glyph_index : forall (rho : str -> str) order n,
  (forall a b, In a order -> In b order -> rho a = rho b -> a = b) ->
  In n order -> index_of (rho n) (map rho order) = index_of n order.
Proof. exact rename_preserves_index. Qed.
Print Assumptions C11_rename_preserves_glyph_index.

(* only characters legal in PostScript glyph names survive (class read from the source) *)
Theorem C11_stripped_names_are_legal : forall s, forallb legal_char (strip_invalid s) = true.
Proof. exact strip_legal. Qed.
Print Assumptions C11_stripped_names_are_legal.

Theorem C11_names_decision_table : forall arg keep_lib use_lib dont_lib has_ps is_cff1,
  (arg = Some true -> names_decision arg keep_lib use_lib dont_lib has_ps is_cff1 = RenameToProduction) /\
  (arg = Some false -> names_decision arg keep_lib use_lib dont_lib has_ps is_cff1 = KeepNames) /\
  (arg = None -> keep_lib = Some false ->
     names_decision arg keep_lib use_lib dont_lib has_ps is_cff1 = if is_cff1 then DropUnsupportedCFF1 else DropNames).
Proof. exact names_decision_spec. Qed.
Print Assumptions C11_names_decision_table.

Example C11_examples :
  prod_name 10 [([97], Some 97); ([102], Some 102); ([105], Some 105); ([102;95;105], None); ([97;46;115;99], None)] [97;46;115;99]
    = [117;110;105;48;48;54;49;46;115;99] /\
  prod_name 10 [([102], Some 102); ([105], Some 105); ([102;95;105], None)] [102;95;105]
    = [117;110;105;48;48;54;54;48;48;54;57].
Proof. exact prod_name_examples. Qed.
Print Assumptions C11_examples.
