(* C11 -- production names rename glyphs and change nothing else. *)
From U2F Require Import Base.Prelude Generated.Constants Order.ProdNames Order.ProdNamesProofs Order.Agl Order.AglProofs.
Open Scope Z_scope.

(* final names are unique: one fresh name per glyph of the glyph set, in glyph order *)
Theorem C11_production_names_distinct : forall gs ps order m,
  rename_map gs ps order [] = Some m ->
  NoDup (map snd m) /\ map fst m = filter (fun n => mem n (keys gs)) order.
Proof. exact rename_names_distinct. Qed.
Print Assumptions C11_production_names_distinct.

Theorem C11_unique_name_is_fresh : forall name seen r seen',
  unique_name name seen = Some (r, seen') ->
  assoc r seen = None /\ assoc r seen' <> None /\ (forall k, assoc k seen <> None -> assoc k seen' <> None).
Proof. exact unique_name_fresh. Qed.
Print Assumptions C11_unique_name_is_fresh.

(* renaming glyphs by an injective map leaves every glyph at its index, hence
   cmap, GSUB, GPOS, metrics and outlines refer to the same glyph indices *)
Theorem C11_rename_preserves_glyph_index : forall (rho : str -> str) order n,
  (forall a b, In a order -> In b order -> rho a = rho b -> a = b) ->
  In n order -> index_of (rho n) (map rho order) = index_of n order.
Proof. exact rename_preserves_index. Qed.
Print Assumptions C11_rename_preserves_glyph_index.

(* only characters legal in PostScript glyph names survive (class read from the source) *)
Theorem C11_stripped_names_are_legal : forall s, forallb legal_char (strip_invalid s) = true.
Proof. exact strip_legal. Qed.
Print Assumptions C11_stripped_names_are_legal.

Theorem C11_names_decision_table : forall arg keep_lib use_lib dont_lib has_ps is_cff1,
  (arg = Some true -> names_decision arg keep_lib use_lib dont_lib has_ps is_cff1 = RenameToProduction) /\
  (arg = Some false -> names_decision arg keep_lib use_lib dont_lib has_ps is_cff1 = KeepNames) /\
  (arg = None -> keep_lib = Some false ->
     names_decision arg keep_lib use_lib dont_lib has_ps is_cff1 = if is_cff1 then DropUnsupportedCFF1 else DropNames).
Proof. exact names_decision_spec. Qed.
Print Assumptions C11_names_decision_table.

Example C11_examples :
  prod_name 10 [([97], Some 97); ([102], Some 102); ([105], Some 105); ([102;95;105], None); ([97;46;115;99], None)] [97;46;115;99]
    = [117;110;105;48;48;54;49;46;115;99] /\
  prod_name 10 [([102], Some 102); ([105], Some 105); ([102;95;105], None)] [102;95;105]
    = [117;110;105;48;48;54;54;48;48;54;57].
Proof. exact prod_name_examples. Qed.
Print Assumptions C11_examples.

(* ---- generated names read back (Adobe glyph-naming rules; Order/Agl.v) ---- *)
(* "%04X" printing and parsing are inverse: n printed digits parse to the value *)
Theorem C11_hex_roundtrip : forall n v, 0 <= v < 16 ^ Z.of_nat n -> hex_val (hex_n n v) = Some v.
Proof. exact hex_val_hex_n. Qed.
Print Assumptions C11_hex_roundtrip.

(* the generated name of every BMP code point decodes to that code point ... *)
Theorem C11_uni_name_decodes_bmp : forall u, 0 <= u <= 65535 -> agl_component (uni_name u) = Some [u].
Proof. exact uni_name_decodes_bmp. Qed.
Print Assumptions C11_uni_name_decodes_bmp.

(* ... so does the one of every supplementary code point ("u" + 5 or 6 digits) ... *)
Theorem C11_uni_name_decodes_supplementary : forall u, 65535 < u <= 1114111 -> agl_component (uni_name u) = Some [u].
Proof. exact uni_name_decodes_supplementary. Qed.
Print Assumptions C11_uni_name_decodes_supplementary.

(* ... and a ligature name "uni" + four digits per part decodes to the sequence of its parts' code points *)
Theorem C11_ligature_name_decodes : forall vs,
  Forall (fun v => 0 <= v <= 65535) vs -> agl_component (UNI ++ flat_map (hex_n 4) vs) = Some vs.
Proof. exact uni_ligature_decodes. Qed.
Print Assumptions C11_ligature_name_decodes.

(* hence: the name generated for any encoded glyph (no lib-supplied name) reads back as its code point *)
Theorem C11_generated_name_of_encoded_glyph_decodes : forall fuel gs name u,
  uni_of gs name = Some u -> 0 <= u <= 1114111 -> agl_component (prod_name fuel gs name) = Some [u].
Proof. exact prod_name_encoded_decodes. Qed.
Print Assumptions C11_generated_name_of_encoded_glyph_decodes.
