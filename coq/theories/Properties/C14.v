(* C14 -- filters touch only what they are asked to and report what they changed.
   The driver BaseFilter.__call__ is modelled over an arbitrary per-glyph filter body. That real
   filter objects carry no hidden state and do not write to the source font is runtime behaviour:
   observed by the check on every shipped filter, not provable on a pure model. *)
From U2F Require Import Base.Prelude Geometry.Model Geometry.Cff Geometry.Filters Filters.Framework Filters.FrameworkProofs
     Geometry.SkipProofs.

(* whatever the per-glyph body does, a glyph the driver does not report is unchanged *)
Theorem C14_unreported_glyphs_are_unchanged : forall f include order gs k,
  ~ In k (snd (run_filter f include order gs)) ->
  assoc k (fst (run_filter f include order gs)) = assoc k gs.
Proof. exact unreported_unchanged. Qed.
Print Assumptions C14_unreported_glyphs_are_unchanged.

(* a glyph is reported only if it was visited while included *)
Theorem C14_only_included_glyphs_are_reported : forall f include st n k,
  In k (snd (visit f include st n)) ->
  In k (snd st) \/ (k = n /\ exists g, assoc n (fst st) = Some g /\ include n g = true).
Proof. exact visit_reports_included. Qed.
Print Assumptions C14_only_included_glyphs_are_reported.

Theorem C14_fresh_context_each_call : forall f include order gs,
  run_filter f include order gs = fold_left (visit f include) order (gs, []).
Proof. exact run_filter_fresh. Qed.
Print Assumptions C14_fresh_context_each_call.
