(* C14 -- filters touch only what they are asked to and report what they changed.
   The driver BaseFilter.__call__ is modelled over an arbitrary per-glyph filter body. That real
   filter objects carry no hidden state and do not write to the source font is runtime behaviour:
   observed by the check on every shipped filter, not provable on a pure model. *)
From U2F Require Import Base.Prelude Geometry.Model Geometry.Cff Geometry.Filters Filters.Framework Filters.FrameworkProofs
     Geometry.SkipProofs.

(* whatever the per-glyph body does, a glyph the driver does not report is unchanged *)
Theorem C14_unreported_glyphs_are_unchanged : forall f include order gs k,
  ~ In k (snd (run_filter f include order gs)) ->
  assoc k (fst (run_filter f include order gs)) = assoc k gs.
Proof. exact unreported_unchanged. Qed.
Print Assumptions C14_unreported_glyphs_are_unchanged.

(* a glyph is reported only if it was visited while included *)
Theorem C14_only_included_glyphs_are_reported : forall f include st n k,
  In k (snd (visit f include st n)) ->
  In k (snd st) \/ (k = n /\ exists g, assoc n (fst st) = Some g /\ include n g = true).
Proof. exact visit_reports_included. Qed.
Print Assumptions C14_only_included_glyphs_are_reported.

Theorem C14_fresh_context_each_call : forall f include order gs,
  run_filter f include order gs = fold_left (visit f include) order (gs, []).
Proof. exact run_filter_fresh. Qed.
Print Assumptions C14_fresh_context_each_call.

(* ---- per-master filter objects merged into one interpolatable filter (Filters/FilterMerge.v): which glyphs a filter handed to the interpolatable pre-processors touches ---- *)
From U2F Require Import Filters.FilterMerge Filters.FilterMergeProofs.

Theorem C14_merged_filter_includes_the_union : forall h fs m g,
  try_merge h fs = Some m ->
  (merged_includes m g = true <-> exists f, In (Some f) fs /\ includes (pf_inc f) g = true).
Proof. exact merged_include_is_the_union. Qed.
Print Assumptions C14_merged_filter_includes_the_union.

Theorem C14_glyph_excluded_by_every_master_is_left_alone : forall h fs m g,
  try_merge h fs = Some m -> (forall f, In (Some f) fs -> includes (pf_inc f) g = false) -> merged_includes m g = false.
Proof. exact excluded_everywhere_is_left_alone. Qed.
Print Assumptions C14_glyph_excluded_by_every_master_is_left_alone.

Theorem C14_master_without_the_filter_is_immaterial : forall h a b, try_merge h (a ++ None :: b) = try_merge h (a ++ b).
Proof. exact missing_entry_anywhere. Qed.
Print Assumptions C14_master_without_the_filter_is_immaterial.

Theorem C14_merged_only_if_same_filter : forall h fs m f1 f2,
  try_merge h fs = Some m -> In (Some f1) fs -> In (Some f2) fs ->
  pf_class f1 = pf_class f2 /\ pf_options f1 = pf_options f2 /\ pf_pre f1 = pf_pre f2.
Proof. exact merged_only_if_same. Qed.
Print Assumptions C14_merged_only_if_same_filter.
