(* C12 -- CFF optimisation, subroutiniser and version never change what is drawn.
   Proved here: the decision logic (which combinations are supported and what is
   done to the table).  That the specialiser / subroutinisers / CFF2 converter
   preserve the drawing operations is fontTools/cffsubr/compreffor behaviour:
   observed on the implementation by the check, not modelled. *)
From U2F Require Import Base.Prelude Generated.Constants Cff.Decision Cff.DecisionProofs.
Open Scope Z_scope.

Theorem C12_only_unsupported_combination : forall optimize subr outv,
  In optimize [0; 1; 2] -> In outv [1; 2] ->
  (process_cff optimize subr 1 (Some outv) = NotImplemented <->
   (optimize = 2 /\ subr = Some Compreffor /\ outv = 2)).
Proof. exact process_cff_table. Qed.
Print Assumptions C12_only_unsupported_combination.

Theorem C12_supported_actions : forall optimize subr outv a,
  In optimize [0; 1; 2] -> In outv [1; 2] ->
  process_cff optimize subr 1 (Some outv) = a -> a <> NotImplemented ->
  (optimize < 2 /\ ((outv = 1 /\ a = Nothing) \/ (outv = 2 /\ a = ConvertToCFF2))) \/
  (optimize = 2 /\ exists b, a = Subroutinize b outv).
Proof. exact process_cff_supported. Qed.
Print Assumptions C12_supported_actions.

Theorem C12_specialize_threshold : specializes 0 = false /\ specializes 1 = true /\ specializes 2 = true.
Proof. exact specialize_threshold. Qed.
Print Assumptions C12_specialize_threshold.
