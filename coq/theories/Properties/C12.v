(* C12 -- CFF optimisation, subroutiniser and version never change what is drawn.
   Proved here: the decision logic (which combinations are supported and what is
   done to the table).  That the specialiser / subroutinisers / CFF2 converter
   preserve the drawing operations is fontTools/cffsubr/compreffor behaviour:
   observed on the implementation by the check, not modelled. *)
From U2F Require Import Base.Prelude Generated.Constants Cff.Decision Cff.DecisionProofs.
Open Scope Z_scope.

Theorem C12_only_unsupported_combination : forall optimize subr outv,
  In optimize [0; 1; 2] -> In outv [1; 2] ->
  (process_cff optimize subr 1 (Some outv) = NotImplemented <->
   (optimize = 2 /\ subr = Some Compreffor /\ outv = 2)).
Proof. exact process_cff_table. Qed.
Print Assumptions C12_only_unsupported_combination.

Theorem C12_supported_actions : forall optimize subr outv a,
  In optimize [0; 1; 2] -> In outv [1; 2] ->
  process_cff optimize subr 1 (Some outv) = a -> a <> NotImplemented ->
  (optimize < 2 /\ ((outv = 1 /\ a = Nothing) \/ (outv = 2 /\ a = ConvertToCFF2))) \/
  (optimize = 2 /\ exists b, a = Subroutinize b outv).
Proof. exact process_cff_supported. Qed.
Print Assumptions C12_supported_actions.

Theorem C12_specialize_threshold : specializes 0 = false /\ specializes 1 = true /\ specializes 2 = true.
Proof. exact specialize_threshold. Qed.
Print Assumptions C12_specialize_threshold.

(* ---- the advance a 'CFF ' table carries (the "identical advance widths" clause) ----
   getCharStringForGlyph encodes the advance relative to (defaultWidthX, nominalWidthX), setupTable_CFF writes those
   into the Private dict only when non-zero, a reader decodes with the Private dict (absent = 0): for EVERY advance
   (fractional too) and every pair of values -- computed by optimizeWidths or given in fontinfo -- the decoded advance is
   the rounded source advance, i.e. the hmtx one.  (CFF2 carries no widths in charstrings.) *)
From Coq Require Import QArith Qcanon.
From U2F Require Import Geometry.Model Cff.Width Cff.WidthProofs.

Theorem C12_cff_charstring_width_roundtrip : forall (w : Qc) (d n : Z), cff_advance w d n = otRound w.
Proof. exact cff_width_roundtrip. Qed.
Print Assumptions C12_cff_charstring_width_roundtrip.

Example C12_width_roundtrip_nontrivial :
  cff_advance (Q2Qc (999 # 2)) 0 543 = 500 /\ encode_width (Q2Qc (999 # 2)) 0 543 = Some (-43) /\
  cff_advance (qc_of_Z 0) 0 543 = 0 /\ encode_width (qc_of_Z 0) 0 543 = None.
Proof. exact roundtrip_nontrivial. Qed.
Print Assumptions C12_width_roundtrip_nontrivial.

(* writing nominalWidthX only under `if defaultWidthX:` (seeded change C12-sub4) loses the advance *)
Example C12_nested_private_write_refuted :
  decode_width (write_private_nested 0 543) (encode_width (qc_of_Z 620) 0 543) <> otRound (qc_of_Z 620).
Proof. exact nested_write_loses_the_advance. Qed.
Print Assumptions C12_nested_private_write_refuted.
