(* C01 -- CFF outlines and advances equal the source with components resolved. *)
From Coq Require Import QArith Qcanon Qround.
From U2F Require Import Base.Prelude Geometry.Model Geometry.ModelProofs Geometry.Cff Geometry.PassProofs.
Open Scope Qc_scope.

(* The pen chain driven by decomposeCompositeGlyph (flat, composed matrices,
   reversal by the sign of the composed determinant) yields exactly the nested
   resolved outline: own contours, then each component's resolved base under
   that component's matrix, reversed iff it mirrors.  Equality of contour
   lists: nothing lost, duplicated or reordered.  For every glyph set, depth
   and transform (non-singular matrices, closed well-formed contours). *)
Theorem C01_decompose_is_resolve : forall fuel gs g,
  wf_glyphset_P gs -> wf_glyph_P g ->
  decompose fuel gs g = resolve (S fuel) gs g.
Proof. exact decompose_resolve. Qed.
Print Assumptions C01_decompose_is_resolve.

(* The filter as BaseFilter drives it: glyph by glyph, IN PLACE (a base visited earlier is
   already flat when a later composite uses it), in whatever order the glyph set iterates.
   For every visiting order the pass raises nothing, keeps widths and anchors, and leaves every
   visited glyph without components, holding exactly its nested resolved outline. *)
Theorem C01_filter_pass_any_order : forall gs order,
  wf_glyphset_P gs ->
  (forall n g, assoc n gs = Some g -> resolve (S (fuel_for gs)) gs g <> None) ->
  exists gs', decompose_pass (fuel_for gs) order gs = Some gs' /\
    forall n g, assoc n gs = Some g ->
      exists g', assoc n gs' = Some g' /\ gwidth g' = gwidth g /\ ganchors g' = ganchors g /\
        (In n order -> gcomps g' = [] /\ Some (gcontours g') = resolve (S (fuel_for gs)) gs g).
Proof. exact decompose_pass_resolve. Qed.
Print Assumptions C01_filter_pass_any_order.

Theorem C01_nested_flat : forall fuel gs a g,
  wf_glyphset_P gs -> wf_glyph_P g -> det a <> qc0 ->
  deco fuel gs a g = option_map (map (place a)) (resolve fuel gs g).
Proof. exact deco_resolve. Qed.
Print Assumptions C01_nested_flat.

(* mirrored components: reversing twice restores the contour, reversal commutes
   with the affine map, determinants multiply *)
Theorem C01_reverse_involutive : forall c, wf_closed c -> rev_contour (rev_contour c) = c.
Proof. exact rev_contour_involutive. Qed.
Print Assumptions C01_reverse_involutive.

Theorem C01_reverse_commutes_with_affine : forall t c,
  rev_contour (aff_contour t c) = aff_contour t (rev_contour c).
Proof. exact rev_aff_commute. Qed.
Print Assumptions C01_reverse_commutes_with_affine.

Theorem C01_det_multiplicative : forall a t, det (compose a t) = det a * det t.
Proof. exact det_compose. Qed.
Print Assumptions C01_det_multiplicative.

Theorem C01_nested_transform_composes : forall a t p, aff_pnt (compose a t) p = aff_pnt a (aff_pnt t p).
Proof. exact aff_pnt_compose. Qed.
Print Assumptions C01_nested_transform_composes.

(* rounding: nearest integer, halves up *)
Theorem C01_otRound_half_up : forall q,
  (inject_Z (otRound q) - (1 # 2) <= this q)%Q /\ (this q < inject_Z (otRound q) + (1 # 2))%Q.
Proof. exact otRound_half_up. Qed.
Print Assumptions C01_otRound_half_up.

Theorem C01_otRound_fixes_integers : forall z, otRound (qc_of_Z z) = z.
Proof. exact otRound_integer. Qed.
Print Assumptions C01_otRound_fixes_integers.

From U2F Require Import Geometry.Examples.
(* non-vacuity: a glyph set with a mirrored component, a nested scaled composite and a mixed glyph meets the hypotheses,
   and on it both visiting orders of the pass give the nested outline (two contours for c) *)
Example C01_hypotheses_satisfiable : wf_glyphset_P ex_gs.
Proof. exact ex_wf. Qed.
Print Assumptions C01_hypotheses_satisfiable.
Example C01_pass_on_example :
  model_pass [n_a; n_b; n_c; n_d] ex_gs n_c = spec_resolved ex_gs n_c /\
  model_pass [n_c; n_d; n_b; n_a] ex_gs n_c = spec_resolved ex_gs n_c /\
  (exists r, spec_resolved ex_gs n_c = Some r /\ length r = 2%nat).
Proof. exact ex_pass. Qed.
Print Assumptions C01_pass_on_example.

(* ---- the CFF pre-processing pipeline, translated from /repo's current initDefaultFilters on every run ---- *)
From U2F Require Import Filters.Pipeline Generated.Pipelines Filters.PipelineProofs.
Theorem C01_pipeline_shape : forall o,
  kinds (otf_default_filters o) =
  (if color_font o then [ExplodeColorLayerGlyphs] else []) ++ [DecomposeComponents] ++
  (if removeOverlaps o then [RemoveOverlaps] else []).
Proof. exact otf_pipeline_shape. Qed.
Print Assumptions C01_pipeline_shape.

Theorem C01_overlaps_removed_iff_requested : forall o, has RemoveOverlaps (otf_default_filters o) = removeOverlaps o.
Proof. exact otf_overlaps_iff_requested. Qed.
Print Assumptions C01_overlaps_removed_iff_requested.

Theorem C01_naming_a_backend_changes_nothing : forall o b,
  removeOverlaps o = false -> otf_default_filters (with_backend b o) = otf_default_filters o.
Proof. exact otf_backend_alone_changes_nothing. Qed.
Print Assumptions C01_naming_a_backend_changes_nothing.

Theorem C01_every_composite_is_decomposed : forall o, In (DecomposeComponents, []) (otf_default_filters o).
Proof. exact otf_decomposes_everything. Qed.
Print Assumptions C01_every_composite_is_decomposed.

Theorem C01_pipeline_fully_translated : forall o,
  has UnknownFilter (otf_default_filters o) = false /\ has UnknownFilter (ttf_default_filters o) = false.
Proof. exact pipelines_fully_translated. Qed.
Print Assumptions C01_pipeline_fully_translated.

Example C01_default_pipeline : kinds (otf_default_filters otf_defaults) = [DecomposeComponents].
Proof. exact otf_default_is_decompose_only. Qed.
Print Assumptions C01_default_pipeline.
