(* C06 -- generated mark features make matching anchors coincide. *)
From Coq Require Import List Permutation.
From U2F Require Import Base.Prelude Geometry.Model Kern.Model Mark.Model Mark.ModelProofs Mark.Color Mark.ColorProofs.
Open Scope Z_scope.

Theorem C06_no_matching_anchor_no_attachment : forall i bn mn comp b m,
  find_glyph i bn = Some b -> find_glyph i mn = Some m -> candidates i b m comp = [] ->
  forall got, check_attach i (bn, mn, comp, got) = 0 <-> got = None.
Proof. exact only_paired_attach. Qed.
Print Assumptions C06_no_matching_anchor_no_attachment.

Theorem C06_attachment_is_a_source_candidate : forall i bn mn comp b m off,
  find_glyph i bn = Some b -> find_glyph i mn = Some m ->
  check_attach i (bn, mn, comp, Some off) = 0 ->
  exists c, In c (candidates i b m comp) /\ zz_eqb off c = true.
Proof. exact attach_is_candidate. Qed.
Print Assumptions C06_attachment_is_a_source_candidate.

Theorem C06_candidate_is_base_minus_mark_anchor : forall i b m comp off,
  In off (candidates i b m comp) ->
  exists ab am pb pm,
    In ab (mg_anchors b) /\ In am (mg_anchors m) /\ usable ab = Some pb /\ usable am = Some pm /\
    p_mark pb = false /\ p_mark pm = true /\ p_key pm = p_key pb /\ p_number pb = comp /\
    off = (qround (mi_quant i) (ma_x ab) - qround (mi_quant i) (ma_x am),
           qround (mi_quant i) (ma_y ab) - qround (mi_quant i) (ma_y am)).
Proof. exact candidate_is_anchor_difference. Qed.
Print Assumptions C06_candidate_is_base_minus_mark_anchor.

Example C06_parse_examples :
  parse_anchor_name [116;111;112] = P_ok (mkParsed false [116;111;112] None false false) /\
  parse_anchor_name [95;116;111;112] = P_ok (mkParsed true [116;111;112] None false false) /\
  parse_anchor_name [116;111;112;95;50] = P_ok (mkParsed false [116;111;112] (Some 2) false false) /\
  parse_anchor_name [95;116;111;112;95;49] = P_mark_numbered /\
  parse_anchor_name [95] = P_nil_key /\
  parse_anchor_name [95;49] = P_ok (mkParsed false [] (Some 1) false false).
Proof. exact parse_examples. Qed.
Print Assumptions C06_parse_examples.

(* grouping mark classes into lookups (groupMarkClasses): the greedy colouring of the conflict graph never puts two
   conflicting classes (classes sharing a mark glyph) into one group, and every class is in a group -- for every
   symmetric, loop-free graph given as a dict *)
Theorem C06_conflicting_mark_classes_are_separated : forall adj,
  symmetric adj -> irreflexive adj -> NoDup (keys adj) ->
  proper adj (color_all adj) /\ Permutation (keys (color_all adj)) (keys adj).
Proof. exact color_all_proper. Qed.
Print Assumptions C06_conflicting_mark_classes_are_separated.

(* the colour taken is the least one no coloured neighbour has *)
Theorem C06_first_available_is_least : forall used,
  ~ In (first_avail used) used /\ (forall k, (k < first_avail used)%nat -> In k used).
Proof. exact first_avail_least. Qed.
Print Assumptions C06_first_available_is_least.

(* ---- into which mark class the marks of one anchor go (MarkFeatureWriter._makeMarkClassDefinitions) ----
   For ANY classes the feature file already defines -- also under the name the writer generates, with stale anchors -- and
   any candidate-name scheme that never repeats a name: every mark of the anchor is, with its own (rounded) anchor, in the
   ONE class recorded for that anchor, which is the class the generated base / ligature / mark-to-mark statements reference. *)
From U2F Require Import Mark.MarkClasses Mark.MarkClassesProofs.

Theorem C06_marks_of_an_anchor_share_the_recorded_class : forall cand,
  (forall name i j, cand name i = cand name j -> i = j) ->
  forall marks cname cls, NoDup (map fst marks) -> anchor_ok marks (process_anchor cand marks cname cls) = true.
Proof. exact process_anchor_ok. Qed.
Print Assumptions C06_marks_of_an_anchor_share_the_recorded_class.

Theorem C06_fresh_class_name_exists : forall cand,
  (forall name i j, cand name i = cand name j -> i = j) ->
  forall name cls, assoc (make_unique cand name cls) cls = None.
Proof. exact make_unique_fresh. Qed.
Print Assumptions C06_fresh_class_name_exists.

(* repaired defect F20: without the pre-check the recorded class misses the marks defined before the clash *)
Example C06_class_clash_before_repair_refuted :
  let cls := [([1%Z], [([12%Z], (0%Z, 0%Z))])] in let marks := [([11%Z], (5%Z, 5%Z)); ([12%Z], (7%Z, 7%Z))] in
  anchor_ok marks (process_anchor_old cand_ex marks [1%Z] cls) = false /\
  anchor_ok marks (process_anchor cand_ex marks [1%Z] cls) = true.
Proof. exact old_code_refuted. Qed.
Print Assumptions C06_class_clash_before_repair_refuted.
