(* C18 -- GDEF classes, ligature carets and cursive anchors mirror the UFO data. *)
From U2F Require Import Base.Prelude Geometry.Model Kern.Model Mark.Model Mark.Gdef Mark.GdefProofs.
Open Scope Z_scope.

Theorem C18_classes_are_categories_of_exported_glyphs : forall glyphset cats g c,
  In (g, c) (expected_classes glyphset cats) -> In g glyphset /\ assoc g cats = Some c /\ 1 <= c <= 4.
Proof. exact classes_restricted. Qed.
Print Assumptions C18_classes_are_categories_of_exported_glyphs.

Theorem C18_every_categorised_exported_glyph_is_classified : forall glyphset cats g c,
  In g glyphset -> assoc g cats = Some c -> 1 <= c <= 4 -> In (g, c) (expected_classes glyphset cats).
Proof. exact classes_complete. Qed.
Print Assumptions C18_every_categorised_exported_glyph_is_classified.

Theorem C18_carets_in_increasing_order : forall g, Sorted Z.le (expected_carets g).
Proof. exact carets_increasing. Qed.
Print Assumptions C18_carets_in_increasing_order.

Theorem C18_carets_are_rounded_anchor_coordinates : forall g z,
  In z (expected_carets g) -> exists q, In q (caret_coords (mg_anchors g)) /\ z = otRound q.
Proof. exact carets_from_source. Qed.
Print Assumptions C18_carets_are_rounded_anchor_coordinates.

Theorem C18_cursive_right_to_left_flag : forall gs ltr rtl g en ex,
  In (rtl, g, en, ex) (expected_cursive gs ltr) ->
  exists suf, In suf (cursive_suffixes gs) /\
    rtl = (if has_suffix DOT_LTR suf then false
           else if has_suffix DOT_RTL suf then true
           else match ltr with [] => true | _ => negb (mem g ltr) end).
Proof. exact curs_flag_spec. Qed.
Print Assumptions C18_cursive_right_to_left_flag.
