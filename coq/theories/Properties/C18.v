(* C18 -- GDEF classes, ligature carets and cursive anchors mirror the UFO data. *)
From U2F Require Import Base.Prelude Geometry.Model Kern.Model Mark.Model Mark.Gdef Mark.GdefProofs.
Open Scope Z_scope.

Theorem C18_classes_are_categories_of_exported_glyphs : forall glyphset cats g c,
  In (g, c) (expected_classes glyphset cats) -> In g glyphset /\ assoc g cats = Some c /\ 1 <= c <= 4.
Proof. exact classes_restricted. Qed.
Print Assumptions C18_classes_are_categories_of_exported_glyphs.

Theorem C18_every_categorised_exported_glyph_is_classified : forall glyphset cats g c,
  In g glyphset -> assoc g cats = Some c -> 1 <= c <= 4 -> In (g, c) (expected_classes glyphset cats).
Proof. exact classes_complete. Qed.
Print Assumptions C18_every_categorised_exported_glyph_is_classified.

Theorem C18_carets_in_increasing_order : forall g, Sorted Z.le (expected_carets g).
Proof. exact carets_increasing. Qed.
Print Assumptions C18_carets_in_increasing_order.

Theorem C18_carets_are_rounded_anchor_coordinates : forall g z,
  In z (expected_carets g) -> exists q, In q (caret_coords (mg_anchors g)) /\ z = otRound q.
Proof. exact carets_from_source. Qed.
Print Assumptions C18_carets_are_rounded_anchor_coordinates.

Theorem C18_cursive_right_to_left_flag : forall gs ltr rtl g en ex,
  In (rtl, g, en, ex) (expected_cursive gs ltr) ->
  exists suf, In suf (cursive_suffixes gs) /\
    rtl = (if has_suffix DOT_LTR suf then false
           else if has_suffix DOT_RTL suf then true
           else match ltr with [] => true | _ => negb (mem g ltr) end).
Proof. exact curs_flag_spec. Qed.
Print Assumptions C18_cursive_right_to_left_flag.

(* ---- which glyphs are "of a left-to-right script": util.classifyGlyphs ----
   Environment assumption (a hypothesis of the theorems, not an axiom): the fontTools subsetter's GSUB closure `gclose`
   is reachability over the table's rules G -- a rule (inputs, output) fires when ALL its inputs are present (one input
   for single / alternate substitutions, several for ligatures).  X: designspace rule substitutions.  L: glyphs the cmap
   maps left-to-right characters to, N: glyphs of neutral characters. *)
From U2F Require Import Mark.Direction Mark.DirectionProofs.

Theorem C18_classified_glyphs_are_reachable : forall G gclose,
  (forall S g, In g (gclose S) <-> reach G S g) ->
  forall X b L N g, In g (classify gclose X b L N) -> reach ((if b then G else []) ++ as_rules X) (L ++ N) g.
Proof. intros G gclose H X b L N g. exact (classify_sound G gclose H X b L N g). Qed.
Print Assumptions C18_classified_glyphs_are_reachable.

Theorem C18_classification_is_reachability : forall G gclose,
  (forall S g, In g (gclose S) <-> reach G S g) ->
  (forall ins b, In (ins, b) G -> ins <> []) ->
  forall X b L g, In g (classify gclose X b L []) <-> reach ((if b then G else []) ++ as_rules X) L g.
Proof. intros G gclose H Hi X b L g. exact (classify_is_reachability G gclose H X Hi b L g). Qed.
Print Assumptions C18_classification_is_reachability.

Theorem C18_rule_substitutes_are_classified : forall G gclose,
  (forall S g, In g (gclose S) <-> reach G S g) ->
  forall X b L N a s, In a L -> In (a, s) X -> In s (classify gclose X b L N).
Proof. intros G gclose H X b L N a s. exact (classify_contains_rule_substitutes G gclose H X b L N a s). Qed.
Print Assumptions C18_rule_substitutes_are_classified.

Theorem C18_cursive_lookups_partition_by_direction : forall classified anchored g,
  In g anchored ->
  (In g (fst (split_lookups classified anchored)) /\ ~ In g (snd (split_lookups classified anchored)) /\ In g classified) \/
  (In g (snd (split_lookups classified anchored)) /\ ~ In g (fst (split_lookups classified anchored)) /\ ~ In g classified).
Proof. exact split_partition. Qed.
Print Assumptions C18_cursive_lookups_partition_by_direction.

(* repaired defect F24: applying the rule substitutions once misses n.alt.sc (rule n -> n.alt, GSUB n.alt -> n.alt.sc) *)
Example C18_single_pass_incomplete_refuted :
  let n := [1%Z] in let n_alt := [2%Z] in let n_alt_sc := [3%Z] in
  let G : list rule := [([n_alt], n_alt_sc)] in let X := [(n, n_alt)] in
  reach (G ++ as_rules X) [n] n_alt_sc /\ mem n_alt_sc (classify_once (closure G) X true [n] []) = false /\
  mem n_alt_sc (classify (closure G) X true [n] []) = true.
Proof. exact classify_once_incomplete_refuted. Qed.
Print Assumptions C18_single_pass_incomplete_refuted.

(* a ligature of a left-to-right letter and a neutral glyph is classified because the neutral glyphs take part in the closure *)
Example C18_neutral_glyphs_take_part_in_the_closure :
  let f := [1%Z] in let hyphen := [2%Z] in let f_hyphen := [3%Z] in
  let G : list rule := [([f; hyphen], f_hyphen)] in
  mem f_hyphen (classify (closure G) [] true [f] [hyphen]) = true /\ mem f_hyphen (closure G [f]) = false.
Proof. exact neutral_glyphs_take_part_in_the_closure. Qed.
Print Assumptions C18_neutral_glyphs_take_part_in_the_closure.

(* ---- "left alone when the user's features define them", for a GDEF table written as several blocks (Fea/Tables.v) ---- *)
From U2F Require Import Fea.GdefTodo Fea.Tables Fea.TablesProofs.

Theorem C18_user_classes_in_any_block_are_left_alone : forall l b i hc hk,
  In (TBlock GDEF b) l -> In (TClassDef i) b -> td_classes (gdef_todo_of (user_gdef l) hc hk) = false.
Proof. exact classes_in_any_block_are_left_alone. Qed.
Print Assumptions C18_user_classes_in_any_block_are_left_alone.

Theorem C18_user_carets_in_any_block_are_left_alone : forall l b s hc hk,
  In (TBlock GDEF b) l -> In (TStmt s) b -> (s = GCaretByPos \/ s = GCaretByIndex) ->
  td_carets (gdef_todo_of (user_gdef l) hc hk) = false.
Proof. exact carets_in_any_block_are_left_alone. Qed.
Print Assumptions C18_user_carets_in_any_block_are_left_alone.
