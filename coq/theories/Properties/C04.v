(* C04 -- compiled fonts are serialisable and their derived fields are consistent. *)
From U2F Require Import Base.Prelude Metrics.Hmtx Metrics.HmtxProofs Metrics.Vorg Metrics.VorgProofs.
Open Scope Z_scope.

(* the metrics table, written with the pre-computed long-metric count, decodes
   back to the same per-glyph advances -- for every advance sequence *)
Theorem C04_hmtx_roundtrip : forall advs,
  hmtx_decode (hmtx_encode advs (num_long advs)) (length advs) = advs.
Proof. exact hmtx_roundtrip. Qed.
Print Assumptions C04_hmtx_roundtrip.

(* and that count is the smallest possible *)
Theorem C04_long_metric_count_minimal : forall advs,
  advs <> [] ->
  (1 <= num_long advs <= length advs)%nat /\
  (num_long advs = 1%nat \/ nth (num_long advs - 2) advs 0 <> last advs 0).
Proof. exact num_long_minimal. Qed.
Print Assumptions C04_long_metric_count_minimal.

(* header fields are the extrema of their per-glyph formulas; 0 when no glyph has an outline *)
Theorem C04_hhea_fields_are_extrema : forall l,
  let h := hhea_of l in let wb := with_box l in
  (l <> [] -> (exists g, In g l /\ adv g = advanceMax h) /\ forall g, In g l -> adv g <= advanceMax h) /\
  (wb = [] -> minFirst h = 0 /\ minSecond h = 0 /\ maxExtent h = 0) /\
  (forall g b, In (g, b) wb ->
     minFirst h <= lsb g /\ minSecond h <= adv g - lsb g - (xMax b - xMin b) /\
     lsb g + (xMax b - xMin b) <= maxExtent h).
Proof. exact hhea_extrema. Qed.
Print Assumptions C04_hhea_fields_are_extrema.

(* the font bounding box encloses every glyph box, and is 0,0,0,0 with none *)
Theorem C04_font_box_encloses : forall boxes b, In (Some b) boxes -> encloses (font_box boxes) b.
Proof. exact font_box_encloses. Qed.
Print Assumptions C04_font_box_encloses.

Theorem C04_font_box_empty : forall boxes,
  (forall ob, In ob boxes -> ob = None) -> font_box boxes = mkBox 0 0 0 0.
Proof. exact font_box_empty. Qed.
Print Assumptions C04_font_box_empty.

Example C04_num_long_example : num_long [500; 600; 300; 300; 300] = 3%nat /\ num_long [7; 7; 7] = 1%nat.
Proof. split; reflexivity. Qed.
Print Assumptions C04_num_long_example.

(* VORG: the default is a most frequent vertical origin (and one that occurs), reading the table back
   gives every glyph its own origin, and no record repeats the default -- for every glyph list *)
Theorem C04_vorg_default_most_frequent : forall l v, (zcount v l <= zcount (vorg_default l) l)%nat.
Proof. exact vorg_default_most_frequent. Qed.
Print Assumptions C04_vorg_default_most_frequent.

Theorem C04_vorg_default_occurs : forall l, l <> [] -> In (vorg_default l) l.
Proof. exact vorg_default_occurs. Qed.
Print Assumptions C04_vorg_default_occurs.

Theorem C04_vorg_roundtrip : forall gl n v,
  NoDup (map fst gl) -> In (n, v) gl ->
  vorg_lookup (vorg_records gl) (vorg_default (map snd gl)) n = v.
Proof. exact vorg_roundtrip. Qed.
Print Assumptions C04_vorg_roundtrip.

Theorem C04_vorg_records_minimal : forall gl n v,
  In (n, v) (vorg_records gl) -> v <> vorg_default (map snd gl) /\ In (n, v) gl.
Proof. exact vorg_records_minimal. Qed.
Print Assumptions C04_vorg_records_minimal.
