(* C03 -- Glyph order and character map follow the source exactly.
   Statements only; every proof is `exact <lemma>`. *)
From U2F Require Import Base.Prelude Generated.Constants Order.GlyphOrder Order.GlyphOrderProofs.
Open Scope Z_scope.

(* The compiled order is '.notdef', then the listed glyphs that exist (first
   occurrence, in that order), then the rest sorted by name. *)
Theorem C03_order_shape : forall keys order,
  compiled_glyph_order keys order = spec_compiled_order keys order.
Proof. exact compiled_order_spec. Qed.
Print Assumptions C03_order_shape.

(* each exported glyph exactly once *)
Theorem C03_order_exactly_once : forall keys order,
  NoDup keys -> Permutation (glyph_order keys order) keys /\ NoDup (glyph_order keys order).
Proof. exact glyph_order_perm. Qed.
Print Assumptions C03_order_exactly_once.

(* a code point declared twice is rejected, otherwise the mapping is exactly
   the declared pairs *)
Theorem C03_duplicate_rejected : forall glyphs,
  (exists m, u2g glyphs [] = U2G_ok m /\ m = pairs_of glyphs) <-> has_duplicate_cp glyphs = false.
Proof. exact u2g_error_iff_duplicate. Qed.
Print Assumptions C03_duplicate_rejected.

Theorem C03_cmap_sound_complete : forall glyphs cp g,
  NoDup (flat_map snd glyphs) ->
  (zassoc cp (pairs_of glyphs) = Some g <-> exists us, In (g, us) glyphs /\ In cp us).
Proof. exact u2g_sound_complete. Qed.
Print Assumptions C03_cmap_sound_complete.

(* BMP / non-BMP split; the thresholds are read from the source on every run *)
Theorem C03_cmap_bmp_split : forall m,
  cmap_nonbmp_gt = 65535 -> cmap_bmp_le = 65535 ->
  let t := make_cmap m in
  (forall kv, In kv (cmap4 t) <-> In kv m /\ fst kv <= 65535) /\
  match cmap12 t with
  | None => forall kv, In kv m -> fst kv <= 65535
  | Some t12 => (exists kv, In kv m /\ 65535 < fst kv) /\ forall kv, In kv t12 <-> In kv m
  end.
Proof. exact cmap_bmp_split. Qed.
Print Assumptions C03_cmap_bmp_split.

Theorem C03_uvs_default_iff_base : forall m e v,
  uvs_entry m e = Some v ->
  (snd v = None <-> zassoc (fst e) m = Some (snd e)) /\ fst v = fst e.
Proof. exact uvs_default_iff_base. Qed.
Print Assumptions C03_uvs_default_iff_base.

(* the whole model observation satisfies the executable specification that the
   check also applies to the implementation's observation *)
Theorem C03_model_satisfies_spec : forall keys order unicodes,
  spec_C03 keys order unicodes (model_C03 keys order unicodes) = true.
Proof. exact model_satisfies_spec_C03. Qed.
Print Assumptions C03_model_satisfies_spec.

(* ---- makeOfficialGlyphOrder as TRANSLATED from /repo's util.py on this run (Generated/Imp.v) ---- *)
From U2F Require Import Generated.Imp Order.GlyphOrderTied.

(* the code, statement by statement over (names, order), is the hand model ... *)
Theorem C03_code_glyph_order_is_the_model : forall keys order, tr_glyph_order keys order = glyph_order keys order.
Proof. exact translated_glyph_order_is_the_model. Qed.
Print Assumptions C03_code_glyph_order_is_the_model.

(* ... so the property's wording holds of the code as it reads now: '.notdef' first (it is always present once
   makeMissingRequiredGlyphs ran), then the listed names that exist, first occurrence only, then the rest sorted *)
Theorem C03_code_order_shape : forall keys order,
  tr_glyph_order (if mem notdef keys then keys else keys ++ [notdef]) order = spec_compiled_order keys order.
Proof. exact code_order_shape. Qed.
Print Assumptions C03_code_order_shape.

Theorem C03_code_order_exactly_once : forall keys order,
  NoDup keys -> Permutation (tr_glyph_order keys order) keys /\ NoDup (tr_glyph_order keys order).
Proof. exact code_order_exactly_once. Qed.
Print Assumptions C03_code_order_exactly_once.

Example C03_code_order_example :
  tr_glyph_order [[98]; notdef; [97]; [99]] [[99]; [120]; [99]; [97]] = [notdef; [99]; [97]; [98]].
Proof. exact code_order_example. Qed.
Print Assumptions C03_code_order_example.

(* ---- makeUnicodeToGlyphNameMapping as TRANSLATED from /repo's util.py on this run: nested loops over (glyph, code points), an
   insertion-ordered dict, and the raise ---- *)
Theorem C03_code_cmap_is_the_model : forall gl,
  tr_u2g gl = match u2g gl [] with U2G_ok m => inl m | U2G_dup cp g prev => inr (g, cp, prev) end.
Proof. exact translated_u2g_is_the_model. Qed.
Print Assumptions C03_code_cmap_is_the_model.

(* the code returns a mapping exactly when no code point is declared twice -- the (code point, glyph) pairs in glyph order --
   and raises exactly otherwise *)
Theorem C03_code_cmap_ok_iff_no_duplicate : forall gl, tr_u2g gl = inl (pairs_of gl) <-> has_duplicate_cp gl = false.
Proof. exact code_u2g_ok_iff_no_duplicate. Qed.
Print Assumptions C03_code_cmap_ok_iff_no_duplicate.

Theorem C03_code_cmap_raises_iff_duplicate : forall gl, (exists e, tr_u2g gl = inr e) <-> has_duplicate_cp gl = true.
Proof. exact code_u2g_raises_iff_duplicate. Qed.
Print Assumptions C03_code_cmap_raises_iff_duplicate.

Theorem C03_code_cmap_sound_complete : forall gl m cp g,
  tr_u2g gl = inl m -> (zassoc cp m = Some g <-> exists us, In (g, us) gl /\ In cp us).
Proof. exact code_cmap_sound_complete. Qed.
Print Assumptions C03_code_cmap_sound_complete.

Example C03_code_cmap_example :
  tr_u2g [([97], [97; 65]); ([98], [98])] = inl [(97, [97]); (65, [97]); (98, [98])] /\
  tr_u2g [([97], [97]); ([98], [98; 97])] = inr ([98], 97, [97]).
Proof. exact code_u2g_example. Qed.
Print Assumptions C03_code_cmap_example.

(* ---- unicode variation sequences -> cmap format 14 (Order/Uvs.v; setupTable_cmap after repair F34) ---- *)
From U2F Require Import Order.Uvs Order.UvsProofs.

(* every stored sequence comes from the lib, names an EXPORTED glyph, and is a default sequence exactly when that glyph is what
   the character map gives the base code point *)
Theorem C03_uvs_sound : forall glyphset m src vs l x,
  In (vs, l) (uvs_table glyphset m src) -> In x l ->
  exists seqs e, In (vs, seqs) src /\ In e seqs /\ mem (snd e) glyphset = true /\ fst x = fst e /\
                 (snd x = None <-> zassoc (fst e) m = Some (snd e)) /\ (forall g, snd x = Some g -> g = snd e).
Proof. exact uvs_table_sound. Qed.
Print Assumptions C03_uvs_sound.

(* every sequence of the lib whose glyph is exported is stored under its selector *)
Theorem C03_uvs_complete : forall glyphset m src vs seqs e,
  In (vs, seqs) src -> In e seqs -> mem (snd e) glyphset = true ->
  exists l x, In (vs, l) (uvs_table glyphset m src) /\ In x l /\ fst x = fst e.
Proof. exact uvs_table_complete. Qed.
Print Assumptions C03_uvs_complete.

(* nothing in the subtable names a glyph outside the compiled glyph set (a font that names one cannot be saved), and no
   selector is listed without a sequence *)
Theorem C03_uvs_names_exported_glyphs_only : forall glyphset m src vs l x g,
  In (vs, l) (uvs_table glyphset m src) -> In x l -> snd x = Some g -> mem g glyphset = true.
Proof. exact uvs_table_names_exported_glyphs_only. Qed.
Print Assumptions C03_uvs_names_exported_glyphs_only.

Theorem C03_uvs_no_empty_selector : forall glyphset m src vs, ~ In (vs, []) (uvs_table glyphset m src).
Proof. exact uvs_table_no_empty_selector. Qed.
Print Assumptions C03_uvs_no_empty_selector.

Example C03_uvs_of_a_missing_glyph_is_dropped :
  let glyphset := [[97]] in let m := [(97, [97])] in let src := [(65024, [(97, [97; 46; 118])])] in
  uvs_table glyphset m src = [] /\ has_uvs_subtable glyphset m src = false.
Proof. exact uvs_v0_stored_a_missing_glyph. Qed.
Print Assumptions C03_uvs_of_a_missing_glyph_is_dropped.

(* ---- the same statements about the code AS TRANSLATED from /repo's current source (Generated/Imp.v: the variation-sequence loop
   of BaseOutlineCompiler.setupTable_cmap; Order/UvsTied.v proves the translation equal to the model when no selector repeats) ---- *)
From U2F Require Import Order.UvsTied.

Theorem C03_translated_uvs_loop_is_the_model : forall gs m (src : uvs_src),
  NoDup (map fst src) -> tr_uvs gs m src = uvs_table gs m src.
Proof. exact translated_uvs_is_the_model. Qed.
Print Assumptions C03_translated_uvs_loop_is_the_model.

Theorem C03_code_uvs_sound : forall gs m src vs l x,
  NoDup (map fst src) -> In (vs, l) (tr_uvs gs m src) -> In x l ->
  exists seqs e, In (vs, seqs) src /\ In e seqs /\ mem (snd e) gs = true /\ fst x = fst e /\
                 (snd x = None <-> zassoc (fst e) m = Some (snd e)) /\ (forall g, snd x = Some g -> g = snd e).
Proof. exact code_uvs_sound. Qed.
Print Assumptions C03_code_uvs_sound.

Theorem C03_code_uvs_complete : forall gs m src vs seqs e,
  NoDup (map fst src) -> In (vs, seqs) src -> In e seqs -> mem (snd e) gs = true ->
  exists l x, In (vs, l) (tr_uvs gs m src) /\ In x l /\ fst x = fst e.
Proof. exact code_uvs_complete. Qed.
Print Assumptions C03_code_uvs_complete.

Theorem C03_code_uvs_no_empty_selector : forall gs m src vs, NoDup (map fst src) -> ~ In (vs, []) (tr_uvs gs m src).
Proof. exact code_uvs_no_empty_selector. Qed.
Print Assumptions C03_code_uvs_no_empty_selector.
