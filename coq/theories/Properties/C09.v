(* C09 -- interpolatable compilation keeps compatible masters compatible.
   PARTIAL: the joint cu2qu conversion and the sparse-master machinery are environment / observed. *)
From U2F Require Import Base.Prelude Geometry.Model Geometry.ModelProofs Geometry.Cff Interp.Compat Interp.CompatProofs.

(* decomposing a component turns equal structures into equal structures, provided the component
   mirrors in all masters or in none *)
Theorem C09_placing_preserves_compatibility : forall t t' c c',
  mirrors t = mirrors t' -> contour_shape c = contour_shape c' ->
  contour_shape (place t c) = contour_shape (place t' c').
Proof. exact place_shape. Qed.
Print Assumptions C09_placing_preserves_compatibility.

Theorem C09_placing_preserves_compatibility_of_outlines : forall t t' cs cs',
  mirrors t = mirrors t' -> map contour_shape cs = map contour_shape cs' ->
  map contour_shape (map (place t) cs) = map contour_shape (map (place t') cs').
Proof. exact map_place_shape. Qed.
Print Assumptions C09_placing_preserves_compatibility_of_outlines.

Theorem C09_reversal_acts_on_structure : forall c, contour_shape (rev_contour c) = rev_shape (contour_shape c).
Proof. exact shape_rev. Qed.
Print Assumptions C09_reversal_acts_on_structure.

(* the unrestricted statement is false of the faithful model (known finding F7) *)
Theorem C09_refuted_when_mirrored_in_one_master_only :
  exists t t' c, contour_shape (place t c) <> contour_shape (place t' c).
Proof. exact compat_refuted. Qed.
Print Assumptions C09_refuted_when_mirrored_in_one_master_only.
