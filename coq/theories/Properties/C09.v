(* C09 -- interpolatable compilation keeps compatible masters compatible.
   PARTIAL: the joint cu2qu conversion and the sparse-master machinery are environment / observed. *)
From U2F Require Import Base.Prelude Geometry.Model Geometry.ModelProofs Geometry.Cff Interp.Compat Interp.CompatProofs.

(* decomposing a component turns equal structures into equal structures, provided the component
   mirrors in all masters or in none *)
Theorem C09_placing_preserves_compatibility : forall t t' c c',
  mirrors t = mirrors t' -> contour_shape c = contour_shape c' ->
  contour_shape (place t c) = contour_shape (place t' c').
Proof. exact place_shape. Qed.
Print Assumptions C09_placing_preserves_compatibility.

Theorem C09_placing_preserves_compatibility_of_outlines : forall t t' cs cs',
  mirrors t = mirrors t' -> map contour_shape cs = map contour_shape cs' ->
  map contour_shape (map (place t) cs) = map contour_shape (map (place t') cs').
Proof. exact map_place_shape. Qed.
Print Assumptions C09_placing_preserves_compatibility_of_outlines.

Theorem C09_reversal_acts_on_structure : forall c, contour_shape (rev_contour c) = rev_shape (contour_shape c).
Proof. exact shape_rev. Qed.
Print Assumptions C09_reversal_acts_on_structure.

(* the unrestricted statement is false of the faithful model (known finding F7) *)
Theorem C09_refuted_when_mirrored_in_one_master_only :
  exists t t' c, contour_shape (place t c) <> contour_shape (place t' c).
Proof. exact compat_refuted. Qed.
Print Assumptions C09_refuted_when_mirrored_in_one_master_only.

(* ---- which composites the interpolatable TrueType pre-processor decomposes in ALL masters
   (check_for_nonmatching_components, after repairs F19 / F21) ---- *)
From Coq Require Import QArith Qcanon.
From U2F Require Import Interp.Nonmatching Interp.NonmatchingProofs.

(* a composite that is kept never makes fontTools' TTGlyphPen decompose it in one master on its own *)
Theorem C09_kept_composite_never_overflows : forall layers,
  needs_decomposition layers = false -> forall l, In l layers -> pen_decomposes l = false.
Proof. exact kept_composite_never_overflows. Qed.
Print Assumptions C09_kept_composite_never_overflows.

(* and with equal component counts its 2x2 parts are the same in every master *)
Theorem C09_kept_composite_matches : forall layers l0 rest,
  layers = l0 :: rest -> (forall l, In l layers -> length l = length l0) ->
  needs_decomposition layers = false -> forall l, In l layers -> l = l0.
Proof. exact kept_composite_matches. Qed.
Print Assumptions C09_kept_composite_matches.

Example C09_overflow_before_repair_refuted :
  let c := (Q2Qc (9#4), Q2Qc 0, Q2Qc 0, Q2Qc (9#4)) in
  needs_decomposition_old [[c]; [c]] = false /\ pen_decomposes [c] = true /\ needs_decomposition [[c]; [c]] = true.
Proof. exact old_code_keeps_an_overflowing_composite. Qed.
Print Assumptions C09_overflow_before_repair_refuted.

(* ---- sparse masters: placeholders for missing component bases (OutlineTTFCompiler.makeMissingRequiredGlyphs) ---- *)
From U2F Require Import Interp.Placeholders Interp.PlaceholdersProofs.

Theorem C09_placeholders_cover_components : forall gs g b,
  In g (add_placeholders true gs) -> In b (snd g) -> In b (names (add_placeholders true gs)).
Proof. exact placeholders_cover_components. Qed.
Print Assumptions C09_placeholders_cover_components.

(* so the TrueType pen, which drops components with unknown bases, keeps every composite of a non-default master as it is *)
Theorem C09_sparse_master_keeps_component_lists : forall gs g,
  In g (add_placeholders true gs) -> pen_components (add_placeholders true gs) (snd g) = snd g.
Proof. exact sparse_master_keeps_component_lists. Qed.
Print Assumptions C09_sparse_master_keeps_component_lists.

Example C09_without_placeholders_a_component_is_dropped :
  let gs := [([1%Z], [[2%Z]; [3%Z]]); ([3%Z], [])] in
  pen_components (add_placeholders false gs) [[2%Z]; [3%Z]] = [[3%Z]] /\
  pen_components (add_placeholders true gs) [[2%Z]; [3%Z]] = [[2%Z]; [3%Z]].
Proof. exact without_placeholders_a_component_is_dropped. Qed.
Print Assumptions C09_without_placeholders_a_component_is_dropped.

(* ---- per-master filter objects merged into one interpolatable filter (Filters/FilterMerge.v): decisions are taken jointly: one merged filter for all masters ---- *)
From U2F Require Import Filters.FilterMerge Filters.FilterMergeProofs.

Theorem C09_merged_filter_includes_the_union : forall h fs m g,
  try_merge h fs = Some m ->
  (merged_includes m g = true <-> exists f, In (Some f) fs /\ includes (pf_inc f) g = true).
Proof. exact merged_include_is_the_union. Qed.
Print Assumptions C09_merged_filter_includes_the_union.

Theorem C09_glyph_excluded_by_every_master_is_left_alone : forall h fs m g,
  try_merge h fs = Some m -> (forall f, In (Some f) fs -> includes (pf_inc f) g = false) -> merged_includes m g = false.
Proof. exact excluded_everywhere_is_left_alone. Qed.
Print Assumptions C09_glyph_excluded_by_every_master_is_left_alone.

Theorem C09_master_without_the_filter_is_immaterial : forall h a b, try_merge h (a ++ None :: b) = try_merge h (a ++ b).
Proof. exact missing_entry_anywhere. Qed.
Print Assumptions C09_master_without_the_filter_is_immaterial.

Theorem C09_merged_only_if_same_filter : forall h fs m f1 f2,
  try_merge h fs = Some m -> In (Some f1) fs -> In (Some f2) fs ->
  pf_class f1 = pf_class f2 /\ pf_options f1 = pf_options f2 /\ pf_pre f1 = pf_pre f2.
Proof. exact merged_only_if_same. Qed.
Print Assumptions C09_merged_only_if_same_filter.
