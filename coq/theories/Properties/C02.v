(* C02 -- TrueType outlines render the source shape; composites stay valid. *)
From Coq Require Import QArith Qcanon.
From U2F Require Import Base.Prelude Geometry.Model Geometry.ModelProofs Geometry.Cff Geometry.Filters
     Geometry.FiltersProofs Geometry.TT Geometry.TTProofs Geometry.FlattenProofs Geometry.TTRenderProofs.
Open Scope Qc_scope.

(* glyphs mixing contours with components are decomposed: none is left *)
Theorem C02_no_mixed_glyph_left : forall flatten convert gs gs',
  tt_pre flatten convert gs = Some gs' -> forall n g, In (n, g) gs' -> is_mixed g = false.
Proof. exact tt_no_mixed. Qed.
Print Assumptions C02_no_mixed_glyph_left.

(* and what a decomposed mixed glyph holds is the nested resolved outline *)
Theorem C02_mixed_decomposed_to_resolved : forall fuel gs g,
  wf_glyphset_P gs -> wf_glyph_P g -> decompose fuel gs g = resolve (S fuel) gs g.
Proof. exact decompose_resolve. Qed.
Print Assumptions C02_mixed_decomposed_to_resolved.

(* flattening composes nested transforms by matrix composition *)
Theorem C02_flatten_composes : forall outer inner, flat_tr outer inner = compose outer inner.
Proof. exact flatten_compose. Qed.
Print Assumptions C02_flatten_composes.

(* direction reversal to the TrueType convention loses nothing *)
Theorem C02_reversal_involutive : forall c, wf_closed c -> rev_contour (rev_contour c) = c.
Proof. exact rev_contour_involutive. Qed.
Print Assumptions C02_reversal_involutive.

Theorem C02_points_reproduced_pointwise : forall c,
  map (fun t => snd t) (tt_points c) = map on (cpts c) /\ length (tt_points c) = length (cpts c).
Proof. exact tt_points_pointwise. Qed.
Print Assumptions C02_points_reproduced_pointwise.

Theorem C02_rounding_half_up : forall q,
  (inject_Z (otRound q) - (1 # 2) <= this q)%Q /\ (this q < inject_Z (otRound q) + (1 # 2))%Q.
Proof. exact otRound_half_up. Qed.
Print Assumptions C02_rounding_half_up.

(* FlattenComponentsFilter (nested references replaced by references to the leaves, matrices composed):
   whenever it succeeds, the flattened glyph resolves -- with the same fuel -- to exactly the same list of
   contours; for every glyph set with non-singular component matrices and closed contours, any depth *)
Theorem C02_flattening_preserves_rendering : forall gs g g',
  wf_glyphset_P gs -> wf_glyph_P g -> flatten_glyph gs g = Some g' ->
  forall F r, resolve F gs g = Some r -> resolve F gs g' = Some r.
Proof. exact flatten_render. Qed.
Print Assumptions C02_flattening_preserves_rendering.

(* THE PIPELINE: with plain reversal (convertCubics = False) TrueType pre-processing -- mixed glyphs decomposed,
   nested references flattened on request, every contour reversed -- leaves a glyph set in which every glyph renders
   exactly what it renders in the source, contour for contour, each contour reversed; all glyph sets with
   non-singular component matrices and closed contours *)
Theorem C02_preprocessed_glyphs_render_the_source_reversed : forall flatten gs gs',
  wf_glyphset_P gs -> tt_pre flatten false gs = Some gs' ->
  forall n g, assoc n gs = Some g ->
    exists g', assoc n gs' = Some g' /\
      forall F r, resolve F gs g = Some r -> resolve F gs' g' = Some (map rev_contour r).
Proof. exact tt_pre_renders_reversed. Qed.
Print Assumptions C02_preprocessed_glyphs_render_the_source_reversed.

From U2F Require Import Geometry.Examples.
(* non-vacuity: the pipeline on the example glyph set (flattening on) *)
Example C02_pipeline_on_example :
  exists gs', tt_pre true false ex_gs = Some gs' /\
    (exists g, assoc n_d gs' = Some g /\ gcomps g = [] /\ length (gcontours g) = 2%nat) /\
    (exists g, assoc n_c gs' = Some g /\ map fst (gcomps g) = [n_a; n_a]).
Proof. exact ex_tt. Qed.
Print Assumptions C02_pipeline_on_example.

(* ---- the TrueType pre-processing pipeline, translated from /repo's current initDefaultFilters on every run ---- *)
From U2F Require Import Filters.Pipeline Generated.Pipelines Filters.PipelineProofs.
Theorem C02_pipeline_shape : forall o,
  kinds (ttf_default_filters o) =
  (if color_font o then [ExplodeColorLayerGlyphs] else []) ++ [DecomposeComponents] ++
  (if flattenComponents o then [FlattenComponents] else []) ++
  (if removeOverlaps o then [RemoveOverlaps] else []) ++
  (if convertCubics o then [CubicToQuadratic] else if reverseDirection o then [ReverseContourDirection] else []).
Proof. exact ttf_pipeline_shape. Qed.
Print Assumptions C02_pipeline_shape.

Theorem C02_direction_reversed_iff_requested : forall o, reverses (ttf_default_filters o) = reverseDirection o.
Proof. exact ttf_reverses_iff_requested. Qed.
Print Assumptions C02_direction_reversed_iff_requested.

Theorem C02_direction_reversed_at_most_once : forall o,
  (count CubicToQuadratic (ttf_default_filters o) + count ReverseContourDirection (ttf_default_filters o) <= 1)%nat.
Proof. exact ttf_reverses_once. Qed.
Print Assumptions C02_direction_reversed_at_most_once.

Theorem C02_converter_gets_the_callers_options : forall o args,
  In (CubicToQuadratic, args) (ttf_default_filters o) ->
  arg K_allQuadratic args = Some (AB (allQuadratic o)) /\
  arg K_rememberCurveType args = Some (AB (rememberCurveType o && inplace o)) /\
  arg K_reverseDirection args = Some (AB (reverseDirection o)).
Proof. exact ttf_converter_arguments. Qed.
Print Assumptions C02_converter_gets_the_callers_options.

Theorem C02_only_mixed_glyphs_are_decomposed : forall o args,
  In (DecomposeComponents, args) (ttf_default_filters o) -> arg K_include args = Some AOpaque.
Proof. exact ttf_decompose_is_restricted. Qed.
Print Assumptions C02_only_mixed_glyphs_are_decomposed.

Theorem C02_naming_a_backend_changes_nothing : forall o b,
  removeOverlaps o = false -> ttf_default_filters (with_backend b o) = ttf_default_filters o.
Proof. exact ttf_backend_alone_changes_nothing. Qed.
Print Assumptions C02_naming_a_backend_changes_nothing.

Example C02_default_pipeline : kinds (ttf_default_filters ttf_defaults) = [DecomposeComponents; CubicToQuadratic]
                               /\ reverses (ttf_default_filters ttf_defaults) = true.
Proof. exact ttf_default_pipeline. Qed.
Print Assumptions C02_default_pipeline.
