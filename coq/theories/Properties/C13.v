(* C13 -- non-exported glyphs vanish without altering the remaining glyphs. *)
From Coq Require Import QArith Qcanon.
From U2F Require Import Base.Prelude Geometry.Model Geometry.ModelProofs Geometry.Cff Geometry.Filters Geometry.SkipProofs.
Open Scope Qc_scope.

(* references to skipped glyphs are replaced by their content: none is left *)
Theorem C13_no_reference_to_skipped_left : forall gs skip g g',
  skip_glyph gs skip g = Some g' -> forall k, In k (gcomps g') -> mem (fst k) skip = false.
Proof. exact skip_absent. Qed.
Print Assumptions C13_no_reference_to_skipped_left.

Theorem C13_own_outline_advance_anchors_kept : forall gs skip g g',
  skip_glyph gs skip g = Some g' ->
  gwidth g' = gwidth g /\ ganchors g' = ganchors g /\ exists cs, gcontours g' = gcontours g ++ cs.
Proof. exact skip_keeps_own. Qed.
Print Assumptions C13_own_outline_advance_anchors_kept.

(* why inlined content renders the same: placing through the composed matrix is
   nested placing (shared with C01/C15) *)
Theorem C13_inlined_content_renders_the_same : forall a t c,
  det a <> qc0 -> det t <> qc0 -> wf_closed c -> place (compose a t) c = place a (place t c).
Proof. exact place_compose. Qed.
Print Assumptions C13_inlined_content_renders_the_same.
