(* C13 -- non-exported glyphs vanish without altering the remaining glyphs. *)
From Coq Require Import QArith Qcanon List Permutation.
From U2F Require Import Base.Prelude Geometry.Model Geometry.ModelProofs Geometry.Cff Geometry.Filters Geometry.SkipProofs Geometry.SkipRenderProofs.
Open Scope Qc_scope.

(* references to skipped glyphs are replaced by their content: none is left *)
Theorem C13_no_reference_to_skipped_left : forall gs skip g g',
  skip_glyph gs skip g = Some g' -> forall k, In k (gcomps g') -> mem (fst k) skip = false.
Proof. exact skip_absent. Qed.
Print Assumptions C13_no_reference_to_skipped_left.

Theorem C13_own_outline_advance_anchors_kept : forall gs skip g g',
  skip_glyph gs skip g = Some g' ->
  gwidth g' = gwidth g /\ ganchors g' = ganchors g /\ exists cs, gcontours g' = gcontours g ++ cs.
Proof. exact skip_keeps_own. Qed.
Print Assumptions C13_own_outline_advance_anchors_kept.

(* why inlined content renders the same: placing through the composed matrix is
   nested placing (shared with C01/C15) *)
Theorem C13_inlined_content_renders_the_same : forall a t c,
  det a <> qc0 -> det t <> qc0 -> wf_closed c -> place (compose a t) c = place a (place t c).
Proof. exact place_compose. Qed.
Print Assumptions C13_inlined_content_renders_the_same.

(* ONE GLYPH: the filtered glyph resolves to a permutation of the contours the glyph resolved to
   (inlined contours move in front of the remaining components) -- all glyph sets with non-singular
   component matrices and closed contours, all skip lists, any nesting of skipped glyphs *)
Theorem C13_filtered_glyph_renders_the_same_contours : forall gs skip g g',
  wf_glyphset_P gs -> wf_glyph_P g -> skip_glyph gs skip g = Some g' ->
  forall F r, resolve F gs g = Some r -> exists r', resolve F gs g' = Some r' /\ Permutation r r'.
Proof. exact skip_glyph_render. Qed.
Print Assumptions C13_filtered_glyph_renders_the_same_contours.

(* THE WHOLE FILTER: skipped names are gone and the others keep their relative order; every remaining glyph
   keeps its advance and anchors, references no skipped glyph, and -- resolved in the FILTERED glyph set --
   renders a permutation of the contours it rendered in the source *)
Theorem C13_skip_filter_preserves_rendering : forall gs skip gs',
  wf_glyphset_P gs -> skip_filter gs skip = Some gs' ->
  keys gs' = filter (fun n => negb (mem n skip)) (keys gs) /\
  forall n g, assoc n gs = Some g -> mem n skip = false ->
    exists g', assoc n gs' = Some g' /\ gwidth g' = gwidth g /\ ganchors g' = ganchors g /\
      (forall k, In k (gcomps g') -> mem (fst k) skip = false) /\
      forall F r, resolve F gs g = Some r -> exists r', resolve F gs' g' = Some r' /\ Permutation r r'.
Proof. exact skip_filter_preserves_rendering. Qed.
Print Assumptions C13_skip_filter_preserves_rendering.

From U2F Require Import Geometry.Examples.
(* non-vacuity: skipping the mirrored intermediate composite b of the example glyph set *)
Example C13_skip_on_example :
  exists gs', skip_filter ex_gs [n_b] = Some gs' /\ keys gs' = [n_a; n_c; n_d] /\
    (exists r, resolve_n gs' n_c = Some r /\ length r = 2%nat) /\
    forallb (fun ng => forallb (fun bt => negb (mem (fst bt) [n_b])) (gcomps (snd ng))) gs' = true.
Proof. exact ex_skip. Qed.
Print Assumptions C13_skip_on_example.

(* ---- a non-exported glyph is absent from the character map's variation sequences too: the loop of setupTable_cmap AS TRANSLATED
   from /repo's current source (Generated/Imp.v, Order/UvsTied.v) names glyphs of the compiled glyph set only ---- *)
From U2F Require Import Order.GlyphOrder Order.Uvs Generated.Imp Order.UvsTied.

Theorem C13_code_variation_sequences_name_exported_glyphs_only : forall gs m (src : uvs_src) vs l x g,
  NoDup (map fst src) -> In (vs, l) (tr_uvs gs m src) -> In x l -> snd x = Some g -> mem g gs = true.
Proof. exact code_uvs_names_exported_glyphs_only. Qed.
Print Assumptions C13_code_variation_sequences_name_exported_glyphs_only.
