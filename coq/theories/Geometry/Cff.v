(* C01: what a compiled CFF glyph must look like, as functions of the source
   glyph set (definitions only). *)
From U2F Require Export Geometry.Model.
Open Scope Qc_scope.

Definition fuel_for (gs : glyphset) : nat := S (length gs).

(* model: what OTFPreProcessor's DecomposeComponentsFilter leaves in the glyph set *)
Definition model_decomposed (gs : glyphset) (n : str) : option (list contour) :=
  match assoc n gs with Some g => decompose (fuel_for gs) gs g | None => None end.
(* ... and what the whole filter pass (in place, in the given visiting order) leaves *)
Definition model_pass (order : list str) (gs : glyphset) (n : str) : option (list contour) :=
  match decompose_pass (fuel_for gs) order gs with
  | Some gs' => match assoc n gs' with
                | Some g => match gcomps g with [] => Some (gcontours g) | _ :: _ => None end
                | None => None
                end
  | None => None
  end.
(* spec: the nested resolved outline *)
Definition spec_resolved (gs : glyphset) (n : str) : option (list contour) :=
  match assoc n gs with Some g => resolve (S (fuel_for gs)) gs g | None => None end.

(* T2CharStringPen: every absolute coordinate through roundFunc(tolerance);
   read back from the font the contour starts at its first on-curve point *)
Definition cff_view (tol : Qc) (cs : list contour) : list contour :=
  map (fun c => canon_start (round_contour tol c)) cs.

Definition bits (m s : bool) : Z := ((if m then 1 else 0) + (if s then 2 else 0))%Z.

(* structural case: the filtered glyph set as observed *)
Definition c01_struct (gs : glyphset) (order : list str) (obs : list (str * list contour)) : Z :=
  bits (forallb (fun no => opt_outline_eqb (model_pass order gs (fst no)) (Some (snd no))) obs)
       (forallb (fun no => opt_outline_eqb (spec_resolved gs (fst no)) (Some (snd no))) obs).

(* semantic case: per glyph the drawn outline (as point contours) and hmtx advance *)
Definition c01_sem (tol : Qc) (gs : glyphset) (obs : list (str * (list contour * Z))) : Z :=
  let adv_ok := forallb (fun no => match assoc (fst no) gs with
                                   | Some g => Z.eqb (otRound (gwidth g)) (snd (snd no))
                                   | None => false end) obs in
  bits (forallb (fun no => opt_outline_eqb (option_map (cff_view tol) (model_decomposed gs (fst no)))
                                           (Some (fst (snd no)))) obs && adv_ok)
       (forallb (fun no => opt_outline_eqb (option_map (cff_view tol) (spec_resolved gs (fst no)))
                                           (Some (fst (snd no)))) obs && adv_ok).
