(* C01: the DecomposeComponentsFilter pass as BaseFilter drives it -- glyph by
   glyph, in place, in any visiting order -- leaves every visited glyph flat with
   exactly its nested resolved outline (non-singular matrices, no cycles). *)
From Coq Require Import QArith Qcanon List Bool Lia.
From U2F Require Import Base.Prelude Geometry.Model Geometry.ModelProofs Geometry.Cff.
Import ListNotations.

Lemma assoc_set_glyph n g gs k :
  assoc k (set_glyph n g gs) =
  if str_eqb n k then match assoc k gs with Some _ => Some g | None => None end else assoc k gs.
Proof.
  induction gs as [|[k' v] gs IH]; cbn [set_glyph map assoc fst].
  - destruct (str_eqb n k); reflexivity.
  - fold (set_glyph n g gs). destruct (str_eqb n k') eqn:E1; cbn [assoc].
    + destruct (str_eqb k k') eqn:E2.
      * apply str_eqb_eq in E1. apply str_eqb_eq in E2. subst k' k. rewrite str_eqb_refl. reflexivity.
      * rewrite IH. reflexivity.
    + destruct (str_eqb k k') eqn:E2.
      * apply str_eqb_eq in E2. subst k'. rewrite E1. reflexivity.
      * apply IH.
Qed.

Lemma resolve_S f gs g :
  resolve (S f) gs g =
  match option_concat
          (map (fun bt => match assoc (fst bt) gs with
                          | None => None
                          | Some bg => option_map (map (place (snd bt))) (resolve f gs bg)
                          end) (gcomps g)) with
  | None => None
  | Some cs => Some (gcontours g ++ cs)
  end.
Proof. reflexivity. Qed.

Lemma option_concat_map_mono {A B} (F G : A -> option (list B)) l r :
  (forall x o, In x l -> F x = Some o -> G x = Some o) ->
  option_concat (map F l) = Some r -> option_concat (map G l) = Some r.
Proof.
  revert r. induction l as [|x l IH]; intros r Hpt E; [exact E|].
  cbn [map option_concat] in *.
  destruct (F x) as [o|] eqn:EF; [|discriminate].
  rewrite (Hpt x o (or_introl eq_refl) EF).
  destruct (option_concat (map F l)) as [r'|] eqn:Er; [|discriminate].
  rewrite (IH r' (fun y o' Hy => Hpt y o' (or_intror Hy)) eq_refl). exact E.
Qed.

Lemma resolve_mono f : forall gs g r, resolve f gs g = Some r -> resolve (S f) gs g = Some r.
Proof.
  induction f as [|f IH]; intros gs g r H; [discriminate|].
  rewrite resolve_S in H. rewrite resolve_S.
  match type of H with match ?X with _ => _ end = _ => destruct X as [cs|] eqn:E; [|discriminate] end.
  erewrite option_concat_map_mono; [exact H| |exact E].
  intros [b t] o _ Hx. cbn [fst snd] in *.
  destruct (assoc b gs) as [bg|]; [|discriminate].
  destruct (resolve f gs bg) as [rb|] eqn:Er; [|discriminate].
  rewrite (IH _ _ _ Er). exact Hx.
Qed.

Lemma resolve_le f f' gs g r : (f <= f')%nat -> resolve f gs g = Some r -> resolve f' gs g = Some r.
Proof. intros Hle H. induction Hle as [|m Hle IH]; [exact H|apply resolve_mono; exact IH]. Qed.

Lemma resolve_det f f' gs g a b : resolve f gs g = Some a -> resolve f' gs g = Some b -> a = b.
Proof.
  intros Ha Hb. destruct (Nat.le_ge_cases f f') as [Hle|Hle].
  - apply (resolve_le _ _ _ _ _ Hle) in Ha. congruence.
  - apply (resolve_le _ _ _ _ _ Hle) in Hb. congruence.
Qed.

Lemma resolve_nocomps f gs g : gcomps g = [] -> resolve (S f) gs g = Some (gcontours g).
Proof. intro E. rewrite resolve_S, E. cbn [map option_concat]. rewrite app_nil_r. reflexivity. Qed.

(* replacing a glyph by its own resolved outline changes nobody's resolved outline *)
Lemma resolve_set_glyph gs n gn r F :
  assoc n gs = Some gn -> resolve F gs gn = Some r ->
  forall f g x, resolve f gs g = Some x -> resolve f (set_glyph n (flat_glyph gn r) gs) g = Some x.
Proof.
  intros Hn Hr. induction f as [|f IH]; intros g x H; [discriminate|].
  rewrite resolve_S in H. rewrite resolve_S.
  match type of H with match ?X with _ => _ end = _ => destruct X as [cs|] eqn:E; [|discriminate] end.
  erewrite option_concat_map_mono; [exact H| |exact E].
  intros [b t] o _ Hx. cbn [fst snd] in *. rewrite assoc_set_glyph.
  destruct (str_eqb n b) eqn:Enb.
  - apply str_eqb_eq in Enb. subst b. rewrite Hn in Hx. rewrite Hn.
    destruct (resolve f gs gn) as [rb|] eqn:Er; [|discriminate].
    assert (rb = r) as -> by (eapply resolve_det; eassumption).
    destruct f as [|f']; [discriminate|].
    rewrite resolve_nocomps by reflexivity. exact Hx.
  - destruct (assoc b gs) as [bg|]; [|discriminate].
    destruct (resolve f gs bg) as [rb|] eqn:Er; [|discriminate].
    rewrite (IH _ _ Er). exact Hx.
Qed.

Lemma wf_set_glyph gs n g : wf_glyphset_P gs -> wf_glyph_P g -> wf_glyphset_P (set_glyph n g gs).
Proof.
  intros Hgs Hg k v. rewrite assoc_set_glyph. destruct (str_eqb n k).
  - destruct (assoc k gs); [intro E; inversion E; subst; exact Hg|discriminate].
  - apply Hgs.
Qed.

(* the state of the pass: same keys; every glyph either untouched or flat with its
   resolved outline; resolving against the current set gives what the source gives *)
Definition pass_inv (F : nat) (gs0 gs : glyphset) (visited : list str) : Prop :=
  wf_glyphset_P gs /\
  (forall n, match assoc n gs0, assoc n gs with
             | Some g0, Some g =>
                 resolve F gs g = resolve F gs0 g0 /\ gwidth g = gwidth g0 /\ ganchors g = ganchors g0 /\
                 (g = g0 \/ (gcomps g = [] /\ Some (gcontours g) = resolve F gs0 g0)) /\
                 (In n visited -> gcomps g = [])
             | None, None => True
             | _, _ => False
             end).

Lemma pass_inv_init F gs : wf_glyphset_P gs -> pass_inv F gs gs [].
Proof.
  intro H. split; [exact H|]. intro n. destruct (assoc n gs); [|exact I].
  repeat split; auto. intros [].
Qed.

Lemma pass_step fuel gs0 gs V n :
  (forall k g, assoc k gs0 = Some g -> resolve (S fuel) gs0 g <> None) ->
  pass_inv (S fuel) gs0 gs V ->
  exists gs', filter_step fuel (Some gs) n = Some gs' /\ pass_inv (S fuel) gs0 gs' (n :: V).
Proof.
  intros Htot [Hwf Hinv]. unfold filter_step.
  destruct (assoc n gs) as [g|] eqn:En.
  2:{ exists gs. split; [reflexivity|]. split; [exact Hwf|]. intro k. specialize (Hinv k).
      destruct (assoc k gs0) as [g0|] eqn:E0; destruct (assoc k gs) as [gk|] eqn:Ek; try exact Hinv.
      destruct Hinv as (H1 & H2 & H3 & H4 & H5). repeat split; try assumption.
      intros [<-|Hin]; [congruence|apply H5; exact Hin]. }
  destruct (gcomps g) as [|c0 cr] eqn:Ec.
  { exists gs. split; [reflexivity|]. split; [exact Hwf|]. intro k. specialize (Hinv k).
    destruct (assoc k gs0) as [g0|] eqn:E0; destruct (assoc k gs) as [gk|] eqn:Ek; try exact Hinv.
    destruct Hinv as (H1 & H2 & H3 & H4 & H5). repeat split; try assumption.
    intros [<-|Hin]; [congruence|apply H5; exact Hin]. }
  (* a composite: decompose against the current set *)
  pose proof (Hinv n) as Hn. rewrite En in Hn.
  destruct (assoc n gs0) as [g0|] eqn:E0; [|contradiction].
  destruct Hn as (Hres & Hw & Ha & Hd & Hv).
  rewrite (decompose_resolve fuel gs g Hwf (Hwf n g En)). rewrite Hres.
  destruct (resolve (S fuel) gs0 g0) as [r|] eqn:Er; [|exact (False_ind _ (Htot n g0 E0 Er))].
  exists (set_glyph n (flat_glyph g r) gs). split; [reflexivity|].
  assert (wf_glyph_P (flat_glyph g r)) as Hflat.
  { split; cbn [flat_glyph gcontours gcomps].
    - intros c Hc. eapply (resolve_wf (S fuel) gs g r); [exact Hwf|exact (Hwf n g En)|exact Hres|exact Hc].
    - intros bt []. }
  split; [apply wf_set_glyph; assumption|].
  intro k. rewrite assoc_set_glyph. specialize (Hinv k).
  destruct (str_eqb n k) eqn:Enk.
  - apply str_eqb_eq in Enk. subst k. rewrite E0. rewrite En.
    repeat split.
    + rewrite resolve_nocomps by reflexivity. cbn [flat_glyph gcontours]. symmetry. exact Er.
    + exact Hw.
    + exact Ha.
    + right. split; [reflexivity|]. cbn [flat_glyph gcontours]. symmetry. exact Er.
  - destruct (assoc k gs0) as [gk0|] eqn:Ek0; destruct (assoc k gs) as [gk|] eqn:Ek; try exact Hinv.
    destruct Hinv as (H1 & H2 & H3 & H4 & H5). repeat split; try assumption.
    + destruct (resolve (S fuel) gs0 gk0) as [rk|] eqn:Erk; [|exact (False_ind _ (Htot k gk0 Ek0 Erk))].
      eapply resolve_set_glyph; [exact En|exact Hres|exact H1].
    + intros [Heq|Hin]; [apply str_eqb_neq in Enk; contradiction|apply H5; exact Hin].
Qed.

Lemma pass_fold fuel gs0 order : forall gs V,
  (forall k g, assoc k gs0 = Some g -> resolve (S fuel) gs0 g <> None) ->
  pass_inv (S fuel) gs0 gs V ->
  exists gs', fold_left (filter_step fuel) order (Some gs) = Some gs' /\
              pass_inv (S fuel) gs0 gs' (rev order ++ V).
Proof.
  induction order as [|n order IH]; intros gs V Htot Hinv.
  - exists gs. split; [reflexivity|exact Hinv].
  - cbn [fold_left]. destruct (pass_step fuel gs0 gs V n Htot Hinv) as [gs1 [E1 H1]].
    rewrite E1. destruct (IH gs1 (n :: V) Htot H1) as [gs' [E' H']].
    exists gs'. split; [exact E'|]. cbn [rev]. rewrite <- app_assoc. exact H'.
Qed.

(* the whole pass: no error, widths and anchors untouched, and every visited glyph is
   left without components, holding exactly its nested resolved outline *)
Theorem decompose_pass_resolve gs order :
  wf_glyphset_P gs ->
  (forall n g, assoc n gs = Some g -> resolve (S (fuel_for gs)) gs g <> None) ->
  exists gs', decompose_pass (fuel_for gs) order gs = Some gs' /\
    forall n g, assoc n gs = Some g ->
      exists g', assoc n gs' = Some g' /\ gwidth g' = gwidth g /\ ganchors g' = ganchors g /\
        (In n order -> gcomps g' = [] /\ Some (gcontours g') = resolve (S (fuel_for gs)) gs g).
Proof.
  intros Hwf Htot. unfold decompose_pass.
  destruct (pass_fold (fuel_for gs) gs order gs [] Htot (pass_inv_init _ gs Hwf)) as [gs' [E [_ Hinv]]].
  exists gs'. split; [exact E|]. intros n g En. specialize (Hinv n). rewrite En in Hinv.
  destruct (assoc n gs') as [g'|]; [|contradiction].
  destruct Hinv as (H1 & H2 & H3 & H4 & H5). exists g'. repeat split; try assumption.
  - apply H5. rewrite app_nil_r. apply in_rev in H. exact H.
  - assert (gcomps g' = []) as Hc by (apply H5; rewrite app_nil_r; apply in_rev in H; exact H).
    destruct H4 as [->|[_ H4]]; [|exact H4].
    rewrite resolve_nocomps by exact Hc. reflexivity.
Qed.

Corollary model_pass_is_spec gs order n :
  wf_glyphset_P gs ->
  (forall k g, assoc k gs = Some g -> resolve (S (fuel_for gs)) gs g <> None) ->
  In n order -> assoc n gs <> None ->
  model_pass order gs n = spec_resolved gs n.
Proof.
  intros Hwf Htot Hin Hn. unfold model_pass, spec_resolved.
  destruct (decompose_pass_resolve gs order Hwf Htot) as [gs' [E H]]. rewrite E.
  destruct (assoc n gs) as [g|] eqn:En; [|contradiction].
  destruct (H n g En) as [g' [E' (_ & _ & Hf)]]. rewrite E'.
  destruct (Hf Hin) as [Hc Hr]. rewrite Hc. exact Hr.
Qed.
