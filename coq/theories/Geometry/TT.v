(* C02: TrueType pre-processing and glyf view on the geometry model (definitions only). *)
From U2F Require Export Geometry.Model Geometry.Cff Geometry.Filters.
Open Scope Qc_scope.

Definition is_mixed (g : glyph) : bool :=
  match gcontours g, gcomps g with _ :: _, _ :: _ => true | _, _ => false end.

(* DecomposeComponentsFilter(include=lambda g: len(g)) *)
Definition decompose_mixed_glyph (gs : glyphset) (g : glyph) : option glyph :=
  if is_mixed g then
    match decompose (fuel_for gs) gs g with
    | Some cs => Some (mkG cs [] (gwidth g) (ganchors g))
    | None => None
    end
  else Some g.

Fixpoint map_gs (f : glyph -> option glyph) (gs : glyphset) : option glyphset :=
  match gs with
  | [] => Some []
  | (n, g) :: r => match f g, map_gs f r with
                   | Some g', Some r' => Some ((n, g') :: r')
                   | _, _ => None end
  end.

(* convert = true: Cu2QuPointPen(reverse_direction=True) -- a BasePointToSegmentPen, so a
   closed contour is first rotated to start at its first on-curve point (leading
   off-curves go to the end), then ReverseContourPointPen; convert = false:
   ReverseContourDirectionFilter, plain reversal *)
Definition reverse_glyph (convert : bool) (g : glyph) : glyph :=
  mkG (map (fun c => rev_contour (if convert then canon_start c else c)) (gcontours g))
      (gcomps g) (gwidth g) (ganchors g).

(* cyclic equality (the start point of a closed contour is immaterial) *)
Fixpoint rotations_aux {A} (n : nat) (l : list A) : list (list A) :=
  match n with
  | O => []
  | S k => l :: rotations_aux k (match l with [] => [] | x :: r => r ++ [x] end)
  end.
Definition cyc_eqb {A} (eqb : A -> A -> bool) (a b : list A) : bool :=
  Nat.eqb (length a) (length b) &&
  match a with [] => true | _ => existsb (fun r => list_eqb eqb r b) (rotations_aux (length a) a) end.

(* TTFPreProcessor for cubic-free sources: decompose mixed, optional flatten,
   reverse every contour (Cu2QuPointPen(reverse_direction=True) passes lines and
   quadratics through) *)
Definition tt_pre (flatten convert : bool) (gs : glyphset) : option glyphset :=
  match map_gs (decompose_mixed_glyph gs) gs with
  | None => None
  | Some gs1 =>
      match (if flatten then map_gs (flatten_glyph gs1) gs1 else Some gs1) with
      | None => None
      | Some gs2 => map_gs (fun g => Some (reverse_glyph convert g)) gs2
      end
  end.

(* what the glyf table holds for one glyph: simple = rounded points with on/off
   flags per contour; composite = (base, rounded offset, 2x2) per component *)
Definition tt_points (c : contour) : list (Z * Z * bool) :=
  map (fun p => (otRound (px p), otRound (py p), on p)) (cpts c).

Record tt_glyph := mkTT {
  tt_contours : list (list (Z * Z * bool));
  tt_comps : list (str * (Z * Z) * (Qc * Qc * Qc * Qc)) }.

Definition tt_of_glyph (g : glyph) : tt_glyph :=
  mkTT (map tt_points (gcontours g))
       (map (fun bt => (fst bt, (otRound (dx (snd bt)), otRound (dy (snd bt))),
                        (xx (snd bt), xy (snd bt), yx (snd bt), yy (snd bt)))) (gcomps g)).

Definition zzb_eqb (a b : Z * Z * bool) : bool :=
  Z.eqb (fst (fst a)) (fst (fst b)) && Z.eqb (snd (fst a)) (snd (fst b)) && Bool.eqb (snd a) (snd b).

Definition tt_glyph_eqb_gen (ceq : list (Z * Z * bool) -> list (Z * Z * bool) -> bool) (a b : tt_glyph) : bool :=
  list_eqb ceq (tt_contours a) (tt_contours b) &&
  list_eqb (fun x y => str_eqb (fst (fst x)) (fst (fst y)) &&
                       Z.eqb (fst (snd (fst x))) (fst (snd (fst y))) &&
                       Z.eqb (snd (snd (fst x))) (snd (snd (fst y))) &&
                       (let '(a1, b1, c1, d1) := snd x in let '(a2, b2, c2, d2) := snd y in
                        qc_eqb a1 a2 && qc_eqb b1 b2 && qc_eqb c1 c2 && qc_eqb d1 d2))
           (tt_comps a) (tt_comps b).
Definition tt_glyph_eqb := tt_glyph_eqb_gen (list_eqb zzb_eqb).
Definition tt_glyph_cyc_eqb := tt_glyph_eqb_gen (cyc_eqb zzb_eqb).

(* spec: a glyph with any contour is the reversed, rounded resolved outline of
   the source; a glyph made only of components keeps them (flattened on request) *)
Definition spec_tt_glyph (flatten : bool) (gs : glyphset) (n : str) : option tt_glyph :=
  match assoc n gs with
  | None => None
  | Some g =>
      match gcontours g with
      | _ :: _ => option_map (fun cs => mkTT (map (fun c => tt_points (rev_contour c)) cs) []) (resolve_n gs n)
      | [] =>
          if flatten then
            (* every reference goes straight to a glyph that has contours (or is empty);
               matrices are the composed ones: compared through the rendering instead *)
            None
          else Some (tt_of_glyph g)
      end
  end.

(* the check on an observed glyf table: obs = per glyph name the tt_glyph read back *)
Definition c02_check (flatten convert : bool) (gs : glyphset) (obs : list (str * tt_glyph)) : Z :=
  let m := match tt_pre flatten convert gs with
           | None => false
           | Some gs' => forallb (fun no => match assoc (fst no) gs' with
                                            | Some g => tt_glyph_eqb (tt_of_glyph g) (snd no)
                                            | None => false end) obs
           end in
  let s := forallb (fun no =>
             match spec_tt_glyph flatten gs (fst no) with
             | Some t => tt_glyph_cyc_eqb t (snd no)
             | None =>
                 (* flattened composite: one level deep, bases exist and are not composites *)
                 match tt_contours (snd no) with
                 | [] => forallb (fun c => match assoc (fst (fst c)) obs with
                                           | Some b => match tt_comps b with [] => true | _ => false end
                                           | None => false end) (tt_comps (snd no))
                 | _ => false
                 end
             end) obs in
  bits m s.

(* pre-processed glyph sets (exact, before rounding): rendering preserved by
   flattening, no mixed glyph left *)
Definition c02_pre_check (flatten convert : bool) (gs gs' : glyphset) : Z :=
  let m := match tt_pre flatten convert gs with
           | Some g1 => Nat.eqb (length g1) (length gs') &&
                        forallb (fun ng => match assoc (fst ng) gs' with
                                           | Some g' => glyph_eqb (snd ng) g' | None => false end) g1
           | None => false end in
  let s := forallb (fun ng => negb (is_mixed (snd ng))) gs' &&
           (negb flatten || flattened_ok gs') &&
           forallb (fun n => match resolve_n gs n, resolve_n gs' n with
                             | Some r, Some r' =>
                                 list_eqb (fun a b => cyc_eqb pnt_eqb (cpts a) (cpts b)) (map rev_contour r) r'
                             | _, _ => false end) (keys gs) in
  bits m s.
