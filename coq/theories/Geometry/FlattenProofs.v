(* C02/C15: FlattenComponentsFilter preserves what every glyph renders.
   For every glyph set (non-singular matrices, closed contours), if the flattened glyph
   exists then it resolves -- with the same fuel -- to exactly the same contour list. *)
From Coq Require Import QArith Qcanon List Bool Lia.
From U2F Require Import Base.Prelude Geometry.Model Geometry.ModelProofs Geometry.Cff Geometry.PassProofs
                        Geometry.Filters Geometry.FiltersProofs.
Import ListNotations.
Open Scope Qc_scope.

(* what a list of component references renders to *)
Definition comps_resolve (F : nat) (gs : glyphset) (l : list (str * affine)) : option (list contour) :=
  option_concat (map (fun bt => match assoc (fst bt) gs with
                                | None => None
                                | Some bg => option_map (map (place (snd bt))) (resolve F gs bg)
                                end) l).

Lemma resolve_S' F gs g :
  resolve (S F) gs g = match comps_resolve F gs (gcomps g) with None => None | Some cs => Some (gcontours g ++ cs) end.
Proof. reflexivity. Qed.

Lemma option_concat_app {A} (l1 l2 : list (option (list A))) :
  option_concat (l1 ++ l2) =
  match option_concat l1, option_concat l2 with Some a, Some b => Some (a ++ b) | _, _ => None end.
Proof.
  induction l1 as [|[o|] l1 IH]; cbn [app option_concat].
  - destruct (option_concat l2); reflexivity.
  - rewrite IH. destruct (option_concat l1); [|reflexivity]. destruct (option_concat l2); [|reflexivity].
    rewrite app_assoc. reflexivity.
  - reflexivity.
Qed.

Lemma comps_resolve_app F gs l1 l2 :
  comps_resolve F gs (l1 ++ l2) =
  match comps_resolve F gs l1, comps_resolve F gs l2 with Some a, Some b => Some (a ++ b) | _, _ => None end.
Proof. unfold comps_resolve. rewrite map_app. apply option_concat_app. Qed.

Lemma comps_resolve_mono F gs l r : comps_resolve F gs l = Some r -> comps_resolve (S F) gs l = Some r.
Proof.
  unfold comps_resolve. apply option_concat_map_mono.
  intros [b t] o _ H. cbn [fst snd] in *. destruct (assoc b gs) as [bg|]; [|discriminate].
  destruct (resolve F gs bg) as [rb|] eqn:Er; [|discriminate]. rewrite (resolve_mono _ _ _ _ Er). exact H.
Qed.

(* composing every reference with an outer matrix places the rendering by that matrix *)
Lemma comps_resolve_compose F gs t : det t <> qc0 -> wf_glyphset_P gs -> forall l r,
  (forall bt, In bt l -> det (snd bt) <> qc0) ->
  comps_resolve F gs l = Some r ->
  comps_resolve F gs (map (fun nt => (fst nt, compose t (snd nt))) l) = Some (map (place t) r).
Proof.
  intros Ht Hgs. induction l as [|[b tn] l IH]; intros r Hdet E.
  - cbn in E. inversion E; subst. reflexivity.
  - unfold comps_resolve in *. cbn [map option_concat fst snd] in *.
    destruct (assoc b gs) as [bg|] eqn:Ea; [|discriminate].
    destruct (resolve F gs bg) as [rb|] eqn:Er; [|discriminate]. cbn [option_map] in *.
    destruct (option_concat (map _ l)) as [rl|] eqn:El; [|discriminate]. inversion E; subst.
    rewrite (IH rl (fun bt H => Hdet bt (or_intror H)) eq_refl).
    f_equal. rewrite map_app. f_equal. rewrite map_map. apply map_ext_in. intros c Hc.
    apply place_compose; [exact Ht|exact (Hdet (b, tn) (or_introl eq_refl))|].
    eapply resolve_wf; [exact Hgs|eapply Hgs; exact Ea|exact Er|exact Hc].
Qed.

Lemma option_concat_In_Some {A} (l : list (option (list A))) r x :
  option_concat l = Some r -> In x l -> exists o, x = Some o.
Proof.
  revert r. induction l as [|[o|] l IH]; cbn [option_concat]; intros r E Hin; [destruct Hin| |discriminate].
  destruct (option_concat l) as [r'|] eqn:Er; [|discriminate].
  destruct Hin as [<-|Hin]; [exists o; reflexivity|exact (IH r' eq_refl Hin)].
Qed.

(* every reference produced by flattening has a non-singular matrix *)
Lemma flatten_comp_det f : forall gs bt l,
  wf_glyphset_P gs -> det (snd bt) <> qc0 -> flatten_comp f gs bt = Some l ->
  forall x, In x l -> det (snd x) <> qc0.
Proof.
  induction f as [|f IH]; intros gs [b t] l Hgs Ht E x Hx; [discriminate|].
  cbn [flatten_comp fst snd] in E. destruct (assoc b gs) as [g|] eqn:Ea; [|discriminate].
  destruct (is_simple_or_mixed g).
  - inversion E; subst. destruct Hx as [<-|[]]. exact Ht.
  - destruct (option_concat_Some _ _ E x Hx) as [o [Ho Hxo]].
    apply in_map_iff in Ho. destruct Ho as [[bn tn] [Eo Hn]].
    destruct (flatten_comp f gs (bn, tn)) as [ln|] eqn:En; [|discriminate]. cbn [option_map] in Eo. inversion Eo; subst.
    apply in_map_iff in Hxo. destruct Hxo as [[bx tx] [<- Hbx]]. cbn [snd fst].
    rewrite flatten_compose, det_compose. apply qc_mult_neq0; [exact Ht|].
    assert (det tn <> qc0) as Htn by (apply (proj2 (Hgs b g Ea) (bn, tn) Hn)).
    exact (IH gs (bn, tn) ln Hgs Htn En (bx, tx) Hbx).
Qed.

Lemma pure_composite_contours g : is_simple_or_mixed g = false -> gcontours g = [].
Proof. unfold is_simple_or_mixed. destruct (gcomps g); [discriminate|]. destruct (gcontours g); [reflexivity|discriminate]. Qed.

(* one reference, flattened, renders what the reference rendered *)
Lemma flatten_comp_render f : forall gs b t l,
  wf_glyphset_P gs -> det t <> qc0 -> flatten_comp f gs (b, t) = Some l ->
  forall F bg r, assoc b gs = Some bg -> resolve F gs bg = Some r ->
  comps_resolve F gs l = Some (map (place t) r).
Proof.
  induction f as [|f IH]; intros gs b t l Hgs Ht E F bg r Ea Er; [discriminate|].
  cbn [flatten_comp fst snd] in E. rewrite Ea in E.
  destruct (is_simple_or_mixed bg) eqn:Es.
  - inversion E; subst. unfold comps_resolve. cbn [map option_concat fst snd]. rewrite Ea, Er. cbn [option_map].
    rewrite app_nil_r. reflexivity.
  - (* a pure composite: no contours of its own *)
    destruct F as [|F0]; [discriminate|]. rewrite resolve_S' in Er. rewrite (pure_composite_contours bg Es) in Er.
    destruct (comps_resolve F0 gs (gcomps bg)) as [rc|] eqn:Ec; [|discriminate]. cbn [app] in Er. inversion Er; subst r.
    assert (forall n, In n (gcomps bg) -> det (snd n) <> qc0) as Hdn by (intros n Hn; apply (proj2 (Hgs b bg Ea) n Hn)).
    clear Er Es. revert l rc E Ec. induction (gcomps bg) as [|[bn tn] ns IHn]; intros l rc E Ec.
    + cbn in E, Ec. inversion E; inversion Ec; subst. reflexivity.
    + cbn [map option_concat] in E.
      destruct (flatten_comp f gs (bn, tn)) as [ln|] eqn:En; [|discriminate]. cbn [option_map] in E.
      match type of E with match ?X with _ => _ end = _ => destruct X as [lr|] eqn:Elr; [|discriminate] end. inversion E; subst l.
      unfold comps_resolve in Ec. cbn [map option_concat fst snd] in Ec.
      destruct (assoc bn gs) as [gn|] eqn:Ean; [|discriminate].
      destruct (resolve F0 gs gn) as [rn|] eqn:Ern; [|discriminate]. cbn [option_map] in Ec.
      match type of Ec with match ?X with _ => _ end = _ => destruct X as [rr|] eqn:Err; [|discriminate] end. inversion Ec; subst rc.
      assert (det tn <> qc0) as Htn by (apply (Hdn (bn, tn)); left; reflexivity).
      rewrite comps_resolve_app.
      (* the first nested reference *)
      pose proof (IH gs bn tn ln Hgs Htn En F0 gn rn Ean Ern) as H1.
      assert (comps_resolve F0 gs (map (fun nt => (fst nt, flat_tr t (snd nt))) ln) = Some (map (place t) (map (place tn) rn))) as H1'.
      { rewrite (map_ext _ (fun nt => (fst nt, compose t (snd nt)))) by (intros [? ?]; cbn [fst snd]; rewrite flatten_compose; reflexivity).
        apply comps_resolve_compose; [exact Ht|exact Hgs| |exact H1].
        intros x Hx. exact (flatten_comp_det f gs (bn, tn) ln Hgs Htn En x Hx). }
      rewrite (comps_resolve_mono _ _ _ _ H1').
      (* the remaining ones *)
      rewrite (IHn (fun n Hn => Hdn n (or_intror Hn)) lr rr eq_refl Err).
      rewrite map_app. reflexivity.
Qed.

(* MAIN: a glyph whose components have been flattened renders exactly what it rendered before *)
Theorem flatten_render gs g g' :
  wf_glyphset_P gs -> wf_glyph_P g -> flatten_glyph gs g = Some g' ->
  forall F r, resolve F gs g = Some r -> resolve F gs g' = Some r.
Proof.
  intros Hgs Hg E F r Er. unfold flatten_glyph in E.
  destruct (option_concat (map (flatten_comp (fuel_for gs) gs) (gcomps g))) as [cs|] eqn:Ec; [|discriminate].
  inversion E; subst g'. destruct F as [|F0]; [discriminate|].
  rewrite resolve_S' in Er. rewrite resolve_S'. cbn [gcomps gcontours].
  destruct (comps_resolve F0 gs (gcomps g)) as [rc|] eqn:Erc; [|discriminate]. inversion Er; subst r.
  assert (comps_resolve F0 gs cs = Some rc) as ->; [|reflexivity].
  assert (forall n, In n (gcomps g) -> det (snd n) <> qc0) as Hdn by (intros n Hn; apply (proj2 Hg n Hn)).
  clear Er E. revert cs rc Ec Erc. induction (gcomps g) as [|[b t] ns IHn]; intros cs rc Ec Erc.
  - cbn in Ec, Erc. inversion Ec; inversion Erc; subst. reflexivity.
  - cbn [map option_concat] in Ec.
    destruct (flatten_comp (fuel_for gs) gs (b, t)) as [l1|] eqn:E1; [|discriminate].
    match type of Ec with match ?X with _ => _ end = _ => destruct X as [lr|] eqn:Elr; [|discriminate] end. inversion Ec; subst cs.
    unfold comps_resolve in Erc. cbn [map option_concat fst snd] in Erc.
    destruct (assoc b gs) as [bg|] eqn:Ea; [|discriminate].
    destruct (resolve F0 gs bg) as [rb|] eqn:Erb; [|discriminate]. cbn [option_map] in Erc.
    match type of Erc with match ?X with _ => _ end = _ => destruct X as [rr|] eqn:Err; [|discriminate] end. inversion Erc; subst rc.
    rewrite comps_resolve_app.
    rewrite (flatten_comp_render _ gs b t l1 Hgs (Hdn (b, t) (or_introl eq_refl)) E1 F0 bg rb Ea Erb).
    rewrite (IHn (fun n Hn => Hdn n (or_intror Hn)) lr rr eq_refl Err). reflexivity.
Qed.
