From U2F Require Import Geometry.Model Geometry.ModelProofs Geometry.Filters.
Open Scope Qc_scope.

Lemma qc1_neq0 : qc1 <> qc0.
Proof. intro H. discriminate (f_equal (fun q => Qnum (this q)) H). Qed.

(* _flattenComponent's translate-then-2x2 composition is plain composition *)
Theorem flatten_compose outer inner : flat_tr outer inner = compose outer inner.
Proof.
  unfold flat_tr, translate, linear_of, compose; simpl.
  assert (qc1 = 1) as E1 by (apply Qc_is_canon; reflexivity).
  assert (qc0 = 0) as E0 by (apply Qc_is_canon; reflexivity).
  rewrite E1, E0. f_equal; ring.
Qed.

Theorem inverse_left t : det t <> qc0 -> compose (inverse t) t = aff_id.
Proof.
  intro Hd. unfold compose, inverse, aff_id, det in *; simpl.
  assert (qc1 = 1) as E1 by (apply Qc_is_canon; reflexivity).
  assert (qc0 = 0) as E0 by (apply Qc_is_canon; reflexivity).
  rewrite E1, E0 in *. f_equal; field; exact Hd.
Qed.

Lemma compose_assoc a b c : compose (compose a b) c = compose a (compose b c).
Proof. unfold compose; simpl. f_equal; ring. Qed.

Lemma compose_id_r a : compose a aff_id = a.
Proof.
  unfold compose, aff_id; simpl.
  assert (qc1 = 1) as E1 by (apply Qc_is_canon; reflexivity).
  assert (qc0 = 0) as E0 by (apply Qc_is_canon; reflexivity).
  rewrite E1, E0. destruct a; simpl. f_equal; ring.
Qed.

(* TransformationsFilter: a component (b,T) of an included glyph whose base was
   already transformed by M is rewritten to M.T.M^-1; on the transformed base
   this is M.T on the original base *)
Theorem transform_compensation m t :
  det m <> qc0 ->
  compose (compose m (compose t (inverse m))) m = compose m t.
Proof.
  intro Hd. rewrite !compose_assoc. rewrite (inverse_left m Hd). rewrite compose_id_r. reflexivity.
Qed.

(* the compensated matrix mirrors iff the original component does *)
Theorem compensation_keeps_orientation m t :
  det m <> qc0 -> det (compose m (compose t (inverse m))) = det t.
Proof.
  intro Hd. rewrite !det_compose.
  assert (det (inverse m) = / det m) as ->.
  { unfold inverse, det in *; simpl. field. exact Hd. }
  field. exact Hd.
Qed.
