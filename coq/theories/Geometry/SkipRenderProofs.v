(* C13: SkipExportGlyphsFilter on one glyph keeps what the glyph renders.
   For every glyph set (non-singular matrices, closed contours), every skip list and every
   glyph: if the filtered glyph exists, it resolves to a PERMUTATION of the contours the
   original resolves to (the inlined contours move in front of the remaining components). *)
From Coq Require Import QArith Qcanon List Bool Lia Permutation.
From U2F Require Import Base.Prelude Geometry.Model Geometry.ModelProofs Geometry.Cff Geometry.PassProofs
                        Geometry.Filters Geometry.FiltersProofs Geometry.FlattenProofs Geometry.SkipProofs.
Import ListNotations.
Open Scope Qc_scope.

Lemma perm_interleave {A} (c1 k1 c2 k2 : list A) :
  Permutation ((c1 ++ k1) ++ (c2 ++ k2)) ((c1 ++ c2) ++ (k1 ++ k2)).
Proof.
  rewrite <- !app_assoc. apply Permutation_app_head.
  rewrite !app_assoc. apply Permutation_app_tail. apply Permutation_app_comm.
Qed.

(* one reference met by the inlining pen *)
Lemma inline_render f : forall gs skip b t cs ks,
  wf_glyphset_P gs -> det t <> qc0 ->
  inline_skipped f gs skip b t = Some (cs, ks) ->
  forall F bg r, assoc b gs = Some bg -> resolve F gs bg = Some r ->
  exists rk, comps_resolve F gs ks = Some rk /\ Permutation (map (place t) r) (cs ++ rk).
Proof.
  induction f as [|f IH]; intros gs skip b t cs ks Hgs Ht E F bg r Ea Er; [discriminate|].
  cbn [inline_skipped] in E. destruct (mem b skip) eqn:Eb.
  2:{ inversion E; subst. exists (map (place t) r). split; [|rewrite app_nil_l; apply Permutation_refl].
      unfold comps_resolve. cbn [map option_concat fst snd]. rewrite Ea, Er. cbn [option_map]. rewrite app_nil_r. reflexivity. }
  rewrite Ea in E.
  match type of E with match ?X with _ => _ end = _ => destruct X as [[CS KS]|] eqn:Ep; [|discriminate] end.
  inversion E; subst cs ks. clear E.
  destruct F as [|F0]; [discriminate|]. rewrite resolve_S' in Er.
  destruct (comps_resolve F0 gs (gcomps bg)) as [rc|] eqn:Ec; [|discriminate]. inversion Er; subst r. clear Er.
  assert (forall n, In n (gcomps bg) -> det (snd n) <> qc0) as Hdn by (intros n Hn; apply (proj2 (Hgs b bg Ea) n Hn)).
  assert (exists RK, comps_resolve F0 gs KS = Some RK /\ Permutation (map (place t) rc) (CS ++ RK)) as [RK [HRK HP]].
  { clear Ea Eb. revert CS KS rc Ep Ec. induction (gcomps bg) as [|[bn tn] ns IHn]; intros CS KS rc Ep Ec.
    - cbn in Ep, Ec. inversion Ep; inversion Ec; subst. exists []. split; [reflexivity|apply Permutation_refl].
    - cbn [map pair_concat fst snd] in Ep.
      destruct (inline_skipped f gs skip bn (compose t tn)) as [[c1 k1]|] eqn:E1; [|discriminate].
      match type of Ep with match ?X with _ => _ end = _ => destruct X as [[C2 K2]|] eqn:Ep2; [|discriminate] end.
      inversion Ep; subst CS KS. clear Ep.
      unfold comps_resolve in Ec. cbn [map option_concat fst snd] in Ec.
      destruct (assoc bn gs) as [gn|] eqn:Ean; [|discriminate].
      destruct (resolve F0 gs gn) as [rn|] eqn:Ern; [|discriminate]. cbn [option_map] in Ec.
      match type of Ec with match ?X with _ => _ end = _ => destruct X as [rr|] eqn:Err; [|discriminate] end.
      inversion Ec; subst rc. clear Ec.
      assert (det tn <> qc0) as Htn by (apply (Hdn (bn, tn)); left; reflexivity).
      assert (det (compose t tn) <> qc0) as Hct by (rewrite det_compose; apply qc_mult_neq0; assumption).
      destruct (IH gs skip bn (compose t tn) c1 k1 Hgs Hct E1 F0 gn rn Ean Ern) as [rk1 [H1 P1]].
      destruct (IHn (fun n Hn => Hdn n (or_intror Hn)) C2 K2 rr eq_refl Err) as [RK2 [H2 P2]].
      exists (rk1 ++ RK2). split; [rewrite comps_resolve_app, H1, H2; reflexivity|].
      rewrite map_app.
      assert (map (place t) (map (place tn) rn) = map (place (compose t tn)) rn) as ->.
      { rewrite map_map. apply map_ext_in. intros c Hc. symmetry. apply place_compose; [exact Ht|exact Htn|].
        eapply resolve_wf; [exact Hgs|eapply Hgs; exact Ean|exact Ern|exact Hc]. }
      eapply Permutation_trans; [apply Permutation_app; [exact P1|exact P2]|apply perm_interleave]. }
  exists RK. split; [apply comps_resolve_mono; exact HRK|].
  rewrite map_app, <- app_assoc. apply Permutation_app_head. exact HP.
Qed.

(* MAIN (one glyph): the filtered glyph renders a permutation of what the glyph rendered *)
Theorem skip_glyph_render gs skip g g' :
  wf_glyphset_P gs -> wf_glyph_P g -> skip_glyph gs skip g = Some g' ->
  forall F r, resolve F gs g = Some r -> exists r', resolve F gs g' = Some r' /\ Permutation r r'.
Proof.
  intros Hgs Hg E F r Er. unfold skip_glyph in E.
  destruct (forallb (fun bt => negb (mem (fst bt) skip)) (gcomps g)).
  { inversion E; subst. exists r. split; [exact Er|apply Permutation_refl]. }
  match type of E with match ?X with _ => _ end = _ => destruct X as [[CS KS]|] eqn:Ep; [|discriminate] end.
  inversion E; subst g'. clear E.
  destruct F as [|F0]; [discriminate|]. rewrite resolve_S' in Er. rewrite resolve_S'. cbn [gcomps gcontours].
  destruct (comps_resolve F0 gs (gcomps g)) as [rc|] eqn:Ec; [|discriminate]. inversion Er; subst r. clear Er.
  assert (forall n, In n (gcomps g) -> det (snd n) <> qc0) as Hdn by (intros n Hn; apply (proj2 Hg n Hn)).
  assert (exists RK, comps_resolve F0 gs KS = Some RK /\ Permutation rc (CS ++ RK)) as [RK [HRK HP]].
  { revert CS KS rc Ep Ec. induction (gcomps g) as [|[b t] ns IHn]; intros CS KS rc Ep Ec.
    - cbn in Ep, Ec. inversion Ep; inversion Ec; subst. exists []. split; [reflexivity|apply Permutation_refl].
    - cbn [map pair_concat fst snd] in Ep.
      destruct (inline_skipped (fuel_for gs) gs skip b t) as [[c1 k1]|] eqn:E1; [|discriminate].
      match type of Ep with match ?X with _ => _ end = _ => destruct X as [[C2 K2]|] eqn:Ep2; [|discriminate] end.
      inversion Ep; subst CS KS. clear Ep.
      unfold comps_resolve in Ec. cbn [map option_concat fst snd] in Ec.
      destruct (assoc b gs) as [bg|] eqn:Ea; [|discriminate].
      destruct (resolve F0 gs bg) as [rb|] eqn:Erb; [|discriminate]. cbn [option_map] in Ec.
      match type of Ec with match ?X with _ => _ end = _ => destruct X as [rr|] eqn:Err; [|discriminate] end.
      inversion Ec; subst rc. clear Ec.
      destruct (inline_render _ gs skip b t c1 k1 Hgs (Hdn (b, t) (or_introl eq_refl)) E1 F0 bg rb Ea Erb) as [rk1 [H1 P1]].
      destruct (IHn (fun n Hn => Hdn n (or_intror Hn)) C2 K2 rr eq_refl Err) as [RK2 [H2 P2]].
      exists (rk1 ++ RK2). split; [rewrite comps_resolve_app, H1, H2; reflexivity|].
      eapply Permutation_trans; [apply Permutation_app; [exact P1|exact P2]|apply perm_interleave]. }
  rewrite HRK. exists ((gcontours g ++ CS) ++ RK). split; [reflexivity|].
  rewrite <- app_assoc. apply Permutation_app_head. exact HP.
Qed.

(* ------------------------------------------------------------------ *)
(* the whole filter: skipped glyphs removed, every other glyph replaced by its filtered version *)
Lemma skip_set_assoc gs0 skip l : forall l' n g,
  skip_set gs0 skip l = Some l' -> assoc n l = Some g -> mem n skip = false ->
  exists g', assoc n l' = Some g' /\ skip_glyph gs0 skip g = Some g'.
Proof.
  induction l as [|[m gm] l IH]; intros l' n g E Ea Hn; [discriminate|].
  cbn [skip_set] in E. cbn [assoc] in Ea.
  destruct (mem m skip) eqn:Em.
  - destruct (str_eqb n m) eqn:Enm; [apply str_eqb_eq in Enm; subst; congruence|]. exact (IH l' n g E Ea Hn).
  - destruct (skip_glyph gs0 skip gm) as [gm'|] eqn:Eg; [|discriminate].
    destruct (skip_set gs0 skip l) as [r'|] eqn:Er; [|discriminate]. inversion E; subst l'. cbn [assoc].
    destruct (str_eqb n m) eqn:Enm.
    + inversion Ea; subst. exists gm'. split; [reflexivity|exact Eg].
    + exact (IH r' n g eq_refl Ea Hn).
Qed.

Lemma skip_set_keys gs0 skip l : forall l', skip_set gs0 skip l = Some l' ->
  keys l' = filter (fun n => negb (mem n skip)) (keys l).
Proof.
  induction l as [|[m gm] l IH]; intros l' E; cbn [skip_set] in E.
  - inversion E; subst. reflexivity.
  - cbn [keys map fst filter]. destruct (mem m skip) eqn:Em; cbn [negb].
    + exact (IH l' E).
    + destruct (skip_glyph gs0 skip gm); [|discriminate]. destruct (skip_set gs0 skip l) as [r'|]; [|discriminate].
      inversion E; subst. cbn [keys map fst]. f_equal. exact (IH r' eq_refl).
Qed.

(* resolving in the filtered set: any glyph that references no skipped glyph renders a permutation *)
Lemma resolve_in_filtered gs skip gs' :
  wf_glyphset_P gs -> skip_filter gs skip = Some gs' ->
  forall F g2 r2, (forall k, In k (gcomps g2) -> mem (fst k) skip = false) ->
  resolve F gs g2 = Some r2 -> exists r2', resolve F gs' g2 = Some r2' /\ Permutation r2 r2'.
Proof.
  intros Hgs Hf. induction F as [|F IH]; intros g2 r2 Hns Er; [discriminate|].
  rewrite resolve_S' in Er. rewrite resolve_S'.
  destruct (comps_resolve F gs (gcomps g2)) as [rc|] eqn:Ec; [|discriminate]. inversion Er; subst r2. clear Er.
  assert (exists rc', comps_resolve F gs' (gcomps g2) = Some rc' /\ Permutation rc rc') as [rc' [Hrc' HP]].
  { revert rc Ec Hns. induction (gcomps g2) as [|[b t] l IHl]; intros rc Ec Hns.
    - cbn in Ec. inversion Ec; subst. exists []. split; [reflexivity|apply Permutation_refl].
    - unfold comps_resolve in Ec. cbn [map option_concat fst snd] in Ec.
      destruct (assoc b gs) as [gb|] eqn:Ea; [|discriminate].
      destruct (resolve F gs gb) as [rb|] eqn:Erb; [|discriminate]. cbn [option_map] in Ec.
      match type of Ec with match ?X with _ => _ end = _ => destruct X as [rr|] eqn:Err; [|discriminate] end.
      inversion Ec; subst rc. clear Ec.
      assert (mem b skip = false) as Hb by (apply (Hns (b, t)); left; reflexivity).
      destruct (skip_set_assoc gs skip gs gs' b gb Hf Ea Hb) as [gb' [Ea' Eg]].
      destruct (skip_glyph_render gs skip gb gb' Hgs (Hgs b gb Ea) Eg F rb Erb) as [rb2 [Er2 P2]].
      destruct (IH gb' rb2 (skip_absent gs skip gb gb' Eg) Er2) as [rb' [Er' P']].
      destruct (IHl rr Err (fun k Hk => Hns k (or_intror Hk))) as [rr' [Hrr' Pr]].
      exists (map (place t) rb' ++ rr'). split.
      + unfold comps_resolve in *. cbn [map option_concat fst snd]. rewrite Ea', Er'. cbn [option_map]. rewrite Hrr'. reflexivity.
      + apply Permutation_app; [apply Permutation_map; eapply Permutation_trans; eassumption|exact Pr]. }
  rewrite Hrc'. exists (gcontours g2 ++ rc'). split; [reflexivity|]. apply Permutation_app_head. exact HP.
Qed.

(* MAIN (whole filter): skipped names are gone, the others keep their relative order, advance and anchors,
   reference no skipped glyph, and render -- in the filtered glyph set -- a permutation of the contours
   they rendered before *)
Theorem skip_filter_preserves_rendering gs skip gs' :
  wf_glyphset_P gs -> skip_filter gs skip = Some gs' ->
  keys gs' = filter (fun n => negb (mem n skip)) (keys gs) /\
  forall n g, assoc n gs = Some g -> mem n skip = false ->
    exists g', assoc n gs' = Some g' /\ gwidth g' = gwidth g /\ ganchors g' = ganchors g /\
      (forall k, In k (gcomps g') -> mem (fst k) skip = false) /\
      forall F r, resolve F gs g = Some r -> exists r', resolve F gs' g' = Some r' /\ Permutation r r'.
Proof.
  intros Hgs Hf. split; [exact (skip_set_keys gs skip gs gs' Hf)|].
  intros n g Ea Hn. destruct (skip_set_assoc gs skip gs gs' n g Hf Ea Hn) as [g' [Ea' Eg]].
  exists g'. split; [exact Ea'|]. destruct (skip_keeps_own gs skip g g' Eg) as (Hw & Han & _).
  split; [exact Hw|]. split; [exact Han|]. split; [exact (skip_absent gs skip g g' Eg)|].
  intros F r Er. destruct (skip_glyph_render gs skip g g' Hgs (Hgs n g Ea) Eg F r Er) as [r2 [Er2 P2]].
  destruct (resolve_in_filtered gs skip gs' Hgs Hf F g' r2 (skip_absent gs skip g g' Eg) Er2) as [r' [Er' P']].
  exists r'. split; [exact Er'|eapply Permutation_trans; eassumption].
Qed.
