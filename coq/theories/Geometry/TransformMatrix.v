(* C15: the matrix TransformationsFilter.set_context builds from its options, step by step as the code does
   (Transform.translate / scale / skew each append an operation that is applied to the point FIRST), and the
   closed form the check uses as its independently stated "requested matrix". *)
From U2F Require Import Base.Prelude Geometry.Model.

Definition a_translate (x y : Qc) : affine := mkA qc1 qc0 qc0 qc1 x y.
Definition a_scale (x y : Qc) : affine := mkA x qc0 qc0 y qc0 qc0.
(* Transform.skew(x): (1, tan(y)=0, tan(x), 1, 0, 0); t stands for tan(radians(Slant)) *)
Definition a_skew (t : Qc) : affine := mkA qc1 qc0 t qc1 qc0 qc0.

Definition nz (q : Qc) : bool := negb (qc_eqb q qc0).
Definition ne1 (q : Qc) : bool := negb (qc_eqb q qc1).

(* ox oy: OffsetX/Y; fx fy: ScaleX/100, ScaleY/100; t: tan(Slant); h: the origin height *)
Definition build_matrix (ox oy fx fy t h : Qc) : affine :=
  let m1 := if nz ox || nz oy then compose aff_id (a_translate ox oy) else aff_id in
  if ne1 fx || ne1 fy || nz t then
    let m2 := if nz h then compose m1 (a_translate qc0 h) else m1 in
    let m3 := if ne1 fx || ne1 fy then compose m2 (a_scale fx fy) else m2 in
    let m4 := if nz t then compose m3 (a_skew t) else m3 in
    if nz h then compose m4 (a_translate qc0 (- h)) else m4
  else m1.

Definition closed_form (ox oy fx fy t h : Qc) : affine :=
  mkA fx qc0 (fx * t) fy (ox - fx * t * h) (oy + h - fy * h).

Definition affine_eqb (a b : affine) : bool :=
  qc_eqb (xx a) (xx b) && qc_eqb (xy a) (xy b) && qc_eqb (yx a) (yx b) && qc_eqb (yy a) (yy b) &&
  qc_eqb (dx a) (dx b) && qc_eqb (dy a) (dy b).
