(* C15: TransformationsFilter applied to a whole glyph set maps what every glyph renders by the
   requested matrix -- for all glyph sets, all invertible matrices. *)
From Coq Require Import QArith Qcanon List Bool Lia.
From U2F Require Import Base.Prelude Geometry.Model Geometry.ModelProofs Geometry.Cff Geometry.PassProofs
                        Geometry.Filters Geometry.FiltersProofs Geometry.FlattenProofs.
Import ListNotations.
Open Scope Qc_scope.

Lemma assoc_transform_set m n gs : assoc n (transform_set m gs) = option_map (transform_glyph m) (assoc n gs).
Proof.
  induction gs as [|[k g] gs IH]; [reflexivity|]. cbn [transform_set map assoc fst snd]. fold (transform_set m gs).
  destruct (str_eqb n k); [reflexivity|exact IH].
Qed.

(* placing a transformed base through the compensated matrix = transforming the placed base *)
Lemma place_compensated m t c : det m <> qc0 ->
  place (compose m (compose t (inverse m))) (aff_contour m c) = aff_contour m (place t c).
Proof.
  intro Hm. unfold place.
  assert (mirrors (compose m (compose t (inverse m))) = mirrors t) as ->
    by (unfold mirrors; rewrite (compensation_keeps_orientation m t Hm); reflexivity).
  rewrite <- aff_contour_compose, (transform_compensation m t Hm), aff_contour_compose.
  destruct (mirrors t); [apply rev_aff_commute|reflexivity].
Qed.

Theorem transform_render m gs : det m <> qc0 -> forall F g r,
  resolve F gs g = Some r ->
  resolve F (transform_set m gs) (transform_glyph m g) = Some (map (aff_contour m) r).
Proof.
  intro Hm. induction F as [|F IH]; intros g r Er; [discriminate|].
  unfold transform_glyph at 1.
  rewrite resolve_S' in Er. rewrite resolve_S'. cbn [gcomps gcontours].
  destruct (comps_resolve F gs (gcomps g)) as [rc|] eqn:Ec; [|discriminate]. inversion Er; subst r.
  assert (comps_resolve F (transform_set m gs)
            (map (fun bt => (fst bt, compose m (compose (snd bt) (inverse m)))) (gcomps g)) = Some (map (aff_contour m) rc)) as ->.
  { clear Er. revert rc Ec. induction (gcomps g) as [|[b t] l IHl]; intros rc Ec.
    - cbn in Ec. inversion Ec; subst. reflexivity.
    - unfold comps_resolve in *. cbn [map option_concat fst snd] in *. rewrite assoc_transform_set.
      destruct (assoc b gs) as [gb|] eqn:Ea; [|discriminate]. cbn [option_map].
      destruct (resolve F gs gb) as [rb|] eqn:Erb; [|discriminate]. cbn [option_map] in Ec.
      match type of Ec with match ?X with _ => _ end = _ => destruct X as [rr|] eqn:Err; [|discriminate] end.
      inversion Ec; subst rc. rewrite (IH gb rb Erb). cbn [option_map]. rewrite (IHl rr eq_refl).
      f_equal. rewrite map_app. f_equal. rewrite !map_map. apply map_ext. intro c. apply place_compensated. exact Hm. }
  rewrite map_app. reflexivity.
Qed.

(* every glyph's advance is scaled -- the empty ones (space) too *)
Theorem transform_scales_every_advance m gs n g :
  assoc n gs = Some g -> option_map gwidth (assoc n (transform_set m gs)) = Some (xx m * gwidth g).
Proof. intro E. rewrite assoc_transform_set, E. reflexivity. Qed.

(* advances are scaled, anchors mapped, names and order kept *)
Theorem transform_keeps_structure m gs :
  keys (transform_set m gs) = keys gs /\
  forall n g, assoc n gs = Some g -> assoc n (transform_set m gs) = Some (transform_glyph m g).
Proof.
  split.
  - unfold keys, transform_set. rewrite map_map. reflexivity.
  - intros n g E. rewrite assoc_transform_set, E. reflexivity.
Qed.
