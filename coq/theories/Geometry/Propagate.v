(* C15: filters/propagateAnchors.py -- _propagate_glyph_anchors, _get_anchor_data, _adjust_anchors -- as executable
   Gallina.  One composite at a time (`propagate_step`, its components already done) and the whole memoised recursion
   (`propagate`).  In a mark made only of marks ("circumflexcomb_tildecomb") one mark is promoted to base; WHICH one is decided
   by outline bounds and is an input of the model (`promo`); without it `propagate_step` answers None there.  Definitions only. *)
From Coq Require Import QArith Qcanon.
From U2F Require Import Base.Prelude Geometry.Model.

Definition pt := (Qc * Qc)%type.
Definition anchors := list (str * pt).

Definition aff_xy (t : affine) (p : pt) : pt :=
  (xx t * fst p + yx t * snd p + dx t, xy t * fst p + yy t * snd p + dy t).

Fixpoint prefix (p s : str) : bool :=                     (* s.startswith(p) *)
  match p, s with
  | [], _ => true
  | a :: p', b :: s' => Z.eqb a b && prefix p' s'
  | _ :: _, [] => false
  end.

Definition us : Z := 95.                                   (* "_" *)
Definition attaching (n : str) : bool := match n with c :: _ => Z.eqb c us | [] => false end.
Definition is_mark_glyph (g : glyph) : bool := existsb (fun a => attaching (fst a)) (ganchors g).

Fixpoint lookup (n : str) (gs : glyphset) : option glyph :=
  match gs with [] => None | (k, g) :: r => if str_eqb n k then Some g else lookup n r end.

(* decimal digits of a positive number, for "top_1", "top_2", ... *)
Fixpoint digits (fuel : nat) (n : nat) (acc : str) : str :=
  match fuel with
  | O => acc
  | S f => let d := Z.of_nat (Nat.modulo n 10) in
           let acc' := (48 + d)%Z :: acc in
           if Nat.ltb n 10 then acc' else digits f (Nat.div n 10) acc'
  end.
Definition dec (n : nat) : str := digits (S n) n [].
Definition numbered (n : str) (i : nat) : str := n ++ us :: dec i.

(* to_add: a dict in insertion order; assigning to an existing key keeps its place *)
Fixpoint set_key (k : str) (v : pt) (l : anchors) : anchors :=
  match l with
  | [] => [(k, v)]
  | (k', v') :: r => if str_eqb k k' then (k', v) :: r else (k', v') :: set_key k v r
  end.
Definition has_key (k : str) (l : anchors) : bool := existsb (fun a => str_eqb k (fst a)) l.

(* _get_anchor_data: the FIRST anchor of that name in every component's glyph; one hit keeps the name, several are numbered *)
Definition hits (gs : glyphset) (comps : list (str * affine)) (n : str) : list (pt * affine) :=
  flat_map (fun c => match lookup (fst c) gs with
                     | Some g => match assoc n (ganchors g) with Some p => [(p, snd c)] | None => [] end
                     | None => [] end) comps.
Fixpoint add_numbered (n : str) (i : nat) (hs : list (pt * affine)) (acc : anchors) : anchors :=
  match hs with
  | [] => acc
  | (p, t) :: r => add_numbered n (S i) r (set_key (numbered n i) (aff_xy t p) acc)
  end.
Definition get_anchor_data (gs : glyphset) (comps : list (str * affine)) (n : str) (acc : anchors) : anchors :=
  match hits gs comps n with
  | [] => acc
  | [(p, t)] => set_key n (aff_xy t p) acc
  | hs => add_numbered n 1 hs acc
  end.

(* _adjust_anchors: a mark component that attaches by x ("_x" and "x") moves the composite's x onto its own x *)
Definition adjust_step (g : glyph) (t : affine) (acc : anchors) (a : str * pt) : anchors :=
  if has_key (fst a) acc && existsb (fun b => str_eqb (fst b) (us :: fst a)) (ganchors g)
  then set_key (fst a) (aff_xy t (snd a)) acc else acc.
Definition adjust (gs : glyphset) (acc : anchors) (c : str * affine) : anchors :=
  match lookup (fst c) gs with
  | None => acc
  | Some g => fold_left (adjust_step g (snd c)) (ganchors g) acc
  end.

Fixpoint dedup (l : list str) : list str :=
  match l with [] => [] | x :: r => if mem x r then dedup r else x :: dedup r end.

Fixpoint mem_Z (c : Z) (s : str) : bool := match s with [] => false | d :: r => Z.eqb c d || mem_Z c r end.
Definition is_ligature_mark (n : str) : bool := negb (attaching n) && mem_Z us n.

Definition present (gs : glyphset) (c : str * affine) : bool := match lookup (fst c) gs with Some _ => true | None => false end.
Definition comp_is_mark (gs : glyphset) (c : str * affine) : bool :=
  match lookup (fst c) gs with Some g => is_mark_glyph g | None => false end.

(* the anchors to add to composite g (its components' glyphs, in gs, already carry their propagated anchors), given which of
   its components act as bases and which as attaching marks *)
Definition to_add_with (gs : glyphset) (g : glyph) (bases marks : list (str * affine)) : anchors :=
  let names := sort_str (dedup (flat_map (fun c => match lookup (fst c) gs with Some b => map fst (ganchors b) | None => [] end) bases)) in
  let t := fold_left (fun acc n => if existsb (fun a => prefix n (fst a)) (ganchors g) then acc
                                   else get_anchor_data gs bases n acc) names [] in
  fold_left (adjust gs) marks t.

Definition bases_of (gs : glyphset) (g : glyph) : list (str * affine) :=
  filter (fun c => negb (comp_is_mark gs c)) (filter (present gs) (gcomps g)).
Definition marks_of (gs : glyphset) (g : glyph) : list (str * affine) :=
  filter (comp_is_mark gs) (filter (present gs) (gcomps g)).

Definition to_add (gs : glyphset) (g : glyph) : anchors := to_add_with gs g (bases_of gs g) (marks_of gs g).

(* a mark made only of marks: the k-th mark component is promoted to base (`mark_components.remove(component)`,
   `base_components.append(component)`); WHICH one -- the component whose outline reaches closest to the origin -- is decided
   by outline bounds and is an input of the model *)
Fixpoint remove_nth {A} (k : nat) (l : list A) : list A :=
  match l, k with
  | [], _ => []
  | _ :: r, O => r
  | x :: r, S k' => x :: remove_nth k' r
  end.
Definition to_add_promoted (gs : glyphset) (g : glyph) (k : nat) : anchors :=
  match nth_error (marks_of gs g) k with
  | Some c => to_add_with gs g (bases_of gs g ++ [c]) (remove_nth k (marks_of gs g))
  | None => to_add gs g
  end.

Definition sorted_items (l : anchors) : anchors :=
  flat_map (fun k => match assoc k l with Some v => [(k, v)] | None => [] end) (sort_str (keys l)).

(* mark_names: glyphs categorised as marks (a mark that has anchors of its own is not looked into) *)
Definition skipped (mark_names : list str) (name : str) (g : glyph) : bool :=
  match gcomps g with [] => true | _ => mem name mark_names && negb (match ganchors g with [] => true | _ => false end) end.

Definition promotes (gs : glyphset) (name : str) (g : glyph) : bool :=
  let comps := filter (present gs) (gcomps g) in
  negb (match filter (comp_is_mark gs) comps with [] => true | _ => false end)
  && (match filter (fun c => negb (comp_is_mark gs c)) comps with [] => true | _ => false end)
  && is_ligature_mark name.

(* promo: for the marks made only of marks, the index (among the mark components) of the component to promote; a glyph that
   needs one and has none is outside the model (None) *)
Definition propagate_step_p (gs : glyphset) (mark_names : list str) (promo : list (str * nat)) (name : str) (g : glyph) : option glyph :=
  if skipped mark_names name g then Some g
  else if promotes gs name g then
    match assoc name promo with
    | None => None
    | Some k => Some (mkG (gcontours g) (gcomps g) (gwidth g) (ganchors g ++ sorted_items (to_add_promoted gs g k)))
    end
  else Some (mkG (gcontours g) (gcomps g) (gwidth g) (ganchors g ++ sorted_items (to_add gs g))).

Definition propagate_step (gs : glyphset) (mark_names : list str) (name : str) (g : glyph) : option glyph :=
  propagate_step_p gs mark_names [] name g.

(* the memoised recursion: components first, each glyph once; None = a glyph the model does not cover was met *)
Fixpoint propagate_p (fuel : nat) (mark_names : list str) (promo : list (str * nat)) (st : option (glyphset * list str)) (name : str)
  : option (glyphset * list str) :=
  match fuel, st with
  | _, None => None
  | O, _ => None
  | S f, Some (gs, done) =>
      if mem name done then st
      else match lookup name gs with
           | None => Some (gs, name :: done)
           | Some g =>
               if skipped mark_names name g then Some (gs, name :: done)
               else match fold_left (fun st c => match st with
                                                 | Some (gs1, _) => if present gs1 c then propagate_p f mark_names promo st (fst c) else st
                                                 | None => None end)
                                    (gcomps g) (Some (gs, name :: done)) with
                    | None => None
                    | Some (gs1, done1) =>
                        match propagate_step_p gs1 mark_names promo name g with
                        | None => None
                        | Some g' => Some (set_glyph name g' gs1, done1)
                        end
                    end
           end
  end.

Definition propagate (fuel : nat) (mark_names : list str) := propagate_p fuel mark_names [].

Definition propagate_all_p (mark_names : list str) (promo : list (str * nat)) (included : list str) (gs : glyphset) : option glyphset :=
  option_map fst (fold_left (propagate_p (S (length gs)) mark_names promo) included (Some (gs, []))).

Definition propagate_all (mark_names : list str) (included : list str) (gs : glyphset) : option glyphset :=
  propagate_all_p mark_names [] included gs.

(* comparison with the filter's output: every glyph's anchors, in order *)
Definition anchors_eqb (a b : anchors) : bool :=
  list_eqb (fun x y => str_eqb (fst x) (fst y) && qc_eqb (fst (snd x)) (fst (snd y)) && qc_eqb (snd (snd x)) (snd (snd y))) a b.
Definition glyphset_anchors_eqb (a b : glyphset) : bool :=
  list_eqb (fun x y => str_eqb (fst x) (fst y) && anchors_eqb (ganchors (snd x)) (ganchors (snd y))) a b.
