From U2F Require Import Base.Prelude Geometry.Model Geometry.ModelProofs.
From U2F Require Import Geometry.TransformMatrix.

Lemma nz_false q : nz q = false -> q = qc0.
Proof. unfold nz. intro H. apply negb_false_iff in H. apply qc_eqb_eq in H. exact H. Qed.
Lemma ne1_false q : ne1 q = false -> q = qc1.
Proof. unfold ne1. intro H. apply negb_false_iff in H. apply qc_eqb_eq in H. exact H. Qed.

Lemma affine_ext a b :
  xx a = xx b -> xy a = xy b -> yx a = yx b -> yy a = yy b -> dx a = dx b -> dy a = dy b -> a = b.
Proof. destruct a, b; cbn; intros; subst; reflexivity. Qed.

Ltac qc_fields := apply affine_ext; cbn [xx xy yx yy dx dy compose aff_id a_translate a_scale a_skew closed_form];
  unfold qc0, qc1; try (change (Q2Qc 0) with 0%Qc); try (change (Q2Qc 1) with 1%Qc); ring.

(* the step-by-step construction, with every "skip this step if it is the identity" shortcut of the code, is the
   closed form -- for all option values *)
Theorem build_matrix_closed_form ox oy fx fy t h :
  build_matrix ox oy fx fy t h = closed_form ox oy fx fy t h.
Proof.
  unfold build_matrix.
  destruct (nz ox || nz oy) eqn:Eo; [|apply orb_false_iff in Eo; destruct Eo as [Eox Eoy]; apply nz_false in Eox, Eoy; subst ox oy];
  (destruct (ne1 fx || ne1 fy) eqn:Es; [|apply orb_false_iff in Es; destruct Es as [Esx Esy]; apply ne1_false in Esx, Esy; subst fx fy]);
  (destruct (nz t) eqn:Et; [|apply nz_false in Et; subst t]);
  (destruct (nz h) eqn:Eh; [|apply nz_false in Eh; subst h]);
  cbn [orb]; qc_fields.
Qed.

(* what the matrix does to a point: slant about the origin height, then scale about it, then offset *)
Theorem build_matrix_point ox oy fx fy t h p :
  aff_pnt (build_matrix ox oy fx fy t h) p =
  mkP (ox + fx * (px p + t * (py p - h))) (oy + h + fy * (py p - h)) (on p).
Proof.
  rewrite build_matrix_closed_form. unfold aff_pnt, closed_form. cbn [xx xy yx yy dx dy].
  f_equal; unfold qc0; change (Q2Qc 0) with 0%Qc; ring.
Qed.

(* swapping the scale and slant steps (seeded change C15-sub4) is a different matrix as soon as the scale is not uniform *)
Example swapped_order_differs :
  let m := compose (compose aff_id (a_skew (Q2Qc (1#2)))) (a_scale (Q2Qc 2) (Q2Qc 1)) in
  affine_eqb m (build_matrix qc0 qc0 (Q2Qc 2) (Q2Qc 1) (Q2Qc (1#2)) qc0) = false.
Proof. vm_compute. reflexivity. Qed.
