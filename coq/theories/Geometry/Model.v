(* Geometry model shared by C01, C02, C13, C15: contours, affine maps, the
   fontTools pen chain that ufo2ft's decomposeCompositeGlyph drives
   (DecomposingFilterPointPen / TransformPointPen / ReverseContourPointPen),
   and the nested "resolved outline" the properties speak about.
   Exact arithmetic over canonical rationals Qc (Leibniz equality).
   Definitions only. *)
From Coq Require Export QArith Qcanon Qround.
From U2F Require Export Base.Prelude.
Open Scope Qc_scope.

(* ---- numbers ---- *)
Definition qc_eqb (a b : Qc) : bool := Qeq_bool (this a) (this b).
Definition qc_ltb (a b : Qc) : bool := match (this a ?= this b)%Q with Lt => true | _ => false end.
Definition qc_leb (a b : Qc) : bool := negb (qc_ltb b a).
Definition qc0 : Qc := Q2Qc 0.
Definition qc1 : Qc := Q2Qc 1.

(* fontTools.misc.roundTools.otRound: int(math.floor(v + 0.5)) *)
Definition otRound (q : Qc) : Z := Qfloor (this q + (1 # 2))%Q.
Definition qc_of_Z (z : Z) : Qc := Q2Qc (inject_Z z).

(* ---- contours ---- *)
Inductive ptype := Move | Line | Curve | QCurve.
Definition ptype_eqb (a b : ptype) : bool :=
  match a, b with Move, Move | Line, Line | Curve, Curve | QCurve, QCurve => true | _, _ => false end.

Record pnt := mkP { px : Qc; py : Qc; on : bool }.
(* a contour = its points in order with on/off flags + the segment types of
   its on-curve points in order (length ctypes = number of on-curve points);
   open iff the first type is Move *)
Record contour := mkC { cpts : list pnt; ctypes : list ptype }.

Definition pnt_eqb (a b : pnt) : bool := qc_eqb (px a) (px b) && qc_eqb (py a) (py b) && Bool.eqb (on a) (on b).
Definition contour_eqb (a b : contour) : bool :=
  list_eqb pnt_eqb (cpts a) (cpts b) && list_eqb ptype_eqb (ctypes a) (ctypes b).

Definition is_open (c : contour) : bool :=
  match ctypes c with Move :: _ => true | _ => false end.

(* ---- affine maps (fontTools.misc.transform.Transform) ---- *)
Record affine := mkA { xx : Qc; xy : Qc; yx : Qc; yy : Qc; dx : Qc; dy : Qc }.
Definition aff_id : affine := mkA qc1 qc0 qc0 qc1 qc0 qc0.

(* Transform.transformPoint *)
Definition aff_pnt (t : affine) (p : pnt) : pnt :=
  mkP (xx t * px p + yx t * py p + dx t) (xy t * px p + yy t * py p + dy t) (on p).
Definition aff_contour (t : affine) (c : contour) : contour := mkC (map (aff_pnt t) (cpts c)) (ctypes c).

(* a.transform(t): t first, then a *)
Definition compose (a t : affine) : affine :=
  mkA (xx t * xx a + xy t * yx a) (xx t * xy a + xy t * yy a)
      (yx t * xx a + yy t * yx a) (yx t * xy a + yy t * yy a)
      (xx a * dx t + yx a * dy t + dx a) (xy a * dx t + yy a * dy t + dy a).

Definition det (t : affine) : Qc := xx t * yy t - xy t * yx t.
Definition mirrors (t : affine) : bool := qc_ltb (det t) qc0.

(* ---- ReverseContourPointPen._flushContour ---- *)
Definition rot_right {A} (l : list A) : list A :=
  match rev l with [] => [] | x :: r => x :: rev r end.       (* last :: removelast *)

Fixpoint drop_leading_off (l : list pnt) : list pnt :=
  match l with
  | p :: l' => if on p then l else drop_leading_off l'
  | [] => []
  end.

Definition rev_contour (c : contour) : contour :=
  match cpts c with
  | [] => c
  | p0 :: rest =>
      if is_open c then
        mkC (drop_leading_off (rev (cpts c)))
            (match ctypes c with t0 :: r => t0 :: rev r | [] => [] end)
      else
        mkC (p0 :: rev rest)
            (if on p0 then match ctypes c with t1 :: r => rot_right (t1 :: rev r) | [] => [] end
             else rot_right (rev (ctypes c)))
  end.

Definition place (t : affine) (c : contour) : contour :=
  let c' := aff_contour t c in if mirrors t then rev_contour c' else c'.

(* ---- glyphs ---- *)
Record glyph := mkG {
  gcontours : list contour;
  gcomps : list (str * affine);
  gwidth : Qc;
  ganchors : list (str * (Qc * Qc)) }.
Definition glyphset := list (str * glyph).

Fixpoint option_concat {A} (l : list (option (list A))) : option (list A) :=
  match l with
  | [] => Some []
  | None :: _ => None
  | Some x :: l' => match option_concat l' with Some r => Some (x ++ r) | None => None end
  end.

(* the nested meaning: own contours, then every component's resolved base
   mapped by that component's own matrix, reversed iff that matrix mirrors.
   None = missing base or out of fuel (cycle). *)
Fixpoint resolve (fuel : nat) (gs : glyphset) (g : glyph) : option (list contour) :=
  match fuel with
  | O => None
  | S f =>
      match option_concat
              (map (fun bt => match assoc (fst bt) gs with
                              | None => None
                              | Some bg => option_map (map (place (snd bt))) (resolve f gs bg)
                              end) (gcomps g)) with
      | None => None
      | Some cs => Some (gcontours g ++ cs)
      end
  end.

(* the pen chain: a component (b,T) met while drawing with accumulated matrix A
   is drawn with A.transform(T); reversal is decided by the sign of det of the
   composed matrix; nested components re-enter the top pen *)
Fixpoint deco (fuel : nat) (gs : glyphset) (a : affine) (g : glyph) : option (list contour) :=
  match fuel with
  | O => None
  | S f =>
      match option_concat
              (map (fun bt => match assoc (fst bt) gs with
                              | None => None
                              | Some bg => deco f gs (compose a (snd bt)) bg
                              end) (gcomps g)) with
      | None => None
      | Some cs => Some (map (place a) (gcontours g) ++ cs)
      end
  end.

(* decomposeCompositeGlyph(glyph, glyphSet): own contours stay, components are
   drawn through the decomposing pen in order *)
Definition decompose (fuel : nat) (gs : glyphset) (g : glyph) : option (list contour) :=
  match option_concat
          (map (fun bt => match assoc (fst bt) gs with
                          | None => None
                          | Some bg => deco fuel gs (snd bt) bg
                          end) (gcomps g)) with
  | None => None
  | Some cs => Some (gcontours g ++ cs)
  end.

(* DecomposeComponentsFilter as BaseFilter drives it: the glyphs are visited in
   the glyph set's iteration order and each composite is decomposed IN PLACE,
   against the glyph set as it is at that moment (so a base visited earlier is
   already flat when a later composite refers to it) *)
Definition set_glyph (n : str) (g : glyph) (gs : glyphset) : glyphset :=
  map (fun ng => if str_eqb n (fst ng) then (fst ng, g) else ng) gs.
Definition flat_glyph (g : glyph) (cs : list contour) : glyph := mkG cs [] (gwidth g) (ganchors g).
Definition filter_step (fuel : nat) (acc : option glyphset) (n : str) : option glyphset :=
  match acc with
  | None => None
  | Some gs =>
      match assoc n gs with
      | None => Some gs
      | Some g =>
          match gcomps g with
          | [] => Some gs
          | _ :: _ => match decompose fuel gs g with
                      | Some cs => Some (set_glyph n (flat_glyph g cs) gs)
                      | None => None
                      end
          end
      end
  end.
Definition decompose_pass (fuel : nat) (order : list str) (gs : glyphset) : option glyphset :=
  fold_left (filter_step fuel) order (Some gs).

(* ---- rounding (T2CharStringPen roundTolerance / otRound) ---- *)
(* fontTools.misc.roundTools.roundFunc(tolerance): 0 -> identity; >= 0.5 -> otRound;
   else maybeRound: keep v unless |otRound v - v| <= tolerance *)
Definition qc_abs (q : Qc) : Qc := if qc_ltb q qc0 then - q else q.
Definition round_tol (tol : Qc) (v : Qc) : Qc :=
  if qc_eqb tol qc0 then v
  else if qc_leb (Q2Qc (1 # 2)) tol then qc_of_Z (otRound v)
  else let r := qc_of_Z (otRound v) in if qc_leb (qc_abs (r - v)) tol then r else v.
Definition round_pnt (tol : Qc) (p : pnt) : pnt := mkP (round_tol tol (px p)) (round_tol tol (py p)) (on p).
Definition round_contour (tol : Qc) (c : contour) : contour := mkC (map (round_pnt tol) (cpts c)) (ctypes c).

(* ---- canonical start point for comparing closed contours read back from a
   compiled font: rotate so that the first on-curve point comes first ---- *)
Fixpoint count_on (l : list pnt) : nat :=
  match l with [] => O | p :: l' => (if on p then 1 else 0) + count_on l' end.
Fixpoint leading_off (l : list pnt) : list pnt :=
  match l with p :: l' => if on p then [] else p :: leading_off l' | [] => [] end.
Definition canon_start (c : contour) : contour :=
  if is_open c then c
  else match count_on (cpts c) with
       | O => c
       | _ => mkC (drop_leading_off (cpts c) ++ leading_off (cpts c)) (ctypes c)
       end.

(* ---- well-formedness (boolean) ---- *)
Definition wf_contour (c : contour) : bool :=
  Nat.eqb (length (ctypes c)) (count_on (cpts c)) &&
  (if is_open c
   then match cpts c with p0 :: _ => on p0 | [] => false end &&
        match rev (cpts c) with pl :: _ => on pl | [] => false end &&
        negb (existsb (ptype_eqb Move) (tl (ctypes c)))
   else negb (existsb (ptype_eqb Move) (ctypes c))).

Definition wf_glyph (g : glyph) : bool :=
  forallb wf_contour (gcontours g) &&
  forallb (fun bt => negb (qc_eqb (det (snd bt)) qc0)) (gcomps g).
Definition wf_glyphset (gs : glyphset) : bool := forallb (fun ng => wf_glyph (snd ng)) gs.

(* ---- comparing outlines ---- *)
Definition outline_eqb (a b : list contour) : bool := list_eqb contour_eqb a b.
Definition opt_outline_eqb (a b : option (list contour)) : bool := option_eqb outline_eqb a b.

(* short constructors for generated case files *)
Definition qq (n : Z) (d : positive) : Qc := Q2Qc (Qmake n d).
Definition qi (n : Z) : Qc := Q2Qc (inject_Z n).
