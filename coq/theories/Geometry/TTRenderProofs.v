(* C02: the TrueType pre-processing pipeline (decompose mixed glyphs, optionally flatten, reverse every
   contour) renders every glyph as the source does, contour for contour, with each contour reversed.
   For all glyph sets with non-singular component matrices and closed contours (plain reversal, i.e.
   convertCubics = False; with the cubic-to-quadratic pen the start point is rotated as well, which is
   compared cyclically by the check). *)
From Coq Require Import QArith Qcanon List Bool Lia.
From U2F Require Import Base.Prelude Geometry.Model Geometry.ModelProofs Geometry.Cff Geometry.PassProofs
                        Geometry.Filters Geometry.FiltersProofs Geometry.FlattenProofs Geometry.TT Geometry.TTProofs.
Import ListNotations.
Open Scope Qc_scope.

Lemma map_gs_assoc f gs : forall gs' n g,
  map_gs f gs = Some gs' -> assoc n gs = Some g -> exists g', assoc n gs' = Some g' /\ f g = Some g'.
Proof.
  induction gs as [|[m gm] r IH]; intros gs' n g E Ea; [discriminate|].
  cbn [map_gs] in E. destruct (f gm) as [gm'|] eqn:Ef; [|discriminate].
  destruct (map_gs f r) as [r'|] eqn:Er; [|discriminate]. inversion E; subst gs'.
  cbn [assoc] in *. destruct (str_eqb n m).
  - inversion Ea; subst. exists gm'. split; [reflexivity|exact Ef].
  - exact (IH r' n g eq_refl Ea).
Qed.

(* replacing every glyph by one that renders the same in the ORIGINAL set changes no rendering *)
Lemma resolve_congruence gs gs' :
  (forall n g, assoc n gs = Some g ->
     exists g', assoc n gs' = Some g' /\ forall F r, resolve F gs g = Some r -> resolve F gs g' = Some r) ->
  forall F g r, resolve F gs g = Some r -> resolve F gs' g = Some r.
Proof.
  intro H. induction F as [|F IH]; intros g r Er; [discriminate|].
  rewrite resolve_S' in Er. rewrite resolve_S'.
  destruct (comps_resolve F gs (gcomps g)) as [rc|] eqn:Ec; [|discriminate]. inversion Er; subst r.
  assert (comps_resolve F gs' (gcomps g) = Some rc) as ->; [|reflexivity].
  clear Er. revert rc Ec. induction (gcomps g) as [|[b t] l IHl]; intros rc Ec; [exact Ec|].
  unfold comps_resolve in *. cbn [map option_concat fst snd] in *.
  destruct (assoc b gs) as [gb|] eqn:Ea; [|discriminate].
  destruct (resolve F gs gb) as [rb|] eqn:Erb; [|discriminate]. cbn [option_map] in Ec.
  match type of Ec with match ?X with _ => _ end = _ => destruct X as [rr|] eqn:Err; [|discriminate] end.
  destruct (H b gb Ea) as [gb' [Ea' Hr]]. rewrite Ea'. rewrite (IH gb' rb (Hr F rb Erb)). cbn [option_map].
  rewrite (IHl rr eq_refl). exact Ec.
Qed.

Corollary resolve_congruence_glyph gs gs' :
  (forall n g, assoc n gs = Some g ->
     exists g', assoc n gs' = Some g' /\ forall F r, resolve F gs g = Some r -> resolve F gs g' = Some r) ->
  forall n g, assoc n gs = Some g -> exists g', assoc n gs' = Some g' /\
    forall F r, resolve F gs g = Some r -> resolve F gs' g' = Some r.
Proof.
  intros H n g Ea. destruct (H n g Ea) as [g' [Ea' Hr]]. exists g'. split; [exact Ea'|].
  intros F r Er. apply (resolve_congruence gs gs' H). apply Hr. exact Er.
Qed.

(* decomposing a mixed glyph keeps what it renders *)
Lemma decompose_mixed_render gs g g' :
  wf_glyphset_P gs -> wf_glyph_P g -> decompose_mixed_glyph gs g = Some g' ->
  forall F r, resolve F gs g = Some r -> resolve F gs g' = Some r.
Proof.
  intros Hgs Hg E F r Er. unfold decompose_mixed_glyph in E. destruct (is_mixed g); [|inversion E; subst; exact Er].
  destruct (decompose (fuel_for gs) gs g) as [cs|] eqn:Ed; [|discriminate]. inversion E; subst g'.
  rewrite (decompose_resolve _ gs g Hgs Hg) in Ed.
  assert (cs = r) as -> by (eapply resolve_det; eassumption).
  destruct F as [|F0]; [discriminate|]. rewrite resolve_S'. cbn [gcomps gcontours comps_resolve map option_concat].
  rewrite app_nil_r. reflexivity.
Qed.

Lemma decompose_mixed_wf gs g g' :
  wf_glyphset_P gs -> wf_glyph_P g -> decompose_mixed_glyph gs g = Some g' -> wf_glyph_P g'.
Proof.
  intros Hgs Hg E. unfold decompose_mixed_glyph in E. destruct (is_mixed g); [|inversion E; subst; exact Hg].
  destruct (decompose (fuel_for gs) gs g) as [cs|] eqn:Ed; [|discriminate]. inversion E; subst g'.
  rewrite (decompose_resolve _ gs g Hgs Hg) in Ed. split; cbn [gcontours gcomps].
  - intros c Hc. eapply resolve_wf; [exact Hgs|exact Hg|exact Ed|exact Hc].
  - intros bt [].
Qed.

(* reversing every contour of every glyph reverses every rendered contour *)
Definition rev_set (gs : glyphset) : glyphset := map (fun ng => (fst ng, reverse_glyph false (snd ng))) gs.

Lemma assoc_rev_set n gs : assoc n (rev_set gs) = option_map (reverse_glyph false) (assoc n gs).
Proof.
  induction gs as [|[m g] gs IH]; [reflexivity|]. cbn [rev_set map assoc fst snd]. fold (rev_set gs).
  destruct (str_eqb n m); [reflexivity|exact IH].
Qed.

Lemma place_rev t c : wf_closed c -> place t (rev_contour c) = rev_contour (place t c).
Proof.
  intro H. unfold place. destruct (mirrors t).
  - rewrite <- rev_aff_commute. reflexivity.
  - apply eq_sym. apply rev_aff_commute.
Qed.

Lemma resolve_rev_set gs : wf_glyphset_P gs -> forall F g r,
  wf_glyph_P g -> resolve F gs g = Some r ->
  resolve F (rev_set gs) (reverse_glyph false g) = Some (map rev_contour r).
Proof.
  intro Hgs. induction F as [|F IH]; intros g r Hg Er; [discriminate|].
  rewrite resolve_S' in Er. rewrite resolve_S'. cbn [reverse_glyph gcomps gcontours].
  destruct (comps_resolve F gs (gcomps g)) as [rc|] eqn:Ec; [|discriminate]. inversion Er; subst r.
  assert (comps_resolve F (rev_set gs) (gcomps g) = Some (map rev_contour rc)) as ->.
  { assert (forall n, In n (gcomps g) -> True) as _ by auto.
    clear Er. revert rc Ec. induction (gcomps g) as [|[b t] l IHl]; intros rc Ec.
    - cbn in Ec. inversion Ec; subst. reflexivity.
    - unfold comps_resolve in *. cbn [map option_concat fst snd] in *. rewrite assoc_rev_set.
      destruct (assoc b gs) as [gb|] eqn:Ea; [|discriminate]. cbn [option_map].
      destruct (resolve F gs gb) as [rb|] eqn:Erb; [|discriminate]. cbn [option_map] in Ec.
      match type of Ec with match ?X with _ => _ end = _ => destruct X as [rr|] eqn:Err; [|discriminate] end.
      inversion Ec; subst rc. rewrite (IH gb rb (Hgs b gb Ea) Erb). cbn [option_map]. rewrite (IHl rr eq_refl).
      f_equal. rewrite map_app. f_equal. rewrite !map_map. apply map_ext_in. intros c Hc. apply place_rev.
      eapply resolve_wf; [exact Hgs|eapply Hgs; exact Ea|exact Erb|exact Hc]. }
  rewrite map_app. reflexivity.
Qed.

Lemma map_gs_assoc_inv f gs : forall gs' n g',
  map_gs f gs = Some gs' -> assoc n gs' = Some g' -> exists g, assoc n gs = Some g /\ f g = Some g'.
Proof.
  induction gs as [|[m gm] r IH]; intros gs' n g' E Ea; cbn [map_gs] in E.
  - inversion E; subst. discriminate.
  - destruct (f gm) as [gm'|] eqn:Ef; [|discriminate].
    destruct (map_gs f r) as [r'|] eqn:Er; [|discriminate]. inversion E; subst gs'.
    cbn [assoc] in *. destruct (str_eqb n m).
    + inversion Ea; subst. exists gm. split; [reflexivity|exact Ef].
    + exact (IH r' n g' eq_refl Ea).
Qed.

Lemma map_gs_total_rev gs : map_gs (fun g => Some (reverse_glyph false g)) gs = Some (rev_set gs).
Proof. induction gs as [|[m g] r IH]; [reflexivity|]. cbn [map_gs rev_set map fst snd]. fold (rev_set r). rewrite IH. reflexivity. Qed.

Lemma flatten_glyph_wf gs g g' :
  wf_glyphset_P gs -> wf_glyph_P g -> flatten_glyph gs g = Some g' -> wf_glyph_P g'.
Proof.
  intros Hgs [Hc Hd] E. unfold flatten_glyph in E.
  destruct (option_concat (map (flatten_comp (fuel_for gs) gs) (gcomps g))) as [cs|] eqn:Ec; [|discriminate].
  inversion E; subst g'. split; cbn [gcontours gcomps]; [exact Hc|].
  intros x Hx. destruct (option_concat_Some _ _ Ec x Hx) as [o [Ho Hxo]].
  apply in_map_iff in Ho. destruct Ho as [[b t] [Eo Hbt]].
  exact (flatten_comp_det _ gs (b, t) o Hgs (Hd (b, t) Hbt) Eo x Hxo).
Qed.

(* MAIN: with plain reversal (convertCubics = False) the pre-processed glyph set renders every glyph exactly as the
   source does, each contour reversed -- mixed glyphs decomposed, nested references flattened on request *)
Theorem tt_pre_renders_reversed flatten gs gs' :
  wf_glyphset_P gs -> tt_pre flatten false gs = Some gs' ->
  forall n g, assoc n gs = Some g ->
    exists g', assoc n gs' = Some g' /\
      forall F r, resolve F gs g = Some r -> resolve F gs' g' = Some (map rev_contour r).
Proof.
  intros Hgs E n g Ea. unfold tt_pre in E.
  destruct (map_gs (decompose_mixed_glyph gs) gs) as [gs1|] eqn:E1; [|discriminate].
  (* stage 1 *)
  assert (forall m gm, assoc m gs = Some gm ->
            exists g1, assoc m gs1 = Some g1 /\ forall F r, resolve F gs gm = Some r -> resolve F gs g1 = Some r) as S1.
  { intros m gm Hm. destruct (map_gs_assoc _ _ _ _ _ E1 Hm) as [g1 [A1 D1]]. exists g1. split; [exact A1|].
    intros F r Er. exact (decompose_mixed_render gs gm g1 Hgs (Hgs m gm Hm) D1 F r Er). }
  assert (wf_glyphset_P gs1) as Hgs1.
  { intros m g1 A1. destruct (map_gs_assoc_inv _ _ _ _ _ E1 A1) as [gm [Am Dm]].
    exact (decompose_mixed_wf gs gm g1 Hgs (Hgs m gm Am) Dm). }
  destruct (resolve_congruence_glyph gs gs1 S1 n g Ea) as [g1 [A1 R1]].
  destruct flatten.
  - destruct (map_gs (flatten_glyph gs1) gs1) as [gs2|] eqn:E2; [|discriminate].
    assert (forall m gm, assoc m gs1 = Some gm ->
              exists g2, assoc m gs2 = Some g2 /\ forall F r, resolve F gs1 gm = Some r -> resolve F gs1 g2 = Some r) as S2.
    { intros m gm Hm. destruct (map_gs_assoc _ _ _ _ _ E2 Hm) as [g2 [A2 D2]]. exists g2. split; [exact A2|].
      intros F r Er. exact (flatten_render gs1 gm g2 Hgs1 (Hgs1 m gm Hm) D2 F r Er). }
    assert (wf_glyphset_P gs2) as Hgs2.
    { intros m g2 A2. destruct (map_gs_assoc_inv _ _ _ _ _ E2 A2) as [gm [Am Dm]].
      exact (flatten_glyph_wf gs1 gm g2 Hgs1 (Hgs1 m gm Am) Dm). }
    destruct (resolve_congruence_glyph gs1 gs2 S2 n g1 A1) as [g2 [A2 R2]].
    rewrite map_gs_total_rev in E. inversion E; subst gs'.
    exists (reverse_glyph false g2). split; [rewrite assoc_rev_set, A2; reflexivity|].
    intros F r Er. apply resolve_rev_set; [exact Hgs2|exact (Hgs2 n g2 A2)|]. apply R2. apply R1. exact Er.
  - rewrite map_gs_total_rev in E. inversion E; subst gs'.
    exists (reverse_glyph false g1). split; [rewrite assoc_rev_set, A1; reflexivity|].
    intros F r Er. apply resolve_rev_set; [exact Hgs1|exact (Hgs1 n g1 A1)|]. apply R1. exact Er.
Qed.
