(* Proofs about the geometry model: the flat pen-chain decomposition equals the
   nested resolved outline (C01/C15), reversal is an involution that commutes
   with affine maps, determinants multiply, rounding bounds. *)
From Coq Require Import Lqa.
From U2F Require Import Geometry.Model.
Open Scope Qc_scope.

(* ------------------------------------------------------------------ *)
(* numbers *)

Lemma qc_eqb_eq a b : qc_eqb a b = true <-> a = b.
Proof.
  unfold qc_eqb. rewrite Qeq_bool_iff. split.
  - apply Qc_is_canon.
  - intros ->. reflexivity.
Qed.

Lemma qc_ltb_lt a b : qc_ltb a b = true <-> a < b.
Proof.
  unfold qc_ltb, Qclt. rewrite Qlt_alt. destruct (this a ?= this b)%Q; split; congruence.
Qed.

Lemma this_mult a b : (this (a * b) == this a * this b)%Q.
Proof. unfold Qcmult, Q2Qc. cbn [this]. apply Qred_correct. Qed.
Lemma this_plus a b : (this (a + b) == this a + this b)%Q.
Proof. unfold Qcplus, Q2Qc. cbn [this]. apply Qred_correct. Qed.
Lemma this_opp a : (this (- a) == - this a)%Q.
Proof. unfold Qcopp, Q2Qc. cbn [this]. apply Qred_correct. Qed.
Lemma this_qc0 : (this qc0 == 0)%Q.
Proof. reflexivity. Qed.

Lemma qc_neq0 a : a <> qc0 <-> ~ (this a == 0)%Q.
Proof.
  split; intros H E; apply H.
  - apply Qc_is_canon. rewrite E. reflexivity.
  - subst. reflexivity.
Qed.

(* sign of a product *)
Lemma mirrors_mult a b : a <> qc0 -> b <> qc0 ->
  qc_ltb (a * b) qc0 = xorb (qc_ltb a qc0) (qc_ltb b qc0).
Proof.
  intros Ha Hb. apply qc_neq0 in Ha. apply qc_neq0 in Hb.
  destruct (qc_ltb (a * b) qc0) eqn:E1, (qc_ltb a qc0) eqn:E2, (qc_ltb b qc0) eqn:E3; try reflexivity; exfalso;
    repeat match goal with
           | H : qc_ltb _ _ = true |- _ => apply qc_ltb_lt in H; unfold Qclt in H
           | H : qc_ltb ?x ?y = false |- _ =>
               assert (~ (this x < this y)%Q) by (intro C; assert (qc_ltb x y = true) as D by (apply qc_ltb_lt; exact C); congruence);
               clear H
           end;
    try rewrite this_mult in *; rewrite ?this_qc0 in *;
    set (x := this a) in *; set (y := this b) in *; clearbody x y; nra.
Qed.

(* ------------------------------------------------------------------ *)
(* affine algebra *)

Lemma aff_pnt_compose a t p : aff_pnt (compose a t) p = aff_pnt a (aff_pnt t p).
Proof. unfold aff_pnt, compose; simpl. f_equal; ring. Qed.

Lemma aff_contour_compose a t c : aff_contour (compose a t) c = aff_contour a (aff_contour t c).
Proof.
  unfold aff_contour; simpl. f_equal. rewrite map_map. apply map_ext. intro p. apply aff_pnt_compose.
Qed.

Lemma det_compose a t : det (compose a t) = det a * det t.
Proof. unfold det, compose; simpl. ring. Qed.

Lemma qc_mult_neq0 a b : a <> qc0 -> b <> qc0 -> a * b <> qc0.
Proof.
  intros Ha Hb E. destruct (Qcmult_integral _ _ E); auto.
Qed.

Lemma mirrors_compose a t : det a <> qc0 -> det t <> qc0 ->
  mirrors (compose a t) = xorb (mirrors a) (mirrors t).
Proof. intros Ha Ht. unfold mirrors. rewrite det_compose. apply mirrors_mult; assumption. Qed.

(* ------------------------------------------------------------------ *)
(* reversal *)

Lemma rot_right_snoc {A} (l : list A) x : rot_right (l ++ [x]) = x :: l.
Proof. unfold rot_right. rewrite rev_unit, rev_involutive. reflexivity. Qed.

Lemma rot_right_length {A} (l : list A) : length (rot_right l) = length l.
Proof.
  destruct (rev l) as [|x r] eqn:E.
  - unfold rot_right. rewrite E. apply (f_equal (@rev A)) in E. rewrite rev_involutive in E. subst. reflexivity.
  - assert (l = rev r ++ [x]) as -> by (rewrite <- (rev_involutive l), E; reflexivity).
    rewrite rot_right_snoc, app_length. simpl. lia.
Qed.

Lemma rot_right_existsb {A} (f : A -> bool) l : existsb f (rot_right l) = existsb f l.
Proof.
  destruct (rev l) as [|x r] eqn:E.
  - apply (f_equal (@rev A)) in E. rewrite rev_involutive in E. subst. reflexivity.
  - assert (l = rev r ++ [x]) as -> by (rewrite <- (rev_involutive l), E; reflexivity).
    rewrite rot_right_snoc, existsb_app. simpl. rewrite orb_false_r. apply orb_comm.
Qed.

Lemma rot_rev_rot_rev {A} (l : list A) : rot_right (rev (rot_right (rev l))) = l.
Proof.
  destruct l as [|x l]; [reflexivity|].
  simpl rev at 2. rewrite rot_right_snoc. simpl rev. rewrite rev_involutive. apply rot_right_snoc.
Qed.

Definition nomove (l : list ptype) : Prop := existsb (ptype_eqb Move) l = false.

Definition wf_closed (c : contour) : Prop :=
  length (ctypes c) = count_on (cpts c) /\ nomove (ctypes c).

Lemma nomove_not_open c : nomove (ctypes c) -> is_open c = false.
Proof.
  unfold nomove, is_open. destruct (ctypes c) as [|[] r]; simpl; congruence.
Qed.

Lemma existsb_rev {A} (f : A -> bool) l : existsb f (rev l) = existsb f l.
Proof.
  induction l as [|x l IH]; [reflexivity|]. simpl. rewrite existsb_app, IH. simpl.
  rewrite orb_false_r. apply orb_comm.
Qed.

Lemma count_on_app a b : count_on (a ++ b) = (count_on a + count_on b)%nat.
Proof. induction a as [|p a IH]; simpl; [reflexivity|]. rewrite IH. lia. Qed.

Lemma count_on_rev l : count_on (rev l) = count_on l.
Proof. induction l as [|p l IH]; simpl; [reflexivity|]. rewrite count_on_app, IH. simpl. lia. Qed.

(* the segment types of the reversed closed contour *)
Definition rev_types (on0 : bool) (ts : list ptype) : list ptype :=
  if on0 then match ts with t1 :: r => rot_right (t1 :: rev r) | [] => [] end
  else rot_right (rev ts).

Lemma rev_types_invol b ts : rev_types b (rev_types b ts) = ts.
Proof.
  destruct b; unfold rev_types.
  - destruct ts as [|t1 r]; [reflexivity|].
    destruct r as [|y r']; [reflexivity|].
    simpl rev. rewrite app_comm_cons, rot_right_snoc.
    simpl rev. rewrite rev_involutive.
    change (y :: r' ++ [t1]) with ((y :: r') ++ [t1]). apply rot_right_snoc.
  - apply rot_rev_rot_rev.
Qed.

Lemma rev_types_length b ts : length (rev_types b ts) = length ts.
Proof.
  destruct b; unfold rev_types.
  - destruct ts as [|t1 r]; [reflexivity|]. rewrite rot_right_length. simpl. rewrite rev_length. reflexivity.
  - rewrite rot_right_length, rev_length. reflexivity.
Qed.

Lemma rev_types_nomove b ts : nomove ts -> nomove (rev_types b ts).
Proof.
  unfold nomove. destruct b; unfold rev_types.
  - destruct ts as [|t1 r]; [auto|]. rewrite rot_right_existsb. simpl. rewrite existsb_rev. auto.
  - rewrite rot_right_existsb, existsb_rev. auto.
Qed.

Lemma rev_contour_closed c p0 rest :
  cpts c = p0 :: rest -> nomove (ctypes c) ->
  rev_contour c = mkC (p0 :: rev rest) (rev_types (on p0) (ctypes c)).
Proof.
  intros E Hn. unfold rev_contour. rewrite E, (nomove_not_open c Hn). reflexivity.
Qed.

Lemma rev_contour_wf c : wf_closed c -> wf_closed (rev_contour c).
Proof.
  intros [Hl Hn]. destruct (cpts c) as [|p0 rest] eqn:E.
  - unfold rev_contour. rewrite E. split; [rewrite E; exact Hl|exact Hn].
  - rewrite (rev_contour_closed c p0 rest E Hn). split; simpl.
    + rewrite rev_types_length, Hl. simpl. rewrite count_on_rev. reflexivity.
    + apply rev_types_nomove. exact Hn.
Qed.

Theorem rev_contour_involutive c : wf_closed c -> rev_contour (rev_contour c) = c.
Proof.
  intros [Hl Hn]. destruct c as [pts ts]. simpl in *. destruct pts as [|p0 rest].
  - reflexivity.
  - rewrite (rev_contour_closed (mkC (p0 :: rest) ts) p0 rest eq_refl Hn). simpl ctypes.
    rewrite (rev_contour_closed (mkC (p0 :: rev rest) (rev_types (on p0) ts)) p0 (rev rest) eq_refl); simpl.
    + rewrite rev_involutive, rev_types_invol. reflexivity.
    + apply rev_types_nomove. exact Hn.
Qed.

Lemma drop_leading_off_map t l :
  drop_leading_off (map (aff_pnt t) l) = map (aff_pnt t) (drop_leading_off l).
Proof.
  induction l as [|p l IH]; [reflexivity|]. simpl. destruct (on p); [reflexivity|exact IH].
Qed.

Theorem rev_aff_commute t c : rev_contour (aff_contour t c) = aff_contour t (rev_contour c).
Proof.
  destruct c as [pts ts]. unfold rev_contour, aff_contour, is_open. simpl.
  destruct pts as [|p0 rest]; [reflexivity|]. simpl map.
  destruct ts as [|[] r]; simpl; try (f_equal; rewrite map_rev; reflexivity).
  f_equal. rewrite <- drop_leading_off_map. f_equal. rewrite map_app, map_rev. reflexivity.
Qed.

Lemma count_on_map t l : count_on (map (aff_pnt t) l) = count_on l.
Proof. induction l as [|p l IH]; simpl; [reflexivity|]. rewrite IH. reflexivity. Qed.

Lemma aff_contour_wf t c : wf_closed c -> wf_closed (aff_contour t c).
Proof. intros [Hl Hn]. split; simpl; [rewrite count_on_map; exact Hl|exact Hn]. Qed.

Lemma place_wf t c : wf_closed c -> wf_closed (place t c).
Proof.
  intro H. unfold place. destruct (mirrors t); [apply rev_contour_wf|]; apply aff_contour_wf; exact H.
Qed.

(* placing through a composed matrix = placing twice (the heart of C01/C15) *)
Theorem place_compose a t c :
  det a <> qc0 -> det t <> qc0 -> wf_closed c ->
  place (compose a t) c = place a (place t c).
Proof.
  intros Ha Ht Hc. unfold place. rewrite (mirrors_compose a t Ha Ht), aff_contour_compose.
  destruct (mirrors a), (mirrors t); simpl.
  - rewrite rev_aff_commute. rewrite rev_contour_involutive; [reflexivity|].
    apply aff_contour_wf. exact Hc.
  - reflexivity.
  - rewrite rev_aff_commute. reflexivity.
  - reflexivity.
Qed.

(* ------------------------------------------------------------------ *)
(* decomposition = nested resolution *)

Definition wf_glyph_P (g : glyph) : Prop :=
  (forall c, In c (gcontours g) -> wf_closed c) /\
  (forall bt, In bt (gcomps g) -> det (snd bt) <> qc0).
Definition wf_glyphset_P (gs : glyphset) : Prop :=
  forall n g, assoc n gs = Some g -> wf_glyph_P g.

Lemma option_concat_Some {A} (l : list (option (list A))) r :
  option_concat l = Some r -> forall x, In x r -> exists o, In (Some o) l /\ In x o.
Proof.
  revert r. induction l as [|[o|] l IH]; simpl; intros r E x Hx.
  - inversion E; subst. destruct Hx.
  - destruct (option_concat l) as [r'|]; [|discriminate]. inversion E; subst.
    apply in_app_or in Hx. destruct Hx as [Hx|Hx]; [exists o; auto|].
    destruct (IH r' eq_refl x Hx) as [o' [H1 H2]]. exists o'. auto.
  - discriminate.
Qed.

Lemma resolve_wf fuel : forall gs g r,
  wf_glyphset_P gs -> wf_glyph_P g -> resolve fuel gs g = Some r ->
  forall c, In c r -> wf_closed c.
Proof.
  induction fuel as [|f IH]; intros gs g r Hgs Hg E c Hc; [discriminate|].
  simpl in E.
  destruct (option_concat _) as [cs|] eqn:Eo; [|discriminate]. inversion E; subst.
  apply in_app_or in Hc. destruct Hc as [Hc|Hc]; [apply Hg; exact Hc|].
  destruct (option_concat_Some _ _ Eo c Hc) as [o [Ho Hin]].
  apply in_map_iff in Ho. destruct Ho as [[b t] [Eb Hbt]]. simpl in Eb.
  destruct (assoc b gs) as [bg|] eqn:Ea; [|discriminate].
  destruct (resolve f gs bg) as [rb|] eqn:Er; [|discriminate].
  simpl in Eb. inversion Eb; subst. apply in_map_iff in Hin. destruct Hin as [c0 [<- Hc0]].
  apply place_wf. eapply IH; [exact Hgs|eapply Hgs; exact Ea|exact Er|exact Hc0].
Qed.

Lemma option_concat_map_ext {A B} (F G : A -> option (list B)) (h : list B -> list B) l :
  (forall x y, h (x ++ y) = h x ++ h y) -> h [] = [] ->
  (forall x, In x l -> F x = option_map h (G x)) ->
  option_concat (map F l) = option_map h (option_concat (map G l)).
Proof.
  intros Happ Hnil. induction l as [|x l IH]; intro Hpt; simpl; [rewrite Hnil; reflexivity|].
  rewrite (Hpt x (or_introl eq_refl)).
  destruct (G x) as [o|]; simpl; [|reflexivity].
  rewrite IH by (intros y Hy; apply Hpt; right; exact Hy).
  destruct (option_concat (map G l)); simpl; [rewrite Happ|]; reflexivity.
Qed.

Theorem deco_resolve fuel : forall gs a g,
  wf_glyphset_P gs -> wf_glyph_P g -> det a <> qc0 ->
  deco fuel gs a g = option_map (map (place a)) (resolve fuel gs g).
Proof.
  induction fuel as [|f IH]; intros gs a g Hgs Hg Ha; [reflexivity|].
  simpl.
  rewrite (option_concat_map_ext
             (fun bt => match assoc (fst bt) gs with
                        | Some bg => deco f gs (compose a (snd bt)) bg | None => None end)
             (fun bt => match assoc (fst bt) gs with
                        | Some bg => option_map (map (place (snd bt))) (resolve f gs bg) | None => None end)
             (map (place a))).
  - destruct (option_concat _) as [cs|]; simpl; [rewrite map_app|]; reflexivity.
  - intros x y. apply map_app.
  - reflexivity.
  - intros [b t] Hbt. simpl. destruct (assoc b gs) as [bg|] eqn:Ea; [|reflexivity].
    assert (det t <> qc0) as Ht by (apply (proj2 Hg (b, t) Hbt)).
    rewrite IH; [|exact Hgs|eapply Hgs; exact Ea|rewrite det_compose; apply qc_mult_neq0; assumption].
    destruct (resolve f gs bg) as [rb|] eqn:Er; simpl; [|reflexivity].
    f_equal. rewrite map_map. apply map_ext_in. intros c Hc.
    apply place_compose; [exact Ha|exact Ht|].
    eapply resolve_wf; [exact Hgs|eapply Hgs; exact Ea|exact Er|exact Hc].
Qed.

(* decomposeCompositeGlyph yields exactly the nested resolved outline:
   nothing lost, duplicated or reordered *)
Theorem decompose_resolve fuel gs g :
  wf_glyphset_P gs -> wf_glyph_P g ->
  decompose fuel gs g = resolve (S fuel) gs g.
Proof.
  intros Hgs Hg. unfold decompose. cbn [resolve].
  match goal with
  | |- match option_concat (map ?F _) with _ => _ end = match option_concat (map ?G _) with _ => _ end =>
      rewrite (map_ext_in F G)
  end; [reflexivity|].
  intros [b t] Hbt. cbn [fst snd].
  destruct (assoc b gs) as [bg|] eqn:Ea; [|reflexivity].
  apply deco_resolve; [exact Hgs|eapply Hgs; exact Ea|apply (proj2 Hg (b, t) Hbt)].
Qed.

(* boolean well-formedness implies the propositional one *)
Lemma wf_contour_closed c : wf_contour c = true -> is_open c = false -> wf_closed c.
Proof.
  unfold wf_contour. intros H Ho. rewrite Ho in H. apply andb_true_iff in H. destruct H as [H1 H2].
  split; [apply Nat.eqb_eq; exact H1|]. unfold nomove. apply negb_true_iff. exact H2.
Qed.

(* ------------------------------------------------------------------ *)
(* rounding *)

Theorem otRound_half_up q :
  (inject_Z (otRound q) - (1 # 2) <= this q)%Q /\ (this q < inject_Z (otRound q) + (1 # 2))%Q.
Proof.
  unfold otRound. pose proof (Qfloor_le (this q + (1 # 2))) as H1.
  pose proof (Qlt_floor (this q + (1 # 2))) as H2.
  rewrite inject_Z_plus in H2. change (inject_Z 1) with 1%Q in H2.
  set (f := inject_Z (Qfloor (this q + (1 # 2)))) in *. clearbody f.
  split; lra.
Qed.

Lemma otRound_integer z : otRound (qc_of_Z z) = z.
Proof.
  unfold otRound, qc_of_Z, Q2Qc. cbn [this].
  assert (Qred (inject_Z z) + (1#2) == inject_Z z + (1#2))%Q as E by (rewrite Qred_correct; reflexivity).
  rewrite (Qfloor_comp _ _ E).
  pose proof (Qfloor_le (inject_Z z + (1 # 2))) as H1.
  pose proof (Qlt_floor (inject_Z z + (1 # 2))) as H2.
  rewrite inject_Z_plus in H2. change (inject_Z 1) with 1%Q in H2.
  set (f := Qfloor (inject_Z z + (1 # 2))) in *.
  assert (inject_Z f <= inject_Z z + (1#2))%Q by exact H1.
  assert (inject_Z z - (1#2) < inject_Z f)%Q by lra.
  assert (f <= z)%Z.
  { destruct (Z_le_gt_dec f z); [assumption|]. exfalso.
    assert (z + 1 <= f)%Z as H3 by lia. rewrite Zle_Qle in H3. rewrite inject_Z_plus in H3.
    change (inject_Z 1) with 1%Q in H3. lra. }
  assert (z <= f)%Z.
  { destruct (Z_le_gt_dec z f); [assumption|]. exfalso.
    assert (f + 1 <= z)%Z as H4 by lia. rewrite Zle_Qle in H4. rewrite inject_Z_plus in H4.
    change (inject_Z 1) with 1%Q in H4. lra. }
  lia.
Qed.
