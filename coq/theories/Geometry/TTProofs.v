From U2F Require Import Geometry.Model Geometry.Cff Geometry.Filters Geometry.TT.

Lemma map_gs_In f gs gs' :
  map_gs f gs = Some gs' -> forall n g', In (n, g') gs' -> exists g, In (n, g) gs /\ f g = Some g'.
Proof.
  revert gs'. induction gs as [|[n0 g0] r IH]; simpl; intros gs' E n g' Hin.
  - inversion E; subst. destruct Hin.
  - destruct (f g0) as [g0'|] eqn:Ef; [|discriminate].
    destruct (map_gs f r) as [r'|]; [|discriminate]. inversion E; subst.
    destruct Hin as [Hin|Hin].
    + inversion Hin; subst. exists g0. auto.
    + destruct (IH r' eq_refl n g' Hin) as [g [H1 H2]]. exists g. auto.
Qed.

Lemma decompose_mixed_not_mixed gs g g' : decompose_mixed_glyph gs g = Some g' -> is_mixed g' = false.
Proof.
  unfold decompose_mixed_glyph. destruct (is_mixed g) eqn:E.
  - destruct (decompose _ gs g); [|discriminate]. intro H. inversion H; subst.
    unfold is_mixed; simpl. destruct l; reflexivity.
  - intro H. inversion H; subst. exact E.
Qed.

Lemma flatten_not_mixed gs g g' : is_mixed g = false -> flatten_glyph gs g = Some g' -> is_mixed g' = false.
Proof.
  unfold flatten_glyph, is_mixed. intro Hm.
  destruct (option_concat _) as [cs|] eqn:E; [|discriminate]. intro H. inversion H; subst; simpl.
  destruct (gcontours g) as [|c cl]; [reflexivity|].
  destruct (gcomps g) as [|k kl]; [|discriminate]. simpl in E. inversion E; subst. reflexivity.
Qed.

Lemma reverse_not_mixed cv g : is_mixed g = false -> is_mixed (reverse_glyph cv g) = false.
Proof.
  unfold is_mixed, reverse_glyph; simpl. destruct (gcontours g); simpl; auto.
Qed.

(* after TrueType pre-processing no glyph has both contours and components *)
Theorem tt_no_mixed flatten convert gs gs' :
  tt_pre flatten convert gs = Some gs' -> forall n g, In (n, g) gs' -> is_mixed g = false.
Proof.
  unfold tt_pre. destruct (map_gs (decompose_mixed_glyph gs) gs) as [gs1|] eqn:E1; [|discriminate].
  destruct flatten.
  - destruct (map_gs (flatten_glyph gs1) gs1) as [gs2|] eqn:E2; [|discriminate].
    intros E3 n g Hin.
    destruct (map_gs_In _ _ _ E3 n g Hin) as [g2 [H2 Hr]]. inversion Hr; subst.
    apply reverse_not_mixed.
    destruct (map_gs_In _ _ _ E2 n g2 H2) as [g1 [H1 Hf]].
    eapply flatten_not_mixed; [|exact Hf].
    destruct (map_gs_In _ _ _ E1 n g1 H1) as [g0 [_ Hd]].
    eapply decompose_mixed_not_mixed. exact Hd.
  - intros E3 n g Hin.
    destruct (map_gs_In _ _ _ E3 n g Hin) as [g1 [H1 Hr]]. inversion Hr; subst.
    apply reverse_not_mixed.
    destruct (map_gs_In _ _ _ E1 n g1 H1) as [g0 [_ Hd]].
    eapply decompose_mixed_not_mixed. exact Hd.
Qed.

(* straight and quadratic segments are reproduced point for point, rounded:
   the glyf points of a contour are the rounded source points, same count, same flags *)
Theorem tt_points_pointwise c :
  map (fun t => snd t) (tt_points c) = map on (cpts c) /\ length (tt_points c) = length (cpts c).
Proof.
  unfold tt_points. split.
  - rewrite map_map. reflexivity.
  - apply map_length.
Qed.
