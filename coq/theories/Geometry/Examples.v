(* The hypotheses of the geometry theorems are satisfiable and their conclusions are not vacuous:
   a concrete glyph set (a mirrored component, a nested composite with a scale, a mixed glyph)
   on which every function the theorems speak about returns a result. *)
From Coq Require Import QArith Qcanon List Bool Lia.
From U2F Require Import Base.Prelude Geometry.Model Geometry.ModelProofs Geometry.Cff Geometry.PassProofs
                        Geometry.Filters Geometry.TT Geometry.SkipRenderProofs.
Import ListNotations.
Open Scope Qc_scope.

Definition closed_glyphset (gs : glyphset) : bool :=
  forallb (fun ng => forallb (fun c => negb (is_open c)) (gcontours (snd ng))) gs.

Lemma assoc_In {V} n (l : list (str * V)) v : assoc n l = Some v -> In (n, v) l.
Proof.
  induction l as [|[m w] l IH]; cbn [assoc]; [discriminate|].
  destruct (str_eqb n m) eqn:E; [apply str_eqb_eq in E; subst; intro H; inversion H; subst; left; reflexivity|].
  intro H. right. exact (IH H).
Qed.

(* the boolean checks (which vm_compute can run) imply the hypotheses of the theorems *)
Lemma wf_glyphset_bool gs : wf_glyphset gs = true -> closed_glyphset gs = true -> wf_glyphset_P gs.
Proof.
  intros Hw Hc n g Ea. apply assoc_In in Ea.
  unfold wf_glyphset in Hw. rewrite forallb_forall in Hw. specialize (Hw (n, g) Ea). cbn [snd] in Hw.
  unfold closed_glyphset in Hc. rewrite forallb_forall in Hc. specialize (Hc (n, g) Ea). cbn [snd] in Hc.
  unfold wf_glyph in Hw. apply andb_true_iff in Hw. destruct Hw as [H1 H2].
  rewrite forallb_forall in H1, H2, Hc. split.
  - intros c Hin. apply wf_contour_closed; [apply H1; exact Hin|]. specialize (Hc c Hin). apply negb_true_iff in Hc. exact Hc.
  - intros bt Hin E. specialize (H2 bt Hin). apply negb_true_iff in H2.
    assert (qc_eqb (det (snd bt)) qc0 = true) as H3 by (apply qc_eqb_eq; exact E). congruence.
Qed.

Definition P (x y : Z) (o : bool) : pnt := mkP (qi x) (qi y) o.
Definition tri : contour := mkC [P 0 0 true; P 300 0 true; P 100 400 true] [Line; Line; Line].
Definition box : contour := mkC [P 10 10 true; P 60 10 true; P 60 90 true; P 10 90 true] [Line; Line; Line; Line].
Definition A (a b c d : Z) (e f : Z) : affine := mkA (qi a) (qi b) (qi c) (qi d) (qi e) (qi f).
Definition n_a : str := [97%Z]. Definition n_b : str := [98%Z]. Definition n_c : str := [99%Z]. Definition n_d : str := [100%Z].
Definition ex_gs : glyphset :=
  [(n_a, mkG [tri] [] (qi 500) [(n_a, (qi 100, qi 400))]);
   (n_b, mkG [] [(n_a, A (-1) 0 0 1 400 0)] (qi 500) []);                                   (* a, mirrored *)
   (n_c, mkG [] [(n_b, A 1 0 0 1 50 0); (n_a, mkA (qq 3 2) qc0 qc0 (qq 3 2) qc0 qc0)] (qi 700) []);   (* nested + scaled *)
   (n_d, mkG [box] [(n_a, A 1 0 0 1 0 100)] (qi 600) [])].                                  (* mixed *)

Example ex_wf : wf_glyphset_P ex_gs.
Proof. apply wf_glyphset_bool; vm_compute; reflexivity. Qed.

(* the in-place decomposition pass, visiting the deepest composite last or first, gives the nested outline *)
Example ex_pass :
  model_pass [n_a; n_b; n_c; n_d] ex_gs n_c = spec_resolved ex_gs n_c /\
  model_pass [n_c; n_d; n_b; n_a] ex_gs n_c = spec_resolved ex_gs n_c /\
  (exists r, spec_resolved ex_gs n_c = Some r /\ length r = 2%nat).
Proof. split; [vm_compute; reflexivity|]. split; [vm_compute; reflexivity|]. eexists. split; vm_compute; reflexivity. Qed.

(* skipping the mirrored intermediate composite b: c keeps rendering two contours, b is gone, nothing refers to it *)
Example ex_skip :
  exists gs', skip_filter ex_gs [n_b] = Some gs' /\ keys gs' = [n_a; n_c; n_d] /\
    (exists r, resolve_n gs' n_c = Some r /\ length r = 2%nat) /\
    forallb (fun ng => forallb (fun bt => negb (mem (fst bt) [n_b])) (gcomps (snd ng))) gs' = true.
Proof. eexists. split; [vm_compute; reflexivity|]. split; [reflexivity|]. split; [eexists; split; vm_compute; reflexivity|vm_compute; reflexivity]. Qed.

(* TrueType pre-processing with flattening: defined, d (mixed) is decomposed, c references a only *)
Example ex_tt :
  exists gs', tt_pre true false ex_gs = Some gs' /\
    (exists g, assoc n_d gs' = Some g /\ gcomps g = [] /\ length (gcontours g) = 2%nat) /\
    (exists g, assoc n_c gs' = Some g /\ map fst (gcomps g) = [n_a; n_a]).
Proof. eexists. split; [vm_compute; reflexivity|]. split; eexists; (split; [vm_compute; reflexivity|]); [split; reflexivity|reflexivity]. Qed.

(* the transformations filter: scaling by 1/2 about the baseline keeps the component structure and halves the advance *)
Example ex_transform :
  let m := mkA (qq 1 2) qc0 qc0 (qq 1 2) qc0 qc0 in
  det m <> qc0 /\ resolve_n (transform_set m ex_gs) n_c = option_map (map (aff_contour m)) (resolve_n ex_gs n_c).
Proof. split; [intro E; apply qc_eqb_eq in E; vm_compute in E; discriminate|vm_compute; reflexivity]. Qed.
