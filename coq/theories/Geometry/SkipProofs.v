From U2F Require Import Geometry.Model Geometry.Cff Geometry.Filters.

Lemma pair_concat_snd {A B} (l : list (option (list A * list B))) a b (P : B -> Prop) :
  pair_concat l = Some (a, b) ->
  (forall x y, In (Some (x, y)) l -> forall k, In k y -> P k) ->
  forall k, In k b -> P k.
Proof.
  revert a b. induction l as [|[[x y]|] l IH]; simpl; intros a b E H k Hk.
  - inversion E; subst. destruct Hk.
  - destruct (pair_concat l) as [[a' b']|]; [|discriminate]. inversion E; subst.
    apply in_app_or in Hk. destruct Hk as [Hk|Hk].
    + eapply H; [left; reflexivity|exact Hk].
    + eapply IH; [reflexivity| |exact Hk]. intros x0 y0 Hin. eapply H. right. exact Hin.
  - discriminate.
Qed.

(* after inlining, no component that is left names a skipped glyph *)
Lemma inline_skipped_absent fuel : forall gs skip b t cs ks,
  inline_skipped fuel gs skip b t = Some (cs, ks) ->
  forall k, In k ks -> mem (fst k) skip = false.
Proof.
  induction fuel as [|f IH]; intros gs skip b t cs ks E k Hk; [discriminate|].
  simpl in E. destruct (mem b skip) eqn:Eb.
  - destruct (assoc b gs) as [g|]; [|discriminate].
    destruct (pair_concat _) as [[cs' ks']|] eqn:Ep; [|discriminate]. inversion E; subst.
    eapply (pair_concat_snd _ _ _ (fun k => mem (fst k) skip = false) Ep); [|exact Hk].
    intros x y Hin k0 Hk0. apply in_map_iff in Hin. destruct Hin as [n [En _]].
    eapply IH; [exact En|exact Hk0].
  - inversion E; subst. destruct Hk as [<-|[]]. exact Eb.
Qed.

Theorem skip_absent gs skip g g' :
  skip_glyph gs skip g = Some g' ->
  forall k, In k (gcomps g') -> mem (fst k) skip = false.
Proof.
  unfold skip_glyph. destruct (forallb _ (gcomps g)) eqn:Ef.
  - intro E. inversion E; subst. intros k Hk.
    rewrite forallb_forall in Ef. apply Ef in Hk. apply negb_true_iff in Hk. exact Hk.
  - destruct (pair_concat _) as [[cs ks]|] eqn:Ep; [|discriminate]. intro E. inversion E; subst. simpl.
    intros k Hk.
    eapply (pair_concat_snd _ _ _ (fun k => mem (fst k) skip = false) Ep); [|exact Hk].
    intros x y Hin k0 Hk0. apply in_map_iff in Hin. destruct Hin as [n [En _]].
    eapply inline_skipped_absent; [exact En|exact Hk0].
Qed.

(* own contours, advance and anchors of a glyph are kept; inlined contours are appended *)
Theorem skip_keeps_own gs skip g g' :
  skip_glyph gs skip g = Some g' ->
  gwidth g' = gwidth g /\ ganchors g' = ganchors g /\ exists cs, gcontours g' = gcontours g ++ cs.
Proof.
  unfold skip_glyph. destruct (forallb _ (gcomps g)).
  - intro E. inversion E; subst. repeat split. exists []. rewrite app_nil_r. reflexivity.
  - destruct (pair_concat _) as [[cs ks]|]; [|discriminate]. intro E. inversion E; subst. simpl.
    repeat split. exists cs. reflexivity.
Qed.
