(* C15/C02/C13: component filters on the geometry model (definitions only). *)
From U2F Require Export Geometry.Model Geometry.Cff.
Open Scope Qc_scope.

(* Transform.translate / the 2x2 part / Transform.inverse *)
Definition translate (a : affine) (x y : Qc) : affine := compose a (mkA qc1 qc0 qc0 qc1 x y).
Definition linear_of (t : affine) : affine := mkA (xx t) (xy t) (yx t) (yy t) qc0 qc0.
Definition inverse (t : affine) : affine :=
  let d := det t in
  let xx' := yy t / d in let xy' := - xy t / d in
  let yx' := - yx t / d in let yy' := xx t / d in
  mkA xx' xy' yx' yy' (- xx' * dx t - yx' * dy t) (- xy' * dx t - yy' * dy t).

(* flattenComponents._flattenComponent: outer.translate(dx,dy).transform(2x2 of inner) *)
Definition flat_tr (outer inner : affine) : affine :=
  compose (translate outer (dx inner) (dy inner)) (linear_of inner).

Definition is_simple_or_mixed (g : glyph) : bool :=
  match gcomps g with [] => true | _ => match gcontours g with [] => false | _ => true end end.

Fixpoint flatten_comp (fuel : nat) (gs : glyphset) (bt : str * affine) : option (list (str * affine)) :=
  match fuel with
  | O => None
  | S f =>
      match assoc (fst bt) gs with
      | None => None                                   (* ValueError *)
      | Some g =>
          if is_simple_or_mixed g then Some [bt]
          else option_concat
                 (map (fun nested =>
                         option_map (map (fun nt => (fst nt, flat_tr (snd bt) (snd nt))))
                                    (flatten_comp f gs nested)) (gcomps g))
      end
  end.

Definition flatten_glyph (gs : glyphset) (g : glyph) : option glyph :=
  match option_concat (map (flatten_comp (fuel_for gs) gs) (gcomps g)) with
  | None => None
  | Some cs => Some (mkG (gcontours g) cs (gwidth g) (ganchors g))
  end.

(* SkipExportGlyphsFilter: decompose one level the references to skipped glyphs
   (include = skip, decomposeNested = False): the pen keeps `include` set while
   drawing the base, so nested references to skipped glyphs are inlined too and
   other nested references pass through with the composed matrix *)
Fixpoint pair_concat {A B} (l : list (option (list A * list B))) : option (list A * list B) :=
  match l with
  | [] => Some ([], [])
  | None :: _ => None
  | Some (a, b) :: l' => match pair_concat l' with Some (a', b') => Some (a ++ a', b ++ b') | None => None end
  end.

(* one component met by the pen with accumulated matrix t (already composed):
   skipped base -> its contours placed by t, its own components handled the same
   way with t.T2; other base -> passed through as a component with matrix t *)
Fixpoint inline_skipped (fuel : nat) (gs : glyphset) (skip : list str) (b : str) (t : affine)
  : option (list contour * list (str * affine)) :=
  match fuel with
  | O => None
  | S f =>
      if mem b skip then
        match assoc b gs with
        | None => None                                  (* MissingComponentError *)
        | Some g =>
            match pair_concat (map (fun n => inline_skipped f gs skip (fst n) (compose t (snd n))) (gcomps g)) with
            | Some (cs, ks) => Some (map (place t) (gcontours g) ++ cs, ks)
            | None => None
            end
        end
      else Some ([], [(b, t)])
  end.

(* SkipExportGlyphsFilter.filter on one glyph *)
Definition skip_glyph (gs : glyphset) (skip : list str) (g : glyph) : option glyph :=
  if forallb (fun bt => negb (mem (fst bt) skip)) (gcomps g) then Some g
  else match pair_concat (map (fun bt => inline_skipped (fuel_for gs) gs skip (fst bt) (snd bt)) (gcomps g)) with
       | Some (cs, ks) => Some (mkG (gcontours g ++ cs) ks (gwidth g) (ganchors g))
       | None => None
       end.

(* multiset equality of contour lists *)
Fixpoint remove_contour (c : contour) (l : list contour) : option (list contour) :=
  match l with
  | [] => None
  | x :: l' => if contour_eqb c x then Some l' else option_map (cons x) (remove_contour c l')
  end.
Fixpoint perm_outline_eqb (a b : list contour) : bool :=
  match a with
  | [] => match b with [] => true | _ => false end
  | c :: a' => match remove_contour c b with Some b' => perm_outline_eqb a' b' | None => false end
  end.

(* ---- checks evaluated on (before, after) glyph sets observed on the implementation ---- *)
Definition resolve_n (gs : glyphset) (n : str) : option (list contour) :=
  match assoc n gs with Some g => resolve (S (fuel_for gs)) gs g | None => None end.

Definition render_preserved (gs gs' : glyphset) (names : list str) : bool :=
  forallb (fun n => opt_outline_eqb (resolve_n gs n) (resolve_n gs' n)) names.

Definition anchors_eqb (a b : list (str * (Qc * Qc))) : bool :=
  list_eqb (fun x y => str_eqb (fst x) (fst y) && qc_eqb (fst (snd x)) (fst (snd y)) &&
                       qc_eqb (snd (snd x)) (snd (snd y))) a b.

Definition comps_eqb (a b : list (str * affine)) : bool :=
  list_eqb (fun x y => str_eqb (fst x) (fst y) &&
     qc_eqb (xx (snd x)) (xx (snd y)) && qc_eqb (xy (snd x)) (xy (snd y)) &&
     qc_eqb (yx (snd x)) (yx (snd y)) && qc_eqb (yy (snd x)) (yy (snd y)) &&
     qc_eqb (dx (snd x)) (dx (snd y)) && qc_eqb (dy (snd x)) (dy (snd y))) a b.

Definition glyph_eqb (a b : glyph) : bool :=
  outline_eqb (gcontours a) (gcontours b) && comps_eqb (gcomps a) (gcomps b) &&
  qc_eqb (gwidth a) (gwidth b) && anchors_eqb (ganchors a) (ganchors b).

(* equality of outlines up to the direction of individual contours *)
Definition outline_eqb_moddir (a b : list contour) : bool :=
  list_eqb (fun x y => contour_eqb x y || contour_eqb (rev_contour x) y) a b.

(* every included glyph's resolved outline, anchors and advance mapped by m
   (for a mirroring m: up to contour direction -- own contours are mapped without
   reversal while components keep their references and reverse when resolved);
   every other glyph object untouched *)
Definition transformed_ok (m : affine) (incl skip : list str) (gs gs' : glyphset) : bool :=
  forallb (fun ng =>
    let n := fst ng in
    if mem n skip then true else
    match assoc n gs' with
    | None => false
    | Some g' =>
        if mem n incl then
          option_eqb (if mirrors m then outline_eqb_moddir else outline_eqb)
                     (resolve_n gs' n) (option_map (map (aff_contour m)) (resolve_n gs n)) &&
          anchors_eqb (ganchors g')
            (map (fun a => (fst a, (xx m * fst (snd a) + yx m * snd (snd a) + dx m,
                                    xy m * fst (snd a) + yy m * snd (snd a) + dy m))) (ganchors (snd ng))) &&
          qc_eqb (gwidth g') (xx m * gwidth (snd ng))
        else glyph_eqb g' (snd ng)
    end) gs.

(* TransformationsFilter with every glyph included (no slant): own contours mapped by m (no reversal), every
   component (b, T) rewritten to m.T.m^-1 because its base is transformed too, anchors mapped, advance scaled
   (a glyph without contours, components and anchors -- space -- included: its advance is scaled like anyone's; until repair
   F44 the filter left it alone and the model had to say so) *)
Definition transform_glyph (m : affine) (g : glyph) : glyph :=
  mkG (map (aff_contour m) (gcontours g))
      (map (fun bt => (fst bt, compose m (compose (snd bt) (inverse m)))) (gcomps g))
      (xx m * gwidth g)
      (map (fun a => (fst a, (xx m * fst (snd a) + yx m * snd (snd a) + dx m,
                              xy m * fst (snd a) + yy m * snd (snd a) + dy m))) (ganchors g)).
Definition transform_set (m : affine) (gs : glyphset) : glyphset :=
  map (fun ng => (fst ng, transform_glyph m (snd ng))) gs.
Definition model_transform_all_eqb (m : affine) (gs gs' : glyphset) : bool :=
  list_eqb (fun x y => str_eqb (fst x) (fst y) && glyph_eqb (snd x) (snd y)) (transform_set m gs) gs'.

(* component nesting depth of a glyph (0 = no components) *)
Fixpoint comp_depth (fuel : nat) (gs : glyphset) (g : glyph) : option nat :=
  match fuel with
  | O => None
  | S f =>
      fold_right (fun bt acc =>
                    match acc, assoc (fst bt) gs with
                    | Some m, Some bg => match comp_depth f gs bg with
                                         | Some d => Some (Nat.max m (S d)) | None => None end
                    | _, _ => None
                    end) (Some O) (gcomps g)
  end.

(* after flattening: every remaining base is simple or mixed *)
Definition flattened_ok (gs' : glyphset) : bool :=
  forallb (fun ng => forallb (fun bt => match assoc (fst bt) gs' with
                                        | Some bg => is_simple_or_mixed bg | None => false end)
                             (gcomps (snd ng))) gs'.

Definition model_flatten_eqb (gs gs' : glyphset) : bool :=
  forallb (fun ng => match flatten_glyph gs (snd ng), assoc (fst ng) gs' with
                     | Some g1, Some g2 => glyph_eqb g1 g2
                     | _, _ => false end) gs.

(* C13 on the pre-processed glyph sets: gs = without skipping, gs' = with *)
Definition skip_ok (skip : list str) (gs gs' : glyphset) : bool :=
  (* skipped glyphs are gone, the others are all there in the same relative order *)
  list_eqb str_eqb (keys gs') (filter (fun n => negb (mem n skip)) (keys gs)) &&
  forallb (fun ng =>
     let n := fst ng in
     (* no reference to a skipped glyph is left *)
     forallb (fun bt => negb (mem (fst bt) skip)) (gcomps (snd ng)) &&
     (* same set of resolved contours, same advance, same anchors *)
     match resolve_n gs n, resolve_n gs' n, assoc n gs with
     | Some r, Some r', Some g => perm_outline_eqb r r' && qc_eqb (gwidth g) (gwidth (snd ng)) &&
                                  anchors_eqb (ganchors g) (ganchors (snd ng))
     | _, _, _ => false
     end) gs'.

(* the whole SkipExportGlyphsFilter: skipped glyphs removed, every other glyph replaced by its filtered version *)
Fixpoint skip_set (gs0 : glyphset) (skip : list str) (l : glyphset) : option glyphset :=
  match l with
  | [] => Some []
  | (n, g) :: r =>
      if mem n skip then skip_set gs0 skip r
      else match skip_glyph gs0 skip g, skip_set gs0 skip r with
           | Some g', Some r' => Some ((n, g') :: r')
           | _, _ => None
           end
  end.
Definition skip_filter (gs : glyphset) (skip : list str) : option glyphset := skip_set gs skip gs.

Definition glyphset_eqb (a b : glyphset) : bool :=
  list_eqb (fun x y => str_eqb (fst x) (fst y) && glyph_eqb (snd x) (snd y)) a b.
Definition model_filter_eqb (skip : list str) (gs gs' : glyphset) : bool :=
  match skip_filter gs skip with Some m => glyphset_eqb m gs' | None => false end.

Definition model_skip_eqb (skip : list str) (gs gs' : glyphset) : bool :=
  forallb (fun ng => match assoc (fst ng) gs with
                     | Some g => match skip_glyph gs skip g with
                                 | Some g1 => glyph_eqb g1 (snd ng) | None => false end
                     | None => false end) gs'.

