From Coq Require Import QArith Qcanon.
From U2F Require Import Base.Prelude Geometry.Model.
From U2F Require Import Geometry.Propagate.

(* ---------- small facts ---------- *)
Lemma prefix_app n s : prefix n (n ++ s) = true.
Proof. induction n as [|a n IH]; simpl; [reflexivity|]. rewrite Z.eqb_refl. exact IH. Qed.
Lemma prefix_refl n : prefix n n = true.
Proof. rewrite <- (app_nil_r n) at 2. apply prefix_app. Qed.

Lemma set_key_keys k v l x : In x (keys (set_key k v l)) <-> x = k \/ In x (keys l).
Proof.
  induction l as [|[k' v'] l IH]; simpl.
  - split; [intros [H|[]]; auto | intros [H|[]]; auto].
  - destruct (str_eqb k k') eqn:E; simpl.
    + apply str_eqb_eq in E. subst k'. intuition congruence.
    + rewrite IH. intuition congruence. Qed.

Lemma set_key_in k v l kv : In kv (set_key k v l) -> kv = (k, v) \/ In kv l.
Proof.
  induction l as [|[k' v'] l IH]; simpl.
  - intros [H|[]]; auto.
  - destruct (str_eqb k k') eqn:E; simpl.
    + apply str_eqb_eq in E. subst k'. intros [H|H]; auto.
    + intros [H|H]; auto. destruct (IH H); auto. Qed.

Lemma has_key_In k l : has_key k l = true -> In k (keys l).
Proof. unfold has_key. intro H. apply existsb_exists in H. destruct H as [a [Ha E]]. apply str_eqb_eq in E. subst k.
  apply in_map. exact Ha. Qed.

Lemma assoc_In {V} k (l : list (str * V)) v : assoc k l = Some v -> In (k, v) l.
Proof. induction l as [|[k' v'] l IH]; simpl; [discriminate|]. destruct (str_eqb k k') eqn:E.
  - apply str_eqb_eq in E. subst k'. intro H. inversion H. auto.
  - intro H. right. exact (IH H). Qed.
Lemma In_assoc_some {V} k (l : list (str * V)) : In k (keys l) -> exists v, assoc k l = Some v.
Proof. induction l as [|[k' v'] l IH]; simpl; [intros []|]. destruct (str_eqb k k') eqn:E; [eauto|].
  intros [H|H]; [subst k'; rewrite str_eqb_refl in E; discriminate | exact (IH H)]. Qed.

Lemma sorted_items_in l k v : In (k, v) (sorted_items l) -> In (k, v) l.
Proof. unfold sorted_items. intro H. apply in_flat_map in H. destruct H as [k' [_ H]].
  destruct (assoc k' l) eqn:E; [|destruct H]. destruct H as [H|[]]. inversion H. subst. apply assoc_In. exact E. Qed.
Lemma sorted_items_keys l k : In k (keys l) -> In k (keys (sorted_items l)).
Proof. intro H. destruct (In_assoc_some k l H) as [v E]. unfold sorted_items, keys.
  apply in_map_iff. exists (k, v). split; [reflexivity|]. apply in_flat_map. exists k. split.
  - apply sort_str_In. exact H.
  - rewrite E. left. reflexivity. Qed.

(* ---------- keys that get_anchor_data / adjust can create ---------- *)
Lemma add_numbered_keys n hs : forall i acc x,
  In x (keys (add_numbered n i hs acc)) -> In x (keys acc) \/ prefix n x = true.
Proof. induction hs as [|[p t] hs IH]; intros i acc x; simpl; [auto|]. intro H. destruct (IH _ _ _ H) as [H1|H1]; [|auto].
  apply set_key_keys in H1. destruct H1 as [H1|H1]; [subst x; right; apply prefix_app | auto]. Qed.
Lemma add_numbered_keeps n hs : forall i acc x, In x (keys acc) -> In x (keys (add_numbered n i hs acc)).
Proof. induction hs as [|[p t] hs IH]; intros i acc x H; simpl; [exact H|]. apply IH. apply set_key_keys. auto. Qed.
Lemma add_numbered_adds n p t hs i acc : exists k, prefix n k = true /\ In k (keys (add_numbered n i ((p, t) :: hs) acc)).
Proof. exists (numbered n i). split; [apply prefix_app|]. simpl. apply add_numbered_keeps. apply set_key_keys. auto. Qed.

Lemma gad_keys gs comps n acc x :
  In x (keys (get_anchor_data gs comps n acc)) -> In x (keys acc) \/ prefix n x = true.
Proof. unfold get_anchor_data. destruct (hits gs comps n) as [|[p t] [|h hs]]; [auto| |apply add_numbered_keys].
  intro H. apply set_key_keys in H. destruct H; [subst x; right; apply prefix_refl | auto]. Qed.
Lemma gad_keeps gs comps n acc x : In x (keys acc) -> In x (keys (get_anchor_data gs comps n acc)).
Proof. unfold get_anchor_data. intro H. destruct (hits gs comps n) as [|[p t] [|h hs]]; [exact H| |apply add_numbered_keeps; exact H].
  apply set_key_keys. auto. Qed.
Lemma gad_adds gs comps n acc : hits gs comps n <> [] ->
  exists k, prefix n k = true /\ In k (keys (get_anchor_data gs comps n acc)).
Proof. unfold get_anchor_data. destruct (hits gs comps n) as [|[p t] [|h hs]]; [congruence| |].
  - intros _. exists n. split; [apply prefix_refl | apply set_key_keys; auto].
  - intros _. apply add_numbered_adds. Qed.

Lemma adjust_step_keys g t a acc x : In x (keys (adjust_step g t acc a)) <-> In x (keys acc).
Proof. unfold adjust_step. destruct (has_key (fst a) acc) eqn:E; simpl; [|tauto].
  destruct (existsb _ (ganchors g)); [|tauto]. rewrite set_key_keys.
  split; [intros [H|H]; [subst x; apply has_key_In; exact E | exact H] | auto]. Qed.
Lemma adjust_keys gs c acc x : In x (keys (adjust gs acc c)) <-> In x (keys acc).
Proof. unfold adjust. destruct (lookup (fst c) gs) as [g|]; [|tauto].
  generalize (ganchors g). intro l. revert acc. induction l as [|a l IH]; intro acc; simpl; [tauto|].
  rewrite IH. apply adjust_step_keys. Qed.

Lemma fold_adjust_keys gs marks : forall acc x, In x (keys (fold_left (adjust gs) marks acc)) <-> In x (keys acc).
Proof. induction marks as [|c marks IH]; intros acc x; simpl; [tauto|]. rewrite IH. apply adjust_keys. Qed.

(* ---------- the fold over the anchor names ---------- *)
Section Names.
  Variables (gs : glyphset) (bases : list (str * affine)) (own : anchors).
  Definition guard (n : str) : bool := existsb (fun a => prefix n (fst a)) own.
  Definition step (acc : anchors) (n : str) : anchors := if guard n then acc else get_anchor_data gs bases n acc.

  Lemma names_fold_keys names : forall acc x, In x (keys (fold_left step names acc)) ->
    In x (keys acc) \/ exists n, In n names /\ guard n = false /\ prefix n x = true.
  Proof. induction names as [|n names IH]; intros acc x H; simpl in H; [auto|]. destruct (IH _ _ H) as [H1|[m [Hm [Hg Hp]]]].
    - unfold step in H1. destruct (guard n) eqn:G; [auto|]. destruct (gad_keys _ _ _ _ _ H1) as [H2|H2]; [auto|].
      right. exists n. simpl. auto.
    - right. exists m. simpl. auto. Qed.

  Lemma names_fold_keeps names : forall acc x, In x (keys acc) -> In x (keys (fold_left step names acc)).
  Proof. induction names as [|n names IH]; intros acc x H; simpl; [exact H|]. apply IH. unfold step. destruct (guard n); [exact H|].
    apply gad_keeps. exact H. Qed.

  Lemma names_fold_covers names : forall acc n, In n names -> guard n = false -> hits gs bases n <> [] ->
    exists k, prefix n k = true /\ In k (keys (fold_left step names acc)).
  Proof. induction names as [|m names IH]; intros acc n Hn G Hh; simpl; [destruct Hn|]. destruct Hn as [E|Hn].
    - subst m. unfold step at 2. rewrite G. destruct (gad_adds gs bases n acc Hh) as [k [Hp Hk]]. exists k. split; [exact Hp|].
      apply names_fold_keeps. exact Hk.
    - apply IH; assumption. Qed.
End Names.

(* ---------- the three statements about one composite ---------- *)
(* (stated for any split of the components into bases and marks: the plain one and the one with a promoted mark) *)
Lemma to_add_with_keys_are_new gs g bases marks k :
  In k (keys (to_add_with gs g bases marks)) -> forall a, In a (ganchors g) -> fst a <> k.
Proof.
  unfold to_add_with. intros H a Ha E. apply fold_adjust_keys in H.
  apply (names_fold_keys gs _ (ganchors g)) in H. destruct H as [[]|[n [_ [G P]]]].
  unfold guard in G. assert (T : existsb (fun a0 => prefix n (fst a0)) (ganchors g) = true).
  { apply existsb_exists. exists a. split; [exact Ha|]. rewrite E. exact P. }
  exact (eq_true_false_abs _ T G). Qed.

Lemma to_add_promoted_keys_are_new gs g j k :
  In k (keys (to_add_promoted gs g j)) -> forall a, In a (ganchors g) -> fst a <> k.
Proof. unfold to_add_promoted, to_add. destruct (nth_error (marks_of gs g) j); apply to_add_with_keys_are_new. Qed.

Theorem propagation_never_overrides_p gs mk promo name g g' :
  propagate_step_p gs mk promo name g = Some g' ->
  gcontours g' = gcontours g /\ gcomps g' = gcomps g /\ gwidth g' = gwidth g /\
  exists added, ganchors g' = ganchors g ++ added /\
                forall k v, In (k, v) added -> forall a, In a (ganchors g) -> fst a <> k.
Proof.
  unfold propagate_step_p. destruct (skipped mk name g).
  - intro H. inversion H. subst g'. repeat split. exists []. rewrite app_nil_r. split; [reflexivity|intros k v []].
  - destruct (promotes gs name g).
    + destruct (assoc name promo) as [j|]; [|discriminate]. intro H. inversion H. subst g'. simpl. repeat split.
      exists (sorted_items (to_add_promoted gs g j)). split; [reflexivity|]. intros k v Hin a Ha.
      apply (to_add_promoted_keys_are_new gs g j k); [|exact Ha].
      apply sorted_items_in in Hin. apply in_map_iff. exists (k, v). auto.
    + intro H. inversion H. subst g'. simpl. repeat split.
      exists (sorted_items (to_add gs g)). split; [reflexivity|]. intros k v Hin a Ha.
      apply (to_add_with_keys_are_new gs g (bases_of gs g) (marks_of gs g) k); [|exact Ha].
      apply sorted_items_in in Hin. apply in_map_iff. exists (k, v). auto. Qed.

Theorem propagation_never_overrides gs mk name g g' :
  propagate_step gs mk name g = Some g' ->
  gcontours g' = gcontours g /\ gcomps g' = gcomps g /\ gwidth g' = gwidth g /\
  exists added, ganchors g' = ganchors g ++ added /\
                forall k v, In (k, v) added -> forall a, In a (ganchors g) -> fst a <> k.
Proof. apply propagation_never_overrides_p. Qed.

(* where an added anchor sits: some component maps an anchor of its own glyph there *)
Definition image_of_a_component (gs : glyphset) (g : glyph) (v : pt) : Prop :=
  exists c b n p, In c (gcomps g) /\ lookup (fst c) gs = Some b /\ In (n, p) (ganchors b) /\ v = aff_xy (snd c) p.

Lemma hits_sound gs comps n p t : In (p, t) (hits gs comps n) ->
  exists c b, In c comps /\ lookup (fst c) gs = Some b /\ In (n, p) (ganchors b) /\ t = snd c.
Proof. unfold hits. intro H. apply in_flat_map in H. destruct H as [c [Hc H]]. destruct (lookup (fst c) gs) as [b|] eqn:L; [|destruct H].
  destruct (assoc n (ganchors b)) as [q|] eqn:A; [|destruct H]. destruct H as [H|[]]. inversion H. subst.
  exists c, b. repeat split; auto. apply assoc_In. exact A. Qed.

Section Values.
  Variables (gs : glyphset) (g : glyph).
  Definition ok (acc : anchors) : Prop := forall k v, In (k, v) acc -> image_of_a_component gs g v.

  Lemma ok_set k v acc : ok acc -> image_of_a_component gs g v -> ok (set_key k v acc).
  Proof. intros H Hv k' v' Hin. apply set_key_in in Hin. destruct Hin as [E|Hin]; [inversion E; subst; exact Hv | exact (H _ _ Hin)]. Qed.

  Lemma ok_numbered comps n hs : (forall c, In c comps -> In c (gcomps g)) ->
    (forall p t, In (p, t) hs -> In (p, t) (hits gs comps n)) -> forall i acc, ok acc -> ok (add_numbered n i hs acc).
  Proof. intros Hsub. induction hs as [|[p t] hs IH]; intros Hh i acc H; simpl; [exact H|].
    apply IH; [intros; apply Hh; right; assumption|]. apply ok_set; [exact H|].
    destruct (hits_sound _ _ _ _ _ (Hh p t (or_introl eq_refl))) as [c [b [Hc [L [Hin Et]]]]]. subst t.
    exists c, b, n, p. auto. Qed.

  Lemma ok_gad comps n acc : (forall c, In c comps -> In c (gcomps g)) -> ok acc -> ok (get_anchor_data gs comps n acc).
  Proof. intros Hsub H. unfold get_anchor_data. destruct (hits gs comps n) as [|[p t] [|h hs]] eqn:E; [exact H| |].
    - apply ok_set; [exact H|]. assert (Hin : In (p, t) (hits gs comps n)) by (rewrite E; left; reflexivity).
      destruct (hits_sound _ _ _ _ _ Hin) as [c [b [Hc [L [Ha Et]]]]]. subst t. exists c, b, n, p. auto.
    - apply (ok_numbered comps n); [exact Hsub | intros p0 t0 Hin; rewrite E; exact Hin | exact H]. Qed.

  Lemma ok_adjust c acc : In c (gcomps g) -> ok acc -> ok (adjust gs acc c).
  Proof. intros Hc H. unfold adjust. destruct (lookup (fst c) gs) as [b|] eqn:L; [|exact H].
    assert (Hsub : forall a, In a (ganchors b) -> In a (ganchors b)) by auto. revert Hsub.
    generalize (ganchors b) at 1 3. intro l. revert acc H. induction l as [|a l IH]; intros acc H Hsub; simpl; [exact H|].
    apply IH; [|intros; apply Hsub; right; assumption]. unfold adjust_step.
    match goal with |- ok (if ?cond then _ else _) => destruct cond end; [|exact H]. apply ok_set; [exact H|].
    exists c, b, (fst a), (snd a). repeat split; auto. rewrite <- surjective_pairing. apply Hsub. left. reflexivity. Qed.
End Values.

Lemma to_add_with_ok gs g bases marks :
  (forall c, In c bases -> In c (gcomps g)) -> (forall c, In c marks -> In c (gcomps g)) -> ok gs g (to_add_with gs g bases marks).
Proof.
  intros Hb Hm. unfold to_add_with.
  assert (H0 : ok gs g (fold_left (fun acc n => if existsb (fun a => prefix n (fst a)) (ganchors g) then acc
                                                 else get_anchor_data gs bases n acc)
                                  (sort_str (dedup (flat_map (fun c => match lookup (fst c) gs with Some b => map fst (ganchors b) | None => [] end) bases))) [])).
  { generalize (sort_str (dedup (flat_map (fun c => match lookup (fst c) gs with Some b => map fst (ganchors b) | None => [] end) bases))).
    intro names. assert (Hnil : ok gs g []) by (intros k v []). revert Hnil. generalize (@nil (str * pt)).
    induction names as [|n names IH]; intros acc Hacc; simpl; [exact Hacc|]. apply IH.
    destruct (existsb _ (ganchors g)); [exact Hacc|]. apply ok_gad; assumption. }
  revert H0. generalize (fold_left (fun acc n => if existsb (fun a => prefix n (fst a)) (ganchors g) then acc
                                                 else get_anchor_data gs bases n acc)
                                  (sort_str (dedup (flat_map (fun c => match lookup (fst c) gs with Some b => map fst (ganchors b) | None => [] end) bases))) []).
  revert Hm. induction marks as [|c marks IH]; intros Hm acc Hacc; simpl; [exact Hacc|].
  apply IH; [intros; apply Hm; right; assumption|]. apply ok_adjust; [apply Hm; left; reflexivity | exact Hacc]. Qed.

Lemma bases_of_sub gs g c : In c (bases_of gs g) -> In c (gcomps g).
Proof. unfold bases_of. intro H. apply filter_In in H. destruct H as [H _]. apply filter_In in H. tauto. Qed.
Lemma marks_of_sub gs g c : In c (marks_of gs g) -> In c (gcomps g).
Proof. unfold marks_of. intro H. apply filter_In in H. destruct H as [H _]. apply filter_In in H. tauto. Qed.
Lemma remove_nth_sub {A} k (l : list A) x : In x (remove_nth k l) -> In x l.
Proof. revert k. induction l as [|y l IH]; intros k H; [destruct k; exact H|]. destruct k as [|k]; simpl in H; [right; exact H|].
  destruct H as [H|H]; [left; exact H | right; exact (IH _ H)]. Qed.

Lemma to_add_promoted_ok gs g j : ok gs g (to_add_promoted gs g j).
Proof.
  unfold to_add_promoted, to_add. destruct (nth_error (marks_of gs g) j) as [c|] eqn:E.
  - apply to_add_with_ok.
    + intros x Hx. apply in_app_or in Hx. destruct Hx as [Hx|[Hx|[]]]; [exact (bases_of_sub _ _ _ Hx)|].
      subst x. apply (marks_of_sub gs). exact (nth_error_In _ _ E).
    + intros x Hx. apply (marks_of_sub gs). exact (remove_nth_sub _ _ _ Hx).
  - apply to_add_with_ok; [apply bases_of_sub | apply marks_of_sub]. Qed.

Theorem added_anchor_is_a_component_image_p gs mk promo name g g' k v :
  propagate_step_p gs mk promo name g = Some g' -> In (k, v) (ganchors g') -> In (k, v) (ganchors g) \/ image_of_a_component gs g v.
Proof.
  unfold propagate_step_p. destruct (skipped mk name g); [intro H; inversion H; auto|].
  destruct (promotes gs name g).
  - destruct (assoc name promo) as [j|]; [|discriminate]. intro H. inversion H. subst g'. simpl. intro Hin.
    apply in_app_or in Hin. destruct Hin as [Hin|Hin]; [auto|]. right. apply sorted_items_in in Hin.
    exact (to_add_promoted_ok gs g j k v Hin).
  - intro H. inversion H. subst g'. simpl. intro Hin.
    apply in_app_or in Hin. destruct Hin as [Hin|Hin]; [auto|]. right. apply sorted_items_in in Hin.
    exact (to_add_with_ok gs g _ _ (bases_of_sub gs g) (marks_of_sub gs g) k v Hin). Qed.

Theorem added_anchor_is_a_component_image gs mk name g g' k v :
  propagate_step gs mk name g = Some g' -> In (k, v) (ganchors g') -> In (k, v) (ganchors g) \/ image_of_a_component gs g v.
Proof. apply added_anchor_is_a_component_image_p. Qed.

(* ---------- applying it a second time adds nothing ---------- *)
Lemma dedup_In x l : In x (dedup l) <-> In x l.
Proof. induction l as [|a l IH]; simpl; [tauto|]. destruct (mem a l) eqn:E.
  - rewrite IH. split; [auto|]. intros [H|H]; [subst a; apply mem_In; exact E | exact H].
  - simpl. rewrite IH. tauto. Qed.

Lemma adjust_nil gs c : adjust gs [] c = [].
Proof. unfold adjust. destruct (lookup (fst c) gs) as [g|]; [|reflexivity].
  generalize (ganchors g). intro l. induction l as [|a l IH]; simpl; [reflexivity|]. unfold adjust_step at 2. simpl. exact IH. Qed.
Lemma fold_adjust_nil gs marks : fold_left (adjust gs) marks [] = [].
Proof. induction marks as [|c marks IH]; simpl; [reflexivity|]. rewrite adjust_nil. exact IH. Qed.

Lemma fold_all_guarded gs bases own names : (forall n, In n names -> guard own n = true) ->
  forall acc, fold_left (step gs bases own) names acc = acc.
Proof. induction names as [|n names IH]; intros H acc; simpl; [reflexivity|]. unfold step at 2. rewrite (H n (or_introl eq_refl)).
  apply IH. intros m Hm. apply H. right. exact Hm. Qed.

Definition base_names (gs : glyphset) (bases : list (str * affine)) : list str :=
  sort_str (dedup (flat_map (fun c => match lookup (fst c) gs with Some b => map fst (ganchors b) | None => [] end) bases)).

Lemma base_names_hit gs bases n : In n (base_names gs bases) -> hits gs bases n <> [].
Proof. unfold base_names. intro H. apply (proj1 (sort_str_In _ _)) in H. apply (proj1 (dedup_In _ _)) in H.
  apply (proj1 (in_flat_map _ _ _)) in H. destruct H as [c [Hc H]].
  destruct (lookup (fst c) gs) as [b|] eqn:L; [|destruct H]. destruct (In_assoc_some n (ganchors b) H) as [p A].
  intro E. assert (Hin : In (p, snd c) (hits gs bases n)).
  { unfold hits. apply in_flat_map. exists c. split; [exact Hc|]. rewrite L, A. left. reflexivity. }
  rewrite E in Hin. destruct Hin. Qed.

Lemma to_add_with_unfold gs g bases marks :
  to_add_with gs g bases marks = fold_left (adjust gs) marks (fold_left (step gs bases (ganchors g)) (base_names gs bases) []).
Proof. reflexivity. Qed.

Lemma existsb_app_l {A} (f : A -> bool) l1 l2 : existsb f l1 = true -> existsb f (l1 ++ l2) = true.
Proof. intro H. rewrite existsb_app, H. reflexivity. Qed.

(* a second run over the composite WITH the anchors of the first adds nothing, whatever the split *)
Lemma second_to_add_with_nil gs g bases marks g1 :
  gcomps g1 = gcomps g -> ganchors g1 = ganchors g ++ sorted_items (to_add_with gs g bases marks) ->
  to_add_with gs g1 bases marks = [].
Proof.
  intros Ec Ea. rewrite to_add_with_unfold.
  rewrite fold_all_guarded; [apply fold_adjust_nil|].
  intros n Hn. unfold guard. rewrite Ea.
  destruct (guard (ganchors g) n) eqn:G; [apply existsb_app_l; exact G|].
  destruct (names_fold_covers gs _ (ganchors g) _ [] n Hn G (base_names_hit _ _ _ Hn)) as [k [Hp Hk]].
  rewrite existsb_app. apply orb_true_iff. right. apply existsb_exists.
  assert (Hk2 : In k (keys (sorted_items (to_add_with gs g bases marks)))).
  { apply sorted_items_keys. rewrite to_add_with_unfold. apply fold_adjust_keys. exact Hk. }
  unfold keys in Hk2. apply in_map_iff in Hk2. destruct Hk2 as [[k' v] [E Hin]]. simpl in E. subst k'.
  exists (k, v). split; [exact Hin | exact Hp]. Qed.

Theorem second_run_adds_nothing_p gs mk promo name g g' :
  propagate_step_p gs mk promo name g = Some g' -> propagate_step_p gs mk promo name g' = Some g'.
Proof.
  unfold propagate_step_p. destruct (skipped mk name g) eqn:S.
  - intro H. inversion H. subst g'. rewrite S. reflexivity.
  - destruct (promotes gs name g) eqn:P.
    + destruct (assoc name promo) as [j|] eqn:A; [|discriminate]. intro H. inversion H. clear H.
      set (g1 := mkG (gcontours g) (gcomps g) (gwidth g) (ganchors g ++ sorted_items (to_add_promoted gs g j))).
      destruct (skipped mk name g1); [reflexivity|].
      assert (P1 : promotes gs name g1 = promotes gs name g) by reflexivity. rewrite P1, P.
      assert (T : to_add_promoted gs g1 j = []).
      { unfold to_add_promoted, to_add. change (marks_of gs g1) with (marks_of gs g). change (bases_of gs g1) with (bases_of gs g).
        subst g1. unfold to_add_promoted, to_add. destruct (nth_error (marks_of gs g) j); apply (second_to_add_with_nil gs g); reflexivity. }
      rewrite T. simpl. rewrite app_nil_r. reflexivity.
    + intro H. inversion H. clear H.
      set (g1 := mkG (gcontours g) (gcomps g) (gwidth g) (ganchors g ++ sorted_items (to_add gs g))).
      destruct (skipped mk name g1); [reflexivity|].
      assert (P1 : promotes gs name g1 = promotes gs name g) by reflexivity. rewrite P1, P.
      assert (T : to_add gs g1 = []).
      { unfold to_add. change (marks_of gs g1) with (marks_of gs g). change (bases_of gs g1) with (bases_of gs g).
        apply (second_to_add_with_nil gs g); reflexivity. }
      rewrite T. simpl. rewrite app_nil_r. reflexivity. Qed.

Theorem second_run_adds_nothing gs mk name g g' :
  propagate_step gs mk name g = Some g' -> propagate_step gs mk name g' = Some g'.
Proof. apply second_run_adds_nothing_p. Qed.

(* ---------- non-vacuity: a composite of a base and an attaching mark ---------- *)
Local Open Scope Z_scope.
Example ring_example :
  let top := [116; 111; 112]%Z in let utop := (95 :: top)%Z in let center := [99]%Z in
  let q := fun z => Q2Qc (inject_Z z) in
  let base := mkG [] [] (q 500) [(top, (q 250, q 600)); (center, (q 250, q 250))] in
  let ring := mkG [] [] (q 0) [(utop, (q 0, q 500)); (top, (q 0, q 700)); (center, (q 0, q 580))] in
  let o := mkG [] [([98]%Z, aff_id); ([114]%Z, mkA qc1 qc0 qc0 qc1 (q 250) (q 100))] (q 500) [] in
  let gs := [([98]%Z, base); ([114]%Z, ring); ([111]%Z, o)] in
  option_map (fun g => map fst (ganchors g)) (propagate_step gs [] [111]%Z o) = Some [center; top]
  /\ option_map (fun g => map (fun a => (this (fst (snd a)), this (snd (snd a)))) (ganchors g)) (propagate_step gs [] [111]%Z o)
     = Some [(250 # 1, 250 # 1); (250 # 1, 800 # 1)]%Q.
Proof. vm_compute. auto. Qed.

(* ---------- non-vacuity: a mark made of two marks, the second promoted ---------- *)
Example promoted_example :
  let top := [116; 111; 112]%Z in let utop := (95 :: top)%Z in
  let q := fun z => Q2Qc (inject_Z z) in
  let tilde := mkG [] [] (q 0) [(utop, (q 0, q 510)); (top, (q 0, q 640))] in
  let acute := mkG [] [] (q 0) [(utop, (q 0, q 500)); (top, (q 0, q 720))] in
  let lig := mkG [] [([116]%Z, aff_id); ([97]%Z, aff_id)] (q 0) [] in
  let gs := [([116]%Z, tilde); ([97]%Z, acute); ([116; 95; 97]%Z, lig)] in
  propagate_step gs [] [116; 95; 97]%Z lig = None /\
  option_map (fun g => map (fun a => (fst a, this (snd (snd a)))) (ganchors g)) (propagate_step_p gs [] [([116; 95; 97]%Z, 1%nat)] [116; 95; 97]%Z lig)
     = Some [(utop, 500 # 1); (top, 640 # 1)]%Q.
Proof. vm_compute. auto. Qed.

