(* C04: the VORG table (setupTable_VORG): default = the most frequent vertical origin
   (Counter.most_common(1) over the glyphs in glyph order: the first-seen value among the most frequent), one record
   per glyph whose origin differs; vmtx top side bearing = origin - yMax.
   Definitions only. *)
From U2F Require Export Base.Prelude.
Open Scope Z_scope.

Definition zcount (v : Z) (l : list Z) : nat := length (filter (Z.eqb v) l).

(* max(iterable, key=count): the first element whose count is strictly greater wins *)
Fixpoint best (cands l : list Z) (cur : Z) (curc : nat) : Z :=
  match cands with
  | [] => cur
  | c :: r => if Nat.ltb curc (zcount c l) then best r l c (zcount c l) else best r l cur curc
  end.

Definition vorg_default (origins : list Z) : Z :=
  match origins with [] => 0 | x :: _ => best origins origins x (zcount x origins) end.

(* glyph -> origin, in glyph order *)
Definition vorg_records (gl : list (str * Z)) : list (str * Z) :=
  let d := vorg_default (map snd gl) in
  filter (fun nv => negb (Z.eqb (snd nv) d)) gl.

(* what a reader of the table sees *)
Definition vorg_lookup (recs : list (str * Z)) (d : Z) (n : str) : Z :=
  match assoc n recs with Some v => v | None => d end.

(* the origin of a glyph: explicit public.verticalOrigin (rounded by the caller) or the typo ascender *)
Definition origin_of (typoAsc : Z) (explicit : option Z) : Z :=
  match explicit with Some v => v | None => typoAsc end.

Fixpoint zassoc_eqb (a b : list (str * Z)) : bool :=
  match a, b with
  | [], [] => true
  | (n, v) :: a', (m, w) :: b' => str_eqb n m && Z.eqb v w && zassoc_eqb a' b'
  | _, _ => false
  end.

(* observation: per glyph (name, explicit origin or None, yMax or None, top side bearing read from vmtx),
   the typo ascender, and the VORG table read from the font (records in glyph order, default).
   bit0: the model's table = the font's; bit1: the table gives every glyph its origin, holds no record equal to
   the default, and every outlined glyph's top side bearing is origin - yMax *)
Definition c04_vorg (typoAsc : Z) (gl : list (str * (option Z * (option Z * Z))))
                    (recs : list (str * Z)) (d : Z) : Z :=
  let want := map (fun g => (fst g, origin_of typoAsc (fst (snd g)))) gl in
  let m := zassoc_eqb (vorg_records want) recs && Z.eqb (vorg_default (map snd want)) d in
  let s := forallb (fun nv => Z.eqb (vorg_lookup recs d (fst nv)) (snd nv)) want &&
           forallb (fun nv => negb (Z.eqb (snd nv) d)) recs &&
           forallb (fun g => match fst (snd (snd g)) with
                             | Some ymax => Z.eqb (snd (snd (snd g))) (origin_of typoAsc (fst (snd g)) - ymax)
                             | None => true end) gl in
  (if m then 1 else 0) + (if s then 2 else 0).
