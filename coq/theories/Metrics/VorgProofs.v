From Coq Require Import ZArith List Bool Lia.
From U2F Require Import Base.Prelude Metrics.Vorg.
Import ListNotations.
Open Scope Z_scope.

Lemma best_spec cands l : forall cur curc,
  curc = zcount cur l ->
  let r := best cands l cur curc in
  (zcount cur l <= zcount r l)%nat /\ (forall c, In c cands -> (zcount c l <= zcount r l)%nat) /\
  (r = cur \/ In r cands).
Proof.
  induction cands as [|c cands IH]; intros cur curc Hc; cbn [best].
  - split; [lia|]. split; [intros c []|left; reflexivity].
  - destruct (Nat.ltb curc (zcount c l)) eqn:E.
    + apply Nat.ltb_lt in E. destruct (IH c (zcount c l) eq_refl) as (H1 & H2 & H3).
      split; [lia|]. split.
      * intros c' [<-|Hin]; [exact H1|apply H2; exact Hin].
      * right. destruct H3 as [->|H3]; [left; reflexivity|right; exact H3].
    + apply Nat.ltb_ge in E. destruct (IH cur curc Hc) as (H1 & H2 & H3).
      split; [exact H1|]. split.
      * intros c' [<-|Hin]; [lia|apply H2; exact Hin].
      * destruct H3 as [->|H3]; [left; reflexivity|right; right; exact H3].
Qed.

Lemma zcount_notin v l : ~ In v l -> zcount v l = 0%nat.
Proof.
  unfold zcount. induction l as [|x l IH]; intro H; [reflexivity|]. cbn [filter].
  destruct (Z.eqb v x) eqn:E; [apply Z.eqb_eq in E; subst; exfalso; apply H; left; reflexivity|].
  apply IH. intro Hin. apply H. right. exact Hin.
Qed.

(* the default is a most frequent origin, and one that occurs *)
Theorem vorg_default_most_frequent l v : (zcount v l <= zcount (vorg_default l) l)%nat.
Proof.
  destruct l as [|x l]; [reflexivity|]. unfold vorg_default.
  destruct (best_spec (x :: l) (x :: l) x (zcount x (x :: l)) eq_refl) as (_ & H2 & _).
  destruct (in_dec Z.eq_dec v (x :: l)) as [Hin|Hn]; [apply H2; exact Hin|].
  rewrite (zcount_notin v _ Hn). lia.
Qed.

Theorem vorg_default_occurs l : l <> [] -> In (vorg_default l) l.
Proof.
  destruct l as [|x l]; [congruence|]. intros _. unfold vorg_default.
  destruct (best_spec (x :: l) (x :: l) x (zcount x (x :: l)) eq_refl) as (_ & _ & [->|H]); [left; reflexivity|exact H].
Qed.

Lemma assoc_filter_keep (P : str * Z -> bool) gl n v :
  NoDup (map fst gl) -> In (n, v) gl -> P (n, v) = true -> assoc n (filter P gl) = Some v.
Proof.
  induction gl as [|[m w] gl IH]; intros Hnd Hin HP; [destruct Hin|].
  cbn [map fst] in Hnd. inversion Hnd as [|? ? Hm Hnd']; subst.
  cbn [filter]. destruct Hin as [E|Hin].
  - inversion E; subst. rewrite HP. cbn [assoc]. rewrite str_eqb_refl. reflexivity.
  - assert (n <> m) as Hne.
    { intro; subst. apply Hm. apply in_map_iff. exists (m, v). split; [reflexivity|exact Hin]. }
    destruct (P (m, w)); [cbn [assoc]; apply str_eqb_neq in Hne; rewrite Hne|]; apply IH; assumption.
Qed.

Lemma assoc_filter_drop (P : str * Z -> bool) gl n v :
  NoDup (map fst gl) -> In (n, v) gl -> P (n, v) = false -> assoc n (filter P gl) = None.
Proof.
  induction gl as [|[m w] gl IH]; intros Hnd Hin HP; [destruct Hin|].
  cbn [map fst] in Hnd. inversion Hnd as [|? ? Hm Hnd']; subst.
  cbn [filter]. destruct Hin as [E|Hin].
  - inversion E; subst. rewrite HP.
    assert (forall l, ~ In n (map fst l) -> assoc n (filter P l) = None) as Hno.
    { induction l as [|[k u] l IHl]; intro Hk; [reflexivity|]. cbn [filter].
      assert (n <> k) as Hnk by (intro; subst; apply Hk; left; reflexivity).
      assert (~ In n (map fst l)) as Hl by (intro; apply Hk; right; assumption).
      destruct (P (k, u)); [cbn [assoc]; apply str_eqb_neq in Hnk; rewrite Hnk|]; apply IHl; exact Hl. }
    apply Hno. exact Hm.
  - assert (n <> m) as Hne.
    { intro; subst. apply Hm. apply in_map_iff. exists (m, v). split; [reflexivity|exact Hin]. }
    destruct (P (m, w)); [cbn [assoc]; apply str_eqb_neq in Hne; rewrite Hne|]; apply IH; assumption.
Qed.

(* reading the table back gives every glyph its origin -- for every glyph list with distinct names *)
Theorem vorg_roundtrip gl n v :
  NoDup (map fst gl) -> In (n, v) gl ->
  vorg_lookup (vorg_records gl) (vorg_default (map snd gl)) n = v.
Proof.
  intros Hnd Hin. unfold vorg_lookup, vorg_records.
  destruct (Z.eqb v (vorg_default (map snd gl))) eqn:E.
  - rewrite (assoc_filter_drop _ gl n v Hnd Hin); [apply Z.eqb_eq in E; congruence|].
    cbn [snd]. rewrite E. reflexivity.
  - rewrite (assoc_filter_keep _ gl n v Hnd Hin); [reflexivity|]. cbn [snd]. rewrite E. reflexivity.
Qed.

(* no record repeats the default: the table is as small as that default allows *)
Theorem vorg_records_minimal gl n v :
  In (n, v) (vorg_records gl) -> v <> vorg_default (map snd gl) /\ In (n, v) gl.
Proof.
  unfold vorg_records. intro H. apply filter_In in H. destruct H as [Hin Hb]. cbn [snd] in Hb.
  apply negb_true_iff in Hb. apply Z.eqb_neq in Hb. split; assumption.
Qed.

Example vorg_example :
  vorg_default [800; 880; 880; 800; 700] = 800 /\
  vorg_records [([97], 800); ([98], 880); ([99], 880); ([100], 800); ([101], 700)] = [([98], 880); ([99], 880); ([101], 700)].
Proof. split; reflexivity. Qed.
