(* C04: derived metrics fields (outlineCompiler._setupTable_hhea_or_vhea,
   makeFontBoundingBox, hmtx long-metric count).  Definitions only. *)
From U2F Require Export Base.Prelude.
Open Scope Z_scope.

(* ---- numberOfHMetrics: the while loop that strips the equal-advance tail ---- *)
Fixpoint run_len (x : Z) (l : list Z) : nat :=
  match l with y :: l' => if Z.eqb x y then S (run_len x l') else O | [] => O end.

(* advances in glyph order; rev = last :: rest; the loop drops one record per
   element of the run of `last` at the head of rest, but never below 1 *)
Definition num_long (advs : list Z) : nat :=
  match rev advs with
  | [] => O
  | last :: rest => (length advs - run_len last rest)%nat
  end.

(* hmtx binary layout: n long records (advance, lsb), then lsb only; a reader
   repeats the last long advance *)
Definition hmtx_encode (advs : list Z) (n : nat) : list Z := firstn n advs.
Definition hmtx_decode (longs : list Z) (total : nat) : list Z :=
  longs ++ repeat (last longs 0) (total - length longs).

(* ---- extrema ---- *)
Definition zmax_list (l : list Z) : Z := match l with [] => 0 | x :: r => fold_left Z.max r x end.
Definition zmin_list (l : list Z) : Z := match l with [] => 0 | x :: r => fold_left Z.min r x end.

Record box := mkBox { xMin : Z; yMin : Z; xMax : Z; yMax : Z }.

(* one glyph as the header builder sees it: advance, side bearing, optional box *)
Record gmetric := mkGM { adv : Z; lsb : Z; gbox : option box }.

Definition with_box (l : list gmetric) : list (gmetric * box) :=
  flat_map (fun g => match gbox g with Some b => [(g, b)] | None => [] end) l.

Record hhea := mkHhea { advanceMax : Z; minFirst : Z; minSecond : Z; maxExtent : Z; numLong : nat }.

Definition hhea_of (l : list gmetric) : hhea :=
  let wb := with_box l in
  mkHhea (zmax_list (map adv l))
         (zmin_list (map (fun gb => lsb (fst gb)) wb))
         (zmin_list (map (fun gb => adv (fst gb) - lsb (fst gb) - (xMax (snd gb) - xMin (snd gb))) wb))
         (zmax_list (map (fun gb => lsb (fst gb) + (xMax (snd gb) - xMin (snd gb))) wb))
         (num_long (map adv l)).

(* ---- font bounding box: union of the glyph boxes, None skipped, (0,0,0,0) if none ---- *)
Definition union_box (a b : box) : box :=
  mkBox (Z.min (xMin a) (xMin b)) (Z.min (yMin a) (yMin b)) (Z.max (xMax a) (xMax b)) (Z.max (yMax a) (yMax b)).
Definition font_box (boxes : list (option box)) : box :=
  match fold_left (fun acc ob => match ob, acc with
                                 | None, _ => acc
                                 | Some b, None => Some b
                                 | Some b, Some a => Some (union_box a b) end) boxes None with
  | Some b => b
  | None => mkBox 0 0 0 0
  end.

Definition box_eqb (a b : box) : bool :=
  Z.eqb (xMin a) (xMin b) && Z.eqb (yMin a) (yMin b) && Z.eqb (xMax a) (xMax b) && Z.eqb (yMax a) (yMax b).

(* ---- the check on an observation: per glyph (adv, lsb, box) read from the font,
   the hhea fields and head box of the same font ---- *)
Definition c04_check (l : list gmetric) (h : hhea) (hb : box) : bool :=
  let m := hhea_of l in
  Z.eqb (advanceMax m) (advanceMax h) && Z.eqb (minFirst m) (minFirst h) &&
  Z.eqb (minSecond m) (minSecond h) && Z.eqb (maxExtent m) (maxExtent h) &&
  Nat.eqb (numLong m) (numLong h) &&
  box_eqb (font_box (map gbox l)) hb &&
  (* side bearing = outline extremum (0 for empty glyphs) *)
  forallb (fun g => Z.eqb (lsb g) (match gbox g with Some b => xMin b | None => 0 end)) l &&
  (* the metrics table decodes back to the same advances *)
  list_eqb Z.eqb (hmtx_decode (hmtx_encode (map adv l) (numLong h)) (length l)) (map adv l).
