From U2F Require Import Metrics.Hmtx.
Open Scope Z_scope.

(* ---- run_len ---- *)
Lemma run_len_split x l : exists t, l = repeat x (run_len x l) ++ t /\ (match t with y :: _ => y <> x | [] => True end).
Proof.
  induction l as [|y l IH]; simpl.
  - exists []. auto.
  - destruct (Z.eqb_spec x y) as [->|Hne].
    + destruct IH as [t [E Ht]]. exists t. simpl. split; [f_equal; exact E|exact Ht].
    + exists (y :: l). simpl. split; [reflexivity|congruence].
Qed.

Lemma run_len_le x l : (run_len x l <= length l)%nat.
Proof. induction l as [|y l IH]; simpl; [lia|]. destruct (Z.eqb x y); simpl; lia. Qed.

Lemma rev_repeat {A} (x : A) n : rev (repeat x n) = repeat x n.
Proof.
  induction n as [|n IH]; [reflexivity|]. simpl. rewrite IH.
  clear IH. induction n as [|n IH]; [reflexivity|]. simpl. f_equal. exact IH.
Qed.

(* shape of the advance list around the long/short boundary *)
Lemma advs_shape advs last rest :
  rev advs = last :: rest ->
  exists t, advs = rev t ++ repeat last (run_len last rest) ++ [last] /\
            (match t with y :: _ => y <> last | [] => True end) /\
            num_long advs = S (length t).
Proof.
  intro E. destruct (run_len_split last rest) as [t [Er Ht]]. exists t.
  assert (advs = rev (last :: rest)) as Ea by (rewrite <- E, rev_involutive; reflexivity).
  split; [|split; [exact Ht|]].
  - rewrite Ea. simpl. rewrite Er at 1. rewrite rev_app_distr, rev_repeat, <- app_assoc. reflexivity.
  - unfold num_long. rewrite E. rewrite Ea. simpl. rewrite app_length, rev_length. simpl.
    rewrite Er at 1. rewrite app_length, repeat_length. lia.
Qed.

Lemma last_snoc {A} (l : list A) x d : last (l ++ [x]) d = x.
Proof. induction l as [|y l IH]; [reflexivity|]. simpl. destruct (l ++ [x]) eqn:E; [destruct l; discriminate|exact IH]. Qed.

(* the metrics table decodes back to the same per-glyph advances *)
Theorem hmtx_roundtrip advs :
  hmtx_decode (hmtx_encode advs (num_long advs)) (length advs) = advs.
Proof.
  destruct (rev advs) as [|last rest] eqn:E.
  - assert (advs = []) as -> by (rewrite <- (rev_involutive advs), E; reflexivity). reflexivity.
  - destruct (advs_shape advs last rest E) as [t [Ea [_ En]]].
    unfold hmtx_decode, hmtx_encode. rewrite En.
    set (k := run_len last rest) in *.
    assert (firstn (S (length t)) advs = rev t ++ [last]) as Ef.
    { rewrite Ea. destruct k as [|k].
      - cbn [repeat app]. rewrite firstn_all2; [reflexivity|]. rewrite app_length, rev_length. simpl. lia.
      - cbn [repeat]. replace (S (length t)) with (length (rev t) + 1)%nat by (rewrite rev_length; lia).
        rewrite firstn_app_2. reflexivity. }
    rewrite Ef, last_snoc. rewrite app_length, rev_length. simpl length.
    rewrite Ea at 2. rewrite <- app_assoc. f_equal.
    replace (length advs - (length t + 1))%nat with k.
    + clear. induction k as [|k IH]; [reflexivity|]. simpl. f_equal. exact IH.
    + rewrite Ea, !app_length, rev_length, repeat_length. simpl. lia.
Qed.

(* the count is minimal: it is 1, or the record before the boundary differs from the tail *)
Theorem num_long_minimal advs :
  advs <> [] ->
  (1 <= num_long advs <= length advs)%nat /\
  (num_long advs = 1%nat \/ nth (num_long advs - 2) advs 0 <> last advs 0).
Proof.
  intro Hne. destruct (rev advs) as [|lst rest] eqn:E.
  - exfalso. apply Hne. rewrite <- (rev_involutive advs), E. reflexivity.
  - destruct (advs_shape advs lst rest E) as [t [Ea [Ht En]]]. rewrite En. split.
    + rewrite Ea. rewrite !app_length, rev_length. simpl. lia.
    + destruct t as [|y t']; [left; reflexivity|right].
      assert (last advs 0 = lst) as ->.
      { rewrite Ea, app_assoc. apply last_snoc. }
      rewrite Ea. simpl length. simpl rev.
      replace (S (S (length t')) - 2)%nat with (length (rev t')) by (rewrite rev_length; lia).
      rewrite <- app_assoc. rewrite app_nth2 by lia. rewrite Nat.sub_diag. simpl. exact Ht.
Qed.

(* ---- extrema really are extrema ---- *)
Lemma fold_max_ge l : forall a, a <= fold_left Z.max l a /\ forall x, In x l -> x <= fold_left Z.max l a.
Proof.
  induction l as [|y l IH]; intro a; simpl; [split; [lia|tauto]|].
  destruct (IH (Z.max a y)) as [H1 H2]. split; [lia|]. intros x [->|Hx]; [lia|auto].
Qed.
Lemma fold_max_In l : forall a, fold_left Z.max l a = a \/ In (fold_left Z.max l a) l.
Proof.
  induction l as [|y l IH]; intro a; simpl; [auto|].
  destruct (IH (Z.max a y)) as [H|H]; [|auto].
  rewrite H. destruct (Z.max_spec a y) as [[_ ->]|[_ ->]]; auto.
Qed.
Lemma fold_min_le l : forall a, fold_left Z.min l a <= a /\ forall x, In x l -> fold_left Z.min l a <= x.
Proof.
  induction l as [|y l IH]; intro a; simpl; [split; [lia|tauto]|].
  destruct (IH (Z.min a y)) as [H1 H2]. split; [lia|]. intros x [->|Hx]; [lia|auto].
Qed.
Lemma fold_min_In l : forall a, fold_left Z.min l a = a \/ In (fold_left Z.min l a) l.
Proof.
  induction l as [|y l IH]; intro a; simpl; [auto|].
  destruct (IH (Z.min a y)) as [H|H]; [|auto].
  rewrite H. destruct (Z.min_spec a y) as [[_ ->]|[_ ->]]; auto.
Qed.

Theorem zmax_list_spec l : l <> [] -> In (zmax_list l) l /\ forall x, In x l -> x <= zmax_list l.
Proof.
  destruct l as [|a r]; [congruence|]. intros _. unfold zmax_list. split.
  - destruct (fold_max_In r a) as [->|H]; [left; reflexivity|right; exact H].
  - destruct (fold_max_ge r a) as [H1 H2]. intros x [<-|Hx]; [exact H1|exact (H2 x Hx)].
Qed.
Theorem zmin_list_spec l : l <> [] -> In (zmin_list l) l /\ forall x, In x l -> zmin_list l <= x.
Proof.
  destruct l as [|a r]; [congruence|]. intros _. unfold zmin_list. split.
  - destruct (fold_min_In r a) as [->|H]; [left; reflexivity|right; exact H].
  - destruct (fold_min_le r a) as [H1 H2]. intros x [<-|Hx]; [exact H1|exact (H2 x Hx)].
Qed.

(* the header fields are the extrema of their per-glyph formulas, 0 with no outline *)
Theorem hhea_extrema l :
  let h := hhea_of l in let wb := with_box l in
  (l <> [] -> (exists g, In g l /\ adv g = advanceMax h) /\ forall g, In g l -> adv g <= advanceMax h) /\
  (wb = [] -> minFirst h = 0 /\ minSecond h = 0 /\ maxExtent h = 0) /\
  (forall g b, In (g, b) wb ->
     minFirst h <= lsb g /\ minSecond h <= adv g - lsb g - (xMax b - xMin b) /\
     lsb g + (xMax b - xMin b) <= maxExtent h).
Proof.
  simpl. split; [|split].
  - intro Hne. assert (map adv l <> []) as Hm by (destruct l; [congruence|discriminate]).
    destruct (zmax_list_spec _ Hm) as [H1 H2]. split.
    + apply in_map_iff in H1. destruct H1 as [g [E Hg]]. exists g. auto.
    + intros g Hg. apply H2. apply in_map. exact Hg.
  - intros ->. simpl. auto.
  - intros g b Hin.
    assert (with_box l <> []) as Hne by (intro E; rewrite E in Hin; destruct Hin).
    repeat split.
    + apply (proj2 (zmin_list_spec (map (fun gb => lsb (fst gb)) (with_box l))
              ltac:(destruct (with_box l); [congruence|discriminate]))).
      apply (in_map (fun gb => lsb (fst gb)) _ (g, b) Hin).
    + apply (proj2 (zmin_list_spec (map (fun gb => adv (fst gb) - lsb (fst gb) - (xMax (snd gb) - xMin (snd gb))) (with_box l))
              ltac:(destruct (with_box l); [congruence|discriminate]))).
      apply (in_map (fun gb => adv (fst gb) - lsb (fst gb) - (xMax (snd gb) - xMin (snd gb))) _ (g, b) Hin).
    + apply (proj2 (zmax_list_spec (map (fun gb => lsb (fst gb) + (xMax (snd gb) - xMin (snd gb))) (with_box l))
              ltac:(destruct (with_box l); [congruence|discriminate]))).
      apply (in_map (fun gb => lsb (fst gb) + (xMax (snd gb) - xMin (snd gb))) _ (g, b) Hin).
Qed.

(* ---- font box encloses every glyph box ---- *)
Definition encloses (a b : box) : Prop :=
  xMin a <= xMin b /\ yMin a <= yMin b /\ xMax b <= xMax a /\ yMax b <= yMax a.

Lemma fold_box_encloses boxes : forall acc,
  match fold_left (fun acc ob => match ob, acc with
                                 | None, _ => acc
                                 | Some b, None => Some b
                                 | Some b, Some a => Some (union_box a b) end) boxes acc with
  | Some r => (forall a, acc = Some a -> encloses r a) /\ (forall b, In (Some b) boxes -> encloses r b)
  | None => acc = None /\ forall b, ~ In (Some b) boxes
  end.
Proof.
  induction boxes as [|ob boxes IH]; intro acc; simpl.
  - destruct acc as [a|]; [|auto]. split; [|tauto]. intros a' E. inversion E; subst. unfold encloses. lia.
  - destruct ob as [b|].
    + destruct acc as [a|].
      * specialize (IH (Some (union_box a b))). destruct (fold_left _ boxes (Some (union_box a b))) as [r|].
        -- destruct IH as [H1 H2]. specialize (H1 _ eq_refl). unfold encloses, union_box in *; simpl in *. split.
           ++ intros a' E. inversion E; subst. lia.
           ++ intros b' [E|Hin]; [inversion E; subst; lia|apply H2; exact Hin].
        -- destruct IH as [C _]. discriminate.
      * specialize (IH (Some b)). destruct (fold_left _ boxes (Some b)) as [r|].
        -- destruct IH as [H1 H2]. split; [discriminate|].
           intros b' [E|Hin]; [inversion E; subst; apply H1; reflexivity|apply H2; exact Hin].
        -- destruct IH as [C _]. discriminate.
    + specialize (IH acc). destruct (fold_left _ boxes acc) as [r|].
      * destruct IH as [H1 H2]. split; [exact H1|]. intros b [E|Hin]; [discriminate|auto].
      * destruct IH as [H1 H2]. split; [exact H1|]. intros b [E|Hin]; [discriminate|eapply H2; eauto].
Qed.

Theorem font_box_encloses boxes : forall b, In (Some b) boxes -> encloses (font_box boxes) b.
Proof.
  unfold font_box. pose proof (fold_box_encloses boxes None) as H.
  destruct (fold_left _ boxes None) as [r|].
  - destruct H as [_ H2]. exact H2.
  - destruct H as [_ H2]. intros b Hb. exfalso. eapply H2. exact Hb.
Qed.

Theorem font_box_empty boxes : (forall ob, In ob boxes -> ob = None) -> font_box boxes = mkBox 0 0 0 0.
Proof.
  intro H. unfold font_box.
  assert (fold_left (fun acc ob => match ob, acc with
                                 | None, _ => acc
                                 | Some b, None => Some b
                                 | Some b, Some a => Some (union_box a b) end) boxes None = None) as ->; [|reflexivity].
  induction boxes as [|ob boxes IH]; [reflexivity|]. simpl.
  rewrite (H ob (or_introl eq_refl)). apply IH. intros o Ho. apply H. right. exact Ho.
Qed.
