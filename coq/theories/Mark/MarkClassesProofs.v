From U2F Require Import Base.Prelude.
From U2F Require Import Mark.MarkClasses.
Open Scope Z_scope.

Lemma xy_eqb_eq a b : xy_eqb a b = true <-> a = b.
Proof.
  unfold xy_eqb. destruct a as [a1 a2], b as [b1 b2]; cbn. rewrite andb_true_iff, !Z.eqb_eq. split.
  - intros [-> ->]. reflexivity.
  - intro H. injection H as -> ->. auto.
Qed.

Section Assoc.
  Context {V : Type}.
  Lemma assoc_None k (l : list (str * V)) : assoc k l = None <-> ~ In k (map fst l).
  Proof.
    induction l as [|[k' v] l IH]; cbn; [tauto|]. destruct (str_eqb k k') eqn:E.
    - apply str_eqb_eq in E. subst. split; [discriminate|]. intro H. exfalso. apply H. left. reflexivity.
    - apply str_eqb_neq in E. rewrite IH. split; [intros H [H1|H1]; [congruence|auto]|intros H H1; apply H; right; exact H1].
  Qed.

  Lemma assoc_app_l k (l l' : list (str * V)) v : assoc k l = Some v -> assoc k (l ++ l') = Some v.
  Proof. induction l as [|[k' v'] l IH]; cbn; [discriminate|]. destruct (str_eqb k k'); auto. Qed.

  Lemma assoc_app_r k (l l' : list (str * V)) : assoc k l = None -> assoc k (l ++ l') = assoc k l'.
  Proof. induction l as [|[k' v'] l IH]; cbn; [reflexivity|]. destruct (str_eqb k k'); [discriminate|auto]. Qed.
End Assoc.

Lemma assoc_update_same name ms cls old : assoc name cls = Some old -> assoc name (update name ms cls) = Some ms.
Proof.
  induction cls as [|[n o] cls IH]; cbn; [discriminate|]. destruct (str_eqb name n) eqn:E.
  - apply str_eqb_eq in E. subst n. rewrite str_eqb_refl. cbn. rewrite str_eqb_refl. reflexivity.
  - intro H. assert (str_eqb n name = false) as E' by (apply str_eqb_neq; apply str_eqb_neq in E; congruence).
    rewrite E'. cbn. rewrite E. apply IH. exact H.
Qed.

Section NamesProofs.
  Variable cand : str -> nat -> str.
  Hypothesis cand_inj : forall name i j, cand name i = cand name j -> i = j.

  Lemma find_unique_fresh fuel : forall i name taken n, find_unique cand fuel i name taken = Some n -> ~ In n taken.
  Proof.
    induction fuel as [|f IH]; intros i name taken n; cbn [find_unique]; destruct (mem (cand name i) taken) eqn:E; try discriminate.
    - intro H. injection H as <-. apply mem_false. exact E.
    - apply IH.
    - intro H. injection H as <-. apply mem_false. exact E.
  Qed.

  Lemma find_unique_none fuel : forall i name taken, find_unique cand fuel i name taken = None ->
    forall k, (k <= fuel)%nat -> In (cand name (i + k)) taken.
  Proof.
    induction fuel as [|f IH]; intros i name taken; cbn [find_unique]; destruct (mem (cand name i) taken) eqn:E; try discriminate.
    - intros _ k Hk. assert (k = 0)%nat by lia. subst. rewrite Nat.add_0_r. apply mem_In. exact E.
    - intros H k Hk. destruct k as [|k]; [rewrite Nat.add_0_r; apply mem_In; exact E|].
      replace (i + S k)%nat with (S i + k)%nat by lia. apply (IH (S i) name taken H). lia.
  Qed.

  (* |taken| + 1 distinct candidates cannot all be taken *)
  Lemma find_unique_some name taken : exists n, find_unique cand (length taken) 0 name taken = Some n.
  Proof.
    destruct (find_unique cand (length taken) 0 name taken) as [n|] eqn:E; [exists n; reflexivity|exfalso].
    pose proof (find_unique_none _ _ _ _ E) as H. cbn [Nat.add] in H.
    set (cs := map (cand name) (seq 0 (S (length taken)))).
    assert (NoDup cs) as Hnd.
    { unfold cs. apply FinFun.Injective_map_NoDup; [intros i j; apply cand_inj|apply seq_NoDup]. }
    assert (incl cs taken) as Hin.
    { intros x Hx. unfold cs in Hx. apply in_map_iff in Hx. destruct Hx as [k [<- Hk]]. apply in_seq in Hk. apply H. lia. }
    pose proof (NoDup_incl_length Hnd Hin) as Hl. unfold cs in Hl. rewrite map_length, seq_length in Hl. lia.
  Qed.

  Lemma make_unique_fresh name cls : assoc (make_unique cand name cls) cls = None.
  Proof.
    unfold make_unique. destruct (find_unique_some name (map fst cls)) as [n E]. rewrite map_length in E. rewrite E.
    apply assoc_None. eapply find_unique_fresh. exact E.
  Qed.

  (* ---- the invariant of define_all ---- *)
  (* no mark still to be defined is in the current class with another anchor *)
  Definition good (todo : members) (cname : str) (cls : classes) : Prop :=
    match assoc cname cls with
    | None => True
    | Some ms => forall g a, In (g, a) todo -> assoc g ms = None \/ assoc g ms = Some a
    end.
  (* every mark already defined is in the current class with its own anchor *)
  Definition done_ok (done : members) (cname : str) (cls : classes) : Prop :=
    forall g a, In (g, a) done -> exists ms, assoc cname cls = Some ms /\ assoc g ms = Some a.

  Lemma define_mark_step g a rest cname cls done :
    ~ In g (map fst rest) -> good ((g, a) :: rest) cname cls -> done_ok done cname cls ->
    exists cls', define_mark cand g a cname cls = (cls', cname) /\ good rest cname cls' /\ done_ok (done ++ [(g, a)]) cname cls'.
  Proof.
    intros Hng Hgood Hdone. unfold define_mark, good in *. destruct (assoc cname cls) as [ms|] eqn:Ec.
    - destruct (Hgood g a (or_introl eq_refl)) as [Hg|Hg]; rewrite Hg.
      + (* appended to the existing class *)
        eexists. split; [reflexivity|]. rewrite (assoc_update_same _ _ _ _ Ec). split.
        * intros g' a' Hin. assert (g' <> g) as Hne by (intro; subst; apply Hng; apply in_map_iff; exists (g, a'); auto).
          destruct (Hgood g' a' (or_intror Hin)) as [H|H]; [left|right].
          -- rewrite (assoc_app_r _ _ _ H). cbn. apply str_eqb_neq in Hne. rewrite Hne. reflexivity.
          -- apply assoc_app_l. exact H.
        * intros g' a' Hin. apply in_app_or in Hin. exists (ms ++ [(g, a)]). split; [apply assoc_update_same with (old := ms); exact Ec|].
          destruct Hin as [Hin|[Hin|[]]].
          -- destruct (Hdone g' a' Hin) as [ms' [E1 E2]]. rewrite Ec in E1. injection E1 as <-. apply assoc_app_l. exact E2.
          -- injection Hin as <- <-. rewrite (assoc_app_r _ _ _ Hg). cbn. rewrite str_eqb_refl. reflexivity.
      + (* already there with the same anchor *)
        assert (xy_eqb a a = true) as -> by (apply xy_eqb_eq; reflexivity).
        exists cls. split; [reflexivity|]. rewrite Ec. split.
        * intros g' a' Hin. apply Hgood. right. exact Hin.
        * intros g' a' Hin. apply in_app_or in Hin. destruct Hin as [Hin|[Hin|[]]]; [apply Hdone; exact Hin|].
          injection Hin as <- <-. exists ms. split; [exact Ec|exact Hg].
    - (* the class does not exist yet *)
      eexists. split; [reflexivity|]. rewrite (assoc_app_r _ _ _ Ec). cbn. rewrite str_eqb_refl. split.
      + intros g' a' Hin. left. assert (g' <> g) as Hne by (intro; subst; apply Hng; apply in_map_iff; exists (g, a'); auto).
        cbn. apply str_eqb_neq in Hne. rewrite Hne. reflexivity.
      + intros g' a' Hin. apply in_app_or in Hin. destruct Hin as [Hin|[Hin|[]]].
        * destruct (Hdone g' a' Hin) as [ms' [E1 _]]. rewrite Ec in E1. discriminate.
        * injection Hin as <- <-. exists [(g, a)]. split; [rewrite (assoc_app_r _ _ _ Ec); cbn; rewrite str_eqb_refl; reflexivity|].
          cbn. rewrite str_eqb_refl. reflexivity.
  Qed.

  Lemma define_all_inv todo : forall cname cls done,
    NoDup (map fst todo) -> good todo cname cls -> done_ok done cname cls ->
    exists cls', define_all cand todo cname cls = (cls', cname) /\ done_ok (done ++ todo) cname cls'.
  Proof.
    induction todo as [|[g a] rest IH]; intros cname cls done Hnd Hgood Hdone; cbn [define_all].
    - exists cls. split; [reflexivity|]. rewrite app_nil_r. exact Hdone.
    - cbn [map fst] in Hnd. inversion Hnd as [|? ? Hng Hnd']; subst.
      destruct (define_mark_step g a rest cname cls done Hng Hgood Hdone) as [cls1 [E [Hg1 Hd1]]]. rewrite E.
      destruct (IH cname cls1 (done ++ [(g, a)]) Hnd' Hg1 Hd1) as [cls2 [E2 Hd2]]. exists cls2. split; [exact E2|].
      rewrite <- app_assoc in Hd2. exact Hd2.
  Qed.

  Lemma conflicts_false_good marks cname cls : conflicts marks cname cls = false -> good marks cname cls.
  Proof.
    unfold conflicts, good. destruct (assoc cname cls) as [ms|]; [|trivial]. intros H g a Hin.
    destruct (assoc g ms) as [a'|] eqn:E; [right|left; reflexivity].
    assert (negb (xy_eqb a a') = false) as Hn.
    { destruct (negb (xy_eqb a a')) eqn:En; [|reflexivity]. exfalso.
      assert (existsb (fun ga : str * xy => match assoc (fst ga) ms with Some a'0 => negb (xy_eqb (snd ga) a'0) | None => false end) marks = true) as Hc.
      { apply existsb_exists. exists (g, a). split; [exact Hin|]. cbn [fst snd]. rewrite E. exact En. }
      congruence. }
    apply negb_false_iff in Hn. apply xy_eqb_eq in Hn. subst. reflexivity.
  Qed.

  (* all marks of an anchor end up, each with its own anchor, in the ONE class recorded for that anchor -- whatever
     classes the feature file already defines, under whatever names *)
  Theorem process_anchor_ok marks cname cls :
    NoDup (map fst marks) -> anchor_ok marks (process_anchor cand marks cname cls) = true.
  Proof.
    intro Hnd. unfold process_anchor.
    set (start := if conflicts marks cname cls then make_unique cand cname cls else cname).
    assert (good marks start cls) as Hg.
    { unfold start. destruct (conflicts marks cname cls) eqn:Ec; [|apply conflicts_false_good; exact Ec].
      unfold good. rewrite make_unique_fresh. trivial. }
    destruct (define_all_inv marks start cls [] Hnd Hg) as [cls' [E Hd]]; [intros ? ? []|]. rewrite E.
    unfold anchor_ok. cbn [fst snd app] in *. destruct marks as [|[g0 a0] rest].
    - destruct (assoc start cls'); reflexivity.
    - destruct (Hd g0 a0 (or_introl eq_refl)) as [ms [E1 _]]. rewrite E1. apply forallb_forall. intros [g a] Hin. cbn [fst snd].
      destruct (Hd g a Hin) as [ms' [E2 E3]]. rewrite E1 in E2. injection E2 as <-. rewrite E3. apply xy_eqb_eq. reflexivity.
  Qed.
End NamesProofs.

(* the code before repair F20 (no pre-check): the class recorded for the anchor misses the marks defined before the clash.
   features.fea: markClass g2 <anchor 0 0> @MC_top;  UFO: g1 _top (5,5), g2 _top (7,7) *)
Definition cand_ex (name : str) (i : nat) : str := match i with O => name | _ => name ++ [95; Z.of_nat i] end.
Example old_code_refuted :
  let cls := [([1], [([12], (0, 0))])] in let marks := [([11], (5, 5)); ([12], (7, 7))] in
  anchor_ok marks (process_anchor_old cand_ex marks [1] cls) = false /\
  anchor_ok marks (process_anchor cand_ex marks [1] cls) = true.
Proof. vm_compute. split; reflexivity. Qed.
