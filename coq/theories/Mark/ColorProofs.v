From Coq Require Import ZArith List Bool Lia Permutation Sorting.
From U2F Require Import Base.Prelude Mark.Color Heap.Determinism.
Import ListNotations.

Lemma existsb_nat_In n l : existsb (Nat.eqb n) l = true <-> In n l.
Proof.
  rewrite existsb_exists. split.
  - intros [x [Hx E]]. apply Nat.eqb_eq in E. subst. exact Hx.
  - intro H. exists n. split; [exact H|apply Nat.eqb_refl].
Qed.

Lemma In_le_list_max n l : In n l -> (n <= list_max l)%nat.
Proof.
  intro H. pose proof (proj1 (list_max_le l (list_max l)) (Nat.le_refl _)) as HF.
  rewrite Forall_forall in HF. exact (HF n H).
Qed.

(* firstAvailable returns THE least natural number that is not used *)
Lemma fa_spec used : forall fuel n,
  (forall k, (k < n)%nat -> In k used) -> (n + fuel > list_max used)%nat ->
  ~ In (fa fuel n used) used /\ (forall k, (k < fa fuel n used)%nat -> In k used).
Proof.
  induction fuel as [|f IH]; intros n Hlt Hbig; cbn [fa].
  - split; [|exact Hlt]. intro Hin. apply In_le_list_max in Hin. lia.
  - destruct (existsb (Nat.eqb n) used) eqn:E.
    + apply existsb_nat_In in E. apply IH; [|lia].
      intros k Hk. destruct (Nat.eq_dec k n) as [->|Hne]; [exact E|apply Hlt; lia].
    + split; [|exact Hlt]. intro Hin. apply existsb_nat_In in Hin. congruence.
Qed.

Theorem first_avail_least used :
  ~ In (first_avail used) used /\ (forall k, (k < first_avail used)%nat -> In k used).
Proof. unfold first_avail. apply fa_spec; [intros k Hk; lia|lia]. Qed.

(* it depends on the SET of used colours only *)
Theorem first_avail_ext u u' : (forall c, In c u <-> In c u') -> first_avail u = first_avail u'.
Proof.
  intro H. destruct (first_avail_least u) as [N1 L1]. destruct (first_avail_least u') as [N2 L2].
  destruct (Nat.lt_trichotomy (first_avail u) (first_avail u')) as [Hlt|[Heq|Hgt]]; [|exact Heq|].
  - exfalso. apply N1. apply H. apply L2. exact Hlt.
  - exfalso. apply N2. apply H. apply L1. exact Hgt.
Qed.

(* ---- the colouring is proper ---- *)
Definition symmetric (adj : adjacency) : Prop := forall a b, In b (nbrs adj a) -> In a (nbrs adj b).
Definition irreflexive (adj : adjacency) : Prop := forall a, ~ In a (nbrs adj a).

Lemma assoc_app_notin {V} n (l : list (str * V)) k v : ~ In k (keys l) ->
  assoc n (l ++ [(k, v)]) = match assoc n l with Some x => Some x | None => if str_eqb n k then Some v else None end.
Proof.
  induction l as [|[m w] l IH]; intro Hk; cbn [app assoc].
  - reflexivity.
  - destruct (str_eqb n m); [reflexivity|]. apply IH. intro Hin. apply Hk. right. exact Hin.
Qed.

Lemma assoc_Some_keys {V} n (l : list (str * V)) v : assoc n l = Some v -> In n (keys l).
Proof.
  induction l as [|[m w] l IH]; cbn [assoc keys map fst]; [discriminate|].
  destruct (str_eqb n m) eqn:E; [apply str_eqb_eq in E; subst; intros _; left; reflexivity|].
  intro H. right. exact (IH H).
Qed.

Definition proper (adj : adjacency) (colors : list (str * nat)) : Prop :=
  forall a b ca cb, In b (nbrs adj a) -> assoc a colors = Some ca -> assoc b colors = Some cb -> ca <> cb.

Lemma color_step_proper adj colors v :
  symmetric adj -> irreflexive adj -> ~ In v (keys colors) -> proper adj colors -> proper adj (color_step adj colors v).
Proof.
  intros Hsym Hirr Hv Hp a b ca cb Hab Ha Hb. unfold color_step in Ha, Hb.
  set (used := flat_map (fun nb => match assoc nb colors with Some c => [c] | None => [] end) (nbrs adj v)) in *.
  rewrite assoc_app_notin in Ha by exact Hv. rewrite assoc_app_notin in Hb by exact Hv.
  assert (forall u cu, In u (nbrs adj v) -> assoc u colors = Some cu -> first_avail used <> cu) as Hfresh.
  { intros u cu Hu Hcu E. destruct (first_avail_least used) as [N _]. apply N. rewrite E.
    unfold used. apply in_flat_map. exists u. split; [exact Hu|]. rewrite Hcu. left. reflexivity. }
  destruct (assoc a colors) as [xa|] eqn:Ea; destruct (assoc b colors) as [xb|] eqn:Eb.
  - inversion Ha; inversion Hb; subst. exact (Hp a b ca cb Hab Ea Eb).
  - destruct (str_eqb b v) eqn:Ebv; [|discriminate]. apply str_eqb_eq in Ebv. subst b. inversion Ha; inversion Hb; subst.
    intro E. apply (Hfresh a ca (Hsym a v Hab) Ea). symmetry. exact E.
  - destruct (str_eqb a v) eqn:Eav; [|discriminate]. apply str_eqb_eq in Eav. subst a. inversion Ha; inversion Hb; subst.
    exact (Hfresh b cb Hab Eb).
  - destruct (str_eqb a v) eqn:Eav; [|discriminate]. destruct (str_eqb b v) eqn:Ebv; [|discriminate].
    apply str_eqb_eq in Eav. apply str_eqb_eq in Ebv. subst a b. exfalso. exact (Hirr v Hab).
Qed.

Lemma color_step_keys adj colors v : keys (color_step adj colors v) = keys colors ++ [v].
Proof. unfold color_step, keys. rewrite map_app. reflexivity. Qed.

Lemma color_fold_proper adj nodes : forall colors,
  symmetric adj -> irreflexive adj -> NoDup (keys colors ++ nodes) -> proper adj colors ->
  proper adj (fold_left (color_step adj) nodes colors) /\ keys (fold_left (color_step adj) nodes colors) = keys colors ++ nodes.
Proof.
  induction nodes as [|v nodes IH]; intros colors Hsym Hirr Hnd Hp; cbn [fold_left].
  - split; [exact Hp|rewrite app_nil_r; reflexivity].
  - assert (~ In v (keys colors)) as Hv.
    { intro Hin. apply NoDup_remove_2 in Hnd. apply Hnd. apply in_or_app. left. exact Hin. }
    destruct (IH (color_step adj colors v) Hsym Hirr) as [H1 H2].
    + rewrite color_step_keys, <- app_assoc. exact Hnd.
    + apply color_step_proper; assumption.
    + split; [exact H1|]. rewrite H2, color_step_keys, <- app_assoc. reflexivity.
Qed.

(* MAIN 1: for every symmetric, loop-free conflict graph (a dict: distinct vertices), two neighbours never get the
   same colour, and every vertex is coloured *)
Theorem color_all_proper adj :
  symmetric adj -> irreflexive adj -> NoDup (keys adj) ->
  proper adj (color_all adj) /\ Permutation (keys (color_all adj)) (keys adj).
Proof.
  intros Hsym Hirr Hnd. unfold color_all.
  destruct (color_fold_proper adj (sort_str (keys adj)) [] Hsym Hirr) as [H1 H2].
  - cbn [keys map app]. apply sort_str_NoDup. exact Hnd.
  - intros a b ca cb _ Ha. discriminate.
  - split; [exact H1|]. rewrite H2. cbn [keys map app]. apply Permutation_sym. apply sort_str_perm.
Qed.

(* ---- the result does not depend on the order in which the dict / the neighbour sets are enumerated ---- *)
Lemma color_step_ext adj adj' colors v :
  (forall x, In x (nbrs adj v) <-> In x (nbrs adj' v)) -> color_step adj colors v = color_step adj' colors v.
Proof.
  intro H. unfold color_step. f_equal. f_equal. f_equal. apply first_avail_ext. intro c.
  rewrite !in_flat_map. split; intros [nb [Hnb Hc]]; exists nb; (split; [apply H; exact Hnb|exact Hc]).
Qed.

Lemma color_fold_ext adj adj' nodes : forall colors,
  (forall v x, In x (nbrs adj v) <-> In x (nbrs adj' v)) ->
  fold_left (color_step adj) nodes colors = fold_left (color_step adj') nodes colors.
Proof.
  induction nodes as [|v nodes IH]; intros colors H; cbn [fold_left]; [reflexivity|].
  rewrite (color_step_ext adj adj' colors v (H v)). apply IH. exact H.
Qed.

(* MAIN 2: two enumerations of the same graph -- vertices in another order, each neighbour set in another order --
   give the same groups, member for member *)
Theorem color_graph_enumeration_independent adj adj' :
  Permutation (keys adj) (keys adj') ->
  (forall v x, In x (nbrs adj v) <-> In x (nbrs adj' v)) ->
  color_graph adj = color_graph adj'.
Proof.
  intros Hk Hn. unfold color_graph, color_all.
  rewrite (sorted_serialisation_order_independent _ _ Hk).
  rewrite (color_fold_ext adj adj' _ [] Hn). reflexivity.
Qed.

Example color_chain :
  color_graph [([1%Z], [[2%Z]]); ([2%Z], [[1%Z]; [3%Z]]); ([3%Z], [[2%Z]; [4%Z]]); ([4%Z], [[3%Z]])] = [[[1%Z]; [3%Z]]; [[2%Z]; [4%Z]]].
Proof. reflexivity. Qed.
