(* C18: GDEF glyph classes, ligature carets (gdefFeatureWriter) and cursive
   attachment (cursFeatureWriter) as functions of the UFO data.  Definitions only. *)
From U2F Require Export Geometry.Model Kern.Model Mark.Model.
Open Scope Z_scope.

(* ---- glyph classes: public.openTypeCategories restricted to the exported glyph set ---- *)
(* category codes as in GDEF: 1 base, 2 ligature, 3 mark, 4 component; 0 = unassigned / invalid *)
Definition expected_classes (glyphset : list str) (cats : list (str * Z)) : list (str * Z) :=
  flat_map (fun g => match assoc g cats with
                     | Some c => if Z.leb 1 c && Z.leb c 4 then [(g, c)] else []
                     | None => [] end) glyphset.

Definition class_map_eqb (a b : list (str * Z)) : bool :=
  forallb (fun kv => match assoc (fst kv) b with Some c => Z.eqb c (snd kv) | None => false end) a &&
  forallb (fun kv => match assoc (fst kv) a with Some c => Z.eqb c (snd kv) | None => false end) b.

(* ---- ligature carets: the *set* of caret_ x / vcaret_ y coordinates, increasing, each otRound-ed ---- *)
Definition CARET : str := [99;97;114;101;116;95].            (* "caret_" *)
Definition VCARET : str := [118;99;97;114;101;116;95].       (* "vcaret_" *)

Fixpoint qc_insert (x : Qc) (l : list Qc) : list Qc :=
  match l with
  | [] => [x]
  | y :: l' => if qc_eqb x y then l else if qc_ltb x y then x :: l else y :: qc_insert x l'
  end.
Definition qc_sort_set (l : list Qc) : list Qc := fold_right qc_insert [] l.

Definition caret_coords (anchors : list manchor) : list Qc :=
  flat_map (fun a => if has_prefix CARET (ma_name a) then [ma_x a]
                     else if has_prefix VCARET (ma_name a) then [ma_y a] else []) anchors.

(* the table builder stores each position once *)
Fixpoint zdedup (l : list Z) : list Z :=
  match l with
  | x :: ((y :: _) as r) => if Z.eqb x y then zdedup r else x :: zdedup r
  | _ => l
  end.

Definition expected_carets (g : mglyph) : list Z :=
  zdedup (map otRound (qc_sort_set (caret_coords (mg_anchors g)))).

(* ---- cursive attachment ---- *)
Definition ENTRY : str := [101;110;116;114;121].              (* "entry" *)
Definition EXIT : str := [101;120;105;116].                   (* "exit" *)
Definition DOT_LTR : str := [46;76;84;82].
Definition DOT_RTL : str := [46;82;84;76].

Definition has_suffix (suf s : str) : bool := has_prefix (rev suf) (rev s).

Definition all_anchor_names (gs : list mglyph) : list str := flat_map (fun g => map ma_name (mg_anchors g)) gs.

(* suffixes X (incl. the empty one) such that entry[.X] and exit[.X] both occur somewhere in the font;
   a suffix is [] for plain entry/exit or "." ++ X *)
Definition cursive_suffixes (gs : list mglyph) : list str :=
  let names := all_anchor_names gs in
  dedup (flat_map (fun n => if has_prefix ENTRY n then
                              let suf := skipn (length ENTRY) n in
                              match suf with
                              | [] => if mem EXIT names then [suf] else []
                              | c :: _ => if Z.eqb c 46 && mem (EXIT ++ suf) names then [suf] else []
                              end
                            else []) names).

Definition first_anchor (g : mglyph) (n : str) : option (Z * Z) :=
  match find (fun a => str_eqb (ma_name a) n) (mg_anchors g) with
  | Some a => Some (otRound (ma_x a), otRound (ma_y a))
  | None => None
  end.

(* one record: (right-to-left flag, glyph, entry, exit) *)
Definition curs_rec := (bool * str * option (Z * Z) * option (Z * Z))%type.

Definition expected_cursive (gs : list mglyph) (ltr_glyphs : list str) : list curs_rec :=
  let split := match ltr_glyphs with [] => false | _ => true end in
  flat_map (fun suf =>
    flat_map (fun g =>
      let en := first_anchor g (ENTRY ++ suf) in let ex := first_anchor g (EXIT ++ suf) in
      match en, ex with
      | None, None => []
      | _, _ =>
          let rtl :=
            if has_suffix DOT_LTR suf then false
            else if has_suffix DOT_RTL suf then true
            else if split then negb (mem (mg_name g) ltr_glyphs) else true in
          [(rtl, mg_name g, en, ex)]
      end) gs) (cursive_suffixes gs).

Definition ozz_eqb (a b : option (Z * Z)) : bool := option_eqb zz_eqb a b.
Definition curs_rec_eqb (a b : curs_rec) : bool :=
  let '(r1, g1, e1, x1) := a in let '(r2, g2, e2, x2) := b in
  Bool.eqb r1 r2 && str_eqb g1 g2 && ozz_eqb e1 e2 && ozz_eqb x1 x2.
Definition curs_set_eqb (a b : list curs_rec) : bool :=
  Nat.eqb (length a) (length b) &&
  forallb (fun x => existsb (curs_rec_eqb x) b) a && forallb (fun x => existsb (curs_rec_eqb x) a) b.

(* ---- the whole check ---- *)
Definition c18_check (gs : list mglyph) (cats : list (str * Z)) (ltr_glyphs : list str)
           (obs_classes : list (str * Z)) (obs_carets : list (str * list Z)) (obs_curs : list curs_rec) : Z :=
  (if class_map_eqb (expected_classes (map mg_name gs) cats) obs_classes then 0 else 1) +
  (if forallb (fun g => list_eqb Z.eqb (expected_carets g)
                                 (match assoc (mg_name g) obs_carets with Some l => l | None => [] end)) gs
   then 0 else 2) +
  (if curs_set_eqb (expected_cursive gs ltr_glyphs) obs_curs then 0 else 4).
