(* C06: anchor-name parsing (markFeatureWriter.parseAnchorName) and the
   mark-attachment property as an executable predicate.  Definitions only. *)
From U2F Require Export Geometry.Model Kern.Model.
Open Scope Z_scope.

Definition USCORE : Z := 95.
Definition STAR : Z := 42.
Definition DOTC : Z := 46.
Definition is_digit (c : Z) : bool := Z.leb 48 c && Z.leb c 57.
Definition is_alpha (c : Z) : bool := (Z.leb 65 c && Z.leb c 90) || (Z.leb 97 c && Z.leb c 122).   (* ASCII domain *)

(* trailing ASCII digits of s (the group of LIGA_NUM_RE = ".*?(\d+)$"), most significant first *)
Fixpoint take_while_rev (p : Z -> bool) (r : list Z) : list Z :=
  match r with c :: r' => if p c then c :: take_while_rev p r' else [] | [] => [] end.
Definition trailing_digits (s : str) : str := rev (take_while_rev is_digit (rev s)).

(* s.rstrip(chars): strip trailing characters that occur in chars *)
Fixpoint drop_while_rev (p : Z -> bool) (r : list Z) : list Z :=
  match r with c :: r' => if p c then drop_while_rev p r' else r | [] => [] end.
Definition rstrip (chars s : str) : str := rev (drop_while_rev (fun c => existsb (Z.eqb c) chars) (rev s)).

Definition ends_with (c : Z) (s : str) : bool := match rev s with x :: _ => Z.eqb x c | [] => false end.
Definition drop_last (s : str) : str := rev (tl (rev s)).

Fixpoint digits_value (acc : Z) (d : str) : Z :=
  match d with [] => acc | c :: r => digits_value (acc * 10 + (c - 48)) r end.

(* re.sub(r"\..*", "", s) *)
Fixpoint cut_at_dot (s : str) : str :=
  match s with [] => [] | c :: r => if Z.eqb c DOTC then [] else c :: cut_at_dot r end.

Record parsed := mkParsed { p_mark : bool; p_key : str; p_number : option Z; p_ctx : bool; p_ignorable : bool }.
Inductive parse_res := P_ok (p : parsed) | P_mark_numbered | P_nil_key | P_empty.

Definition parse_anchor_name (name0 : str) : parse_res :=
  match name0 with
  | [] => P_empty                                         (* IndexError on anchorName[0] *)
  | c0 :: rest0 =>
      let ctx := Z.eqb c0 STAR in
      let name := if ctx then cut_at_dot rest0 else name0 in
      let d := trailing_digits name in
      let '(key, number) :=
        match d with
        | [] => (name, None)
        | _ => let k := rstrip d name in
               if ends_with USCORE k then (drop_last k, Some (digits_value 0 d)) else (name, None)
        end in
      let starts_mark := match name with c :: _ => Z.eqb c USCORE | [] => false end in
      let nonempty := match key with [] => false | _ => true end in
      if starts_mark && nonempty then
        match number with
        | Some _ => P_mark_numbered
        | None =>
            match key with
            | _ :: (_ :: _) as k' => P_ok (mkParsed true k' None ctx (match k' with c :: _ => negb (is_alpha c) | [] => false end))
            | _ => P_nil_key
            end
        end
      else P_ok (mkParsed false key number ctx (match key with c :: _ => negb (is_alpha c) | [] => false end))
  end.

(* ---- the attachment property ---- *)
Record manchor := mkMA { ma_name : str; ma_x : Qc; ma_y : Qc }.
Record mglyph := mkMG { mg_name : str; mg_anchors : list manchor }.

Record mark_in := mkMI {
  mi_glyphs : list mglyph;
  mi_quant : Qc }.

(* quantise then round, as _getAnchor + _defineMarkClass / ast.Anchor do *)
Definition qround (q v : Qc) : Z := otRound (quantize v q).

(* usable anchors of a glyph: parsed fine, not ignorable, not contextual *)
Definition usable (a : manchor) : option parsed :=
  match parse_anchor_name (ma_name a) with
  | P_ok p => if p_ignorable p || p_ctx p then None else Some p
  | _ => None
  end.

Definition find_glyph (i : mark_in) (n : str) : option mglyph :=
  find (fun g => str_eqb (mg_name g) n) (mi_glyphs i).

(* candidate offsets for attaching mark m to base b (component = None) or to ligature component k *)
Definition candidates (i : mark_in) (b m : mglyph) (component : option Z) : list (Z * Z) :=
  flat_map (fun ab =>
    match usable ab with
    | Some pb =>
        if p_mark pb then []
        else if option_eqb Z.eqb (p_number pb) component then
          flat_map (fun am =>
            match usable am with
            | Some pm =>
                if p_mark pm && str_eqb (p_key pm) (p_key pb) && match p_key pb with [] => false | _ => true end then
                  [(qround (mi_quant i) (ma_x ab) - qround (mi_quant i) (ma_x am),
                    qround (mi_quant i) (ma_y ab) - qround (mi_quant i) (ma_y am))]
                else []
            | None => []
            end) (mg_anchors m)
        else []
    | None => []
    end) (mg_anchors b).

(* one observation: base, mark, component, the offset the interpreter found (None = no attachment) *)
Definition attach_obs := (str * str * option Z * option (Z * Z))%type.

Definition zz_eqb (a b : Z * Z) : bool := Z.eqb (fst a) (fst b) && Z.eqb (snd a) (snd b).

(* 0 ok; 1 attached although no anchor pair matches; 2 not attached although a pair matches;
   3 attached at an offset that is not base anchor - mark anchor of any candidate *)
Definition check_attach (i : mark_in) (o : attach_obs) : Z :=
  let '(bn, mn, comp, got) := o in
  match find_glyph i bn, find_glyph i mn with
  | Some b, Some m =>
      let c := candidates i b m comp in
      match got, c with
      | None, [] => 0
      | Some _, [] => 1
      | None, _ :: _ => 2
      | Some off, _ => if existsb (zz_eqb off) c then 0 else 3
      end
  | _, _ => 0
  end.

Definition spec_C06 (i : mark_in) (obs : list attach_obs) : bool :=
  forallb (fun o => Z.eqb (check_attach i o) 0) obs.

Definition failing_C06 (i : mark_in) (obs : list attach_obs) : list (Z * (str * str)) :=
  flat_map (fun o => let c := check_attach i o in
                     if Z.eqb c 0 then [] else [(c, (fst (fst (fst o)), snd (fst (fst o))))]) obs.

(* parse result as a comparable code for the function-level correspondence *)
Definition parsed_eqb (a b : parsed) : bool :=
  Bool.eqb (p_mark a) (p_mark b) && str_eqb (p_key a) (p_key b) && option_eqb Z.eqb (p_number a) (p_number b) &&
  Bool.eqb (p_ctx a) (p_ctx b) && Bool.eqb (p_ignorable a) (p_ignorable b).
Definition parse_res_eqb (a b : parse_res) : bool :=
  match a, b with
  | P_ok x, P_ok y => parsed_eqb x y
  | P_mark_numbered, P_mark_numbered | P_nil_key, P_nil_key | P_empty, P_empty => true
  | _, _ => false
  end.
