From Coq Require Import Lqa.
From U2F Require Import Geometry.Model Geometry.ModelProofs Kern.Model Mark.Model Mark.Gdef.
Open Scope Z_scope.

(* classes mirror the categories, restricted to exported glyphs *)
Theorem classes_restricted glyphset cats g c :
  In (g, c) (expected_classes glyphset cats) ->
  In g glyphset /\ assoc g cats = Some c /\ 1 <= c <= 4.
Proof.
  unfold expected_classes. intro H. apply in_flat_map in H. destruct H as [g0 [Hg H]].
  destruct (assoc g0 cats) as [c0|] eqn:E; [|destruct H].
  destruct (Z.leb 1 c0 && Z.leb c0 4) eqn:Er; [|destruct H].
  destruct H as [H|[]]. inversion H; subst.
  apply andb_true_iff in Er. destruct Er as [E1 E2]. apply Z.leb_le in E1. apply Z.leb_le in E2.
  repeat split; auto.
Qed.

Theorem classes_complete glyphset cats g c :
  In g glyphset -> assoc g cats = Some c -> 1 <= c <= 4 -> In (g, c) (expected_classes glyphset cats).
Proof.
  intros Hg Ha [H1 H2]. unfold expected_classes. apply in_flat_map. exists g. split; [exact Hg|].
  rewrite Ha. assert (Z.leb 1 c && Z.leb c 4 = true) as ->; [|left; reflexivity].
  apply andb_true_iff. split; apply Z.leb_le; assumption.
Qed.

(* otRound is monotone, so rounding an increasing list keeps it increasing *)
Lemma otRound_mono a b : (this a <= this b)%Q -> otRound a <= otRound b.
Proof. intro H. unfold otRound. apply Qfloor_resp_le. lra. Qed.

Definition qc_le (a b : Qc) : Prop := (this a <= this b)%Q.

Lemma qc_ltb_false_ge a b : qc_ltb a b = false -> qc_le b a.
Proof.
  unfold qc_ltb, qc_le. destruct (this a ?= this b)%Q eqn:E; try discriminate; intros _.
  - apply Qeq_alt in E. rewrite E. apply Qle_refl.
  - apply Qgt_alt in E. apply Qlt_le_weak. exact E.
Qed.

Lemma qc_insert_sorted x l : Sorted qc_le l -> Sorted qc_le (qc_insert x l).
Proof.
  induction l as [|y l IH]; intro Hs; simpl; [repeat constructor|].
  destruct (qc_eqb x y) eqn:Ee; [exact Hs|].
  destruct (qc_ltb x y) eqn:El.
  - constructor; [exact Hs|]. constructor. apply qc_ltb_lt in El. unfold qc_le, Qclt in *. lra.
  - inversion Hs as [|? ? Hs' Hd]; subst. constructor; [apply IH; exact Hs'|].
    assert (qc_le y x) as Hyx by (apply qc_ltb_false_ge; exact El).
    destruct l as [|z l]; simpl.
    + constructor. exact Hyx.
    + destruct (qc_eqb x z); [exact Hd|]. destruct (qc_ltb x z); constructor; [exact Hyx|].
      inversion Hd; assumption.
Qed.

Lemma qc_sort_set_sorted l : Sorted qc_le (qc_sort_set l).
Proof. induction l as [|x l IH]; simpl; [constructor|apply qc_insert_sorted; exact IH]. Qed.

Lemma map_sorted l : Sorted qc_le l -> Sorted Z.le (map otRound l).
Proof.
  induction 1 as [|x l Hs IH Hd]; simpl; constructor; [exact IH|].
  destruct Hd; simpl; constructor. apply otRound_mono. assumption.
Qed.

Lemma zdedup_In l x : In x (zdedup l) -> In x l.
Proof.
  induction l as [|a l IH]; [tauto|]. destruct l as [|b l']; [tauto|].
  change (zdedup (a :: b :: l')) with (if Z.eqb a b then zdedup (b :: l') else a :: zdedup (b :: l')).
  destruct (Z.eqb a b); [intro H; right; apply IH; exact H|].
  intros [<-|H]; [left; reflexivity|right; apply IH; exact H].
Qed.

Lemma zdedup_hd l a : HdRel Z.le a l -> HdRel Z.le a (zdedup l).
Proof.
  induction l as [|b l IH]; intro H; [constructor|]. destruct l as [|c l']; [exact H|].
  change (zdedup (b :: c :: l')) with (if Z.eqb b c then zdedup (c :: l') else b :: zdedup (c :: l')).
  destruct (Z.eqb_spec b c) as [->|Hne].
  - apply IH. inversion H; subst. constructor. assumption.
  - inversion H; subst. constructor. assumption.
Qed.

Lemma zdedup_sorted l : Sorted Z.le l -> Sorted Z.le (zdedup l).
Proof.
  induction l as [|a l IH]; intro Hs; [constructor|]. destruct l as [|b l']; [exact Hs|].
  inversion Hs as [|? ? Hs' Hd]; subst.
  change (zdedup (a :: b :: l')) with (if Z.eqb a b then zdedup (b :: l') else a :: zdedup (b :: l')).
  destruct (Z.eqb a b); [apply IH; exact Hs'|].
  constructor; [apply IH; exact Hs'|apply zdedup_hd; exact Hd].
Qed.

(* ligature caret positions come out in increasing order *)
Theorem carets_increasing g : Sorted Z.le (expected_carets g).
Proof. unfold expected_carets. apply zdedup_sorted, map_sorted, qc_sort_set_sorted. Qed.

(* ... and each one is the rounding of a caret_/vcaret_ anchor coordinate of that glyph *)
Lemma qc_insert_In x l y : In y (qc_insert x l) -> y = x \/ In y l.
Proof.
  induction l as [|z l IH]; simpl; [intros [<-|[]]; auto|].
  destruct (qc_eqb x z); [auto|]. destruct (qc_ltb x z); simpl.
  - intros [<-|H]; auto.
  - intros [<-|H]; [auto|]. destruct (IH H); auto.
Qed.
Lemma qc_sort_set_In l y : In y (qc_sort_set l) -> In y l.
Proof.
  induction l as [|x l IH]; simpl; [tauto|]. intro H. destruct (qc_insert_In _ _ _ H) as [->|H']; auto.
Qed.

Theorem carets_from_source g z :
  In z (expected_carets g) -> exists q, In q (caret_coords (mg_anchors g)) /\ z = otRound q.
Proof.
  unfold expected_carets. intro H. apply zdedup_In in H. apply in_map_iff in H. destruct H as [q [<- Hq]].
  exists q. split; [apply qc_sort_set_In; exact Hq|reflexivity].
Qed.

(* the right-to-left flag of a cursive record: decided by an explicit suffix, else cleared exactly for
   glyphs of left-to-right scripts (when the font has any) *)
Theorem curs_flag_spec gs ltr rtl g en ex :
  In (rtl, g, en, ex) (expected_cursive gs ltr) ->
  exists suf, In suf (cursive_suffixes gs) /\
    rtl = (if has_suffix DOT_LTR suf then false
           else if has_suffix DOT_RTL suf then true
           else match ltr with [] => true | _ => negb (mem g ltr) end).
Proof.
  unfold expected_cursive. intro H. apply in_flat_map in H. destruct H as [suf [Hs H]].
  apply in_flat_map in H. destruct H as [gl [Hg H]].
  exists suf. split; [exact Hs|].
  destruct (first_anchor gl (ENTRY ++ suf)), (first_anchor gl (EXIT ++ suf)); simpl in H;
    try (destruct H as [H|[]]; inversion H; subst; destruct ltr; reflexivity).
  destruct H.
Qed.
