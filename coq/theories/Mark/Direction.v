(* C18: which glyphs count as "of a left-to-right script" for the cursive lookups.
   util.classifyGlyphs for one property value (here LTR): the glyphs the cmap maps LTR characters to, closed over the
   GSUB table together with the neutral glyphs (fontTools' subsetter closure -- environment, here a parameter of the
   section characterised by reachability over the table's rules, ligatures included), minus the closure of the neutral glyphs, plus ONE step of the designspace
   rule substitutions (`extra_substitutions`). *)
From U2F Require Import Base.Prelude.

Section Classify.
  Variable gclose : list str -> list str.          (* closeGlyphsOverGSUB *)
  Variable extras : list (str * str).              (* designspace rule substitutions, one pair per (from, to) *)

  Definition union (a b : list str) : list str := a ++ filter (fun x => negb (mem x a)) b.
  Definition minus (a b : list str) : list str := filter (fun x => negb (mem x b)) a.
  Definition one_step (s : list str) : list str :=
    map snd (filter (fun e => mem (fst e) s) extras).

  (* ltr, neutral: glyph names from the cmap *)
  Definition classify_gsub (ltr neutral : list str) : list str :=
    let n' := gclose neutral in
    union ltr (minus (gclose (union ltr n')) n').
  (* one round of the loop that follows (repaired defect F24: the rule substitutions used to be applied once, so a
     substitute's own substitutes were missed): add the rule substitutes, close over GSUB again *)
  Definition round (has_gsub : bool) (neutral' : list str) (g : list str) : list str :=
    let g1 := union g (one_step g) in
    if has_gsub then union g1 (minus (gclose (union g1 neutral')) neutral') else g1.
  Fixpoint iterate {A} (n : nat) (f : A -> A) (x : A) : A := match n with O => x | S k => iterate k f (f x) end.
  (* the code loops `while True` until a round adds no rule substitute; at most one productive round per rule *)
  Definition classify (has_gsub : bool) (ltr neutral : list str) : list str :=
    let n' := if has_gsub then gclose neutral else neutral in
    let g := if has_gsub then classify_gsub ltr neutral else ltr in
    iterate (length extras) (round has_gsub n') g.
  (* the pre-repair behaviour, kept for the refutation below *)
  Definition classify_once (has_gsub : bool) (ltr neutral : list str) : list str :=
    let g := if has_gsub then classify_gsub ltr neutral else ltr in
    union g (one_step g).
End Classify.

(* an executable closure over GSUB rules (what the check runs beside fontTools' subsetter closure): a rule is a list of
   input glyphs and an output glyph -- one input for single / alternate substitutions, several for a ligature -- and fires
   when all its inputs are present; |E| rounds reach the fixpoint *)
Definition rule := (list str * str)%type.
Definition close_step (E : list rule) (s : list str) : list str :=
  union s (map snd (filter (fun e => forallb (fun a => mem a s) (fst e)) E)).
Fixpoint iterate_n {A} (n : nat) (f : A -> A) (x : A) : A := match n with O => x | S k => iterate_n k f (f x) end.
Definition closure (E : list rule) (s : list str) : list str := iterate_n (length E) (close_step E) s.

Definition same_set (a b : list str) : bool := forallb (fun x => mem x b) a && forallb (fun x => mem x a) b.

(* CursFeatureWriter: with at least one LTR glyph the cursive lookups are split; LTR lookup = anchored glyphs in
   the classified set (RightToLeft cleared), RTL lookup = all the other anchored glyphs (RightToLeft set) *)
Definition split_lookups (classified anchored : list str) : list str * list str :=
  (filter (fun g => mem g classified) anchored, filter (fun g => negb (mem g classified)) anchored).
