From U2F Require Import Base.Prelude.
From U2F Require Import Mark.Direction.

(* reachability over GSUB rules: a rule (inputs, output) makes its output reachable once ALL its inputs are
   (single / alternate substitutions have one input, ligatures several).  Least fixed point, impredicatively encoded. *)
Definition reach (E : list rule) (S : list str) (g : str) : Prop :=
  forall P : str -> Prop,
    (forall x, In x S -> P x) ->
    (forall ins b, In (ins, b) E -> (forall a, In a ins -> P a) -> P b) -> P g.

Lemma reach_base E S g : In g S -> reach E S g.
Proof. intros H P HS _. apply HS. exact H. Qed.

Lemma reach_step E S ins b : In (ins, b) E -> (forall a, In a ins -> reach E S a) -> reach E S b.
Proof. intros Hin Hall P HS HE. apply (HE ins b Hin). intros a Ha. exact (Hall a Ha P HS HE). Qed.

Lemma reach_step1 E S a b : reach E S a -> In ([a], b) E -> reach E S b.
Proof. intros Ha Hin. apply (reach_step E S [a] b Hin). intros x [<-|[]]. exact Ha. Qed.

Lemma reach_mono E E' S S' g :
  (forall e, In e E -> In e E') -> (forall x, In x S -> In x S') -> reach E S g -> reach E' S' g.
Proof.
  intros HE HS H. apply H.
  - intros x Hx. apply reach_base. auto.
  - intros ins b Hin Hall. apply (reach_step E' S' ins b); auto.
Qed.

Lemma reach_trans E S T g : (forall x, In x T -> reach E S x) -> reach E T g -> reach E S g.
Proof.
  intros HT H. apply H; [exact HT|]. intros ins b Hin Hall. apply (reach_step E S ins b); auto.
Qed.

Lemma reach_nil S g : reach [] S g <-> In g S.
Proof. split; [|apply reach_base]. intro H. apply H; [auto|]. intros ins b []. Qed.

(* the designspace rule substitutions as one-input rules *)
Definition as_rules (X : list (str * str)) : list rule := map (fun e => ([fst e], snd e)) X.
Lemma In_as_rules X a b : In ([a], b) (as_rules X) <-> In (a, b) X.
Proof.
  unfold as_rules. rewrite in_map_iff. split.
  - intros [[a' b'] [E H]]. cbn in E. injection E as -> ->. exact H.
  - intro H. exists (a, b). split; [reflexivity|exact H].
Qed.
Lemma as_rules_inv X ins b : In (ins, b) (as_rules X) -> exists a, ins = [a] /\ In (a, b) X.
Proof. unfold as_rules. rewrite in_map_iff. intros [[a' b'] [E H]]. cbn in E. injection E as <- <-. exists a'. auto. Qed.

Lemma In_union a b x : In x (union a b) <-> In x a \/ In x b.
Proof.
  unfold union. rewrite in_app_iff, filter_In. split.
  - intros [H|[H _]]; auto.
  - intros [H|H]; [auto|]. destruct (mem x a) eqn:E; [left; apply mem_In; exact E|right; split; [exact H|reflexivity]].
Qed.

Lemma In_minus a b x : In x (minus a b) <-> In x a /\ ~ In x b.
Proof.
  unfold minus. rewrite filter_In. split; intros [H1 H2]; split; auto.
  - apply negb_true_iff in H2. apply mem_false in H2. exact H2.
  - apply negb_true_iff. apply mem_false. exact H2.
Qed.

Lemma filter_length_le {A} (p : A -> bool) l : length (filter p l) <= length l.
Proof. induction l as [|x l IH]; cbn; [lia|destruct (p x); cbn; lia]. Qed.

Lemma filter_length_mono {A} (p q : A -> bool) l :
  (forall e, q e = true -> p e = true) -> length (filter q l) <= length (filter p l).
Proof.
  intro H. induction l as [|x l IH]; cbn; [lia|].
  destruct (q x) eqn:Eq; [rewrite (H x Eq); cbn; lia|destruct (p x); cbn; lia].
Qed.

Lemma filter_length_lt {A} (p q : A -> bool) l :
  (forall e, q e = true -> p e = true) -> (exists e, In e l /\ p e = true /\ q e = false) ->
  length (filter q l) < length (filter p l).
Proof.
  intros H [e [He [Hp Hq]]]. induction l as [|x l IH]; [destruct He|]. cbn. destruct He as [He|He].
  - subst x. rewrite Hp, Hq. cbn. pose proof (filter_length_mono p q l H). lia.
  - specialize (IH He). destruct (q x) eqn:Eq; [rewrite (H x Eq); cbn; lia|destruct (p x); cbn; lia].
Qed.

Section ClassifyProofs.
  Variable G : list rule.                          (* the GSUB table's rules: (inputs, output) *)
  Variable gclose : list str -> list str.
  (* environment assumption: the subsetter's closure is reachability over the table's rules *)
  Hypothesis gclose_spec : forall S g, In g (gclose S) <-> reach G S g.
  Variable X : list (str * str).

  Lemma In_one_step s b : In b (one_step X s) <-> exists a, In a s /\ In (a, b) X.
  Proof.
    unfold one_step. rewrite in_map_iff. split.
    - intros [[a b'] [E H]]. cbn in E. subst b'. apply filter_In in H. destruct H as [H1 H2]. cbn in H2.
      exists a. split; [apply mem_In; exact H2|exact H1].
    - intros [a [Ha Hab]]. exists (a, b). split; [reflexivity|]. apply filter_In. split; [exact Hab|]. cbn. apply mem_In. exact Ha.
  Qed.

  Lemma In_classify_gsub L N g :
    In g (classify_gsub gclose L N) <-> In g L \/ (reach G (union L (gclose N)) g /\ ~ reach G N g).
  Proof. unfold classify_gsub. rewrite In_union, In_minus, !gclose_spec. reflexivity. Qed.

  Definition Gb (b : bool) : list rule := if b then G else [].
  Definition nprime (b : bool) (N : list str) : list str := if b then gclose N else N.
  Definition start (b : bool) (L N : list str) : list str := if b then classify_gsub gclose L N else L.

  Lemma classify_unfold b L N :
    classify gclose X b L N = iterate (length X) (round gclose X b (nprime b N)) (start b L N).
  Proof. reflexivity. Qed.

  Lemma round_incl b n' g x : In x g -> In x (round gclose X b n' g).
  Proof. intro H. unfold round. destruct b; [apply In_union; left|]; apply In_union; left; exact H. Qed.

  Lemma round_one_step b n' g x : In x (one_step X g) -> In x (round gclose X b n' g).
  Proof. intro H. unfold round. destruct b; [apply In_union; left|]; apply In_union; right; exact H. Qed.

  Lemma iterate_incl b n' k g x : In x g -> In x (iterate k (round gclose X b n') g).
  Proof. revert g. induction k as [|k IH]; intros g H; cbn; [exact H|]. apply IH. apply round_incl. exact H. Qed.

  (* ---------- what is classified ---------- *)

  (* every glyph the cmap maps a left-to-right character to is classified *)
  Theorem classify_contains_cmap b L N g : In g L -> In g (classify gclose X b L N).
  Proof.
    intro H. rewrite classify_unfold. apply iterate_incl. unfold start.
    destruct b; [apply In_classify_gsub; left; exact H|exact H].
  Qed.

  (* ... and so is the substitute a designspace rule gives to it, GSUB table or not (what seeded change C18-sub4 breaks) *)
  Theorem classify_contains_rule_substitutes b L N a s :
    In a L -> In (a, s) X -> In s (classify gclose X b L N).
  Proof.
    intros Ha Hs. rewrite classify_unfold.
    assert (exists k, length X = S k) as [k Hk] by (destruct X; [destruct Hs|eexists; reflexivity]).
    rewrite Hk. cbn [iterate]. apply iterate_incl. apply round_one_step. apply In_one_step. exists a. split; [|exact Hs].
    unfold start. destruct b; [apply In_classify_gsub; left; exact Ha|exact Ha].
  Qed.

  (* ---------- soundness: nothing is classified that is not reachable from the cmap's glyphs ---------- *)
  Definition sound_set (b : bool) (L N T : list str) : Prop := forall x, In x T -> reach (Gb b ++ as_rules X) (L ++ N) x.

  Lemma nprime_sound b L N y : In y (nprime b N) -> reach (Gb b ++ as_rules X) (L ++ N) y.
  Proof.
    unfold nprime, Gb. destruct b; intro H.
    - apply gclose_spec in H. eapply reach_mono; [| |exact H].
      + intros e He. apply in_or_app. left. exact He.
      + intros z Hz. apply in_or_app. right. exact Hz.
    - apply reach_base. apply in_or_app. right. exact H.
  Qed.

  Lemma round_sound b L N T : sound_set b L N T -> sound_set b L N (round gclose X b (nprime b N) T).
  Proof.
    intros HT x Hx.
    assert (forall y, In y (union T (one_step X T)) -> reach (Gb b ++ as_rules X) (L ++ N) y) as H1.
    { intros y Hy. apply In_union in Hy. destruct Hy as [Hy|Hy]; [apply HT; exact Hy|].
      apply In_one_step in Hy. destruct Hy as [a [Ha Hab]]. eapply reach_step1; [apply HT; exact Ha|].
      apply in_or_app. right. apply In_as_rules. exact Hab. }
    unfold round in Hx. destruct b.
    - apply In_union in Hx. destruct Hx as [Hx|Hx]; [apply H1; exact Hx|].
      apply In_minus in Hx. destruct Hx as [Hx _]. apply gclose_spec in Hx.
      apply reach_mono with (E' := Gb true ++ as_rules X) (S' := union (union T (one_step X T)) (nprime true N)) in Hx;
        [|intros e He; apply in_or_app; left; exact He|auto].
      eapply reach_trans; [|exact Hx]. intros y Hy. apply In_union in Hy. destruct Hy as [Hy|Hy];
        [apply H1; exact Hy|apply nprime_sound; exact Hy].
    - apply H1. exact Hx.
  Qed.

  Lemma start_sound b L N : sound_set b L N (start b L N).
  Proof.
    intros x Hx. unfold start in Hx. destruct b.
    - apply In_classify_gsub in Hx. destruct Hx as [Hx|[Hx _]].
      + apply reach_base. apply in_or_app. left. exact Hx.
      + apply reach_mono with (E' := Gb true ++ as_rules X) (S' := union L (gclose N)) in Hx;
          [|intros e He; apply in_or_app; left; exact He|auto].
        eapply reach_trans; [|exact Hx]. intros y Hy. apply In_union in Hy. destruct Hy as [Hy|Hy].
        * apply reach_base. apply in_or_app. left. exact Hy.
        * apply (nprime_sound true). exact Hy.
    - apply reach_base. apply in_or_app. left. exact Hx.
  Qed.

  Theorem classify_sound b L N g :
    In g (classify gclose X b L N) -> reach (Gb b ++ as_rules X) (L ++ N) g.
  Proof.
    rewrite classify_unfold. generalize (start_sound b L N). generalize (start b L N) as T.
    induction (length X) as [|k IH]; intros T HT; cbn [iterate]; [apply HT|].
    apply IH. apply round_sound. exact HT.
  Qed.

  (* ---------- completeness (no neutral glyphs): everything reachable is classified ---------- *)
  Section Complete.
    Variable b : bool.
    Variable n' : list str.
    Hypothesis n'_empty : forall x, ~ In x n'.
    Let R := round gclose X b n'.

    Lemma round_spec g x : In x (R g) <-> reach (Gb b) (union g (one_step X g)) x.
    Proof.
      unfold R, round, Gb. destruct b.
      - rewrite In_union, In_minus, gclose_spec. split.
        + intros [H|[H _]]; [apply reach_base; exact H|]. eapply reach_mono; [| |exact H]; [auto|].
          intros y Hy. apply In_union in Hy. destruct Hy as [Hy|Hy]; [exact Hy|destruct (n'_empty y Hy)].
        + intro H. right. split; [|apply n'_empty]. eapply reach_mono; [| |exact H]; [auto|].
          intros y Hy. apply In_union. left. exact Hy.
      - symmetry. apply reach_nil.
    Qed.

    Definition Gclosed (T : list str) : Prop := forall x, reach (Gb b) T x -> In x T.
    Definition stable (T : list str) : Prop := forall x, In x (R T) -> In x T.
    Definition m (T : list str) : nat := length (filter (fun e => negb (mem (snd e) T)) X).

    Lemma R_Gclosed T : Gclosed (R T).
    Proof.
      intros x Hx. apply round_spec. eapply reach_trans; [|exact Hx]. intros y Hy. apply round_spec in Hy. exact Hy.
    Qed.

    Lemma R_mono T U : (forall x, In x T -> In x U) -> forall x, In x (R T) -> In x (R U).
    Proof.
      intros HTU x Hx. apply round_spec. apply round_spec in Hx. eapply reach_mono; [| |exact Hx]; [auto|].
      intros y Hy. apply In_union. apply In_union in Hy. destruct Hy as [Hy|Hy]; [left; auto|right].
      apply In_one_step. apply In_one_step in Hy. destruct Hy as [a [Ha Hab]]. exists a. split; auto.
    Qed.

    Lemma stable_R T : stable T -> stable (R T).
    Proof. intros HT x Hx. exact (R_mono (R T) T HT x Hx). Qed.

    Lemma stable_iterate k T : stable T -> stable (iterate k R T).
    Proof. revert T. induction k as [|k IH]; intros T HT; cbn [iterate]; [exact HT|]. apply IH. apply stable_R. exact HT. Qed.

    Lemma stable_or_decrease T : Gclosed T -> stable T \/ m (R T) < m T.
    Proof.
      intro HG. destruct (forallb (fun s => mem s T) (one_step X T)) eqn:E.
      - left. intros x Hx. apply round_spec in Hx. apply HG. eapply reach_mono; [| |exact Hx]; [auto|].
        intros y Hy. apply In_union in Hy. destruct Hy as [Hy|Hy]; [exact Hy|].
        rewrite forallb_forall in E. apply mem_In. apply E. exact Hy.
      - right. assert (exists s, In s (one_step X T) /\ mem s T = false) as [s [Hs Hm]].
        { clear - E. induction (one_step X T) as [|y l IH]; [discriminate|]. cbn in E.
          destruct (mem y T) eqn:Ey; [destruct (IH E) as [s [H1 H2]]; exists s; split; [right; exact H1|exact H2]|].
          exists y. split; [left; reflexivity|exact Ey]. }
        pose proof Hs as Hs'. apply In_one_step in Hs'. destruct Hs' as [a [Ha Hab]].
        unfold m. apply filter_length_lt.
        + intros e He. apply negb_true_iff in He. apply negb_true_iff. apply mem_false. apply mem_false in He.
          intro Hc. apply He. apply round_incl. exact Hc.
        + exists (a, s). split; [exact Hab|]. cbn [snd]. split; [rewrite Hm; reflexivity|].
          apply negb_false_iff. apply mem_In. apply round_one_step. exact Hs.
    Qed.

    Lemma stabilises k : forall T, Gclosed T -> m T <= k -> stable (iterate k R T).
    Proof.
      induction k as [|k IH]; intros T HG Hm; cbn [iterate].
      - destruct (stable_or_decrease T HG) as [H|H]; [exact H|lia].
      - destruct (stable_or_decrease T HG) as [H|H].
        + apply stable_iterate. apply stable_R. exact H.
        + apply IH; [apply R_Gclosed|lia].
    Qed.

    Lemma Gclosed_iterate k T : Gclosed T -> Gclosed (iterate k R T).
    Proof. revert T. induction k as [|k IH]; intros T HT; cbn [iterate]; [exact HT|]. apply IH. apply R_Gclosed. Qed.

    Lemma complete_from T L g :
      Gclosed T -> (forall x, In x L -> In x T) ->
      reach (Gb b ++ as_rules X) L g -> In g (iterate (length X) R T).
    Proof.
      intros HG HL H.
      pose proof (stabilises (length X) T HG (filter_length_le _ X)) as Hst.
      pose proof (Gclosed_iterate (length X) T HG) as HGc.
      set (T' := iterate (length X) R T) in *.
      apply H.
      - intros x Hx. unfold T'. apply iterate_incl. apply HL. exact Hx.
      - intros ins s Hin Hall. apply in_app_or in Hin. destruct Hin as [Hin|Hin].
        + apply HGc. apply (reach_step (Gb b) T' ins s Hin). intros a Ha. apply reach_base. apply Hall. exact Ha.
        + apply as_rules_inv in Hin. destruct Hin as [a [-> Hab]].
          apply Hst. apply round_one_step. apply In_one_step. exists a. split; [apply Hall; left; reflexivity|exact Hab].
    Qed.
  End Complete.

  (* a GSUB rule has at least one input glyph *)
  Hypothesis G_inputs : forall ins b, In (ins, b) G -> ins <> [].

  Lemma reach_empty x : ~ reach G [] x.
  Proof.
    intro H. apply (H (fun _ => False)); [intros ? []|]. intros ins b Hin Hall.
    destruct ins as [|a ins']; [exact (G_inputs _ _ Hin eq_refl)|]. exact (Hall a (or_introl eq_refl)).
  Qed.

  Lemma start_true_char L y : In y (classify_gsub gclose L []) <-> reach G L y.
  Proof.
    rewrite In_classify_gsub. split.
    - intros [H|[H _]]; [apply reach_base; exact H|]. eapply reach_mono; [| |exact H]; [auto|].
      intros z Hz. apply In_union in Hz. destruct Hz as [Hz|Hz]; [exact Hz|].
      apply gclose_spec in Hz. destruct (reach_empty _ Hz).
    - intro H. destruct (in_dec str_eq_dec y L) as [Hl|Hl]; [left; exact Hl|right]. split; [|apply reach_empty].
      eapply reach_mono; [| |exact H]; [auto|]. intros z Hz. apply In_union. left. exact Hz.
  Qed.

  Theorem classify_complete b L g :
    reach (Gb b ++ as_rules X) L g -> In g (classify gclose X b L []).
  Proof.
    intro H. rewrite classify_unfold.
    assert (forall x, ~ In x (nprime b [])) as Hn.
    { intros x Hx. unfold nprime in Hx. destruct b; [|exact Hx]. apply gclose_spec in Hx. destruct (reach_empty _ Hx). }
    apply (complete_from b (nprime b []) Hn (start b L []) L g); [| |exact H].
    - intros x Hx. unfold start in *. destruct b.
      + apply start_true_char. eapply reach_trans; [|exact Hx]. intros y Hy. apply start_true_char. exact Hy.
      + apply reach_nil in Hx. exact Hx.
    - intros x Hx. unfold start. destruct b; [apply start_true_char; apply reach_base; exact Hx|exact Hx].
  Qed.

  (* soundness and completeness together: with no neutral glyphs, classified = reachable through GSUB and rule substitutions *)
  Corollary classify_is_reachability b L g :
    In g (classify gclose X b L []) <-> reach (Gb b ++ as_rules X) L g.
  Proof.
    split; [|apply classify_complete]. intro H. apply classify_sound in H. rewrite app_nil_r in H. exact H.
  Qed.
End ClassifyProofs.

(* the cursive lookups partition the anchored glyphs; RightToLeft is cleared exactly on the classified ones *)
Theorem split_partition classified anchored g :
  In g anchored ->
  (In g (fst (split_lookups classified anchored)) /\ ~ In g (snd (split_lookups classified anchored)) /\ In g classified) \/
  (In g (snd (split_lookups classified anchored)) /\ ~ In g (fst (split_lookups classified anchored)) /\ ~ In g classified).
Proof.
  intro Ha. unfold split_lookups; cbn [fst snd]. destruct (mem g classified) eqn:E.
  - left. repeat split.
    + apply filter_In. split; [exact Ha|exact E].
    + intro H. apply filter_In in H. destruct H as [_ H]. rewrite E in H. discriminate.
    + apply mem_In. exact E.
  - right. repeat split.
    + apply filter_In. split; [exact Ha|rewrite E; reflexivity].
    + intro H. apply filter_In in H. destruct H as [_ H]. rewrite E in H. discriminate.
    + apply mem_false. exact E.
Qed.

(* the pre-repair code (rule substitutions applied once, after the GSUB closure) was NOT complete: rule n -> n.alt,
   GSUB n.alt -> n.alt.sc; n.alt.sc is reachable from the left-to-right letter n but was not classified (defect F24,
   replayed on the implementation by the check's "rule-then-gsub" cells) *)
Example classify_once_incomplete_refuted :
  let n := [1%Z] in let n_alt := [2%Z] in let n_alt_sc := [3%Z] in
  let G : list rule := [([n_alt], n_alt_sc)] in let X := [(n, n_alt)] in
  reach (G ++ as_rules X) [n] n_alt_sc /\ mem n_alt_sc (classify_once (closure G) X true [n] []) = false /\
  mem n_alt_sc (classify (closure G) X true [n] []) = true.
Proof.
  cbv zeta. split; [|split; vm_compute; reflexivity].
  eapply reach_step1; [eapply reach_step1; [apply reach_base; left; reflexivity|]|]; cbn; auto.
Qed.

(* a ligature of a left-to-right letter and a neutral glyph (f + hyphen -> f_hyphen) is reached only when the closure starts
   from the letters TOGETHER WITH the neutral glyphs (what seeded change C18-sub5 drops) *)
Example neutral_glyphs_take_part_in_the_closure :
  let f := [1%Z] in let hyphen := [2%Z] in let f_hyphen := [3%Z] in
  let G : list rule := [([f; hyphen], f_hyphen)] in
  mem f_hyphen (classify (closure G) [] true [f] [hyphen]) = true /\
  mem f_hyphen (closure G [f]) = false.
Proof. vm_compute. split; reflexivity. Qed.
