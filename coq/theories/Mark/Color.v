(* C06/C08: markFeatureWriter.colorGraph -- greedy colouring of the conflict graph between
   mark classes (classes that share a mark glyph must not end up in one lookup).
   Vertices are visited in sorted order; each takes the smallest colour no already coloured
   neighbour has.  Definitions only. *)
From U2F Require Export Base.Prelude.
Import ListNotations.

Definition adjacency := list (str * list str).       (* vertex -> neighbours (a dict of iterables) *)
Definition nbrs (adj : adjacency) (n : str) : list str := match assoc n adj with Some l => l | None => [] end.

(* firstAvailable(colorSet): smallest natural number not in the set *)
Fixpoint fa (fuel n : nat) (used : list nat) : nat :=
  match fuel with
  | O => n
  | S f => if existsb (Nat.eqb n) used then fa f (S n) used else n
  end.
Definition first_avail (used : list nat) : nat := fa (S (list_max used)) 0 used.

Definition color_step (adj : adjacency) (colors : list (str * nat)) (node : str) : list (str * nat) :=
  let used := flat_map (fun nb => match assoc nb colors with Some c => [c] | None => [] end) (nbrs adj node) in
  colors ++ [(node, first_avail used)].

Definition color_all (adj : adjacency) : list (str * nat) :=
  fold_left (color_step adj) (sort_str (keys adj)) [].

(* groups = defaultdict(list), filled in the order of colors.items() *)
Fixpoint add_to_group (c : nat) (n : str) (gr : list (nat * list str)) : list (nat * list str) :=
  match gr with
  | [] => [(c, [n])]
  | (c', l) :: r => if Nat.eqb c c' then (c', l ++ [n]) :: r else (c', l) :: add_to_group c n r
  end.

Definition color_graph (adj : adjacency) : list (list str) :=
  map snd (fold_left (fun gr nc => add_to_group (snd nc) (fst nc) gr) (color_all adj) []).

Definition groups_eqb (a b : list (list str)) : bool := list_eqb (list_eqb str_eqb) a b.

(* the statement, as a boolean on an observed result: every vertex in exactly one group, no group holds two neighbours *)
Definition proper_groups (adj : adjacency) (groups : list (list str)) : bool :=
  forallb (fun g => forallb (fun a => forallb (fun b => negb (mem b (nbrs adj a))) g) g) groups &&
  list_eqb str_eqb (sort_str (concat groups)) (sort_str (keys adj)).

Definition c06_color (adj : adjacency) (obs : list (list str)) : Z :=
  ((if groups_eqb (color_graph adj) obs then 1 else 0) + (if proper_groups adj obs then 2 else 0))%Z.
