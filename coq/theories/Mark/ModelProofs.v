From U2F Require Import Geometry.Model Kern.Model Mark.Model.
Open Scope Z_scope.

(* no candidate class => the specification demands no attachment, and conversely an
   attachment is only ever accepted at a candidate offset *)
Theorem only_paired_attach i bn mn comp b m :
  find_glyph i bn = Some b -> find_glyph i mn = Some m -> candidates i b m comp = [] ->
  forall got, check_attach i (bn, mn, comp, got) = 0 <-> got = None.
Proof.
  intros Hb Hm Hc got. unfold check_attach. rewrite Hb, Hm, Hc.
  destruct got; split; intro H; try reflexivity; discriminate.
Qed.

Theorem attach_is_candidate i bn mn comp b m off :
  find_glyph i bn = Some b -> find_glyph i mn = Some m ->
  check_attach i (bn, mn, comp, Some off) = 0 ->
  exists c, In c (candidates i b m comp) /\ zz_eqb off c = true.
Proof.
  intros Hb Hm. unfold check_attach. rewrite Hb, Hm.
  destruct (candidates i b m comp) as [|c0 cs] eqn:Ec; [discriminate|].
  destruct (existsb (zz_eqb off) (c0 :: cs)) eqn:Ee; [|discriminate]. intros _.
  apply existsb_exists in Ee. destruct Ee as [c [H1 H2]]. exists c. auto.
Qed.

(* every candidate offset is (base anchor - mark anchor), each quantised then rounded, of two
   anchors whose parsed keys agree: a plain/numbered anchor on the base and a mark anchor *)
Theorem candidate_is_anchor_difference i b m comp off :
  In off (candidates i b m comp) ->
  exists ab am pb pm,
    In ab (mg_anchors b) /\ In am (mg_anchors m) /\ usable ab = Some pb /\ usable am = Some pm /\
    p_mark pb = false /\ p_mark pm = true /\ p_key pm = p_key pb /\ p_number pb = comp /\
    off = (qround (mi_quant i) (ma_x ab) - qround (mi_quant i) (ma_x am),
           qround (mi_quant i) (ma_y ab) - qround (mi_quant i) (ma_y am)).
Proof.
  unfold candidates. intro H. apply in_flat_map in H. destruct H as [ab [Hab H]].
  destruct (usable ab) as [pb|] eqn:Eb; [|destruct H].
  destruct (p_mark pb) eqn:Emb; [destruct H|].
  destruct (option_eqb Z.eqb (p_number pb) comp) eqn:En; [|destruct H].
  apply in_flat_map in H. destruct H as [am [Ham H]].
  destruct (usable am) as [pm|] eqn:Em; [|destruct H].
  destruct (p_mark pm && str_eqb (p_key pm) (p_key pb) && _) eqn:Ec; [|destruct H].
  destruct H as [<-|[]].
  apply andb_true_iff in Ec. destruct Ec as [Ec _]. apply andb_true_iff in Ec. destruct Ec as [E1 E2].
  apply str_eqb_eq in E2.
  exists ab, am, pb, pm. repeat split; auto.
  destruct (p_number pb), comp; simpl in En; try discriminate; try reflexivity.
  apply Z.eqb_eq in En. subst. reflexivity.
Qed.

(* parseAnchorName on the documented shapes *)
Example parse_examples :
  parse_anchor_name [116;111;112] = P_ok (mkParsed false [116;111;112] None false false) /\
  parse_anchor_name [95;116;111;112] = P_ok (mkParsed true [116;111;112] None false false) /\
  parse_anchor_name [116;111;112;95;50] = P_ok (mkParsed false [116;111;112] (Some 2) false false) /\
  parse_anchor_name [95;116;111;112;95;49] = P_mark_numbered /\
  parse_anchor_name [95] = P_nil_key /\
  parse_anchor_name [95;49] = P_ok (mkParsed false [] (Some 1) false false).
Proof. repeat split; vm_compute; reflexivity. Qed.
