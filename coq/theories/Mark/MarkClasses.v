(* C06: MarkFeatureWriter._makeMarkClassDefinitions / _defineMarkClass -- into which mark class the marks of one anchor
   go when the feature file already defines classes, possibly under the very name the writer generates.
   A class is a name with its members (glyph, rounded anchor).  Definitions only. *)
From U2F Require Export Base.Prelude.
Open Scope Z_scope.

Definition xy := (Z * Z)%type.
Definition xy_eqb (a b : xy) : bool := Z.eqb (fst a) (fst b) && Z.eqb (snd a) (snd b).
Definition members := list (str * xy).
Definition classes := list (str * members).

Fixpoint update (name : str) (ms : members) (cls : classes) : classes :=
  match cls with
  | [] => []
  | (n, old) :: rest => if str_eqb n name then (n, ms) :: rest else (n, old) :: update name ms rest
  end.

Section Names.
  (* ast.makeFeaClassName(name, existing): name, name_1, name_2, ... -- cand name i is the i-th candidate *)
  Variable cand : str -> nat -> str.

  Fixpoint find_unique (fuel : nat) (i : nat) (name : str) (taken : list str) : option str :=
    if mem (cand name i) taken then match fuel with O => None | S f => find_unique f (S i) name taken end
    else Some (cand name i).
  (* |taken| + 1 candidates always suffice (proved); the None default is never taken *)
  Definition make_unique (name : str) (cls : classes) : str :=
    match find_unique (length cls) 0 name (map fst cls) with Some n => n | None => name end.

  (* _defineMarkClass: returns the classes and the (possibly new) class name the caller continues with *)
  Definition define_mark (g : str) (a : xy) (cname : str) (cls : classes) : classes * str :=
    match assoc cname cls with
    | None => (cls ++ [(cname, [(g, a)])], cname)
    | Some ms =>
        match assoc g ms with
        | Some a' => if xy_eqb a a' then (cls, cname)
                     else let n := make_unique cname cls in (cls ++ [(n, [(g, a)])], n)
        | None => (update cname (ms ++ [(g, a)]) cls, cname)
        end
    end.

  (* the pre-check added by repair F20: does the existing class of that name hold one of OUR marks with another anchor? *)
  Definition conflicts (marks : members) (cname : str) (cls : classes) : bool :=
    match assoc cname cls with
    | None => false
    | Some ms => existsb (fun ga => match assoc (fst ga) ms with Some a' => negb (xy_eqb (snd ga) a') | None => false end) marks
    end.

  Fixpoint define_all (marks : members) (cname : str) (cls : classes) : classes * str :=
    match marks with
    | [] => (cls, cname)
    | (g, a) :: rest => let '(cls', cname') := define_mark g a cname cls in define_all rest cname' cls'
    end.

  (* one anchor name of _makeMarkClassDefinitions: the class (name) recorded for the anchor is the last className *)
  Definition process_anchor (marks : members) (cname : str) (cls : classes) : classes * str :=
    let start := if conflicts marks cname cls then make_unique cname cls else cname in
    define_all marks start cls.

  (* the pre-repair code: no pre-check *)
  Definition process_anchor_old (marks : members) (cname : str) (cls : classes) : classes * str :=
    define_all marks cname cls.
End Names.

(* all anchor names in sorted order, threading the classes; returns the final classes and the class recorded per anchor *)
Section All.
  Variable cand : str -> nat -> str.
  Fixpoint process_all (anchors : list (str * members)) (cls : classes) : classes * list str :=
    match anchors with
    | [] => (cls, [])
    | (cname, marks) :: rest =>
        let '(cls1, n) := process_anchor cand marks cname cls in
        let '(cls2, ns) := process_all rest cls1 in (cls2, n :: ns)
    end.
End All.

(* name, name_1, ..., name_9 in ASCII (enough candidates for the generated cases) *)
Definition cand_dec (name : str) (i : nat) : str := match i with O => name | _ => name ++ [95; 48 + Z.of_nat i] end.

Definition members_same (a b : members) : bool :=
  forallb (fun ga => match assoc (fst ga) b with Some x => xy_eqb (snd ga) x | None => false end) a &&
  forallb (fun ga => match assoc (fst ga) a with Some x => xy_eqb (snd ga) x | None => false end) b.
Definition classes_same (a b : classes) : bool :=
  forallb (fun c => match assoc (fst c) b with Some m => members_same (snd c) m | None => false end) a &&
  forallb (fun c => match assoc (fst c) a with Some m => members_same (snd c) m | None => false end) b.

(* executable statement on observed classes: each anchor's marks are, with their own anchors, in the class used for it *)
Fixpoint spec_all (anchors : list (str * members)) (obs : classes) (used : list (option str)) : bool :=
  match anchors, used with
  | [], [] => true
  | (_, marks) :: rest, Some n :: used' =>
      match assoc n obs with
      | Some ms => forallb (fun ga => match assoc (fst ga) ms with Some x => xy_eqb (snd ga) x | None => false end) marks
      | None => false
      end && spec_all rest obs used'
  | _, _ => false
  end.

(* executable statement: the recorded class holds every mark of the anchor with its own anchor *)
Definition anchor_ok (marks : members) (res : classes * str) : bool :=
  match assoc (snd res) (fst res) with
  | None => match marks with [] => true | _ => false end
  | Some ms => forallb (fun ga => match assoc (fst ga) ms with Some a' => xy_eqb (snd ga) a' | None => false end) marks
  end.
