(* C05: the property as an executable predicate over what the GPOS interpreter
   observed on a compiled font. *)
From U2F Require Export Kern.Model.
Open Scope Z_scope.

Record kern_in := mkKI {
  ki_glyphs : list str;                  (* exported glyph set *)
  ki_groups : groups;                    (* font.groups, insertion order *)
  ki_kerning : kerning;                  (* font.kerning *)
  ki_quant : Qc;
  ki_scripts : list (str * list str);    (* glyph -> Unicode scripts it belongs to; absent/[] = script-neutral *)
  ki_bidiR : list str;                   (* glyphs of strong right-to-left type *)
  ki_bidiL : list str;                   (* glyphs of left-to-right type (L, AN, EN) *)
  ki_strict_rtl : bool }.                (* no L-type glyph takes part in kerning: placement must equal advance *)

Definition KERN1 : str := [112;117;98;108;105;99;46;107;101;114;110;49;46].   (* "public.kern1." *)
Definition KERN2 : str := [112;117;98;108;105;99;46;107;101;114;110;50;46].   (* "public.kern2." *)

Definition side1_groups (i : kern_in) : groups := kerning_groups KERN1 (ki_glyphs i) (ki_groups i).
Definition side2_groups (i : kern_in) : groups := kerning_groups KERN2 (ki_glyphs i) (ki_groups i).

(* kerning entries whose sides exist (glyph of the glyph set or an accepted group) *)
Definition live_kerning (i : kern_in) : kerning :=
  filter (fun kv => let '((s1, s2), _) := kv in
                    (mem s1 (ki_glyphs i) || mem s1 (keys (side1_groups i))) &&
                    (mem s2 (ki_glyphs i) || mem s2 (keys (side2_groups i)))) (ki_kerning i).

Definition expected_value (i : kern_in) (a b : str) : Qc :=
  quantize (ufo_kern (side1_groups i) (side2_groups i) (live_kerning i) a b) (ki_quant i).

Definition neutral (i : kern_in) (g : str) : bool :=
  match assoc g (ki_scripts i) with Some (_ :: _) => false | _ => true end.
Definition in_script (i : kern_in) (s : str) (g : str) : bool :=
  neutral i g || match assoc g (ki_scripts i) with Some l => mem s l | None => false end.

Definition opposite_bidi (i : kern_in) (a b : str) : bool :=
  (mem a (ki_bidiR i) && mem b (ki_bidiL i)) || (mem a (ki_bidiL i) && mem b (ki_bidiR i)).

(* does some kerning entry covering (a,b) list a left-to-right-type glyph on either side?  If not,
   every rule the writer can derive for the pair is purely right-to-left *)
Definition members_of (gs : groups) (s : str) : list str :=
  match assoc s gs with Some m => m | None => [s] end.
Definition covering_has_L (i : kern_in) (a b : str) : bool :=
  existsb (fun kv => let '((s1, s2), _) := kv in
                     let m1 := members_of (side1_groups i) s1 in let m2 := members_of (side2_groups i) s2 in
                     mem a m1 && mem b m2 &&
                     (existsb (fun g => mem g (ki_bidiL i)) m1 || existsb (fun g => mem g (ki_bidiL i)) m2))
          (live_kerning i).

(* a pair that the writer routes to this (right-to-left) script's own lookup -- one of the glyphs belongs to the
   script explicitly -- and in which no glyph, nor any glyph of a rule covering it, is of an L type (L, AN, EN):
   such a pair is right-to-left, also when its glyphs carry no strong bidi class (e.g. U+066A, U+0609) *)
Definition explicit_in (i : kern_in) (s : str) (g : str) : bool :=
  match assoc g (ki_scripts i) with Some l => mem s l | None => false end.
Definition rtl_strict (i : kern_in) (script a b : str) : bool :=
  (explicit_in i script a || explicit_in i script b) &&
  negb (mem a (ki_bidiL i)) && negb (mem b (ki_bidiL i)) && negb (covering_has_L i a b).

Definition DFLT : str := [68; 70; 76; 84].

(* result codes: 0 ok, 1 wrong value on an eligible pair, 2 value neither 0 nor the UFO value,
   3 applied more than once, 4 wrong placement *)
Definition check_pair (i : kern_in) (script : str) (rtl : bool) (a b : str) (xa xp nf : Z) : Z :=
  let v := expected_value i a b in
  let vz := otRound v in
  let eligible := if str_eqb script DFLT then neutral i a && neutral i b
                  else in_script i script a && in_script i script b in
  if Z.ltb 1 nf then 3
  else if eligible && negb (opposite_bidi i a b) then
    if negb (Z.eqb xa vz) then 1
    else if rtl then
      (* a right-to-left pair (see rtl_strict): placement = advance; otherwise (common-script glyphs served by the
         DFLT lookups, digits) a plain advance is what the writers emit *)
      (if Z.eqb xp xa || (negb (rtl_strict i script a b) && Z.eqb xp 0) then 0 else 4)
    else (if Z.eqb xp 0 then 0 else 4)
  else if Z.eqb xa vz || Z.eqb xa 0 then
    (if Z.eqb xp 0 || Z.eqb xp xa then 0 else 4)
  else 2.

Definition obs_entry := (str * str * bool * list ((str * str) * (Z * Z * Z)))%type.

(* first offending pair of an observation, as (code, index) ; (0,0) if none *)
Definition check_obs (i : kern_in) (o : obs_entry) : list (Z * (str * str)) :=
  let '(tag, script, rtl, entries) := o in
  flat_map (fun e => let '((a, b), (xa, xp, nf)) := e in
                     let c := check_pair i script rtl a b xa xp nf in
                     if Z.eqb c 0 then [] else [(c, (a, b))]) entries.

Definition spec_C05 (i : kern_in) (obs : list obs_entry) : bool :=
  forallb (fun o => match check_obs i o with [] => true | _ => false end) obs.

(* structural correspondence: getKerningData's pair list *)
Definition side_eqb (a b : kside) : bool :=
  match a, b with
  | KG x, KG y => str_eqb x y
  | KC x, KC y => list_eqb str_eqb x y
  | _, _ => false
  end.
Definition rule_eqb (a b : krule) : bool := side_eqb (k1 a) (k1 b) && side_eqb (k2 a) (k2 b) && qc_eqb (kv a) (kv b).
Definition model_pairs (i : kern_in) : list krule :=
  kerning_pairs (side1_groups i) (side2_groups i) (ki_glyphs i) (ki_quant i) (ki_kerning i).
