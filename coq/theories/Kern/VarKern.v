(* C10: variable kerning (kernFeatureWriter.getVariableKerningPairs): every source contributes the
   UFO lookup value at its location; a two-master variable scalar evaluates, at a master's location,
   to that master's value. *)
From U2F Require Export Kern.Model Interp.Instance.
Open Scope Qc_scope.

(* per-source kerning dictionaries over shared (pruned) groups *)
Definition var_kern_values (g1s g2s : groups) (sources : list kerning) (a b : str) : list Qc :=
  map (fun k => ufo_kern g1s g2s k a b) sources.

(* the variable scalar over a two-master axis, evaluated at normalized location t *)
Definition var_scalar_at (v0 v1 t : Qc) : Qc := v0 + t * (v1 - v0).
