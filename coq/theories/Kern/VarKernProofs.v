From U2F Require Import Kern.Model Interp.Instance Interp.InstanceProofs Kern.VarKern.
Open Scope Qc_scope.

(* each source contributes exactly its own UFO kerning value (with UFO precedence) *)
Theorem var_kern_nth g1s g2s sources a b i k :
  nth_error sources i = Some k ->
  nth_error (var_kern_values g1s g2s sources a b) i = Some (ufo_kern g1s g2s k a b).
Proof. intro H. unfold var_kern_values. rewrite nth_error_map, H. reflexivity. Qed.

(* at a master's location the variable value is that master's value *)
Theorem var_scalar_at_masters v0 v1 : var_scalar_at v0 v1 0 = v0 /\ var_scalar_at v0 v1 1 = v1.
Proof. unfold var_scalar_at. split; ring. Qed.

(* hence the kerning read from a two-master variable font at master i equals master i's UFO kerning *)
Theorem var_kerning_at_master g1s g2s k0 k1 a b :
  var_scalar_at (ufo_kern g1s g2s k0 a b) (ufo_kern g1s g2s k1 a b) 0 = ufo_kern g1s g2s k0 a b /\
  var_scalar_at (ufo_kern g1s g2s k0 a b) (ufo_kern g1s g2s k1 a b) 1 = ufo_kern g1s g2s k1 a b.
Proof. apply var_scalar_at_masters. Qed.
