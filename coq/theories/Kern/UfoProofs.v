(* C05: the lookup compiled from the kerning writer's rules IS the UFO kerning lookup.
   For every kerning dictionary over valid groups (distinct names, pairwise disjoint
   members, group names that are not glyph names) and every pair of glyphs of the font:
     lookup_value (sort_rules (kerning_pairs ...)) a b = quantize (ufo_kern ... a b). *)
From Coq Require Import QArith Qcanon List Bool Lia.
From U2F Require Import Base.Prelude Geometry.Model Geometry.ModelProofs Kern.Model Kern.ModelProofs.
Import ListNotations.
Open Scope Qc_scope.

Definition rule_of_entry (g1s g2s : groups) (glyphset : list str) (q : Qc) (e : (str * str) * Qc) : list krule :=
  let '((s1, s2), v) := e in
  let c1 := assoc s1 g1s in let c2 := assoc s2 g2s in
  match c1, c2 with
  | None, _ => if mem s1 glyphset then
                 match c2 with
                 | None => if mem s2 glyphset then [mkR (KG s1) (KG s2) (quantize v q)] else []
                 | Some m2 => [mkR (KG s1) (KC m2) (quantize v q)]
                 end
               else []
  | Some m1, None => if mem s2 glyphset then [mkR (KC m1) (KG s2) (quantize v q)] else []
  | Some m1, Some m2 => if qc_eqb v qc0 then [] else [mkR (KC m1) (KC m2) (quantize v q)]
  end.

Lemma kerning_pairs_flat g1s g2s gl q k :
  kerning_pairs g1s g2s gl q k = flat_map (rule_of_entry g1s g2s gl q) k.
Proof. reflexivity. Qed.

Record wf_ufo (g1s g2s : groups) (gl : list str) (k : kerning) : Prop := {
  wf_keys1 : NoDup (map fst g1s);
  wf_keys2 : NoDup (map fst g2s);
  wf_disj1 : forall n m n' m' g, In (n, m) g1s -> In (n', m') g1s -> mem g m = true -> mem g m' = true -> n = n';
  wf_disj2 : forall n m n' m' g, In (n, m) g2s -> In (n', m') g2s -> mem g m = true -> mem g m' = true -> n = n';
  wf_ns1 : forall g, mem g gl = true -> assoc g g1s = None;
  wf_ns2 : forall g, mem g gl = true -> assoc g g2s = None;
  wf_dict : NoDup (map fst k) }.

(* ---- association lists ---- *)
Lemma kassoc_Some_In p k v : kassoc p k = Some v -> In (p, v) k.
Proof.
  induction k as [|[p' v'] k IH]; cbn [kassoc]; [discriminate|].
  destruct (pair_eqb p p') eqn:E.
  - apply pair_eqb_eq in E. subst p'. intro H. inversion H; subst. left. reflexivity.
  - intro H. right. apply IH. exact H.
Qed.

Lemma kassoc_In_NoDup p k v : NoDup (map fst k) -> In (p, v) k -> kassoc p k = Some v.
Proof.
  induction k as [|[p' v'] k IH]; intros Hnd Hin; [destruct Hin|].
  cbn [map fst] in Hnd. inversion Hnd as [|? ? Hn Hnd']; subst. cbn [kassoc].
  destruct Hin as [E|Hin].
  - inversion E; subst. rewrite pair_eqb_refl. reflexivity.
  - destruct (pair_eqb p p') eqn:E.
    + apply pair_eqb_eq in E. subst p'. exfalso. apply Hn. apply in_map_iff. exists (p, v). split; [reflexivity|exact Hin].
    + apply IH; assumption.
Qed.

Lemma assoc_Some_In {V} n (l : list (str * V)) m : assoc n l = Some m -> In (n, m) l.
Proof.
  induction l as [|[n' m'] l IH]; cbn [assoc]; [discriminate|].
  destruct (str_eqb n n') eqn:E.
  - apply str_eqb_eq in E. subst n'. intro H. inversion H; subst. left. reflexivity.
  - intro H. right. apply IH. exact H.
Qed.

Lemma assoc_In_NoDup {V} n (l : list (str * V)) m : NoDup (map fst l) -> In (n, m) l -> assoc n l = Some m.
Proof.
  induction l as [|[n' m'] l IH]; intros Hnd Hin; [destruct Hin|].
  cbn [map fst] in Hnd. inversion Hnd as [|? ? Hn Hnd']; subst. cbn [assoc].
  destruct Hin as [E|Hin].
  - inversion E; subst. rewrite str_eqb_refl. reflexivity.
  - destruct (str_eqb n n') eqn:E.
    + apply str_eqb_eq in E. subst n'. exfalso. apply Hn. apply in_map_iff. exists (n, m). split; [reflexivity|exact Hin].
    + apply IH; assumption.
Qed.

(* ---- the group of a glyph ---- *)
Lemma group_of_Some gs g n : group_of gs g = Some n -> exists m, In (n, m) gs /\ mem g m = true.
Proof.
  unfold group_of. destruct (find _ gs) as [[n' m']|] eqn:E; [|discriminate].
  intro H. inversion H; subst. apply find_some in E. destruct E as [Hin Hm]. exists m'. split; assumption.
Qed.

Lemma group_of_In gs g n m :
  (forall n m n' m' g, In (n, m) gs -> In (n', m') gs -> mem g m = true -> mem g m' = true -> n = n') ->
  In (n, m) gs -> mem g m = true -> group_of gs g = Some n.
Proof.
  intros Hd Hin Hm. unfold group_of. destruct (find (fun nm => mem g (snd nm)) gs) as [[n' m']|] eqn:E.
  - apply find_some in E. destruct E as [Hin' Hm']. cbn [snd] in Hm'. cbn [fst].
    f_equal. exact (Hd _ _ _ _ _ Hin' Hin Hm' Hm).
  - exfalso. apply (find_none _ _ E) in Hin. cbn [snd] in Hin. congruence.
Qed.

Lemma mem_single a s : mem a [s] = true <-> a = s.
Proof. cbn [mem]. rewrite orb_false_r. apply str_eqb_eq. Qed.

Lemma quantize_zero q : quantize qc0 q = qc0.
Proof.
  unfold quantize. assert (qc0 / q = qc0) as -> by (unfold Qcdiv, qc0; ring).
  change qc0 with (qc_of_Z 0). rewrite otRound_integer. change (qc_of_Z 0) with qc0. unfold qc0. ring.
Qed.

Section Ufo.
Variables (g1s g2s : groups) (gl : list str) (q : Qc) (k : kerning).
Hypothesis WF : wf_ufo g1s g2s gl k.
Variables (a b : str).
Hypothesis Ha : mem a gl = true.
Hypothesis Hb : mem b gl = true.

Let rules := kerning_pairs g1s g2s gl q k.

(* which UFO entry a covering rule comes from *)
Definition key_ok (r : krule) (key : str * str) (v : Qc) : Prop :=
  match kind r with
  | O => key = (a, b)
  | S O => exists nb, group_of g2s b = Some nb /\ key = (a, nb)
  | S (S O) => exists na, group_of g1s a = Some na /\ key = (na, b)
  | _ => exists na nb, group_of g1s a = Some na /\ group_of g2s b = Some nb /\ key = (na, nb) /\ v <> qc0
  end.

Lemma cover_char r : In r rules -> covers r a b = true ->
  exists key v, kassoc key k = Some v /\ kv r = quantize v q /\ key_ok r key v.
Proof.
  unfold rules. rewrite kerning_pairs_flat. intros Hin Hc.
  apply in_flat_map in Hin. destruct Hin as [[[s1 s2] v] [Hk Hr]].
  pose proof (kassoc_In_NoDup _ _ _ (wf_dict _ _ _ _ WF) Hk) as Hka.
  unfold rule_of_entry in Hr.
  destruct (assoc s1 g1s) as [m1|] eqn:E1; destruct (assoc s2 g2s) as [m2|] eqn:E2.
  - (* class-class *)
    destruct (qc_eqb v qc0) eqn:Ez; [destruct Hr|]. destruct Hr as [<-|[]].
    unfold covers in Hc. cbn [k1 k2 side_glyphs] in Hc. apply andb_true_iff in Hc. destruct Hc as [Hc1 Hc2].
    exists (s1, s2), v. split; [exact Hka|]. split; [reflexivity|].
    unfold key_ok, kind. cbn [k1 k2 is_class bool_rank Nat.mul Nat.add].
    exists s1, s2. repeat split.
    + eapply group_of_In; [exact (wf_disj1 _ _ _ _ WF)|apply assoc_Some_In; exact E1|exact Hc1].
    + eapply group_of_In; [exact (wf_disj2 _ _ _ _ WF)|apply assoc_Some_In; exact E2|exact Hc2].
    + intro Hv. subst v. rewrite (proj2 (qc_eqb_eq qc0 qc0) eq_refl) in Ez. discriminate.
  - (* class-glyph *)
    destruct (mem s2 gl) eqn:Es2; [|destruct Hr]. destruct Hr as [<-|[]].
    unfold covers in Hc. cbn [k1 k2 side_glyphs] in Hc. apply andb_true_iff in Hc. destruct Hc as [Hc1 Hc2].
    apply mem_single in Hc2. subst s2.
    exists (s1, b), v. split; [exact Hka|]. split; [reflexivity|].
    unfold key_ok, kind. cbn [k1 k2 is_class bool_rank Nat.mul Nat.add].
    exists s1. split; [|reflexivity].
    eapply group_of_In; [exact (wf_disj1 _ _ _ _ WF)|apply assoc_Some_In; exact E1|exact Hc1].
  - (* glyph-class *)
    destruct (mem s1 gl) eqn:Es1; [|destruct Hr]. destruct Hr as [<-|[]].
    unfold covers in Hc. cbn [k1 k2 side_glyphs] in Hc. apply andb_true_iff in Hc. destruct Hc as [Hc1 Hc2].
    apply mem_single in Hc1. subst s1.
    exists (a, s2), v. split; [exact Hka|]. split; [reflexivity|].
    unfold key_ok, kind. cbn [k1 k2 is_class bool_rank Nat.mul Nat.add].
    exists s2. split; [|reflexivity].
    eapply group_of_In; [exact (wf_disj2 _ _ _ _ WF)|apply assoc_Some_In; exact E2|exact Hc2].
  - (* glyph-glyph *)
    destruct (mem s1 gl) eqn:Es1; [|destruct Hr]. destruct (mem s2 gl) eqn:Es2; [|destruct Hr]. destruct Hr as [<-|[]].
    unfold covers in Hc. cbn [k1 k2 side_glyphs] in Hc. apply andb_true_iff in Hc. destruct Hc as [Hc1 Hc2].
    apply mem_single in Hc1. apply mem_single in Hc2. subst s1 s2.
    exists (a, b), v. split; [exact Hka|]. split; [reflexivity|].
    unfold key_ok, kind. cbn [k1 k2 is_class bool_rank Nat.mul Nat.add]. reflexivity.
Qed.

(* every UFO entry that applies to (a, b) yields a covering rule of its kind *)
Lemma exists_gg v : kassoc (a, b) k = Some v ->
  exists r, In r rules /\ covers r a b = true /\ kind r = 0%nat /\ kv r = quantize v q.
Proof.
  intro Hk. exists (mkR (KG a) (KG b) (quantize v q)). split; [|split; [|split; reflexivity]].
  - unfold rules. rewrite kerning_pairs_flat. apply in_flat_map. exists ((a, b), v). split; [apply kassoc_Some_In; exact Hk|].
    unfold rule_of_entry. rewrite (wf_ns1 _ _ _ _ WF a Ha), (wf_ns2 _ _ _ _ WF b Hb), Ha, Hb. left. reflexivity.
  - unfold covers. cbn [k1 k2 side_glyphs mem]. rewrite !str_eqb_refl. reflexivity.
Qed.

Lemma exists_gc nb v : group_of g2s b = Some nb -> kassoc (a, nb) k = Some v ->
  exists r, In r rules /\ covers r a b = true /\ kind r = 1%nat /\ kv r = quantize v q.
Proof.
  intros Hg Hk. destruct (group_of_Some _ _ _ Hg) as [m2 [Hin Hm]].
  exists (mkR (KG a) (KC m2) (quantize v q)). split; [|split; [|split; reflexivity]].
  - unfold rules. rewrite kerning_pairs_flat. apply in_flat_map. exists ((a, nb), v). split; [apply kassoc_Some_In; exact Hk|].
    unfold rule_of_entry. rewrite (wf_ns1 _ _ _ _ WF a Ha), (assoc_In_NoDup _ _ _ (wf_keys2 _ _ _ _ WF) Hin), Ha. left. reflexivity.
  - unfold covers. cbn [k1 k2 side_glyphs mem]. rewrite str_eqb_refl, Hm. reflexivity.
Qed.

Lemma exists_cg na v : group_of g1s a = Some na -> kassoc (na, b) k = Some v ->
  exists r, In r rules /\ covers r a b = true /\ kind r = 2%nat /\ kv r = quantize v q.
Proof.
  intros Hg Hk. destruct (group_of_Some _ _ _ Hg) as [m1 [Hin Hm]].
  exists (mkR (KC m1) (KG b) (quantize v q)). split; [|split; [|split; reflexivity]].
  - unfold rules. rewrite kerning_pairs_flat. apply in_flat_map. exists ((na, b), v). split; [apply kassoc_Some_In; exact Hk|].
    unfold rule_of_entry. rewrite (assoc_In_NoDup _ _ _ (wf_keys1 _ _ _ _ WF) Hin), (wf_ns2 _ _ _ _ WF b Hb), Hb. left. reflexivity.
  - unfold covers. cbn [k1 k2 side_glyphs mem]. rewrite str_eqb_refl, Hm. reflexivity.
Qed.

Lemma exists_cc na nb v : group_of g1s a = Some na -> group_of g2s b = Some nb -> kassoc (na, nb) k = Some v -> v <> qc0 ->
  exists r, In r rules /\ covers r a b = true /\ kind r = 3%nat /\ kv r = quantize v q.
Proof.
  intros Hg1 Hg2 Hk Hv. destruct (group_of_Some _ _ _ Hg1) as [m1 [Hin1 Hm1]]. destruct (group_of_Some _ _ _ Hg2) as [m2 [Hin2 Hm2]].
  exists (mkR (KC m1) (KC m2) (quantize v q)). split; [|split; [|split; reflexivity]].
  - unfold rules. rewrite kerning_pairs_flat. apply in_flat_map. exists ((na, nb), v). split; [apply kassoc_Some_In; exact Hk|].
    unfold rule_of_entry. rewrite (assoc_In_NoDup _ _ _ (wf_keys1 _ _ _ _ WF) Hin1), (assoc_In_NoDup _ _ _ (wf_keys2 _ _ _ _ WF) Hin2).
    destruct (qc_eqb v qc0) eqn:Ez; [apply qc_eqb_eq in Ez; contradiction|]. left. reflexivity.
  - unfold covers. cbn [k1 k2 side_glyphs]. rewrite Hm1, Hm2. reflexivity.
Qed.

(* covering rules of the same kind come from the same UFO entry *)
Lemma same_kind_same_value r s :
  In r rules -> In s rules -> covers r a b = true -> covers s a b = true -> kind r = kind s -> kv r = kv s.
Proof.
  intros Hr Hs Hcr Hcs Hk.
  destruct (cover_char r Hr Hcr) as (kr & vr & Hkr & Hvr & Hokr).
  destruct (cover_char s Hs Hcs) as (ks & vs & Hks & Hvs & Hoks).
  rewrite Hvr, Hvs. f_equal. unfold key_ok in Hokr, Hoks. rewrite <- Hk in Hoks.
  assert (kr = ks) as Hkey.
  { destruct (kind r) as [|[|[|n]]].
    - congruence.
    - destruct Hokr as (nb & H1 & ->). destruct Hoks as (nb' & H1' & ->). congruence.
    - destruct Hokr as (na & H1 & ->). destruct Hoks as (na' & H1' & ->). congruence.
    - destruct Hokr as (na & nb & H1 & H2 & -> & _). destruct Hoks as (na' & nb' & H1' & H2' & -> & _). congruence. }
  subst ks. congruence.
Qed.

(* THE connection: the compiled lookup gives every glyph pair its UFO kerning value (quantised) *)
Theorem lookup_is_ufo_kerning :
  lookup_value (sort_rules rules) a b = quantize (ufo_kern g1s g2s k a b) q.
Proof.
  destruct (lookup_most_specific_rule_wins rules a b same_kind_same_value) as [Hwin Hnone].
  assert (forall s, In s rules -> covers s a b = true -> (kind s <= 3)%nat) as Hle3 by (intros; apply kind_le3).
  unfold ufo_kern.
  destruct (kassoc (a, b) k) as [v0|] eqn:E0.
  { cbn [opt_or]. destruct (exists_gg v0 E0) as (r & Hr & Hc & Hk & Hv). rewrite <- Hv. apply Hwin; [exact Hr|exact Hc|].
    intros s _ _. lia. }
  (* no glyph-glyph entry: no covering rule of kind 0 *)
  assert (forall s, In s rules -> covers s a b = true -> kind s <> 0%nat) as N0.
  { intros s Hs Hc Hk. destruct (cover_char s Hs Hc) as (key & v & Hka & _ & Hok). unfold key_ok in Hok. rewrite Hk in Hok. subst key. congruence. }
  cbn [opt_or].
  destruct (match group_of g2s b with Some nb => kassoc (a, nb) k | None => None end) as [v1|] eqn:E1.
  { cbn [opt_or]. destruct (group_of g2s b) as [nb|] eqn:Gb; [|discriminate].
    destruct (exists_gc nb v1 Gb E1) as (r & Hr & Hc & Hk & Hv). rewrite <- Hv. apply Hwin; [exact Hr|exact Hc|].
    intros s Hs Hcs. pose proof (N0 s Hs Hcs). lia. }
  assert (forall s, In s rules -> covers s a b = true -> kind s <> 1%nat) as N1.
  { intros s Hs Hc Hk. destruct (cover_char s Hs Hc) as (key & v & Hka & _ & Hok). unfold key_ok in Hok. rewrite Hk in Hok.
    destruct Hok as (nb & Hg & ->). rewrite Hg in E1. congruence. }
  cbn [opt_or].
  destruct (match group_of g1s a with Some na => kassoc (na, b) k | None => None end) as [v2|] eqn:E2.
  { cbn [opt_or]. destruct (group_of g1s a) as [na|] eqn:Ga; [|discriminate].
    destruct (exists_cg na v2 Ga E2) as (r & Hr & Hc & Hk & Hv). rewrite <- Hv. apply Hwin; [exact Hr|exact Hc|].
    intros s Hs Hcs. pose proof (N0 s Hs Hcs). pose proof (N1 s Hs Hcs). lia. }
  assert (forall s, In s rules -> covers s a b = true -> kind s <> 2%nat) as N2.
  { intros s Hs Hc Hk. destruct (cover_char s Hs Hc) as (key & v & Hka & _ & Hok). unfold key_ok in Hok. rewrite Hk in Hok.
    destruct Hok as (na & Hg & ->). rewrite Hg in E2. congruence. }
  cbn [opt_or].
  destruct (match group_of g1s a, group_of g2s b with Some na, Some nb => kassoc (na, nb) k | _, _ => None end) as [v3|] eqn:E3.
  - destruct (group_of g1s a) as [na|] eqn:Ga; [|discriminate]. destruct (group_of g2s b) as [nb|] eqn:Gb; [|discriminate].
    destruct (qc_eqb v3 qc0) eqn:Ez.
    + (* a zero class-class entry is dropped by the writer: no rule covers the pair, the lookup gives 0 = the UFO value *)
      apply qc_eqb_eq in Ez. subst v3. rewrite quantize_zero. apply Hnone.
      intros s Hs. destruct (covers s a b) eqn:Hc; [|reflexivity]. exfalso.
      destruct (cover_char s Hs Hc) as (key & v & Hka & _ & Hok). unfold key_ok in Hok.
      pose proof (N0 s Hs Hc). pose proof (N1 s Hs Hc). pose proof (N2 s Hs Hc).
      destruct (kind s) as [|[|[|n]]]; try congruence.
      destruct Hok as (na' & nb' & G1 & G2 & Hkey & Hv).
      assert (na' = na) by congruence. assert (nb' = nb) by congruence. subst na' nb' key.
      rewrite E3 in Hka. apply Hv. congruence.
    + assert (v3 <> qc0) as Hv3 by (intro; subst; rewrite (proj2 (qc_eqb_eq qc0 qc0) eq_refl) in Ez; discriminate).
      destruct (exists_cc na nb v3 Ga Gb E3 Hv3) as (r & Hr & Hc & Hk & Hv). rewrite <- Hv. apply Hwin; [exact Hr|exact Hc|].
      intros s Hs Hcs. pose proof (N0 s Hs Hcs). pose proof (N1 s Hs Hcs). pose proof (N2 s Hs Hcs). lia.
  - rewrite quantize_zero. apply Hnone.
    intros s Hs. destruct (covers s a b) eqn:Hc; [|reflexivity]. exfalso.
    destruct (cover_char s Hs Hc) as (key & v & Hka & _ & Hok). unfold key_ok in Hok.
    pose proof (N0 s Hs Hc). pose proof (N1 s Hs Hc). pose proof (N2 s Hs Hc).
    destruct (kind s) as [|[|[|n]]]; try congruence.
    destruct Hok as (na' & nb' & G1 & G2 & Hkey & Hv). subst key.
    destruct (group_of g1s a) as [na|]; [|discriminate]. destruct (group_of g2s b) as [nb|]; [|discriminate].
    assert (na' = na) by congruence. assert (nb' = nb) by congruence. subst na' nb'. congruence.
Qed.

End Ufo.

(* ---- getKerningGroups always returns valid groups: distinct names, pairwise disjoint members ---- *)
Definition groups_ok (gs : groups) : Prop :=
  NoDup (map fst gs) /\
  forall n m n' m' g, In (n, m) gs -> In (n', m') gs -> mem g m = true -> mem g m' = true -> n = n'.

Lemma assoc_None_notin {V} n (l : list (str * V)) : assoc n l = None -> ~ In n (map fst l).
Proof.
  induction l as [|[n' m'] l IH]; cbn [assoc map fst]; intros H Hin; [exact Hin|].
  destruct (str_eqb n n') eqn:E; [discriminate|]. apply str_eqb_neq in E.
  destruct Hin as [Hin|Hin]; [congruence|]. exact (IH H Hin).
Qed.

Lemma NoDup_snoc_keys {V} (l : list (str * V)) n m : NoDup (map fst l) -> ~ In n (map fst l) -> NoDup (map fst (l ++ [(n, m)])).
Proof. intros H Hn. rewrite map_app. cbn [map fst]. apply NoDup_snoc; assumption. Qed.

Lemma kerning_groups_step_ok prefix gl acc nm :
  groups_ok acc ->
  groups_ok
    (let members := dedup (filter (fun g => mem g gl) (snd nm)) in
     match members with
     | [] => acc
     | _ :: _ =>
         if negb (has_prefix prefix (fst nm)) then acc
         else if existsb (fun g => existsb (fun a => mem g (snd a)) acc) members then acc
         else match assoc (fst nm) acc with Some _ => acc | None => acc ++ [(fst nm, sort_str members)] end
     end).
Proof.
  intros [Hnd Hdisj]. cbv zeta.
  destruct (dedup (filter (fun g => mem g gl) (snd nm))) as [|x xs] eqn:Em; [split; assumption|].
  destruct (negb (has_prefix prefix (fst nm))); [split; assumption|].
  destruct (existsb (fun g => existsb (fun a => mem g (snd a)) acc) (x :: xs)) eqn:Ex; [split; assumption|].
  destruct (assoc (fst nm) acc) eqn:Ea; [split; assumption|].
  assert (forall g n m, In g (x :: xs) -> In (n, m) acc -> mem g m = false) as Hfresh.
  { intros g n m Hg Hin. destruct (mem g m) eqn:Hm; [|reflexivity]. exfalso.
    assert (existsb (fun g0 => existsb (fun a => mem g0 (snd a)) acc) (x :: xs) = true) as Habs.
    { apply existsb_exists. exists g. split; [exact Hg|]. apply existsb_exists. exists (n, m). split; [exact Hin|exact Hm]. }
    congruence. }
  split.
  - apply NoDup_snoc_keys; [exact Hnd|apply assoc_None_notin; exact Ea].
  - intros n m n' m' g Hin Hin' Hm Hm'.
    apply in_app_or in Hin. apply in_app_or in Hin'.
    destruct Hin as [Hin|[E|[]]]; destruct Hin' as [Hin'|[E'|[]]].
    + exact (Hdisj _ _ _ _ _ Hin Hin' Hm Hm').
    + inversion E'; subst. exfalso. apply mem_In in Hm'. apply (proj1 (sort_str_In _ _)) in Hm'.
      rewrite (Hfresh g n m Hm' Hin) in Hm. discriminate.
    + inversion E; subst. exfalso. apply mem_In in Hm. apply (proj1 (sort_str_In _ _)) in Hm.
      rewrite (Hfresh g n' m' Hm Hin') in Hm'. discriminate.
    + inversion E; inversion E'; subst. reflexivity.
Qed.

Definition kg_step (prefix : str) (gl : list str) (acc : groups) (nm : str * list str) : groups :=
  let members := dedup (filter (fun g => mem g gl) (snd nm)) in
  match members with
  | [] => acc
  | _ :: _ =>
      if negb (has_prefix prefix (fst nm)) then acc
      else if existsb (fun g => existsb (fun a => mem g (snd a)) acc) members then acc
      else match assoc (fst nm) acc with Some _ => acc | None => acc ++ [(fst nm, sort_str members)] end
  end.

Lemma kerning_groups_fold prefix gl gs : kerning_groups prefix gl gs = fold_left (kg_step prefix gl) gs [].
Proof. reflexivity. Qed.

Lemma kg_fold_ok prefix gl gs : forall acc, groups_ok acc -> groups_ok (fold_left (kg_step prefix gl) gs acc).
Proof.
  induction gs as [|nm gs IH]; intros acc Hacc; cbn [fold_left]; [exact Hacc|].
  apply IH. exact (kerning_groups_step_ok prefix gl acc nm Hacc).
Qed.

Theorem kerning_groups_ok prefix gl gs : groups_ok (kerning_groups prefix gl gs).
Proof.
  rewrite kerning_groups_fold. apply kg_fold_ok. split; [constructor|intros ? ? ? ? ? []].
Qed.

(* with the writer's own groups, what remains to be assumed is only: group names are not glyph names,
   and the kerning dictionary has one entry per key *)
Corollary lookup_is_ufo_kerning_pruned_groups prefix1 prefix2 gl ufo_groups q k a b :
  let g1s := kerning_groups prefix1 gl ufo_groups in
  let g2s := kerning_groups prefix2 gl ufo_groups in
  (forall g, mem g gl = true -> assoc g g1s = None /\ assoc g g2s = None) ->
  NoDup (map fst k) -> mem a gl = true -> mem b gl = true ->
  lookup_value (sort_rules (kerning_pairs g1s g2s gl q k)) a b = quantize (ufo_kern g1s g2s k a b) q.
Proof.
  intros g1s g2s Hns Hk Ha Hb.
  destruct (kerning_groups_ok prefix1 gl ufo_groups) as [K1 D1].
  destruct (kerning_groups_ok prefix2 gl ufo_groups) as [K2 D2].
  apply lookup_is_ufo_kerning; [|exact Ha|exact Hb].
  constructor; try assumption; intros g Hg; apply (Hns g Hg).
Qed.
