From U2F Require Import Geometry.Model Kern.Model.
Open Scope Qc_scope.

Lemma lookup_value_specific rules a b v :
  kassoc (a, b) (flat_map expand rules) = Some v -> lookup_value rules a b = v.
Proof. unfold lookup_value. intros ->. reflexivity. Qed.

Lemma ufo_kern_glyph_glyph g1s g2s k a b v :
  kassoc (a, b) k = Some v -> ufo_kern g1s g2s k a b = v.
Proof. unfold ufo_kern. intros ->. reflexivity. Qed.

(* ------------------------------------------------------------------ *)
(* one lookup: sorted rules + first definition wins + class subtable last
   = the most specific rule covering the pair decides *)

Definition covers (r : krule) (a b : str) : bool :=
  mem a (side_glyphs (k1 r)) && mem b (side_glyphs (k2 r)).
Definition is_cc (r : krule) : bool := is_class (k1 r) && is_class (k2 r).
(* 0 glyph-glyph, 1 glyph-class, 2 class-glyph, 3 class-class *)
Definition kind (r : krule) : nat := (bool_rank (is_class (k1 r)) * 2 + bool_rank (is_class (k2 r)))%nat.

Lemma pair_eqb_refl p : pair_eqb p p = true.
Proof. unfold pair_eqb. rewrite !str_eqb_refl. reflexivity. Qed.

Lemma pair_eqb_eq p q : pair_eqb p q = true <-> p = q.
Proof.
  destruct p as [p1 p2], q as [q1 q2]. unfold pair_eqb. simpl. rewrite andb_true_iff, !str_eqb_eq.
  split; [intros [-> ->]; reflexivity|intro H; inversion H; auto].
Qed.

Lemma kassoc_app k l1 l2 :
  kassoc k (l1 ++ l2) = match kassoc k l1 with Some v => Some v | None => kassoc k l2 end.
Proof.
  induction l1 as [|[k' v] l1 IH]; simpl; [reflexivity|]. destruct (pair_eqb k k'); [reflexivity|exact IH].
Qed.

Lemma kassoc_map_const a b v l :
  kassoc (a, b) (map (fun y => ((a, y), v)) l) = if mem b l then Some v else None.
Proof.
  induction l as [|y l IH]; simpl; [reflexivity|]. unfold pair_eqb at 1. simpl. rewrite str_eqb_refl. simpl.
  destruct (str_eqb b y); simpl; [reflexivity|exact IH].
Qed.

Lemma kassoc_map_other a x b v l : str_eqb a x = false ->
  kassoc (a, b) (map (fun y => ((x, y), v)) l) = None.
Proof.
  intro H. induction l as [|y l IH]; simpl; [reflexivity|]. unfold pair_eqb at 1. simpl. rewrite H. simpl. exact IH.
Qed.

Lemma kassoc_expand r a b :
  kassoc (a, b) (expand r) = if negb (is_cc r) && covers r a b then Some (kv r) else None.
Proof.
  unfold expand, is_cc, covers. destruct (is_class (k1 r) && is_class (k2 r)); [reflexivity|]. simpl.
  induction (side_glyphs (k1 r)) as [|x xs IH]; simpl; [reflexivity|].
  rewrite kassoc_app. destruct (str_eqb a x) eqn:E.
  - apply str_eqb_eq in E. subst x. rewrite kassoc_map_const. simpl.
    destruct (mem b (side_glyphs (k2 r))); [reflexivity|]. rewrite IH.
    destruct (mem a xs); reflexivity.
  - rewrite (kassoc_map_other a x b _ _ E). simpl. exact IH.
Qed.

Lemma kassoc_flat_expand rules a b :
  kassoc (a, b) (flat_map expand rules) =
  option_map kv (find (fun r => negb (is_cc r) && covers r a b) rules).
Proof.
  induction rules as [|r rules IH]; simpl; [reflexivity|].
  rewrite kassoc_app, kassoc_expand. destruct (negb (is_cc r) && covers r a b); [reflexivity|exact IH].
Qed.

(* class-class rules come last in a kind-sorted list *)
Definition kind_sorted (l : list krule) : Prop := Sorted (fun r s => (kind r <= kind s)%nat) l.

Lemma is_cc_kind r : is_cc r = true <-> kind r = 3%nat.
Proof.
  unfold is_cc, kind. destruct (is_class (k1 r)), (is_class (k2 r)); simpl; split; intro H; try reflexivity; try discriminate.
Qed.

Lemma kind_le3 r : (kind r <= 3)%nat.
Proof. unfold kind. destruct (is_class (k1 r)), (is_class (k2 r)); simpl; lia. Qed.

Lemma kind_sorted_tail_cc r l : kind_sorted (r :: l) -> is_cc r = true -> forall s, In s l -> is_cc s = true.
Proof.
  intros Hs Hr s Hin. apply Sorted_StronglySorted in Hs; [|red; intros x y z H1 H2; lia].
  inversion Hs as [|? ? _ Hall]; subst. rewrite Forall_forall in Hall. specialize (Hall s Hin).
  apply is_cc_kind in Hr. apply is_cc_kind. pose proof (kind_le3 s). lia.
Qed.

Lemma find_ext_in {A} (f g : A -> bool) l : (forall x, In x l -> f x = g x) -> find f l = find g l.
Proof.
  induction l as [|x l IH]; intro H; simpl; [reflexivity|].
  rewrite (H x (or_introl eq_refl)). destruct (g x); [reflexivity|]. apply IH. intros y Hy. apply H. right. exact Hy.
Qed.

Lemma find_const_false {A} (l : list A) : find (fun _ => false) l = None.
Proof. induction l; simpl; auto. Qed.

(* in a kind-sorted lookup the value applied to (a,b) is that of the FIRST rule covering the pair *)
Theorem lookup_first_cover rules a b :
  kind_sorted rules ->
  lookup_value rules a b = match find (fun r => covers r a b) rules with Some r => kv r | None => qc0 end.
Proof.
  unfold lookup_value, class_value. rewrite kassoc_flat_expand.
  induction rules as [|r rules IH]; intro Hs; simpl; [reflexivity|].
  destruct (covers r a b) eqn:Ec.
  - destruct (is_cc r) eqn:Ecc; simpl.
    + (* r is class-class: so is everything after it, nothing specific can precede *)
      assert (find (fun r0 => negb (is_cc r0) && covers r0 a b) rules = None) as ->.
      { rewrite (find_ext_in _ (fun _ => false)); [apply find_const_false|].
        intros s Hin. rewrite (kind_sorted_tail_cc r rules Hs Ecc s Hin). reflexivity. }
      simpl. unfold is_cc in Ecc. unfold covers in Ec.
      apply andb_true_iff in Ecc. destruct Ecc as [E1 E2]. apply andb_true_iff in Ec. destruct Ec as [E3 E4].
      rewrite E1, E2, E3, E4. reflexivity.
    + reflexivity.
  - rewrite andb_false_r.
    assert (is_class (k1 r) && is_class (k2 r) && mem a (side_glyphs (k1 r)) && mem b (side_glyphs (k2 r)) = false) as ->.
    { unfold covers in Ec. rewrite <- andb_assoc. rewrite Ec. apply andb_false_r. }
    apply IH. inversion Hs; assumption.
Qed.

(* ---- the writer's sort puts the rules in kind order ---- *)
Lemma rule_leb_kind r x : rule_leb r x = true -> (kind r <= kind x)%nat.
Proof.
  unfold rule_leb. fold (kind r). fold (kind x).
  destruct (Nat.ltb_spec (kind r) (kind x)); [lia|].
  destruct (Nat.ltb_spec (kind x) (kind r)); [discriminate|lia].
Qed.
Lemma rule_leb_false_kind r x : rule_leb r x = false -> (kind x <= kind r)%nat.
Proof.
  unfold rule_leb. fold (kind r). fold (kind x).
  destruct (Nat.ltb_spec (kind r) (kind x)); [discriminate|lia].
Qed.

Lemma insert_rule_In r l x : In x (insert_rule r l) <-> x = r \/ In x l.
Proof.
  induction l as [|y l IH]; simpl; [intuition|].
  destruct (rule_leb r y); simpl; [intuition|]. rewrite IH. intuition.
Qed.

Lemma insert_rule_sorted r l : kind_sorted l -> kind_sorted (insert_rule r l).
Proof.
  unfold kind_sorted. induction l as [|y l IH]; intro Hs; simpl; [repeat constructor|].
  destruct (rule_leb r y) eqn:E.
  - constructor; [exact Hs|]. constructor. apply rule_leb_kind. exact E.
  - inversion Hs as [|? ? Hs' Hd]; subst. constructor; [apply IH; exact Hs'|].
    destruct l as [|z l]; simpl.
    + constructor. apply rule_leb_false_kind. exact E.
    + destruct (rule_leb r z) eqn:E2; constructor.
      * apply rule_leb_false_kind. exact E.
      * inversion Hd; assumption.
Qed.

Theorem sort_rules_kind_sorted l : kind_sorted (sort_rules l).
Proof. unfold sort_rules. induction l as [|r l IH]; simpl; [constructor|apply insert_rule_sorted; exact IH]. Qed.

Theorem sort_rules_In l x : In x (sort_rules l) <-> In x l.
Proof.
  unfold sort_rules. induction l as [|r l IH]; simpl; [tauto|]. rewrite insert_rule_In, IH. intuition.
Qed.

(* the first covering rule of a kind-sorted list has minimal kind among the covering rules *)
Lemma first_cover_minimal l a b r :
  kind_sorted l -> find (fun r => covers r a b) l = Some r ->
  covers r a b = true /\ In r l /\ forall s, In s l -> covers s a b = true -> (kind r <= kind s)%nat.
Proof.
  induction l as [|x l IH]; intros Hs Hf; simpl in Hf; [discriminate|].
  destruct (covers x a b) eqn:Ec.
  - inversion Hf; subst x. split; [exact Ec|]. split; [left; reflexivity|].
    intros s [<-|Hin] _; [lia|].
    apply Sorted_StronglySorted in Hs; [|red; intros p q t H1 H2; lia].
    inversion Hs as [|? ? _ Hall]; subst. rewrite Forall_forall in Hall. apply Hall. exact Hin.
  - assert (kind_sorted l) as Hs' by (inversion Hs; assumption).
    destruct (IH Hs' Hf) as [H1 [H2 H3]]. split; [exact H1|]. split; [right; exact H2|].
    intros s [<-|Hin] Hc; [congruence|apply H3; assumption].
Qed.

(* MAIN: the lookup compiled from the writer's sorted rules gives a pair the value of the most
   specific rule covering it (glyph-glyph before glyph-class before class-glyph before class-class),
   and 0 when no rule covers it -- provided rules of the same kind that cover the pair agree
   (UFO data: one entry per key, a glyph in at most one group per side) *)
Theorem lookup_most_specific_rule_wins rules a b :
  (forall r s, In r rules -> In s rules -> covers r a b = true -> covers s a b = true -> kind r = kind s -> kv r = kv s) ->
  (forall r, In r rules -> covers r a b = true ->
     (forall s, In s rules -> covers s a b = true -> (kind r <= kind s)%nat) ->
     lookup_value (sort_rules rules) a b = kv r) /\
  ((forall r, In r rules -> covers r a b = false) -> lookup_value (sort_rules rules) a b = qc0).
Proof.
  intro Huniq. rewrite (lookup_first_cover _ a b (sort_rules_kind_sorted rules)). split.
  - intros r Hin Hc Hmin.
    destruct (find (fun r0 => covers r0 a b) (sort_rules rules)) as [r'|] eqn:Ef.
    + destruct (first_cover_minimal _ a b r' (sort_rules_kind_sorted rules) Ef) as [Hc' [Hin' Hmin']].
      apply (proj1 (sort_rules_In _ _)) in Hin'. apply Huniq; try assumption.
      assert (kind r' <= kind r)%nat by (apply Hmin'; [apply sort_rules_In; exact Hin|exact Hc]).
      assert (kind r <= kind r')%nat by (apply Hmin; assumption). lia.
    + exfalso. assert (In r (sort_rules rules)) as Hs by (apply sort_rules_In; exact Hin).
      apply (find_none _ _ Ef) in Hs. congruence.
  - intro Hnone. destruct (find (fun r0 => covers r0 a b) (sort_rules rules)) as [r'|] eqn:Ef; [|reflexivity].
    apply find_some in Ef. destruct Ef as [Hin Hc]. apply (proj1 (sort_rules_In _ _)) in Hin. rewrite (Hnone r' Hin) in Hc. discriminate.
Qed.
