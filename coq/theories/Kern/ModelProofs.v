From U2F Require Import Geometry.Model Kern.Model.
Open Scope Qc_scope.

Lemma lookup_value_specific rules a b v :
  kassoc (a, b) (flat_map expand rules) = Some v -> lookup_value rules a b = v.
Proof. unfold lookup_value. intros ->. reflexivity. Qed.

Lemma ufo_kern_glyph_glyph g1s g2s k a b v :
  kassoc (a, b) k = Some v -> ufo_kern g1s g2s k a b = v.
Proof. unfold ufo_kern. intros ->. reflexivity. Qed.
