(* C05: UFO kerning semantics (the reference), the kerning writer's data
   preparation (getKerningGroups / getKerningPairs), the ordering of rules
   inside one lookup and what a shaper does with such a lookup.
   Definitions only. *)
From U2F Require Export Geometry.Model.
Open Scope Qc_scope.

Definition groups := list (str * list str).          (* group name -> members (as in font.groups) *)
Definition kerning := list ((str * str) * Qc).       (* (side1, side2) -> value, insertion order *)

(* ---- the UFO kerning lookup (fontTools.ufoLib.kerning.lookupKerningValue) ---- *)
Definition pair_eqb (a b : str * str) : bool := str_eqb (fst a) (fst b) && str_eqb (snd a) (snd b).
Fixpoint kassoc (k : str * str) (l : kerning) : option Qc :=
  match l with [] => None | (k', v) :: r => if pair_eqb k k' then Some v else kassoc k r end.

(* the group (first found) that lists glyph g *)
Definition group_of (gs : groups) (g : str) : option str :=
  match find (fun nm => mem g (snd nm)) gs with Some nm => Some (fst nm) | None => None end.

Definition opt_or {A} (a b : option A) : option A := match a with Some _ => a | None => b end.

Definition ufo_kern (g1s g2s : groups) (k : kerning) (a b : str) : Qc :=
  let ga := group_of g1s a in let gb := group_of g2s b in
  match opt_or (kassoc (a, b) k)
       (opt_or (match gb with Some nb => kassoc (a, nb) k | None => None end)
       (opt_or (match ga with Some na => kassoc (na, b) k | None => None end)
               (match ga, gb with Some na, Some nb => kassoc (na, nb) k | _, _ => None end))) with
  | Some v => v
  | None => qc0
  end.

(* ufo2ft.util.quantize: factor * otRound(number / factor) *)
Definition quantize (v q : Qc) : Qc := q * qc_of_Z (otRound (v / q)).

(* ---- getKerningGroups for one side: prune to the glyph set, skip empty, skip a whole
   group when any member already belongs to an accepted group, first definition of a
   name wins; members sorted ---- *)
Definition has_prefix (p s : str) : bool := list_eqb Z.eqb (firstn (length p) s) p.

Fixpoint dedup (l : list str) : list str :=
  match l with [] => [] | x :: r => if mem x r then dedup r else x :: dedup r end.

Definition kerning_groups (prefix : str) (glyphset : list str) (gs : groups) : groups :=
  fold_left
    (fun (acc : groups) (nm : str * list str) =>
       let members := dedup (filter (fun g => mem g glyphset) (snd nm)) in   (* a Python set *)
       match members with
       | [] => acc
       | _ =>
           if negb (has_prefix prefix (fst nm)) then acc
           else if existsb (fun g => existsb (fun a => mem g (snd a)) acc) members then acc
           else match assoc (fst nm) acc with
                | Some _ => acc
                | None => acc ++ [(fst nm, sort_str members)]
                end
       end) gs [].

(* ---- rules ---- *)
Inductive kside := KG (g : str) | KC (members : list str).
Record krule := mkR { k1 : kside; k2 : kside; kv : Qc }.

Definition side_glyphs (s : kside) : list str := match s with KG g => [g] | KC l => l end.
Definition is_class (s : kside) : bool := match s with KC _ => true | KG _ => false end.

(* getKerningPairs: drop pairs naming unknown glyphs/groups, drop zero class-class, quantize *)
Definition kerning_pairs (g1s g2s : groups) (glyphset : list str) (q : Qc) (k : kerning) : list krule :=
  flat_map
    (fun kv =>
       let '((s1, s2), v) := kv in
       let c1 := assoc s1 g1s in let c2 := assoc s2 g2s in
       match c1, c2 with
       | None, _ => if mem s1 glyphset then
                      match c2 with
                      | None => if mem s2 glyphset then [mkR (KG s1) (KG s2) (quantize v q)] else []
                      | Some m2 => [mkR (KG s1) (KC m2) (quantize v q)]
                      end
                    else []
       | Some m1, None => if mem s2 glyphset then [mkR (KC m1) (KG s2) (quantize v q)] else []
       | Some m1, Some m2 => if qc_eqb v qc0 then [] else [mkR (KC m1) (KC m2) (quantize v q)]
       end) k.

(* KerningPair.__lt__: (firstIsClass, secondIsClass, side1, side2) *)
Fixpoint strs_leb (a b : list str) : bool :=       (* tuple-of-str comparison *)
  match a, b with
  | [], _ => true
  | _ :: _, [] => false
  | x :: a', y :: b' => if str_eqb x y then strs_leb a' b' else str_leb x y
  end.
Definition side_key (s : kside) : list str := side_glyphs s.
Definition bool_rank (b : bool) : nat := if b then 1%nat else 0%nat.
Definition rule_leb (a b : krule) : bool :=
  let ka := (bool_rank (is_class (k1 a)) * 2 + bool_rank (is_class (k2 a)))%nat in
  let kb := (bool_rank (is_class (k1 b)) * 2 + bool_rank (is_class (k2 b)))%nat in
  if Nat.ltb ka kb then true else if Nat.ltb kb ka then false
  else if list_eqb str_eqb (side_key (k1 a)) (side_key (k1 b)) then strs_leb (side_key (k2 a)) (side_key (k2 b))
  else strs_leb (side_key (k1 a)) (side_key (k1 b)).

Fixpoint insert_rule (r : krule) (l : list krule) : list krule :=
  match l with
  | [] => [r]
  | x :: l' => if rule_leb r x then r :: l else x :: insert_rule r l'
  end.
Definition sort_rules (l : list krule) : list krule := fold_right insert_rule [] l.

(* ---- what a shaper does with one lookup built by feaLib from these rules:
   specific glyph pairs (plain or enumerated, first definition wins) in format-1
   subtables, then the class pairs in a format-2 subtable ---- *)
Definition expand (r : krule) : list ((str * str) * Qc) :=
  if is_class (k1 r) && is_class (k2 r) then []
  else flat_map (fun a => map (fun b => ((a, b), kv r)) (side_glyphs (k2 r))) (side_glyphs (k1 r)).

Definition class_value (rules : list krule) (a b : str) : Qc :=
  match find (fun r => is_class (k1 r) && is_class (k2 r) && mem a (side_glyphs (k1 r)) && mem b (side_glyphs (k2 r))) rules with
  | Some r => kv r
  | None => qc0
  end.

Definition lookup_value (rules : list krule) (a b : str) : Qc :=
  match kassoc (a, b) (flat_map expand rules) with
  | Some v => v
  | None => class_value rules a b
  end.
