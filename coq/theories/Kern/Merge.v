(* C05 / C20: kernFeatureWriter.mergeScripts -- buckets of kerning pairs keyed by sets of
   scripts; buckets that share a script (directly or through a chain) are merged, so that
   all pairs of connected scripts end up in one lookup.  Transcription of the Python loops
   (sets as duplicate-free lists).  Definitions only. *)
From U2F Require Export Base.Prelude Kern.Model.
Import ListNotations.

Definition disjointb (a b : list str) : bool := negb (existsb (fun x => mem x b) a).
Definition union (a b : list str) : list str := a ++ filter (fun x => negb (mem x a)) b.

(* for scripts in rest: if scripts.isdisjoint(common): keep it  else: merged = True; common |= scripts *)
Fixpoint absorb (common : list str) (rest : list (list str)) : (list str * list (list str)) * bool :=
  match rest with
  | [] => ((common, []), false)
  | s :: r =>
      if disjointb s common then
        let '((c, keep), m) := absorb common r in ((c, s :: keep), m)
      else
        let '((c, keep), m) := absorb (union common s) r in ((c, keep), true)
  end.

(* while sets: common, rest = sets[0], sets[1:]; ...; result.append(common)   (fuel: the list gets shorter) *)
Fixpoint pass (fuel : nat) (sets : list (list str)) : list (list str) * bool :=
  match fuel with
  | O => (sets, false)
  | S f =>
      match sets with
      | [] => ([], false)
      | c :: rest =>
          let '((c', keep), m) := absorb c rest in
          let '(res, m2) := pass f keep in
          (c' :: res, m || m2)
      end
  end.

(* while merged: one more pass *)
Fixpoint merge_loop (fuel : nat) (sets : list (list str)) : list (list str) :=
  match fuel with
  | O => sets
  | S f => let '(res, m) := pass (length sets) sets in if m then merge_loop f res else res
  end.

Definition nonemptyb {A} (l : list A) : bool := match l with [] => false | _ => true end.

Definition merge_sets (keys : list (list str)) : list (list str) :=
  let sets := map dedup (filter nonemptyb keys) in
  merge_loop (S (length sets)) sets.

(* re-assignment: every input bucket goes to the FIRST merged set it shares a script with *)
Definition intersects (a b : list str) : bool := existsb (fun x => mem x b) a.

Fixpoint add_pairs (key : list str) (ps : list Z) (res : list (list str * list Z)) : list (list str * list Z) :=
  match res with
  | [] => []
  | (k, l) :: r => if list_eqb str_eqb k key then (k, l ++ ps) :: r else (k, l) :: add_pairs key ps r
  end.

Definition merge_scripts (input : list (list str * list Z)) : option (list (list str * list Z)) :=
  let sets := merge_sets (map fst input) in
  fold_left
    (fun acc kp =>
       match acc with
       | None => None
       | Some res =>
           match find (fun z => intersects z (fst kp)) sets with
           | None => None                                   (* AssertionError *)
           | Some z => Some (add_pairs (sort_str z) (snd kp) res)
           end
       end)
    input (Some (map (fun z => (sort_str z, @nil Z)) sets)).

(* ---- the property of the result, as a boolean (evaluated on the implementation's output) ---- *)
Fixpoint pairwise_disjointb (l : list (list str)) : bool :=
  match l with [] => true | x :: r => forallb (fun y => disjointb x y) r && pairwise_disjointb r end.
Definition subsetb (a b : list str) : bool := forallb (fun x => mem x b) a.

(* every input bucket is contained, scripts and pairs, in exactly one output bucket; output buckets are disjoint *)
Definition merge_ok (input out : list (list str * list Z)) : bool :=
  pairwise_disjointb (map fst out) &&
  forallb (fun kp => existsb (fun o => subsetb (fst kp) (fst o) && forallb (fun p => existsb (Z.eqb p) (snd o)) (snd kp)) out) input &&
  forallb (fun o => forallb (fun s => existsb (fun kp => mem s (fst kp)) input) (fst o)) out &&
  Nat.eqb (length (flat_map snd out)) (length (flat_map snd input)).

Definition out_eqb (a b : list (list str * list Z)) : bool :=
  list_eqb (fun x y => list_eqb str_eqb (fst x) (fst y) && list_eqb Z.eqb (snd x) (snd y)) a b.

Definition c05_merge (input : list (list str * list Z)) (obs : option (list (list str * list Z))) : Z :=
  ((match merge_scripts input, obs with
    | Some m, Some o => if out_eqb m o then 1 else 0
    | None, None => 1
    | _, _ => 0 end) +
   (match obs with Some o => if merge_ok input o then 2 else 0 | None => if forallb (fun kp => nonemptyb (fst kp)) input then 0 else 2 end))%Z.
