From Coq Require Import ZArith List Bool Lia.
From U2F Require Import Base.Prelude Kern.Model Kern.Merge.
Import ListNotations.

Definition disj (a b : list str) : Prop := forall e, In e a -> In e b -> False.
Fixpoint pairwise (l : list (list str)) : Prop :=
  match l with [] => True | x :: r => (forall y, In y r -> disj x y) /\ pairwise r end.

Lemma disj_sym a b : disj a b -> disj b a.
Proof. intros H e Hb Ha. exact (H e Ha Hb). Qed.

Lemma disjointb_true a b : disjointb a b = true <-> disj a b.
Proof.
  unfold disjointb, disj. rewrite negb_true_iff. split.
  - intros H e Ha Hb.
    assert (existsb (fun x => mem x b) a = true) as Habs
      by (apply existsb_exists; exists e; split; [exact Ha|apply mem_In; exact Hb]).
    congruence.
  - intro H. destruct (existsb (fun x => mem x b) a) eqn:E; [|reflexivity].
    apply existsb_exists in E. destruct E as [e [Ha Hm]]. apply mem_In in Hm. exfalso. exact (H e Ha Hm).
Qed.

Lemma union_In a b e : In e (union a b) <-> In e a \/ In e b.
Proof.
  unfold union. rewrite in_app_iff, filter_In, negb_true_iff. split.
  - intros [H|[H _]]; auto.
  - intros [H|H]; [left; exact H|].
    destruct (mem e a) eqn:E; [left; apply mem_In; exact E|right; split; [exact H|reflexivity]].
Qed.

Lemma dedup_In e l : In e (dedup l) <-> In e l.
Proof.
  induction l as [|x l IH]; cbn [dedup]; [tauto|].
  destruct (mem x l) eqn:E.
  - rewrite IH. split; [intro H; right; exact H|]. intros [<-|H]; [apply mem_In; exact E|exact H].
  - cbn [In]. rewrite IH. tauto.
Qed.

Lemma pairwise_In l a b : pairwise l -> In a l -> In b l -> a = b \/ disj a b.
Proof.
  induction l as [|x l IH]; intros Hp Ha Hb; [destruct Ha|].
  destruct Hp as [Hx Hp]. destruct Ha as [<-|Ha]; destruct Hb as [<-|Hb].
  - left. reflexivity.
  - right. apply Hx. exact Hb.
  - right. apply disj_sym. apply Hx. exact Ha.
  - apply IH; assumption.
Qed.

(* ---- one absorption sweep ---- *)
Lemma absorb_spec rest : forall c c' keep m, absorb c rest = ((c', keep), m) ->
  incl c c' /\
  (forall s, In s rest -> In s keep \/ incl s c') /\
  (forall e, In e c' -> In e c \/ exists s, In s rest /\ In e s) /\
  (forall s, In s keep -> In s rest) /\
  (length keep <= length rest)%nat /\
  (m = true -> (length keep < length rest)%nat) /\
  (m = false -> c' = c /\ keep = rest /\ forall s, In s rest -> disj s c).
Proof.
  induction rest as [|s r IH]; intros c c' keep m E; cbn [absorb] in E.
  - inversion E; subst. repeat split; auto using incl_refl; try (intros ? []); try discriminate; try (cbn; lia).
  - destruct (disjointb s c) eqn:Ed.
    + destruct (absorb c r) as [[c1 keep1] m1] eqn:Ea. inversion E; subst.
      destruct (IH _ _ _ _ Ea) as (H1 & H2 & H3 & H4 & H5 & H6 & H7).
      split; [exact H1|]. split.
      { intros x [<-|Hx]; [left; left; reflexivity|]. destruct (H2 x Hx) as [Hk|Hi]; [left; right; exact Hk|right; exact Hi]. }
      split.
      { intros e He. destruct (H3 e He) as [Hc|[x [Hx Hex]]]; [left; exact Hc|right; exists x; split; [right; exact Hx|exact Hex]]. }
      split.
      { intros x [<-|Hx]; [left; reflexivity|right; apply H4; exact Hx]. }
      split; [cbn [length]; lia|]. split.
      { intro Hm. cbn [length]. specialize (H6 Hm). lia. }
      { intro Hm. destruct (H7 Hm) as (-> & -> & Hd). repeat split; try reflexivity.
        intros x [<-|Hx]; [apply disjointb_true; exact Ed|apply Hd; exact Hx]. }
    + destruct (absorb (union c s) r) as [[c1 keep1] m1] eqn:Ea. inversion E; subst.
      destruct (IH _ _ _ _ Ea) as (H1 & H2 & H3 & H4 & H5 & H6 & H7).
      split.
      { intros e He. apply H1. apply union_In. left. exact He. }
      split.
      { intros x [<-|Hx]; [right; intros e He; apply H1; apply union_In; right; exact He|].
        destruct (H2 x Hx) as [Hk|Hi]; [left; exact Hk|right; exact Hi]. }
      split.
      { intros e He. destruct (H3 e He) as [Hc|[x [Hx Hex]]].
        - apply union_In in Hc. destruct Hc as [Hc|Hs]; [left; exact Hc|right; exists s; split; [left; reflexivity|exact Hs]].
        - right. exists x. split; [right; exact Hx|exact Hex]. }
      split.
      { intros x Hx. right. apply H4. exact Hx. }
      split; [cbn [length]; lia|]. split.
      { intros _. cbn [length]. lia. }
      { discriminate. }
Qed.

Ltac nil_in := match goal with
  | |- forall _ _, In _ [] -> _ => intros ? ? []
  | |- forall _, In _ [] -> _ => intros ? []
  end.

(* ---- one pass over all sets ---- *)
Lemma pass_spec f : forall sets res m, (length sets <= f)%nat -> pass f sets = (res, m) ->
  (forall x, In x sets -> exists y, In y res /\ incl x y) /\
  (forall y e, In y res -> In e y -> exists x, In x sets /\ In e x) /\
  (length res <= length sets)%nat /\
  (m = true -> (length res < length sets)%nat) /\
  (m = false -> res = sets /\ pairwise sets).
Proof.
  induction f as [|f IH]; intros sets res m Hlen E.
  - destruct sets; [|cbn in Hlen; lia]. cbn in E. inversion E; subst.
    repeat split; try nil_in; try discriminate; auto.
  - destruct sets as [|c rest]; cbn [pass] in E.
    + inversion E; subst. repeat split; try nil_in; try discriminate; auto.
    + destruct (absorb c rest) as [[c' keep] m1] eqn:Ea.
      destruct (pass f keep) as [res2 m2] eqn:Ep. inversion E; subst.
      destruct (absorb_spec _ _ _ _ _ Ea) as (A1 & A2 & A3 & A4 & A5 & A6 & A7).
      assert (length keep <= f)%nat as Hk by (cbn [length] in Hlen; lia).
      destruct (IH _ _ _ Hk Ep) as (P1 & P2 & P3 & P4 & P5).
      split.
      { intros x [<-|Hx]; [exists c'; split; [left; reflexivity|exact A1]|].
        destruct (A2 x Hx) as [Hkeep|Hi].
        - destruct (P1 x Hkeep) as [y [Hy Hxy]]. exists y. split; [right; exact Hy|exact Hxy].
        - exists c'. split; [left; reflexivity|exact Hi]. }
      split.
      { intros y e [<-|Hy] He.
        - destruct (A3 e He) as [Hc|[x [Hx Hex]]]; [exists c; split; [left; reflexivity|exact Hc]|exists x; split; [right; exact Hx|exact Hex]].
        - destruct (P2 y e Hy He) as [x [Hx Hex]]. exists x. split; [right; apply A4; exact Hx|exact Hex]. }
      split; [cbn [length]; lia|]. split.
      { intro Hm. cbn [length]. apply orb_true_iff in Hm. destruct Hm as [Hm|Hm]; [specialize (A6 Hm)|specialize (P4 Hm)]; lia. }
      { intro Hm. apply orb_false_iff in Hm. destruct Hm as [Hm1 Hm2].
        destruct (A7 Hm1) as (-> & -> & Hd). destruct (P5 Hm2) as (-> & Hp).
        split; [reflexivity|]. split; [|exact Hp].
        intros y Hy. apply disj_sym. apply Hd. exact Hy. }
Qed.

(* ---- the outer loop stops at a pass that merged nothing ---- *)
Lemma merge_loop_spec fuel : forall sets, (length sets < fuel)%nat ->
  (forall x, In x sets -> exists y, In y (merge_loop fuel sets) /\ incl x y) /\
  (forall y e, In y (merge_loop fuel sets) -> In e y -> exists x, In x sets /\ In e x) /\
  pairwise (merge_loop fuel sets).
Proof.
  induction fuel as [|fuel IH]; intros sets Hlen; [lia|]. cbn [merge_loop].
  destruct (pass (length sets) sets) as [res m] eqn:Ep.
  destruct (pass_spec _ _ _ _ (Nat.le_refl _) Ep) as (P1 & P2 & P3 & P4 & P5).
  destruct m.
  - assert (length res < fuel)%nat as Hr by (specialize (P4 eq_refl); lia).
    destruct (IH res Hr) as (L1 & L2 & L3). split; [|split; [|exact L3]].
    + intros x Hx. destruct (P1 x Hx) as [y [Hy Hxy]]. destruct (L1 y Hy) as [z [Hz Hyz]].
      exists z. split; [exact Hz|]. intros e He. apply Hyz. apply Hxy. exact He.
    + intros y e Hy He. destruct (L2 y e Hy He) as [x [Hx Hex]]. exact (P2 x e Hx Hex).
  - destruct (P5 eq_refl) as (-> & Hp). split; [|split; [|exact Hp]].
    + intros x Hx. exists x. split; [exact Hx|apply incl_refl].
    + intros y e Hy He. exists y. split; assumption.
Qed.

(* MAIN: the merged script sets are pairwise disjoint, every non-empty input key is contained in
   one of them, and they contain nothing but input scripts -- for every list of keys *)
Theorem merge_sets_spec keys :
  pairwise (merge_sets keys) /\
  (forall k, In k keys -> k <> [] -> exists y, In y (merge_sets keys) /\ incl k y) /\
  (forall y e, In y (merge_sets keys) -> In e y -> exists k, In k keys /\ In e k).
Proof.
  unfold merge_sets. set (sets := map dedup (filter nonemptyb keys)).
  destruct (merge_loop_spec (S (length sets)) sets (Nat.lt_succ_diag_r _)) as (L1 & L2 & L3).
  split; [exact L3|]. split.
  - intros k Hk Hne. assert (In (dedup k) sets) as Hin.
    { unfold sets. apply in_map. apply filter_In. split; [exact Hk|]. destruct k; [congruence|reflexivity]. }
    destruct (L1 _ Hin) as [y [Hy Hi]]. exists y. split; [exact Hy|]. intros e He. apply Hi. apply dedup_In. exact He.
  - intros y e Hy He. destruct (L2 y e Hy He) as [x [Hx Hex]]. unfold sets in Hx. apply in_map_iff in Hx.
    destruct Hx as [k [<- Hk]]. apply filter_In in Hk. exists k. split; [apply Hk|apply dedup_In; exact Hex].
Qed.

(* hence every bucket has exactly one home: ANY merged set that shares a script with a bucket's key
   contains the whole key -- all pairs of a bucket land in a lookup that is registered under every
   script of that bucket *)
Theorem bucket_home keys k z :
  In k keys -> In z (merge_sets keys) -> (exists e, In e k /\ In e z) -> incl k z.
Proof.
  intros Hk Hz [e [Hek Hez]]. destruct (merge_sets_spec keys) as (Hp & Hc & _).
  assert (k <> []) as Hne by (intro; subst; destruct Hek).
  destruct (Hc k Hk Hne) as [y [Hy Hky]].
  destruct (pairwise_In _ _ _ Hp Hy Hz) as [->|Hd]; [exact Hky|].
  exfalso. exact (Hd e (Hky e Hek) Hez).
Qed.

Lemma intersects_true a b : intersects a b = true <-> exists e, In e a /\ In e b.
Proof.
  unfold intersects. rewrite existsb_exists. split; intros [e [H1 H2]]; exists e; (split; [exact H1|]); apply mem_In; exact H2.
Qed.

(* the re-assignment loop never hits its AssertionError for a non-empty key, and the set it picks
   (the first one sharing a script) contains the whole key *)
Theorem assignment_total_and_whole keys k :
  In k keys -> k <> [] ->
  exists z, find (fun z => intersects z k) (merge_sets keys) = Some z /\ incl k z.
Proof.
  intros Hk Hne. destruct (merge_sets_spec keys) as (_ & Hc & _).
  destruct (Hc k Hk Hne) as [y [Hy Hky]].
  destruct (find (fun z => intersects z k) (merge_sets keys)) as [z|] eqn:Ef.
  - exists z. split; [reflexivity|]. apply find_some in Ef. destruct Ef as [Hz Hi].
    apply intersects_true in Hi. destruct Hi as [e [Hez Hek]].
    apply (bucket_home keys k z Hk Hz). exists e. split; assumption.
  - exfalso. apply (find_none _ _ Ef) in Hy. destruct k as [|e k']; [congruence|].
    assert (intersects y (e :: k') = true) as Hi.
    { apply intersects_true. exists e. split; [apply Hky; left; reflexivity|left; reflexivity]. }
    congruence.
Qed.

Example merge_chain :
  merge_sets [[[1%Z]]; [[2%Z]; [3%Z]]; [[3%Z]]; [[2%Z]; [1%Z]]; [[9%Z]]] = [[[1%Z]; [2%Z]; [3%Z]]; [[9%Z]]].
Proof. reflexivity. Qed.
