(* C11: reading a generated glyph name back (Adobe glyph-naming rules, the part that
   concerns generated names): "uni" + groups of four hex digits, "u" + four to six hex
   digits; components joined by "_", anything after the first "." dropped.
   Definitions only. *)
From U2F Require Export Order.ProdNames.
Open Scope Z_scope.

Definition hex_digit_val (c : Z) : option Z :=
  if (48 <=? c) && (c <=? 57) then Some (c - 48)
  else if (65 <=? c) && (c <=? 70) then Some (c - 55) else None.

Fixpoint hex_val_acc (acc : Z) (s : str) : option Z :=
  match s with
  | [] => Some acc
  | c :: r => match hex_digit_val c with Some d => hex_val_acc (acc * 16 + d) r | None => None end
  end.
Definition hex_val (s : str) : option Z := hex_val_acc 0 s.

Fixpoint chunks4 (fuel : nat) (s : str) : option (list Z) :=
  match fuel with
  | O => None
  | S f =>
      match s with
      | [] => Some []
      | _ => if Nat.ltb (length s) 4 then None
             else match hex_val (firstn 4 s), chunks4 f (skipn 4 s) with
                  | Some v, Some l => Some (v :: l)
                  | _, _ => None
                  end
      end
  end.

Definition starts (p s : str) : bool := list_eqb Z.eqb (firstn (length p) s) p.
Definition UNI : str := [117; 110; 105].
Definition UU : str := [117].

Definition agl_component (s : str) : option (list Z) :=
  if starts UNI s then chunks4 (S (length s)) (skipn 3 s)
  else if starts UU s then
    let r := skipn 1 s in
    if Nat.leb 4 (length r) && Nat.leb (length r) 6 then option_map (fun v => [v]) (hex_val r) else None
  else None.

Fixpoint concat_opt (l : list (option (list Z))) : option (list Z) :=
  match l with
  | [] => Some []
  | None :: _ => None
  | Some x :: r => match concat_opt r with Some y => Some (x ++ y) | None => None end
  end.

(* a whole glyph name *)
Definition agl_decode (name : str) : option (list Z) :=
  let base := match split1 DOT name with Some (h, _) => h | None => name end in
  concat_opt (map agl_component (split_on USCORE base)).
