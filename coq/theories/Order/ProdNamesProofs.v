From U2F Require Import Base.Prelude Generated.Constants Order.ProdNames.
Open Scope Z_scope.

(* only legal characters survive the stripping *)
Theorem strip_legal s : forallb legal_char (strip_invalid s) = true.
Proof.
  unfold strip_invalid. apply forallb_forall. intros c Hc. apply filter_In in Hc. tauto.
Qed.

Lemma find_free_spec fuel : forall name n seen k,
  find_free fuel name n seen = Some k -> assoc (name ++ [DOT] ++ dec k) seen = None.
Proof.
  induction fuel as [|f IH]; intros name n seen k E; [discriminate|].
  cbn [find_free] in E. destruct (assoc (name ++ [DOT] ++ dec n) seen) eqn:Ea.
  - eapply IH. exact E.
  - inversion E; subst. exact Ea.
Qed.

Lemma assoc_cons_neq {V} k k' (v : V) l : assoc k ((k', v) :: l) <> None <-> k = k' \/ assoc k l <> None.
Proof.
  simpl. destruct (str_eqb k k') eqn:E.
  - apply str_eqb_eq in E. subst. split; [auto|discriminate].
  - apply str_eqb_neq in E. split; [auto|intros [C|H]; [contradiction|exact H]].
Qed.

(* the name handed out was never handed out before, and is remembered *)
Theorem unique_name_fresh name seen r seen' :
  unique_name name seen = Some (r, seen') ->
  assoc r seen = None /\ assoc r seen' <> None /\
  (forall k, assoc k seen <> None -> assoc k seen' <> None).
Proof.
  unfold unique_name. destruct (assoc name seen) as [n0|] eqn:En.
  - destruct (find_free _ name n0 seen) as [n|] eqn:Ef; [|discriminate].
    intro E. inversion E; subst. split; [eapply find_free_spec; exact Ef|]. split.
    + apply assoc_cons_neq. left. reflexivity.
    + intros k Hk. apply assoc_cons_neq. right. apply assoc_cons_neq. right. exact Hk.
  - intro E. inversion E; subst. split; [exact En|]. split.
    + apply assoc_cons_neq. left. reflexivity.
    + intros k Hk. apply assoc_cons_neq. right. exact Hk.
Qed.

Lemma rename_map_inv gs ps order : forall seen m,
  rename_map gs ps order seen = Some m ->
  NoDup (map snd m) /\ (forall r, In r (map snd m) -> assoc r seen = None) /\
  map fst m = filter (fun n => mem n (keys gs)) order.
Proof.
  induction order as [|name rest IH]; intros seen m E; simpl in E.
  - inversion E; subst. simpl. split; [constructor|]. split; [tauto|reflexivity].
  - simpl. destruct (mem name (keys gs)) eqn:Em.
    + destruct (unique_name _ seen) as [[r seen']|] eqn:Eu; [|discriminate].
      destruct (rename_map gs ps rest seen') as [m'|] eqn:Er; [|discriminate].
      inversion E; subst. destruct (IH _ _ Er) as [Hn [Hf Hk]].
      destruct (unique_name_fresh _ _ _ _ Eu) as [F1 [F2 F3]].
      simpl. split; [|split].
      * constructor; [|exact Hn]. intro Hin. apply Hf in Hin. contradiction.
      * intros r0 [<-|Hin]; [exact F1|].
        destruct (assoc r0 seen) eqn:Ea; [|reflexivity].
        exfalso. apply (F3 r0); [rewrite Ea; discriminate|apply Hf; exact Hin].
      * f_equal. exact Hk.
    + apply IH. exact E.
Qed.

(* the production names given to the glyphs of the glyph set are pairwise distinct,
   one per glyph, in glyph order *)
Theorem rename_names_distinct gs ps order m :
  rename_map gs ps order [] = Some m ->
  NoDup (map snd m) /\ map fst m = filter (fun n => mem n (keys gs)) order.
Proof. intro E. destruct (rename_map_inv gs ps order [] m E) as [H1 [_ H3]]. auto. Qed.

(* uniqueness suffixes keep names legal *)
Lemma legal_dot : legal_char DOT = true. Proof. reflexivity. Qed.

(* renaming by an injective map keeps every glyph at its index: every table
   refers to the same glyph indices *)
Theorem rename_preserves_index (rho : str -> str) order n :
  (forall a b, In a order -> In b order -> rho a = rho b -> a = b) ->
  In n order ->
  index_of (rho n) (map rho order) = index_of n order.
Proof.
  induction order as [|x order IH]; intros Hinj Hin; [destruct Hin|].
  simpl. destruct (str_eqb n x) eqn:E.
  - apply str_eqb_eq in E. subst. rewrite str_eqb_refl. reflexivity.
  - assert (str_eqb (rho n) (rho x) = false) as ->.
    { apply str_eqb_neq. intro C. apply str_eqb_neq in E. apply E.
      apply Hinj; [exact Hin|left; reflexivity|exact C]. }
    destruct Hin as [->|Hin]; [rewrite str_eqb_refl in E; discriminate|].
    rewrite IH; [reflexivity| |exact Hin].
    intros a b Ha Hb. apply Hinj; right; assumption.
Qed.

(* the decision table is total and renames only when asked to keep names *)
Theorem names_decision_spec arg keep_lib use_lib dont_lib has_ps is_cff1 :
  (arg = Some true -> names_decision arg keep_lib use_lib dont_lib has_ps is_cff1 = RenameToProduction) /\
  (arg = Some false -> names_decision arg keep_lib use_lib dont_lib has_ps is_cff1 = KeepNames) /\
  (arg = None -> keep_lib = Some false ->
     names_decision arg keep_lib use_lib dont_lib has_ps is_cff1 = if is_cff1 then DropUnsupportedCFF1 else DropNames).
Proof.
  repeat split; intros; subst; simpl; try reflexivity.
  all: destruct use_lib as [[]|]; simpl; try reflexivity;
    destruct dont_lib as [[]|], has_ps; reflexivity.
Qed.

Example prod_name_examples :
  prod_name 10 [([97], Some 97); ([102], Some 102); ([105], Some 105); ([102;95;105], None); ([97;46;115;99], None)] [97;46;115;99]
    = [117;110;105;48;48;54;49;46;115;99] /\
  prod_name 10 [([102], Some 102); ([105], Some 105); ([102;95;105], None)] [102;95;105]
    = [117;110;105;48;48;54;54;48;48;54;57].
Proof. split; vm_compute; reflexivity. Qed.
