(* Proofs about the C03 model. *)
From U2F Require Import Base.Prelude Generated.Constants Order.GlyphOrder.
Open Scope Z_scope.

(* ------------------------------------------------------------------ *)
(* makeOfficialGlyphOrder *)

Lemma mem_remove_str k n l : mem k (remove_str n l) = mem k l && negb (str_eqb n k).
Proof.
  induction l as [|y l IH]; simpl; [reflexivity|].
  destruct (str_eqb n y) eqn:Eny; simpl.
  - rewrite IH. apply str_eqb_eq in Eny. subst y.
    destruct (str_eqb k n) eqn:Ekn; simpl; [|reflexivity].
    apply str_eqb_eq in Ekn. subst k. rewrite str_eqb_refl. simpl.
    rewrite andb_false_r. reflexivity.
  - rewrite IH. destruct (str_eqb k y) eqn:Eky; simpl; [|reflexivity].
    apply str_eqb_eq in Eky. subst y. rewrite Eny. reflexivity.
Qed.

Fixpoint go_L (order names : list str) : list str :=
  match order with
  | [] => []
  | n :: o => if mem n names then n :: go_L o (remove_str n names) else go_L o names
  end.
Fixpoint go_R (order names : list str) : list str :=
  match order with
  | [] => names
  | n :: o => if mem n names then go_R o (remove_str n names) else go_R o names
  end.

Lemma fold_go order : forall acc names,
  fold_left go_step order (acc, names) = (acc ++ go_L order names, go_R order names).
Proof.
  induction order as [|n o IH]; intros acc names; simpl.
  - rewrite app_nil_r. reflexivity.
  - destruct (mem n names); rewrite IH; [rewrite <- app_assoc|]; reflexivity.
Qed.

Lemma filter_true {A} (l : list A) : filter (fun _ => true) l = l.
Proof. induction l; simpl; congruence. Qed.

Lemma filter_filter {A} (f g : A -> bool) l :
  filter f (filter g l) = filter (fun x => g x && f x) l.
Proof.
  induction l as [|x l IH]; simpl; [reflexivity|].
  destruct (g x); simpl; [destruct (f x)|]; rewrite IH; reflexivity.
Qed.

Lemma go_R_filter order : forall names,
  go_R order names = filter (fun k => negb (mem k order)) names.
Proof.
  induction order as [|n o IH]; intros names; simpl.
  - rewrite filter_true. reflexivity.
  - destruct (mem n names) eqn:E.
    + rewrite IH. unfold remove_str. rewrite filter_filter.
      apply filter_ext. intro k. rewrite negb_orb.
      replace (str_eqb k n) with (str_eqb n k); [reflexivity|].
      destruct (str_eqb n k) eqn:E1, (str_eqb k n) eqn:E2; auto.
      * apply str_eqb_eq in E1. subst. rewrite str_eqb_refl in E2. discriminate.
      * apply str_eqb_eq in E2. subst. rewrite str_eqb_refl in E1. discriminate.
    + rewrite IH. apply filter_ext_in. intros k Hk.
      destruct (str_eqb k n) eqn:Ek; simpl; [|reflexivity].
      apply str_eqb_eq in Ek. subst k. apply mem_In in Hk. congruence.
Qed.

Lemma go_L_first_occ order : forall N seen names,
  (forall k, mem k names = mem k N && negb (mem k seen)) ->
  go_L order names = first_occ seen (filter (fun n => mem n N) order).
Proof.
  induction order as [|n o IH]; intros N seen names Hinv; simpl; [reflexivity|].
  destruct (mem n names) eqn:E.
  - rewrite Hinv in E. apply andb_true_iff in E. destruct E as [E1 E2].
    rewrite E1. simpl. apply negb_true_iff in E2. rewrite E2. f_equal.
    apply IH. intro k. rewrite mem_remove_str, Hinv. simpl.
    replace (str_eqb k n) with (str_eqb n k).
    + rewrite negb_orb. rewrite <- andb_assoc. f_equal. apply andb_comm.
    + destruct (str_eqb n k) eqn:A1, (str_eqb k n) eqn:A2; auto.
      * apply str_eqb_eq in A1. subst. rewrite str_eqb_refl in A2. discriminate.
      * apply str_eqb_eq in A2. subst. rewrite str_eqb_refl in A1. discriminate.
  - rewrite Hinv in E. destruct (mem n N) eqn:E1; simpl in *.
    + apply negb_false_iff in E. rewrite E. apply IH. exact Hinv.
    + apply IH. exact Hinv.
Qed.

Theorem glyph_order_spec keys order : glyph_order keys order = spec_order keys order.
Proof.
  unfold glyph_order, spec_order. rewrite fold_go. simpl.
  rewrite go_R_filter. f_equal. f_equal.
  rewrite (go_L_first_occ order (remove_str notdef keys) [] (remove_str notdef keys)).
  - f_equal. apply filter_ext. intro n. apply mem_remove_str.
  - intro k. simpl. rewrite andb_true_r. reflexivity.
Qed.

Lemma remove_str_app x a b : remove_str x (a ++ b) = remove_str x a ++ remove_str x b.
Proof. unfold remove_str. apply filter_app. Qed.

Lemma mem_app k a b : mem k (a ++ b) = mem k a || mem k b.
Proof. induction a as [|y a IH]; simpl; [reflexivity|]. rewrite IH, orb_assoc. reflexivity. Qed.

Theorem compiled_order_spec keys order :
  compiled_glyph_order keys order = spec_compiled_order keys order.
Proof.
  unfold compiled_glyph_order, spec_compiled_order.
  rewrite glyph_order_spec. unfold spec_order.
  destruct (mem notdef keys) eqn:E.
  - rewrite E. reflexivity.
  - rewrite mem_app.
    replace (mem notdef [notdef]) with true by (symmetry; apply mem_In; left; reflexivity).
    rewrite orb_true_r, remove_str_app.
    replace (remove_str notdef [notdef]) with (@nil str)
      by (unfold remove_str; cbn [filter]; rewrite str_eqb_refl; reflexivity).
    rewrite app_nil_r. f_equal. f_equal. f_equal.
    apply filter_ext. intro n. rewrite mem_app. cbn [mem]. rewrite orb_false_r.
    destruct (str_eqb notdef n) eqn:En; cbn [negb].
    + rewrite !andb_false_r. reflexivity.
    + replace (str_eqb n notdef) with false; [rewrite orb_false_r; reflexivity|].
      symmetry. apply str_eqb_neq. apply str_eqb_neq in En. congruence.
Qed.

(* every exported glyph exactly once *)
Lemma perm_remove n l : NoDup l -> In n l -> Permutation l (n :: remove_str n l).
Proof.
  induction l as [|y l IH]; intros Hn Hin; [destruct Hin|].
  inversion Hn as [|? ? Hy Hl]; subst. unfold remove_str. simpl.
  destruct (str_eqb n y) eqn:E; simpl.
  - apply str_eqb_eq in E. subst y. constructor.
    fold (remove_str n l). replace (remove_str n l) with l; [reflexivity|].
    unfold remove_str. symmetry. rewrite <- (filter_true l) at 2.
    apply filter_ext_in. intros a Ha. apply negb_true_iff, str_eqb_neq. congruence.
  - destruct Hin as [->|Hin]; [rewrite str_eqb_refl in E; discriminate|].
    eapply perm_trans; [apply perm_skip, IH; assumption|]. apply perm_swap.
Qed.

Lemma NoDup_remove_str n l : NoDup l -> NoDup (remove_str n l).
Proof. intro H. unfold remove_str. apply NoDup_filter. exact H. Qed.

Lemma go_perm order : forall names, NoDup names ->
  Permutation (go_L order names ++ go_R order names) names.
Proof.
  induction order as [|n o IH]; intros names Hn; simpl; [reflexivity|].
  destruct (mem n names) eqn:E.
  - simpl. apply mem_In in E. eapply perm_trans; [|apply Permutation_sym, perm_remove; eassumption].
    constructor. apply IH. apply NoDup_remove_str. exact Hn.
  - apply IH. exact Hn.
Qed.

Theorem glyph_order_perm keys order :
  NoDup keys -> Permutation (glyph_order keys order) keys /\ NoDup (glyph_order keys order).
Proof.
  intro Hn.
  assert (Permutation (glyph_order keys order) keys) as P.
  { unfold glyph_order. rewrite fold_go. simpl.
    eapply perm_trans.
    - apply Permutation_app_head. apply Permutation_app_head. apply Permutation_sym, sort_str_perm.
    - eapply perm_trans.
      + apply Permutation_app_head. apply go_perm. apply NoDup_remove_str. exact Hn.
      + destruct (mem notdef keys) eqn:E; simpl.
        * apply Permutation_sym, perm_remove; [exact Hn|apply mem_In; exact E].
        * unfold remove_str. rewrite <- (filter_true keys) at 2.
          erewrite filter_ext_in; [reflexivity|]. intros a Ha. simpl.
          apply negb_true_iff, str_eqb_neq. intro. subst a. apply mem_false in E. contradiction. }
  split; [exact P|]. eapply Permutation_NoDup; [apply Permutation_sym, P|exact Hn].
Qed.

(* ------------------------------------------------------------------ *)
(* makeUnicodeToGlyphNameMapping *)

Definition pairs_of (glyphs : list (str * list Z)) : cmapping :=
  flat_map (fun gu => map (fun u => (u, fst gu)) (snd gu)) glyphs.

Lemma zassoc_None {V} k (m : list (Z * V)) : zassoc k m = None <-> ~ In k (map fst m).
Proof.
  induction m as [|[k' v] m IH]; simpl; [tauto|].
  destruct (Z.eqb_spec k k'); [split; [discriminate|intro H; exfalso; apply H; auto]|].
  rewrite IH. intuition.
Qed.

Lemma zassoc_In {V} k (v : V) m : NoDup (map fst m) -> In (k, v) m -> zassoc k m = Some v.
Proof.
  induction m as [|[k' v'] m IH]; simpl; intros Hn Hin; [destruct Hin|].
  inversion Hn as [|? ? Hk Hm]; subst.
  destruct Hin as [E|Hin].
  - inversion E; subst. rewrite Z.eqb_refl. reflexivity.
  - destruct (Z.eqb_spec k k'); [|apply IH; assumption].
    subst. exfalso. apply Hk. apply in_map_iff. exists (k', v). auto.
Qed.

Lemma u2g_glyph_ok g us : forall m,
  NoDup (map fst m ++ us) ->
  u2g_glyph g us m = U2G_ok (m ++ map (fun u => (u, g)) us).
Proof.
  induction us as [|u us IH]; intros m Hn; simpl; [rewrite app_nil_r; reflexivity|].
  assert (zassoc u m = None) as ->.
  { apply zassoc_None. intro Hin. apply NoDup_remove_2 in Hn. apply Hn. apply in_or_app. auto. }
  rewrite IH.
  - rewrite <- app_assoc. reflexivity.
  - rewrite map_app. simpl. rewrite <- app_assoc. simpl.
    eapply Permutation_NoDup; [|exact Hn]. apply Permutation_app_head.
    reflexivity.
Qed.

Lemma map_fst_pairs (g : str) us : map fst (map (fun u : Z => (u, g)) us) = us.
Proof. induction us; simpl; congruence. Qed.

Lemma u2g_ok glyphs : forall m,
  NoDup (map fst m ++ flat_map snd glyphs) ->
  u2g glyphs m = U2G_ok (m ++ pairs_of glyphs).
Proof.
  induction glyphs as [|[g us] rest IH]; intros m Hn; simpl in *; [rewrite app_nil_r; reflexivity|].
  rewrite u2g_glyph_ok.
  - rewrite IH; [rewrite <- app_assoc; reflexivity|].
    rewrite map_app, map_fst_pairs, <- app_assoc. exact Hn.
  - rewrite app_assoc in Hn. apply NoDup_app_l in Hn. exact Hn.
Qed.

Lemma u2g_glyph_dup g us : forall m,
  ~ NoDup (map fst m ++ us) -> NoDup (map fst m) ->
  exists cp prev, u2g_glyph g us m = U2G_dup cp g prev.
Proof.
  induction us as [|u us IH]; intros m Hn Hm; simpl.
  - rewrite app_nil_r in Hn. contradiction.
  - destruct (zassoc u m) as [prev|] eqn:E; [eauto|].
    apply IH.
    + intro H. apply Hn. rewrite map_app in H. simpl in H. rewrite <- app_assoc in H. exact H.
    + rewrite map_app. simpl. apply zassoc_None in E. apply NoDup_snoc; assumption.
Qed.

Lemma nodup_z_NoDup l : nodup_z l = true <-> NoDup l.
Proof.
  induction l as [|x l IH]; simpl; [split; [constructor|reflexivity]|].
  rewrite andb_true_iff, negb_true_iff, IH. split.
  - intros [H1 H2]. constructor; [|exact H2]. intro Hin.
    assert (existsb (Z.eqb x) l = true) as C; [|congruence].
    apply existsb_exists. exists x. split; [exact Hin|apply Z.eqb_refl].
  - intro H. inversion H as [|? ? Hx Hl]; subst. split; [|exact Hl].
    destruct (existsb (Z.eqb x) l) eqn:E; [|reflexivity].
    apply existsb_exists in E. destruct E as [y [Hy Exy]]. apply Z.eqb_eq in Exy. subst. contradiction.
Qed.

Lemma NoDup_dec_z (l : list Z) : NoDup l \/ ~ NoDup l.
Proof. destruct (nodup_z l) eqn:E; [left; apply nodup_z_NoDup; exact E|right; intro H; apply nodup_z_NoDup in H; congruence]. Qed.

Lemma u2g_dup glyphs : forall m,
  NoDup (map fst m) -> ~ NoDup (map fst m ++ flat_map snd glyphs) ->
  exists cp g prev, u2g glyphs m = U2G_dup cp g prev.
Proof.
  induction glyphs as [|[g us] rest IH]; intros m Hm Hn; simpl in *.
  - rewrite app_nil_r in Hn. contradiction.
  - destruct (NoDup_dec_z (map fst m ++ us)) as [Hok|Hbad].
    + rewrite u2g_glyph_ok by exact Hok. apply IH.
      * rewrite map_app, map_fst_pairs. exact Hok.
      * rewrite map_app, map_fst_pairs, <- app_assoc. exact Hn.
    + destruct (u2g_glyph_dup g us m Hbad Hm) as [cp [prev E]]. rewrite E. eauto.
Qed.

(* rejected iff some code point is declared twice *)
Theorem u2g_error_iff_duplicate glyphs :
  (exists m, u2g glyphs [] = U2G_ok m /\ m = pairs_of glyphs) <-> has_duplicate_cp glyphs = false.
Proof.
  unfold has_duplicate_cp. rewrite negb_false_iff, nodup_z_NoDup. split.
  - intros [m [E _]]. destruct (NoDup_dec_z (flat_map snd glyphs)) as [H|H]; [exact H|].
    destruct (u2g_dup glyphs [] (NoDup_nil _) H) as [cp [g [prev E']]]. congruence.
  - intro H. exists (pairs_of glyphs). split; [|reflexivity].
    apply (u2g_ok glyphs []). exact H.
Qed.

Lemma In_pairs_of glyphs cp g :
  In (cp, g) (pairs_of glyphs) <-> exists us, In (g, us) glyphs /\ In cp us.
Proof.
  unfold pairs_of. rewrite in_flat_map. split.
  - intros [[g' us] [Hin Hm]]. simpl in Hm. apply in_map_iff in Hm.
    destruct Hm as [u [E Hu]]. inversion E; subst. eauto.
  - intros [us [Hin Hcp]]. exists (g, us). split; [exact Hin|]. simpl.
    apply in_map_iff. exists cp. auto.
Qed.

(* the cmap sends cp to g iff g declares cp (no duplicates, distinct names) *)
Theorem u2g_sound_complete glyphs cp g :
  NoDup (flat_map snd glyphs) ->
  (zassoc cp (pairs_of glyphs) = Some g <-> exists us, In (g, us) glyphs /\ In cp us).
Proof.
  intro Hn. rewrite <- In_pairs_of.
  assert (map fst (pairs_of glyphs) = flat_map snd glyphs) as Hk.
  { clear. induction glyphs as [|[g us] rest IH]; simpl; [reflexivity|].
    rewrite map_app, map_fst_pairs, IH. reflexivity. }
  split.
  - intro E. clear Hn Hk. induction (pairs_of glyphs) as [|[k v] l IH]; simpl in *; [discriminate|].
    destruct (Z.eqb_spec cp k); [inversion E; subst; auto|right; auto].
  - intro Hin. apply zassoc_In; [rewrite Hk; exact Hn|exact Hin].
Qed.

(* ------------------------------------------------------------------ *)
(* setupTable_cmap *)

Theorem cmap_bmp_split m :
  cmap_nonbmp_gt = 65535 -> cmap_bmp_le = 65535 ->
  let t := make_cmap m in
  (forall kv, In kv (cmap4 t) <-> In kv m /\ fst kv <= 65535) /\
  match cmap12 t with
  | None => forall kv, In kv m -> fst kv <= 65535
  | Some t12 => (exists kv, In kv m /\ 65535 < fst kv) /\ forall kv, In kv t12 <-> In kv m
  end.
Proof.
  intros G L. unfold make_cmap. rewrite G, L.
  destruct (filter (fun kv => 65535 <? fst kv) m) as [|x l] eqn:E.
  - assert (forall kv, In kv m -> fst kv <= 65535) as Hall.
    { intros kv Hin. destruct (Z.ltb_spec 65535 (fst kv)) as [Hlt|]; [|assumption].
      assert (In kv (filter (fun kv => 65535 <? fst kv) m)) as C
        by (apply filter_In; split; [assumption|apply Z.ltb_lt; assumption]).
      rewrite E in C. destruct C. }
    simpl. split; [|exact Hall]. intro kv. split; [intro H; split; auto|tauto].
  - cbn [cmap4 cmap12]. split.
    + intro kv. rewrite filter_In, Z.leb_le. tauto.
    + split.
      * exists x. assert (In x (filter (fun kv => 65535 <? fst kv) m)) as C by (rewrite E; left; reflexivity).
        apply filter_In in C. destruct C as [C1 C2]. apply Z.ltb_lt in C2. auto.
      * intro kv. rewrite <- E. rewrite in_app_iff, !filter_In, Z.ltb_lt, Z.leb_le. split; [tauto|].
        intro H. destruct (Z.ltb_spec 65535 (fst kv)); [left|right]; split; auto; lia.
Qed.

Theorem uvs_default_iff_base m e v :
  uvs_entry m e = Some v ->
  (snd v = None <-> zassoc (fst e) m = Some (snd e)) /\ fst v = fst e.
Proof.
  unfold uvs_entry. destruct (zassoc (fst e) m) as [g|] eqn:E; [|discriminate].
  intro H. inversion H; subst; simpl. split; [|reflexivity].
  destruct (str_eqb (snd e) g) eqn:Eg.
  - apply str_eqb_eq in Eg. subst. tauto.
  - split; [discriminate|]. intro H1. inversion H1; subst. rewrite str_eqb_refl in Eg. discriminate.
Qed.

(* non-vacuity *)
Example order_example :
  glyph_order [[98]; [97]; notdef; [99]] [[99]; [122]; [99]] = [notdef; [99]; [97]; [98]].
Proof. vm_compute. reflexivity. Qed.

(* ------------------------------------------------------------------ *)
(* the model's observation satisfies the executable specification *)

Lemma existsb_eqb_In cp us : existsb (Z.eqb cp) us = true <-> In cp us.
Proof.
  rewrite existsb_exists. split.
  - intros [x [Hx E]]. apply Z.eqb_eq in E. subst. exact Hx.
  - intro H. exists cp. split; [exact H|apply Z.eqb_refl].
Qed.

Lemma declared_none G cp : ~ In cp (flat_map snd G) -> declared_by G cp = [].
Proof.
  induction G as [|[g us] G IH]; intro H; [reflexivity|].
  unfold declared_by in *. cbn [filter snd]. cbn [flat_map snd] in H.
  destruct (existsb (Z.eqb cp) us) eqn:E.
  - apply existsb_eqb_In in E. exfalso. apply H. apply in_or_app. auto.
  - apply IH. intro. apply H. apply in_or_app. auto.
Qed.

Lemma declared_by_unique G cp g us :
  NoDup (flat_map snd G) -> In (g, us) G -> In cp us -> declared_by G cp = [g].
Proof.
  induction G as [|[g0 us0] G IH]; intros Hn Hin Hcp; [destruct Hin|].
  cbn [flat_map snd] in Hn. unfold declared_by. cbn [filter snd].
  destruct Hin as [E|Hin].
  - inversion E; subst.
    assert (existsb (Z.eqb cp) us = true) as -> by (apply existsb_eqb_In; assumption).
    cbn [map fst]. f_equal. apply declared_none. intro Hc. eapply NoDup_app_disj; eassumption.
  - assert (existsb (Z.eqb cp) us0 = false) as ->.
    { destruct (existsb (Z.eqb cp) us0) eqn:E; [|reflexivity].
      apply existsb_eqb_In in E. exfalso. eapply (NoDup_app_disj us0 _ cp Hn E).
      apply in_flat_map. exists (g, us). auto. }
    apply IH; [eapply NoDup_app_r; eassumption|assumption|assumption].
Qed.

Lemma sound_lemma G t :
  NoDup (flat_map snd G) -> (forall kv, In kv t -> In kv (pairs_of G)) -> spec_cmap_sound G t = true.
Proof.
  intros Hn Hsub. unfold spec_cmap_sound. apply forallb_forall. intros [cp g] Hin.
  apply Hsub, In_pairs_of in Hin. destruct Hin as [us [H1 H2]]. cbn [fst snd].
  rewrite (declared_by_unique G cp g us Hn H1 H2). apply str_eqb_refl.
Qed.

Lemma map_fst_pairs_of G : map fst (pairs_of G) = flat_map snd G.
Proof.
  induction G as [|[g us] rest IH]; simpl; [reflexivity|].
  rewrite map_app, map_fst_pairs, IH. reflexivity.
Qed.

Lemma zassoc_functional {V} k (v : V) t :
  (forall v', In (k, v') t -> v' = v) -> In (k, v) t -> zassoc k t = Some v.
Proof.
  induction t as [|[k' v'] t IH]; intros Hf Hin; [destruct Hin|]. simpl.
  destruct (Z.eqb_spec k k') as [->|Hne].
  - f_equal. apply Hf. left. reflexivity.
  - apply IH.
    + intros v'' H. apply Hf. right. exact H.
    + destruct Hin as [E|Hin]; [inversion E; congruence|exact Hin].
Qed.

Lemma complete_lemma G pred t :
  NoDup (flat_map snd G) ->
  (forall kv, In kv t -> In kv (pairs_of G)) ->
  (forall kv, In kv (pairs_of G) -> pred (fst kv) = true -> In kv t) ->
  spec_cmap_complete G pred t = true.
Proof.
  intros Hn Hsub Hsup. unfold spec_cmap_complete.
  apply forallb_forall. intros [g us] Hg. apply forallb_forall. intros cp Hcp. cbn [fst snd].
  destruct (pred cp) eqn:Ep; [|reflexivity]. cbn [negb orb].
  assert (In (cp, g) (pairs_of G)) as Hm by (apply In_pairs_of; eauto).
  rewrite (zassoc_functional cp g t); [apply str_eqb_refl| |apply Hsup; assumption].
  intros v' Hv'. apply Hsub in Hv'.
  assert (NoDup (map fst (pairs_of G))) as Hk by (rewrite map_fst_pairs_of; exact Hn).
  pose proof (zassoc_In cp g _ Hk Hm) as E1. pose proof (zassoc_In cp v' _ Hk Hv') as E2. congruence.
Qed.

Lemma list_eqb_str_refl l : list_eqb str_eqb l l = true.
Proof. apply list_eqb_spec; [apply str_eqb_eq|reflexivity]. Qed.

Theorem model_satisfies_spec_C03 keys order unicodes :
  spec_C03 keys order unicodes (model_C03 keys order unicodes) = true.
Proof.
  unfold spec_C03, model_C03. rewrite compiled_order_spec.
  set (G := map _ (spec_compiled_order keys order)).
  destruct (has_duplicate_cp G) eqn:Ed.
  - destruct (u2g G []) as [m|] eqn:E; [|reflexivity].
    exfalso. destruct (NoDup_dec_z (flat_map snd G)) as [H|H].
    + apply nodup_z_NoDup in H. unfold has_duplicate_cp in Ed. rewrite H in Ed. discriminate.
    + destruct (u2g_dup G [] (NoDup_nil _) H) as [cp [g [prev E']]]. congruence.
  - assert (NoDup (flat_map snd G)) as Hn.
    { unfold has_duplicate_cp in Ed. apply negb_false_iff in Ed. apply nodup_z_NoDup. exact Ed. }
    rewrite (u2g_ok G [] Hn). cbn [app].
    pose proof (cmap_bmp_split (pairs_of G) eq_refl eq_refl) as [H4 H12]. cbn zeta in H4, H12.
    cbn [o_order o_cmap4 o_cmap12 negb andb]. rewrite list_eqb_str_refl. cbn [andb].
    rewrite sound_lemma; [|exact Hn|intros kv Hkv; apply H4; exact Hkv]. cbn [andb].
    assert (forallb (fun kv : Z * str => fst kv <=? 65535) (cmap4 (make_cmap (pairs_of G))) = true) as ->.
    { apply forallb_forall. intros kv Hkv. apply Z.leb_le. apply H4. exact Hkv. }
    cbn [andb].
    rewrite complete_lemma; [|exact Hn|intros kv Hkv; apply H4; exact Hkv|
      intros kv Hkv Hp; apply H4; split; [exact Hkv|apply Z.leb_le; exact Hp]].
    cbn [andb].
    destruct (cmap12 (make_cmap (pairs_of G))) as [t12|].
    + destruct H12 as [[kv [Hkv Hgt]] Hiff].
      apply andb_true_iff. split; [apply andb_true_iff; split|].
      * apply existsb_exists. destruct kv as [cp g]. apply In_pairs_of in Hkv.
        destruct Hkv as [us [H1 H2]]. exists (g, us). split; [exact H1|].
        apply existsb_exists. exists cp. split; [exact H2|apply Z.ltb_lt; exact Hgt].
      * apply sound_lemma; [exact Hn|intros kv' Hkv'; apply Hiff; exact Hkv'].
      * apply complete_lemma; [exact Hn|intros kv' Hkv'; apply Hiff; exact Hkv'|
          intros kv' Hkv' _; apply Hiff; exact Hkv'].
    + apply forallb_forall. intros [g us] Hg. apply forallb_forall. intros cp Hcp.
      apply Z.leb_le. apply (H12 (cp, g)). apply In_pairs_of. eauto.
Qed.
