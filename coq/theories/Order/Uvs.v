(* C03: public.unicodeVariationSequences -> cmap format 14 (outlineCompiler.setupTable_cmap, after repair F34).
   seqs: variation selector -> list of (base code point, glyph name), in the lib's order; a sequence is kept exactly when its glyph
   is in the compiled glyph set; it is a DEFAULT sequence (no glyph stored) when the glyph is the one the character map gives the
   base code point; a selector all of whose sequences were dropped has no entry, and without any entry there is no subtable.
   Definitions only. *)
From Coq Require Import ZArith List Bool.
From U2F Require Import Base.Prelude Order.GlyphOrder.
Import ListNotations.
Open Scope Z_scope.

Definition uvs_seq := (Z * str)%type.                       (* base code point, glyph *)
Definition uvs_src := list (Z * list uvs_seq).              (* selector -> sequences *)
Definition uvs_out := list (Z * list (Z * option str)).     (* selector -> (base, None = default | Some glyph) *)

Definition uvs_one (glyphset : list str) (m : cmapping) (e : uvs_seq) : list (Z * option str) :=
  if mem (snd e) glyphset then
    [(fst e, match zassoc (fst e) m with
             | Some g => if str_eqb (snd e) g then None else Some (snd e)
             | None => Some (snd e)
             end)]
  else [].

Definition uvs_table (glyphset : list str) (m : cmapping) (src : uvs_src) : uvs_out :=
  flat_map (fun se => match flat_map (uvs_one glyphset m) (snd se) with
                      | [] => []
                      | l => [(fst se, l)]
                      end) src.

(* the subtable exists iff something is left *)
Definition has_uvs_subtable (glyphset : list str) (m : cmapping) (src : uvs_src) : bool :=
  match uvs_table glyphset m src with [] => false | _ => true end.

(* comparison with the compiled subtable *)
Definition uvs_entry_eqb (a b : Z * option str) : bool :=
  Z.eqb (fst a) (fst b) && match snd a, snd b with
                           | None, None => true
                           | Some x, Some y => str_eqb x y
                           | _, _ => false end.
Definition uvs_out_eqb (a b : uvs_out) : bool :=
  list_eqb (fun x y => Z.eqb (fst x) (fst y) && list_eqb uvs_entry_eqb (snd x) (snd y)) a b.
