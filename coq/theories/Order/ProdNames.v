(* C11: production glyph names (postProcessor._build_production_names and friends).
   Definitions only. *)
From U2F Require Export Base.Prelude.
From U2F Require Import Generated.Constants.
Open Scope Z_scope.

(* ---- string helpers (Python str methods on code-point lists) ---- *)
Definition DOT : Z := 46.
Definition USCORE : Z := 95.

(* s.split(c) *)
Fixpoint split_on (c : Z) (s : str) : list str :=
  match s with
  | [] => [[]]
  | x :: r =>
      let parts := split_on c r in
      if Z.eqb x c then [] :: parts
      else match parts with p :: ps => (x :: p) :: ps | [] => [[x]] end
  end.

(* s.split(c, 1): None when c does not occur *)
Fixpoint split1 (c : Z) (s : str) : option (str * str) :=
  match s with
  | [] => None
  | x :: r => if Z.eqb x c then Some ([], r)
              else match split1 c r with Some (h, t) => Some (x :: h, t) | None => None end
  end.

(* s.rsplit(c, 1) *)
Definition rsplit1 (c : Z) (s : str) : option (str * str) :=
  match split1 c (rev s) with Some (t, h) => Some (rev h, rev t) | None => None end.

Fixpoint join (sep : str) (parts : list str) : str :=
  match parts with [] => [] | [p] => p | p :: r => p ++ sep ++ join sep r end.

(* "%X" digits, most significant first, exactly n digits (value mod 16^n) *)
Definition hex_digit (d : Z) : Z := if Z.ltb d 10 then 48 + d else 55 + d.   (* '0'.. / 'A'.. *)
Fixpoint hex_n (n : nat) (v : Z) : str :=
  match n with O => [] | S k => hex_n k (v / 16) ++ [hex_digit (v mod 16)] end.
(* "{:04X}": at least four digits *)
Definition hex04 (v : Z) : str :=
  if Z.ltb v 65536 then hex_n 4 v else if Z.ltb v 1048576 then hex_n 5 v
  else if Z.ltb v 16777216 then hex_n 6 v else hex_n 8 v.

(* "%d" for naturals *)
Fixpoint dec_fuel (fuel : nat) (v : Z) : str :=
  match fuel with
  | O => []
  | S k => if Z.ltb v 10 then [48 + v] else dec_fuel k (v / 10) ++ [48 + v mod 10]
  end.
Definition dec (v : Z) : str := dec_fuel 20 v.

Definition legal_char (c : Z) : bool :=
  existsb (fun r => Z.leb (fst r) c && Z.leb c (snd r)) glyph_name_legal_ranges.
(* GLYPH_NAME_INVALID_CHARS.sub("", s) *)
Definition strip_invalid (s : str) : str := filter legal_char s.

(* ---- _build_production_name ---- *)
Definition gset := list (str * option Z).          (* glyph name -> glyph.unicode *)
Definition psnames := option (list (str * str)).   (* public.postscriptNames (None or empty = falsy) *)

Definition uni_name (u : Z) : str :=
  (if Z.ltb 65535 u then [117] else [117; 110; 105]) ++ hex04 u.      (* "u" / "uni" *)

Definition uni_of (gs : gset) (n : str) : option Z := match assoc n gs with Some u => u | None => None end.

Fixpoint prod_name (fuel : nat) (gs : gset) (name : str) : str :=
  match uni_of gs name with
  | Some u => uni_name u
  | None =>
      match fuel with
      | O => name
      | S f =>
          let try_liga :=
            let liga_parts :=
              match split1 DOT name with
              | Some (h, t) => map (fun n => n ++ [DOT] ++ t) (split_on USCORE h)
              | None => split_on USCORE name
              end in
            if Nat.ltb 1 (length liga_parts) && forallb (fun n => mem n (keys gs)) liga_parts then
              if forallb (fun n => match uni_of gs n with
                                   | Some v => negb (Z.eqb v 0) && Z.leb v 65535 | None => false end) liga_parts
              then [117; 110; 105] ++ flat_map (fun n => match uni_of gs n with Some v => hex_n 4 v | None => [] end) liga_parts
              else join [USCORE] (map (prod_name f gs) liga_parts)
            else name in
          match rsplit1 DOT name with
          | Some (base, suf) =>
              if mem base (keys gs) then prod_name f gs base ++ [DOT] ++ suf else try_liga
          | None => try_liga
          end
      end
  end.

Definition build_production_name (gs : gset) (ps : psnames) (name : str) : str :=
  match ps with
  | Some ((_ :: _) as m) =>
      match assoc name m with Some ((_ :: _) as p) => p | _ => name end
  | _ => prod_name (S (length name)) gs name
  end.

(* ---- _unique_name ---- *)
Definition seen_t := list (str * Z).

Fixpoint find_free (fuel : nat) (name : str) (n : Z) (seen : seen_t) : option Z :=
  match fuel with
  | O => None
  | S f => match assoc (name ++ [DOT] ++ dec n) seen with
           | Some _ => find_free f name (n + 1) seen
           | None => Some n
           end
  end.

Definition unique_name (name : str) (seen : seen_t) : option (str * seen_t) :=
  match assoc name seen with
  | Some n0 =>
      match find_free (S (length seen)) name n0 seen with
      | Some n => let name' := name ++ [DOT] ++ dec n in
                  Some (name', (name', 1) :: (name, n + 1) :: seen)
      | None => None
      end
  | None => Some (name, (name, 1) :: seen)
  end.

(* ---- _build_production_names over the glyph order ---- *)
Definition valid_name (gs : gset) (ps : psnames) (name : str) : str :=
  let prod := build_production_name gs ps name in
  if str_eqb name prod then strip_invalid name
  else let v := strip_invalid prod in
       if Nat.ltb max_glyph_name_length (length v) then strip_invalid name else v.

Fixpoint rename_map (gs : gset) (ps : psnames) (order : list str) (seen : seen_t) : option (list (str * str)) :=
  match order with
  | [] => Some []
  | name :: rest =>
      if mem name (keys gs) then
        match unique_name (valid_name gs ps name) seen with
        | Some (r, seen') => match rename_map gs ps rest seen' with
                             | Some m => Some ((name, r) :: m) | None => None end
        | None => None
        end
      else rename_map gs ps rest seen
  end.

Definition apply_rename (m : list (str * str)) (order : list str) : list str :=
  map (fun n => match assoc n m with Some r => r | None => n end) order.

(* ---- process_glyph_names decision table ---- *)
Inductive names_action := KeepNames | RenameToProduction | DropNames | DropUnsupportedCFF1.
(* arg: Some b / None; lib keys: keepGlyphNames, useProductionNames, dontUseProductionNames (option bool each) *)
Definition names_decision (arg : option bool) (keep_lib use_lib dont_lib : option bool) (has_ps : bool) (is_cff1 : bool)
  : names_action :=
  let '(keep, use_prod) :=
    match arg with
    | Some b => (true, b)
    | None =>
        (match keep_lib with Some b => b | None => true end,
         match use_lib with
         | Some b => b
         | None => negb (match dont_lib with Some b => b | None => false end) && has_ps
         end)
    end in
  if keep then (if use_prod then RenameToProduction else KeepNames)
  else if is_cff1 then DropUnsupportedCFF1 else DropNames.

(* the check applied to the implementation's rename map *)
Definition model_rename_eqb (gs : gset) (ps : psnames) (order : list str) (obs : list (str * str)) : bool :=
  match rename_map gs ps order [] with
  | Some m => list_eqb (fun a b => str_eqb (fst a) (fst b) && str_eqb (snd a) (snd b)) m obs
  | None => false
  end.
Definition spec_rename (gs : gset) (ps : psnames) (order : list str) (obs : list (str * str)) : bool :=
  (* final names unique, legal, and every glyph of the glyph set renamed exactly once, in order *)
  let final := apply_rename obs order in
  nodup_str final &&
  forallb (fun kv => forallb legal_char (snd kv)) obs &&
  list_eqb str_eqb (map fst obs) (filter (fun n => mem n (keys gs)) order) &&
  (* lib-supplied names are used where given (modulo stripping and the uniqueness suffix) *)
  match ps with
  | Some ((_ :: _) as m) =>
      forallb (fun kv => match assoc (fst kv) m with
                         | Some ((_ :: _) as p) =>
                             let v := strip_invalid p in
                             if Nat.ltb max_glyph_name_length (length v) then true
                             else (* snd kv = v or v ++ ".N" *)
                               list_eqb Z.eqb (firstn (length v) (snd kv)) v
                         | _ => true end) obs
  | _ => true
  end.
