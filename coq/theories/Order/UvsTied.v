(* C03 / C13: the translation of the variation-sequence loop of BaseOutlineCompiler.setupTable_cmap (Generated/Imp.v, rewritten
   from /repo's source on every run) IS the hand model `uvs_table` of Order/Uvs.v whenever no two selectors of the source are
   equal (a Python dict keyed by the selector: a second entry for the same selector would REPLACE the first) -- so the theorems
   about the model are theorems about what the code says now. *)
From Coq Require Import ZArith List Bool.
From U2F Require Import Base.Prelude Order.GlyphOrder Order.Uvs Order.UvsProofs Generated.Imp Order.GlyphOrderTied.
Import ListNotations.
Open Scope Z_scope.

Lemma inner_is_uvs_one gs m (l : list (Z * str)) : forall acc,
  fold_left (tr_uvs_inner gs m) l acc = acc ++ flat_map (uvs_one gs m) l.
Proof.
  induction l as [|[v g] l IH]; intro acc; cbn [fold_left flat_map]; [now rewrite app_nil_r|].
  rewrite IH. unfold tr_uvs_inner, uvs_one. cbn [fst snd]. cbv zeta.
  destruct (mem g gs); cbn [negb]; [|reflexivity].
  rewrite zfind_zassoc. destruct (zassoc v m) as [g'|]; cbn [ostr_eqb].
  - destruct (str_eqb g g'); rewrite <- app_assoc; reflexivity.
  - rewrite <- app_assoc. reflexivity.
Qed.

Lemma dset_absent {V} k (v : V) m : ~ In k (map fst m) -> dset k v m = m ++ [(k, v)].
Proof.
  induction m as [|[k' v'] m IH]; intro H; cbn [dset app]; [reflexivity|].
  cbn [map fst In] in H. destruct (Z.eqb_spec k k') as [E|E]; [exfalso; apply H; left; congruence|].
  rewrite IH; [reflexivity|]. intro Hin. apply H. right. exact Hin.
Qed.

Lemma outer_is_uvs_table gs m (src : uvs_src) : forall acc,
  NoDup (map fst src) -> (forall k, In k (map fst src) -> ~ In k (map fst acc)) ->
  fold_left (tr_uvs_outer gs m) src acc = acc ++ uvs_table gs m src.
Proof.
  induction src as [|[vs seqs] src IH]; intros acc Hnd Hdis; cbn [fold_left]; [unfold uvs_table; cbn; now rewrite app_nil_r|].
  cbn [map fst] in Hnd, Hdis. inversion Hnd as [|? ? Hnotin Hnd']; subst.
  unfold tr_uvs_outer at 2. cbv zeta. rewrite inner_is_uvs_one. cbn [app].
  unfold uvs_table. cbn [flat_map fst snd]. fold (uvs_table gs m src).
  destruct (flat_map (uvs_one gs m) seqs) as [|x l] eqn:El.
  - cbn [app]. apply IH; [exact Hnd'|]. intros k Hk. apply Hdis. right. exact Hk.
  - rewrite dset_absent by (apply Hdis; left; reflexivity).
    rewrite IH; [rewrite <- app_assoc; reflexivity | exact Hnd' |].
    intros k Hk. rewrite map_app, in_app_iff. cbn [map fst In]. intros [Hin | [E | []]].
    + revert Hin. apply Hdis. right. exact Hk.
    + subst k. exact (Hnotin Hk).
Qed.

Theorem translated_uvs_is_the_model gs m (src : uvs_src) :
  NoDup (map fst src) -> tr_uvs gs m src = uvs_table gs m src.
Proof. intro H. unfold tr_uvs. rewrite outer_is_uvs_table; [reflexivity | exact H | intros k _ []]. Qed.

(* the theorems of the model, restated for the translated code *)
Theorem code_uvs_sound gs m src vs l x :
  NoDup (map fst src) -> In (vs, l) (tr_uvs gs m src) -> In x l ->
  exists seqs e, In (vs, seqs) src /\ In e seqs /\ mem (snd e) gs = true /\ fst x = fst e /\
                 (snd x = None <-> zassoc (fst e) m = Some (snd e)) /\ (forall g, snd x = Some g -> g = snd e).
Proof. intro H. rewrite translated_uvs_is_the_model by exact H. apply uvs_table_sound. Qed.

Theorem code_uvs_complete gs m src vs seqs e :
  NoDup (map fst src) -> In (vs, seqs) src -> In e seqs -> mem (snd e) gs = true ->
  exists l x, In (vs, l) (tr_uvs gs m src) /\ In x l /\ fst x = fst e.
Proof. intro H. rewrite translated_uvs_is_the_model by exact H. apply uvs_table_complete. Qed.

Theorem code_uvs_names_exported_glyphs_only gs m src vs l x g :
  NoDup (map fst src) -> In (vs, l) (tr_uvs gs m src) -> In x l -> snd x = Some g -> mem g gs = true.
Proof. intro H. rewrite translated_uvs_is_the_model by exact H. apply uvs_table_names_exported_glyphs_only. Qed.

Theorem code_uvs_no_empty_selector gs m src vs : NoDup (map fst src) -> ~ In (vs, []) (tr_uvs gs m src).
Proof. intro H. rewrite translated_uvs_is_the_model by exact H. apply uvs_table_no_empty_selector. Qed.

(* the dict semantics the hypothesis excludes: a repeated selector REPLACES the earlier entry, in place *)
Example code_uvs_repeated_selector_replaces :
  tr_uvs [[97]] [] [(65024, [(65, [97])]); (65025, [(66, [97])]); (65024, [(67, [97])])]
  = [(65024, [(67, Some [97])]); (65025, [(66, Some [97])])].
Proof. vm_compute. reflexivity. Qed.
