From Coq Require Import ZArith List Bool.
From U2F Require Import Base.Prelude Order.GlyphOrder.
From U2F Require Import Order.Uvs.
Import ListNotations.
Open Scope Z_scope.

Lemma uvs_one_in glyphset m e x : In x (uvs_one glyphset m e) ->
  mem (snd e) glyphset = true /\ fst x = fst e /\
  (snd x = None <-> zassoc (fst e) m = Some (snd e)) /\ (forall g, snd x = Some g -> g = snd e).
Proof.
  unfold uvs_one. destruct (mem (snd e) glyphset) eqn:M; [|intros []]. intros [H|[]]. subst x. cbn [fst snd].
  split; [reflexivity|]. split; [reflexivity|].
  destruct (zassoc (fst e) m) as [g|] eqn:Z.
  - destruct (str_eqb (snd e) g) eqn:E.
    + apply str_eqb_eq in E. subst g. split; [tauto|]. intros g' H. discriminate.
    + split; [split; [discriminate|]|].
      * intro H. inversion H. subst g. rewrite str_eqb_refl in E. discriminate.
      * intros g' H. inversion H. reflexivity.
  - split; [split; discriminate|]. intros g' H. inversion H. reflexivity.
Qed.

(* SOUND: every stored sequence comes from the lib, names an exported glyph, and is a default sequence exactly when that
   glyph is what the character map gives the base *)
Theorem uvs_table_sound glyphset m src vs l x :
  In (vs, l) (uvs_table glyphset m src) -> In x l ->
  exists seqs e, In (vs, seqs) src /\ In e seqs /\ mem (snd e) glyphset = true /\ fst x = fst e /\
                 (snd x = None <-> zassoc (fst e) m = Some (snd e)) /\ (forall g, snd x = Some g -> g = snd e).
Proof.
  unfold uvs_table. intros H Hx. apply in_flat_map in H. destruct H as [[vs' seqs] [Hs H]]. cbn [fst snd] in H.
  destruct (flat_map (uvs_one glyphset m) seqs) as [|y l'] eqn:F; [destruct H|].
  destruct H as [H|[]]. inversion H. subst vs' l. clear H.
  rewrite <- F in Hx. apply in_flat_map in Hx. destruct Hx as [e [He Hx]].
  exists seqs, e. split; [exact Hs|]. split; [exact He|]. exact (uvs_one_in _ _ _ _ Hx).
Qed.

(* COMPLETE: a sequence of the lib whose glyph is exported is stored under its selector *)
Theorem uvs_table_complete glyphset m src vs seqs e :
  In (vs, seqs) src -> In e seqs -> mem (snd e) glyphset = true ->
  exists l x, In (vs, l) (uvs_table glyphset m src) /\ In x l /\ fst x = fst e.
Proof.
  intros Hs He M.
  assert (Hx : exists x, In x (flat_map (uvs_one glyphset m) seqs) /\ fst x = fst e).
  { unfold uvs_one at 1. eexists. split.
    - apply in_flat_map. exists e. split; [exact He|]. unfold uvs_one. rewrite M. left. reflexivity.
    - reflexivity. }
  destruct Hx as [x [Hx Hf]].
  exists (flat_map (uvs_one glyphset m) seqs), x. split; [|split; [exact Hx|exact Hf]].
  unfold uvs_table. apply in_flat_map. exists (vs, seqs). split; [exact Hs|]. cbn [fst snd].
  destruct (flat_map (uvs_one glyphset m) seqs) as [|y l']; [destruct Hx|]. left. reflexivity.
Qed.

(* a sequence whose glyph is NOT exported is stored nowhere: nothing in the table names a glyph outside the glyph set, and a
   selector is listed only with at least one sequence *)
Theorem uvs_table_names_exported_glyphs_only glyphset m src vs l x g :
  In (vs, l) (uvs_table glyphset m src) -> In x l -> snd x = Some g -> mem g glyphset = true.
Proof.
  intros H Hx Hg. destruct (uvs_table_sound _ _ _ _ _ _ H Hx) as [seqs [e [_ [_ [M [_ [_ K]]]]]]].
  rewrite (K g Hg). exact M.
Qed.

Theorem uvs_table_no_empty_selector glyphset m src vs : ~ In (vs, []) (uvs_table glyphset m src).
Proof.
  unfold uvs_table. intro H. apply in_flat_map in H. destruct H as [[vs' seqs] [_ H]]. cbn [fst snd] in H.
  destruct (flat_map (uvs_one glyphset m) seqs) as [|y l']; [destruct H|]. destruct H as [H|[]]. discriminate.
Qed.

(* before the repair a sequence naming a non-exported glyph was stored all the same *)
Example uvs_v0_stored_a_missing_glyph :
  let glyphset := [[97]] in let m := [(97, [97])] in let src := [(65024, [(97, [97; 46; 118])])] in
  uvs_table glyphset m src = [] /\ has_uvs_subtable glyphset m src = false.
Proof. vm_compute. auto. Qed.
