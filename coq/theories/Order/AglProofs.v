From Coq Require Import ZArith List Bool Lia.
From U2F Require Import Base.Prelude Order.ProdNames Order.Agl.
Import ListNotations.
Open Scope Z_scope.

Lemma hex_digit_range d : 0 <= d < 16 ->
  (48 <= hex_digit d <= 57 \/ 65 <= hex_digit d <= 70).
Proof. intro H. unfold hex_digit. destruct (Z.ltb_spec d 10); lia. Qed.

Lemma hex_digit_val_digit d : 0 <= d < 16 -> hex_digit_val (hex_digit d) = Some d.
Proof.
  intro H. unfold hex_digit_val, hex_digit. destruct (Z.ltb_spec d 10).
  - replace ((48 <=? 48 + d) && (48 + d <=? 57)) with true by (symmetry; apply andb_true_iff; split; apply Z.leb_le; lia).
    f_equal. lia.
  - replace ((48 <=? 55 + d) && (55 + d <=? 57)) with false
      by (symmetry; apply andb_false_iff; right; apply Z.leb_gt; lia).
    replace ((65 <=? 55 + d) && (55 + d <=? 70)) with true by (symmetry; apply andb_true_iff; split; apply Z.leb_le; lia).
    f_equal. lia.
Qed.

Lemma hex_val_acc_app acc s1 s2 :
  hex_val_acc acc (s1 ++ s2) = match hex_val_acc acc s1 with Some a => hex_val_acc a s2 | None => None end.
Proof.
  revert acc. induction s1 as [|c s1 IH]; intro acc; cbn [app hex_val_acc]; [reflexivity|].
  destruct (hex_digit_val c); [apply IH|reflexivity].
Qed.

Lemma hex_n_length n v : length (hex_n n v) = n.
Proof. revert v. induction n as [|n IH]; intro v; cbn [hex_n]; [reflexivity|]. rewrite app_length, IH. cbn. lia. Qed.

(* parsing n printed digits gives the value back (mod 16^n), on top of any accumulator *)
Lemma hex_val_acc_hex_n n : forall v acc, 0 <= v ->
  hex_val_acc acc (hex_n n v) = Some (acc * 16 ^ Z.of_nat n + v mod 16 ^ Z.of_nat n).
Proof.
  induction n as [|n IH]; intros v acc Hv.
  - cbn [hex_n hex_val_acc]. change (16 ^ Z.of_nat 0) with 1. rewrite Z.mod_1_r. f_equal. lia.
  - cbn [hex_n]. rewrite hex_val_acc_app. rewrite (IH (v / 16) acc) by (apply Z.div_pos; lia).
    cbn [hex_val_acc]. rewrite hex_digit_val_digit by (apply Z.mod_pos_bound; lia).
    f_equal. rewrite Nat2Z.inj_succ, Z.pow_succ_r by lia.
    assert (0 < 16 ^ Z.of_nat n) as Hp by (apply Z.pow_pos_nonneg; lia).
    rewrite (Z.rem_mul_r v 16 (16 ^ Z.of_nat n)) by lia. ring.
Qed.

Lemma hex_val_hex_n n v : 0 <= v < 16 ^ Z.of_nat n -> hex_val (hex_n n v) = Some v.
Proof.
  intro H. unfold hex_val. rewrite hex_val_acc_hex_n by lia. rewrite Z.mod_small by lia. f_equal; try lia.
Qed.

Lemma starts_app p r : starts p (p ++ r) = true.
Proof.
  unfold starts. rewrite firstn_app, Nat.sub_diag, firstn_all. cbn [firstn]. rewrite app_nil_r.
  apply (proj2 (list_eqb_spec Z.eqb Z.eqb_eq p p)). reflexivity.
Qed.

Lemma skipn_app_exact {A} (p r : list A) : skipn (length p) (p ++ r) = r.
Proof. rewrite skipn_app, skipn_all, Nat.sub_diag. reflexivity. Qed.

Lemma firstn_app_exact {A} (p r : list A) : firstn (length p) (p ++ r) = p.
Proof. rewrite firstn_app, Nat.sub_diag, firstn_all. cbn [firstn]. apply app_nil_r. Qed.

(* groups of four digits *)
Lemma chunks4_flat vs : forall fuel,
  (length vs < fuel)%nat -> Forall (fun v => 0 <= v <= 65535) vs ->
  chunks4 fuel (flat_map (hex_n 4) vs) = Some vs.
Proof.
  induction vs as [|v vs IH]; intros fuel Hf Hall; (destruct fuel as [|fuel]; [cbn in Hf; lia|]).
  - reflexivity.
  - inversion Hall as [|? ? Hv Hrest]; subst. cbn [flat_map].
    unfold chunks4; fold chunks4.
    destruct (hex_n 4 v ++ flat_map (hex_n 4) vs) as [|c0 r0] eqn:E.
    { exfalso. assert (length (hex_n 4 v ++ flat_map (hex_n 4) vs) = 0%nat) as L by (rewrite E; reflexivity).
      rewrite app_length, hex_n_length in L. lia. }
    rewrite <- E. clear E c0 r0.
    assert (Nat.ltb (length (hex_n 4 v ++ flat_map (hex_n 4) vs)) 4 = false) as ->
      by (apply Nat.ltb_ge; rewrite app_length, hex_n_length; lia).
    assert (firstn 4 (hex_n 4 v ++ flat_map (hex_n 4) vs) = hex_n 4 v) as ->.
    { transitivity (firstn (length (hex_n 4 v)) (hex_n 4 v ++ flat_map (hex_n 4) vs)); [rewrite hex_n_length; reflexivity|].
      apply firstn_app_exact. }
    assert (skipn 4 (hex_n 4 v ++ flat_map (hex_n 4) vs) = flat_map (hex_n 4) vs) as ->.
    { transitivity (skipn (length (hex_n 4 v)) (hex_n 4 v ++ flat_map (hex_n 4) vs)); [rewrite hex_n_length; reflexivity|].
      apply skipn_app_exact. }
    rewrite hex_val_hex_n by (change (16 ^ Z.of_nat 4) with 65536; lia).
    rewrite IH; [reflexivity|cbn in Hf; lia|exact Hrest].
Qed.

(* MAIN 1: a BMP code point's generated name reads back as that code point *)
Theorem uni_name_decodes_bmp u : 0 <= u <= 65535 -> agl_component (uni_name u) = Some [u].
Proof.
  intro H. unfold uni_name. replace (65535 <? u) with false by (symmetry; apply Z.ltb_ge; lia).
  unfold hex04. replace (u <? 65536) with true by (symmetry; apply Z.ltb_lt; lia).
  unfold agl_component. change [117; 110; 105] with UNI. rewrite starts_app.
  change 3%nat with (length UNI). rewrite skipn_app_exact.
  assert (hex_n 4 u = flat_map (hex_n 4) [u]) as E by (cbn [flat_map]; rewrite app_nil_r; reflexivity).
  rewrite E at 2.
  apply chunks4_flat; [cbn [length app]; rewrite app_length, hex_n_length; cbn; lia|constructor; [lia|constructor]].
Qed.

Lemma flat_hex_length vs : length (flat_map (hex_n 4) vs) = (4 * length vs)%nat.
Proof. induction vs as [|v vs IH]; [reflexivity|]. cbn [flat_map]. rewrite app_length, hex_n_length, IH. cbn [length]. lia. Qed.

(* MAIN 2: a ligature of BMP code points "uni" + 4 digits each reads back as the sequence *)
Theorem uni_ligature_decodes vs :
  Forall (fun v => 0 <= v <= 65535) vs ->
  agl_component (UNI ++ flat_map (hex_n 4) vs) = Some vs.
Proof.
  intro H. unfold agl_component. rewrite starts_app. unfold UNI. cbn [app skipn length].
  apply chunks4_flat; [|exact H]. rewrite flat_hex_length. lia.
Qed.

Lemma starts_uni_false c r : c <> 110 -> starts UNI (117 :: c :: r) = false.
Proof.
  intro H. unfold starts, UNI. cbn [length firstn]. destruct r as [|x r]; cbn [firstn list_eqb];
  (replace (c =? 110) with false by (symmetry; apply Z.eqb_neq; exact H)); rewrite ?andb_false_r; reflexivity.
Qed.

Lemma hex_digit_not_n d : 0 <= d < 16 -> hex_digit d <> 110.
Proof. intro H. destruct (hex_digit_range d H); lia. Qed.

(* MAIN 3: a supplementary code point's generated name "u" + 5 or 6 digits reads back as that code point *)
Theorem uni_name_decodes_supplementary u : 65535 < u <= 1114111 -> agl_component (uni_name u) = Some [u].
Proof.
  intro H. unfold uni_name. replace (65535 <? u) with true by (symmetry; apply Z.ltb_lt; lia).
  unfold hex04. replace (u <? 65536) with false by (symmetry; apply Z.ltb_ge; lia).
  destruct (Z.ltb_spec u 1048576) as [H5|H5].
  - (* five digits *)
    assert (hex_val (hex_n 5 u) = Some u) as Hv by (apply hex_val_hex_n; change (16 ^ Z.of_nat 5) with 1048576; lia).
    assert (length (hex_n 5 u) = 5%nat) as Hl by apply hex_n_length.
    revert Hv Hl. cbn [hex_n app]. set (d4 := hex_digit (u / 16 / 16 / 16 / 16 mod 16)). intros Hv Hl.
    unfold agl_component. cbn [app].
    rewrite starts_uni_false by (apply hex_digit_not_n; apply Z.mod_pos_bound; lia).
    cbn [starts UU length firstn list_eqb skipn]. rewrite Z.eqb_refl. cbn [andb].
    cbn [length Nat.leb andb]. rewrite Hv. reflexivity.
  - replace (u <? 16777216) with true by (symmetry; apply Z.ltb_lt; lia).
    assert (hex_val (hex_n 6 u) = Some u) as Hv by (apply hex_val_hex_n; change (16 ^ Z.of_nat 6) with 16777216; lia).
    revert Hv. cbn [hex_n app]. set (d5 := hex_digit (u / 16 / 16 / 16 / 16 / 16 mod 16)). intros Hv.
    unfold agl_component. cbn [app].
    rewrite starts_uni_false by (apply hex_digit_not_n; apply Z.mod_pos_bound; lia).
    cbn [starts UU length firstn list_eqb skipn]. rewrite Z.eqb_refl. cbn [andb].
    cbn [length Nat.leb andb]. rewrite Hv. reflexivity.
Qed.

Example agl_examples :
  agl_decode [117;110;105;48;48;54;54;95;117;49;70;54;48;48;46;97;108;116] = Some [102; 128512] /\   (* uni0066_u1F600.alt *)
  agl_decode [117;110;105;48;48;54;54;49;70;54;48;48] = None.                                             (* uni00661F600 *)
Proof. split; reflexivity. Qed.

(* hence the production name generated for ANY encoded glyph (no lib-supplied name) reads back as its code point *)
Theorem prod_name_encoded_decodes fuel gs name u :
  uni_of gs name = Some u -> 0 <= u <= 1114111 -> agl_component (prod_name fuel gs name) = Some [u].
Proof.
  intros E H. assert (prod_name fuel gs name = uni_name u) as -> by (destruct fuel; cbn [prod_name]; rewrite E; reflexivity).
  destruct (Z_le_gt_dec u 65535); [apply uni_name_decodes_bmp|apply uni_name_decodes_supplementary]; lia.
Qed.
