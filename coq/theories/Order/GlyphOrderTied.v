(* C03: makeOfficialGlyphOrder and makeUnicodeToGlyphNameMapping as TRANSLATED from /repo's util.py on this run (Generated/Imp.v: the imperative code,
   statement by statement, over the state (names, order)) is the hand model `glyph_order` of Order/GlyphOrder.v -- so the
   theorems of GlyphOrderProofs.v are theorems about the code as it reads now. *)
From Coq Require Import ZArith List Bool.
From U2F Require Import Base.Prelude Order.GlyphOrder Order.GlyphOrderProofs Generated.Imp.
Import ListNotations.
Open Scope Z_scope.

Lemma remove_str_notin x l : mem x l = false -> remove_str x l = l.
Proof.
  intro H. unfold remove_str. induction l as [|y l IH]; simpl in *; [reflexivity|].
  apply orb_false_iff in H. destruct H as [H1 H2]. rewrite H1. simpl. f_equal. apply IH. exact H2.
Qed.

(* the translated loop body, started with a prefix already in `order`, is the model's step *)
Lemma loop_is_go_step l : forall names acc p,
  fold_left tr_glyph_order_loop1 l (names, p ++ acc) =
  (snd (fold_left go_step l (acc, names)), p ++ fst (fold_left go_step l (acc, names))).
Proof.
  induction l as [|n l IH]; intros names acc p; cbn [fold_left]; [reflexivity|].
  unfold tr_glyph_order_loop1 at 2. unfold go_step at 2 4.
  destruct (mem n names) eqn:E; cbn [negb].
  - rewrite <- app_assoc. apply IH.
  - apply IH.
Qed.

Theorem translated_glyph_order_is_the_model keys order : tr_glyph_order keys order = glyph_order keys order.
Proof.
  unfold tr_glyph_order, glyph_order. fold notdef.
  destruct (mem notdef keys) eqn:E.
  - cbn [app]. pose proof (loop_is_go_step order (remove_str notdef keys) [] [notdef]) as H.
    cbn [app] in H. rewrite H.
    destruct (fold_left go_step order ([], remove_str notdef keys)) as [listed rest]. cbn [fst snd app].
    reflexivity.
  - rewrite (remove_str_notin _ _ E).
    pose proof (loop_is_go_step order keys [] []) as H. cbn [app] in H. rewrite H.
    destruct (fold_left go_step order ([], keys)) as [listed rest]. cbn [fst snd app]. reflexivity.
Qed.

(* the theorems of GlyphOrderProofs.v, about the translated code *)
Theorem code_order_shape keys order :
  tr_glyph_order (if mem notdef keys then keys else keys ++ [notdef]) order = spec_compiled_order keys order.
Proof. rewrite translated_glyph_order_is_the_model. exact (compiled_order_spec keys order). Qed.

Theorem code_order_exactly_once keys order :
  NoDup keys -> Permutation (tr_glyph_order keys order) keys /\ NoDup (tr_glyph_order keys order).
Proof. rewrite translated_glyph_order_is_the_model. exact (glyph_order_perm keys order). Qed.

Example code_order_example :
  tr_glyph_order [[98]; notdef; [97]; [99]] [[99]; [120]; [99]; [97]] = [notdef; [99]; [97]; [98]].
Proof. vm_compute. reflexivity. Qed.

(* ---- makeUnicodeToGlyphNameMapping ---- *)
Lemma zfind_zassoc k m : zfind k m = zassoc k m.
Proof. induction m as [|[k' v] m IH]; cbn [zfind zassoc]; [reflexivity|]. destruct (Z.eqb k k'); [reflexivity|exact IH]. Qed.

Lemma zset_absent k v m : zfind k m = None -> zset k v m = m ++ [(k, v)].
Proof.
  induction m as [|[k' v'] m IH]; cbn [zfind zset app]; intro H; [reflexivity|].
  destruct (Z.eqb k k'); [discriminate|]. rewrite IH by exact H. reflexivity.
Qed.

(* what the hand model's result looks like in the translated code's state *)
Definition u2g_state (r : u2g_res) (st : list (Z * str) * option (str * Z * str)) : Prop :=
  match r with
  | U2G_ok m => st = (m, None)
  | U2G_dup cp g prev => exists m, st = (m, Some (g, cp, prev))
  end.

Lemma inner_sticky g us0 us : forall m e, fold_left (tr_u2g_loop1 g us0) us (m, Some e) = (m, Some e).
Proof. induction us as [|u us IH]; intros m e; cbn [fold_left]; [reflexivity|]. cbn [tr_u2g_loop1]. apply IH. Qed.

Lemma inner_is_u2g_glyph g us0 us : forall m,
  u2g_state (u2g_glyph g us m) (fold_left (tr_u2g_loop1 g us0) us (m, None)).
Proof.
  induction us as [|u us IH]; intro m; cbn [fold_left u2g_glyph]; [reflexivity|].
  unfold tr_u2g_loop1 at 2. unfold zmem, zget. rewrite zfind_zassoc.
  destruct (zassoc u m) as [prev|] eqn:E; cbn [negb].
  - rewrite inner_sticky. exists m. reflexivity.
  - rewrite zset_absent by (rewrite zfind_zassoc; exact E). apply IH.
Qed.

Lemma outer_sticky gl : forall m e, fold_left tr_u2g_loop2 gl (m, Some e) = (m, Some e).
Proof. induction gl as [|[g us] gl IH]; intros m e; cbn [fold_left]; [reflexivity|]. cbn [tr_u2g_loop2]. apply IH. Qed.

Lemma outer_is_u2g gl : forall m, u2g_state (u2g gl m) (fold_left tr_u2g_loop2 gl (m, None)).
Proof.
  induction gl as [|[g us] gl IH]; intro m; cbn [fold_left u2g]; [reflexivity|].
  unfold tr_u2g_loop2 at 2. cbv beta iota zeta.
  pose proof (inner_is_u2g_glyph g us us m) as H.
  destruct (u2g_glyph g us m) as [m'|cp g' prev]; cbn [u2g_state] in H; unfold cmapping in *.
  - rewrite H. apply IH.
  - destruct H as [m'' H]. rewrite H. rewrite outer_sticky. exists m''. reflexivity.
Qed.

Theorem translated_u2g_is_the_model gl :
  tr_u2g gl = match u2g gl [] with U2G_ok m => inl m | U2G_dup cp g prev => inr (g, cp, prev) end.
Proof.
  unfold tr_u2g. pose proof (outer_is_u2g gl []) as H.
  destruct (u2g gl []) as [m|cp g prev]; cbn [u2g_state] in H; unfold cmapping in *.
  - rewrite H. reflexivity.
  - destruct H as [m H]. rewrite H. reflexivity.
Qed.

(* the theorems of GlyphOrderProofs.v, about the translated code: the mapping is returned exactly when no code point is
   declared twice, and it is then the list of (code point, glyph) pairs in glyph order *)
Theorem code_u2g_ok_iff_no_duplicate gl : tr_u2g gl = inl (pairs_of gl) <-> has_duplicate_cp gl = false.
Proof.
  rewrite translated_u2g_is_the_model. split.
  - intro H. apply u2g_error_iff_duplicate. destruct (u2g gl []) as [m|cp g prev]; [|discriminate].
    injection H as H. exists m. split; [reflexivity|exact H].
  - intro H. apply u2g_error_iff_duplicate in H. destruct H as [m [H1 H2]]. rewrite H1, H2. reflexivity.
Qed.

Theorem code_u2g_raises_iff_duplicate gl : (exists e, tr_u2g gl = inr e) <-> has_duplicate_cp gl = true.
Proof.
  split.
  - intros [e He]. destruct (has_duplicate_cp gl) eqn:E; [reflexivity|].
    apply code_u2g_ok_iff_no_duplicate in E. rewrite E in He. discriminate.
  - intro E. unfold has_duplicate_cp in E. rewrite negb_true_iff in E.
    assert (~ NoDup (flat_map snd gl)) as N by (intro N; apply nodup_z_NoDup in N; congruence).
    destruct (u2g_dup gl [] (NoDup_nil _) N) as [cp [g [prev U]]].
    rewrite translated_u2g_is_the_model, U. eexists. reflexivity.
Qed.

(* the returned mapping sends a code point to the glyph that declares it, and to nothing else *)
Theorem code_cmap_sound_complete gl m cp g :
  tr_u2g gl = inl m -> (zassoc cp m = Some g <-> exists us, In (g, us) gl /\ In cp us).
Proof.
  intro H.
  assert (has_duplicate_cp gl = false) as D.
  { destruct (has_duplicate_cp gl) eqn:E; [|reflexivity].
    apply code_u2g_raises_iff_duplicate in E. destruct E as [e E]. rewrite E in H. discriminate. }
  pose proof (proj2 (code_u2g_ok_iff_no_duplicate gl) D) as K. rewrite K in H. injection H as H. subst m.
  apply u2g_sound_complete. unfold has_duplicate_cp in D. rewrite negb_false_iff in D. apply nodup_z_NoDup. exact D.
Qed.

Example code_u2g_example :
  tr_u2g [([97], [97; 65]); ([98], [98])] = inl [(97, [97]); (65, [97]); (98, [98])] /\
  tr_u2g [([97], [97]); ([98], [98; 97])] = inr ([98], 97, [97]).
Proof. split; vm_compute; reflexivity. Qed.
