(* C03: makeOfficialGlyphOrder as TRANSLATED from /repo's util.py on this run (Generated/Imp.v: the imperative code,
   statement by statement, over the state (names, order)) is the hand model `glyph_order` of Order/GlyphOrder.v -- so the
   theorems of GlyphOrderProofs.v are theorems about the code as it reads now. *)
From Coq Require Import ZArith List Bool.
From U2F Require Import Base.Prelude Order.GlyphOrder Order.GlyphOrderProofs Generated.Imp.
Import ListNotations.
Open Scope Z_scope.

Lemma remove_str_notin x l : mem x l = false -> remove_str x l = l.
Proof.
  intro H. unfold remove_str. induction l as [|y l IH]; simpl in *; [reflexivity|].
  apply orb_false_iff in H. destruct H as [H1 H2]. rewrite H1. simpl. f_equal. apply IH. exact H2.
Qed.

(* the translated loop body, started with a prefix already in `order`, is the model's step *)
Lemma loop_is_go_step l : forall names acc p,
  fold_left tr_glyph_order_loop1 l (names, p ++ acc) =
  (snd (fold_left go_step l (acc, names)), p ++ fst (fold_left go_step l (acc, names))).
Proof.
  induction l as [|n l IH]; intros names acc p; cbn [fold_left]; [reflexivity|].
  unfold tr_glyph_order_loop1 at 2. unfold go_step at 2 4.
  destruct (mem n names) eqn:E; cbn [negb].
  - rewrite <- app_assoc. apply IH.
  - apply IH.
Qed.

Theorem translated_glyph_order_is_the_model keys order : tr_glyph_order keys order = glyph_order keys order.
Proof.
  unfold tr_glyph_order, glyph_order. fold notdef.
  destruct (mem notdef keys) eqn:E.
  - cbn [app]. pose proof (loop_is_go_step order (remove_str notdef keys) [] [notdef]) as H.
    cbn [app] in H. rewrite H.
    destruct (fold_left go_step order ([], remove_str notdef keys)) as [listed rest]. cbn [fst snd app].
    reflexivity.
  - rewrite (remove_str_notin _ _ E).
    pose proof (loop_is_go_step order keys [] []) as H. cbn [app] in H. rewrite H.
    destruct (fold_left go_step order ([], keys)) as [listed rest]. cbn [fst snd app]. reflexivity.
Qed.

(* the theorems of GlyphOrderProofs.v, about the translated code *)
Theorem code_order_shape keys order :
  tr_glyph_order (if mem notdef keys then keys else keys ++ [notdef]) order = spec_compiled_order keys order.
Proof. rewrite translated_glyph_order_is_the_model. exact (compiled_order_spec keys order). Qed.

Theorem code_order_exactly_once keys order :
  NoDup keys -> Permutation (tr_glyph_order keys order) keys /\ NoDup (tr_glyph_order keys order).
Proof. rewrite translated_glyph_order_is_the_model. exact (glyph_order_perm keys order). Qed.

Example code_order_example :
  tr_glyph_order [[98]; notdef; [97]; [99]] [[99]; [120]; [99]; [97]] = [notdef; [99]; [97]; [98]].
Proof. vm_compute. reflexivity. Qed.
