(* Model of ufo2ft.util.makeOfficialGlyphOrder, makeUnicodeToGlyphNameMapping and
   outlineCompiler.setupTable_cmap (C03).  Definitions only; proofs are in
   GlyphOrderProofs.v so the model still runs when a proof breaks. *)
From U2F Require Export Base.Prelude.
From U2F Require Import Generated.Constants.
Open Scope Z_scope.

Definition notdef : str := [46; 110; 111; 116; 100; 101; 102].   (* ".notdef" *)

(* ---- makeOfficialGlyphOrder ------------------------------------------- *)
(* `names` is a Python set: removal semantics, so a name listed twice or not in
   the font is skipped. *)
Definition go_step (st : list str * list str) (n : str) : list str * list str :=
  let '(acc, names) := st in
  if mem n names then (acc ++ [n], remove_str n names) else (acc, names).

Definition glyph_order (keys order : list str) : list str :=
  let pre := if mem notdef keys then [notdef] else [] in
  let names0 := remove_str notdef keys in
  let '(listed, rest) := fold_left go_step order ([], names0) in
  pre ++ listed ++ sort_str rest.

(* BaseOutlineCompiler.__init__: makeMissingRequiredGlyphs, then the order *)
Definition compiled_glyph_order (keys order : list str) : list str :=
  glyph_order (if mem notdef keys then keys else keys ++ [notdef]) order.

(* ---- declarative restatement (the property's wording) ------------------ *)
(* keep the first occurrence of every name *)
Fixpoint first_occ (seen l : list str) : list str :=
  match l with
  | [] => []
  | x :: l' => if mem x seen then first_occ seen l' else x :: first_occ (x :: seen) l'
  end.

Definition spec_order (keys order : list str) : list str :=
  (if mem notdef keys then [notdef] else []) ++
  first_occ [] (filter (fun n => mem n keys && negb (str_eqb notdef n)) order) ++
  sort_str (filter (fun k => negb (mem k order)) (remove_str notdef keys)).

Definition spec_compiled_order (keys order : list str) : list str :=
  [notdef] ++
  first_occ [] (filter (fun n => mem n keys && negb (str_eqb notdef n)) order) ++
  sort_str (filter (fun k => negb (mem k order)) (remove_str notdef keys)).

(* ---- makeUnicodeToGlyphNameMapping ------------------------------------- *)
Definition cmapping := list (Z * str).            (* insertion-ordered dict *)

Fixpoint zassoc {V} (k : Z) (l : list (Z * V)) : option V :=
  match l with [] => None | (k', v) :: l' => if Z.eqb k k' then Some v else zassoc k l' end.

Inductive u2g_res :=
| U2G_ok (m : cmapping)
| U2G_dup (cp : Z) (g prev : str).        (* InvalidFontData *)

Fixpoint u2g_glyph (g : str) (us : list Z) (m : cmapping) : u2g_res :=
  match us with
  | [] => U2G_ok m
  | u :: us' =>
      match zassoc u m with
      | None => u2g_glyph g us' (m ++ [(u, g)])
      | Some prev => U2G_dup u g prev
      end
  end.

(* glyphs: the glyph order paired with each glyph's unicodes list *)
Fixpoint u2g (glyphs : list (str * list Z)) (m : cmapping) : u2g_res :=
  match glyphs with
  | [] => U2G_ok m
  | (g, us) :: rest =>
      match u2g_glyph g us m with
      | U2G_ok m' => u2g rest m'
      | e => e
      end
  end.

(* ---- setupTable_cmap ----------------------------------------------------- *)
Record cmap_tables := { cmap4 : cmapping; cmap12 : option cmapping }.

Definition make_cmap (m : cmapping) : cmap_tables :=
  let nonbmp := filter (fun kv => Z.ltb cmap_nonbmp_gt (fst kv)) m in
  match nonbmp with
  | [] => {| cmap4 := m; cmap12 := None |}
  | _ =>
      let bmp := filter (fun kv => Z.leb (fst kv) cmap_bmp_le) m in
      (* nonBMP.update(mapping): key order is non-BMP first; as a dict the order
         is immaterial for the table, we keep Python's for the structural check *)
      {| cmap4 := bmp; cmap12 := Some (nonbmp ++ bmp) |}
  end.

(* unicode variation sequences: (value, glyph) -> default (None) or non-default *)
Definition uvs_entry (m : cmapping) (e : Z * str) : option (Z * option str) :=
  match zassoc (fst e) m with
  | None => None                                  (* KeyError in Python *)
  | Some g => Some (fst e, if str_eqb (snd e) g then None else Some (snd e))
  end.

(* ---- specification checker applied to an observation -------------------- *)
(* input: glyph set keys (NoDup), requested order, unicodes per glyph;
   observation: the compiled font's glyph order and the four cmap subtables
   as sorted (cp, glyph) lists, or the error. *)
Definition zpair_eqb (a b : Z * str) : bool := Z.eqb (fst a) (fst b) && str_eqb (snd a) (snd b).

Fixpoint insert_cp (x : Z * str) (l : cmapping) : cmapping :=
  match l with
  | [] => [x]
  | y :: l' => if Z.leb (fst x) (fst y) then x :: l else y :: insert_cp x l'
  end.
Definition sort_cp (l : cmapping) : cmapping := fold_right insert_cp [] l.

Definition cmapping_eqb (a b : cmapping) : bool := list_eqb zpair_eqb (sort_cp a) (sort_cp b).

Definition declared_by (glyphs : list (str * list Z)) (cp : Z) : list str :=
  map fst (filter (fun gu => existsb (Z.eqb cp) (snd gu)) glyphs).

(* the cmap sends cp to g  iff  g is the one glyph declaring cp *)
Definition spec_cmap_sound (glyphs : list (str * list Z)) (t : cmapping) : bool :=
  forallb (fun kv => match declared_by glyphs (fst kv) with
                     | [g] => str_eqb g (snd kv) | _ => false end) t.
Definition spec_cmap_complete (glyphs : list (str * list Z)) (pred : Z -> bool) (t : cmapping) : bool :=
  forallb (fun gu => forallb (fun cp => negb (pred cp) ||
                                        match zassoc cp t with Some g => str_eqb g (fst gu) | None => false end)
                             (snd gu)) glyphs.

Fixpoint nodup_z (l : list Z) : bool :=
  match l with [] => true | x :: l' => negb (existsb (Z.eqb x) l') && nodup_z l' end.
Definition has_duplicate_cp (glyphs : list (str * list Z)) : bool :=
  negb (nodup_z (flat_map snd glyphs)).

Record c03_obs := { o_order : list str; o_cmap4 : cmapping; o_cmap12 : option cmapping }.

Definition spec_C03 (keys order : list str) (unicodes : list (str * list Z))
           (obs : option c03_obs) : bool :=
  let glyphs := map (fun g => (g, match assoc g unicodes with Some u => u | None => [] end))
                    (spec_compiled_order keys order) in
  match obs with
  | None => has_duplicate_cp glyphs                       (* rejected iff duplicate *)
  | Some o =>
      negb (has_duplicate_cp glyphs) &&
      list_eqb str_eqb (o_order o) (spec_compiled_order keys order) &&
      spec_cmap_sound glyphs (o_cmap4 o) &&
      forallb (fun kv => Z.leb (fst kv) 65535) (o_cmap4 o) &&
      spec_cmap_complete glyphs (fun cp => Z.leb cp 65535) (o_cmap4 o) &&
      match o_cmap12 o with
      | None => forallb (fun gu => forallb (fun cp => Z.leb cp 65535) (snd gu)) glyphs
      | Some t => existsb (fun gu => existsb (fun cp => Z.ltb 65535 cp) (snd gu)) glyphs &&
                  spec_cmap_sound glyphs t && spec_cmap_complete glyphs (fun _ => true) t
      end
  end.

(* model's observation for the same input *)
Definition model_C03 (keys order : list str) (unicodes : list (str * list Z)) : option c03_obs :=
  let go := compiled_glyph_order keys order in
  let glyphs := map (fun g => (g, match assoc g unicodes with Some u => u | None => [] end)) go in
  match u2g glyphs [] with
  | U2G_dup _ _ _ => None
  | U2G_ok m => let t := make_cmap m in
                Some {| o_order := go; o_cmap4 := cmap4 t; o_cmap12 := cmap12 t |}
  end.

Definition c03_obs_eqb (a b : option c03_obs) : bool :=
  option_eqb (fun x y => list_eqb str_eqb (o_order x) (o_order y) &&
                         cmapping_eqb (o_cmap4 x) (o_cmap4 y) &&
                         option_eqb cmapping_eqb (o_cmap12 x) (o_cmap12 y)) a b.
