From U2F Require Import Base.Prelude Generated.Constants Info.PSName.
Open Scope Z_scope.

Lemma ps_keep_clean x : ps_keep false x = true -> ps_clean_char x = true.
Proof.
  unfold ps_keep, ps_clean_char, ps_allowed, ps_exception.
  rewrite andb_false_r, orb_false_r. intro H.
  apply andb_true_iff in H. destruct H as [Ha He].
  apply andb_true_iff in Ha. destruct Ha as [H1 H2].
  unfold ps_allowed_lo, ps_allowed_hi in *. rewrite H1, H2. simpl.
  (* the exception list read from the source contains every character the property forbids *)
  unfold ps_exceptions in He. simpl in *.
  repeat match goal with |- context [Z.eqb x ?k] => destruct (Z.eqb_spec x k); [subst; simpl in He; discriminate|] end.
  reflexivity.
Qed.

Lemma normalize_char_clean nfkd c : forallb ps_clean_char (normalize_char nfkd false c) = true.
Proof.
  unfold normalize_char.
  destruct (Z.eqb c SPACE && negb false); [reflexivity|].
  destruct (ps_exception c) eqn:Ee; [reflexivity|].
  destruct (ps_allowed c) eqn:Ea.
  - simpl. rewrite andb_true_r. apply ps_keep_clean. unfold ps_keep. rewrite Ea, Ee. reflexivity.
  - apply forallb_forall. intros x Hx. apply filter_In in Hx. apply ps_keep_clean. tauto.
Qed.

(* for EVERY decomposition function and EVERY string: the generated PostScript
   name contains only printable ASCII, no space, none of []{}<>()/% *)
Theorem psname_clean nfkd s : ps_clean (normalize_ps nfkd false s) = true.
Proof.
  unfold ps_clean, normalize_ps. induction s as [|c s IH]; [reflexivity|].
  simpl. rewrite forallb_app, normalize_char_clean, IH. reflexivity.
Qed.

Theorem ps_font_name_fallback_clean nfkd family style :
  ps_clean (ps_font_name_fallback nfkd family style) = true.
Proof. apply psname_clean. Qed.

(* with spaces allowed (CFF Notice/Copyright): printable ASCII or space, no exception character *)
Theorem psstring_clean nfkd s :
  forallb (fun x => ps_clean_char x || Z.eqb x 32) (normalize_ps nfkd true s) = true.
Proof.
  unfold normalize_ps. induction s as [|c s IH]; [reflexivity|].
  simpl. rewrite forallb_app, IH, andb_true_r. unfold normalize_char.
  destruct (Z.eqb c SPACE && negb true); [reflexivity|].
  destruct (ps_exception c) eqn:Ee; [reflexivity|].
  assert (forall x, ps_keep true x = true -> ps_clean_char x || Z.eqb x 32 = true) as K.
  { intros x H. unfold ps_keep in H. apply orb_true_iff in H. destruct H as [H|H].
    - rewrite ps_keep_clean; [reflexivity|]. unfold ps_keep. rewrite H. reflexivity.
    - apply andb_true_iff in H. destruct H as [H _]. unfold SPACE in H. rewrite H. apply orb_true_r. }
  destruct (ps_allowed c) eqn:Ea.
  - simpl. rewrite andb_true_r. apply K. unfold ps_keep. rewrite Ea, Ee. reflexivity.
  - apply forallb_forall. intros x Hx. apply filter_In in Hx. apply K. tauto.
Qed.

(* the code before the repair violated the statement: U+FF08 decomposes to '(' *)
Example psname_v0_refuted :
  exists nfkd s, ps_clean (normalize_ps_v0 nfkd false s) = false.
Proof.
  exists (fun c => if Z.eqb c 65288 then [40] else [c]), [65; 65288; 66]. vm_compute. reflexivity.
Qed.

(* idempotent: name ID 6 is passed through the function a second time *)
Lemma normalize_char_fixed nfkd b x : ps_keep b x = true -> ps_exception x = false ->
  normalize_char nfkd b x = [x] \/ (x = SPACE /\ b = true).
Proof.
  intros Hk He. unfold normalize_char. rewrite He.
  unfold ps_keep in Hk. apply orb_true_iff in Hk. destruct Hk as [Hk|Hk].
  - apply andb_true_iff in Hk. destruct Hk as [Ha _]. rewrite Ha.
    destruct (Z.eqb_spec x SPACE) as [->|]; [|left; reflexivity].
    unfold ps_allowed, SPACE, ps_allowed_lo in Ha. simpl in Ha. discriminate.
  - apply andb_true_iff in Hk. destruct Hk as [H1 H2]. apply Z.eqb_eq in H1. right. subst. auto.
Qed.
