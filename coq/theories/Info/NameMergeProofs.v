(* C16: the name-table merge of a variable font's info override (Info/NameMerge.v) -- for all record lists. *)
From Coq Require Import ZArith List Bool Lia.
From U2F Require Import Base.Prelude Info.NameMerge.
Import ListNotations.
Open Scope Z_scope.

Lemma key_eqb_eq a b : key_eqb a b = true <-> a = b.
Proof.
  destruct a as [[[a0 a1] a2] a3], b as [[[b0 b1] b2] b3]. unfold key_eqb. cbn [kf].
  rewrite !andb_true_iff, !Z.eqb_eq. split; [intros [[[-> ->] ->] ->]; reflexivity | intro E; inversion E; auto].
Qed.
Lemma key_eqb_refl a : key_eqb a a = true. Proof. apply key_eqb_eq. reflexivity. Qed.
Lemma key_eqb_sym a b : key_eqb a b = key_eqb b a.
Proof. destruct (key_eqb a b) eqn:E, (key_eqb b a) eqn:F; try reflexivity;
       [apply key_eqb_eq in E; subst; rewrite key_eqb_refl in F; discriminate
       |apply key_eqb_eq in F; subst; rewrite key_eqb_refl in E; discriminate]. Qed.

Lemma kfind_kset k k' v d : kfind k (kset k' v d) = if key_eqb k k' then Some v else kfind k d.
Proof.
  induction d as [|[k2 v2] d IH]; cbn [kset kfind]; [reflexivity|].
  destruct (key_eqb k' k2) eqn:E; cbn [kfind].
  - apply key_eqb_eq in E. subst k2. destruct (key_eqb k k'); reflexivity.
  - destruct (key_eqb k k2) eqn:F; [|exact IH].
    destruct (key_eqb k k') eqn:G; [|reflexivity].
    apply key_eqb_eq in F, G. subst. rewrite key_eqb_refl in E. discriminate.
Qed.

Lemma kfind_none_notin k d : kfind k d = None <-> ~ In k (map fst d).
Proof.
  induction d as [|[k2 v2] d IH]; cbn [kfind map fst In]; [tauto|].
  destruct (key_eqb k k2) eqn:E.
  - apply key_eqb_eq in E. subst. split; [discriminate|intro H; exfalso; apply H; left; reflexivity].
  - rewrite IH. split; [intros H [F|F]; [subst; rewrite key_eqb_refl in E; discriminate|exact (H F)] | intros H F; apply H; right; exact F].
Qed.

Lemma kfind_some_in k v d : kfind k d = Some v -> In k (map fst d).
Proof.
  induction d as [|[k2 v2] d IH]; cbn [kfind map fst In]; [discriminate|].
  destruct (key_eqb k k2) eqn:E; [apply key_eqb_eq in E; subst; left; reflexivity | intro H; right; exact (IH H)].
Qed.

Lemma keys_kset k v d : map fst (kset k v d) = if kmem k d then map fst d else map fst d ++ [k].
Proof.
  unfold kmem. induction d as [|[k2 v2] d IH]; cbn [kset kfind map fst]; [reflexivity|].
  rewrite (key_eqb_sym k k2) at 1. destruct (key_eqb k k2) eqn:E; rewrite (key_eqb_sym k2 k), E.
  - apply key_eqb_eq in E. subst. reflexivity.
  - cbn [map fst]. rewrite IH. destruct (kfind k d); reflexivity.
Qed.

Lemma nodup_kset k v d : NoDup (map fst d) -> NoDup (map fst (kset k v d)).
Proof.
  intro H. rewrite keys_kset. unfold kmem. destruct (kfind k d) eqn:E; [exact H|].
  apply kfind_none_notin in E. apply NoDup_snoc; assumption.
Qed.

Lemma keys_kupdate_sub k l : forall d, In k (map fst (kupdate d l)) -> In k (map fst d) \/ In k (map fst l).
Proof.
  unfold kupdate. induction l as [|[k2 v2] l IH]; intros d H; cbn [fold_left] in H; [left; exact H|].
  destruct (IH _ H) as [H1|H1]; [|right; right; exact H1]. cbn [fst snd] in H1. rewrite keys_kset in H1.
  destruct (kmem k2 d); [left; exact H1|]. apply in_app_iff in H1. destruct H1 as [H1|[H1|[]]]; [left; exact H1|right; left; exact H1].
Qed.

Lemma nodup_kupdate e : forall d, NoDup (map fst d) -> NoDup (map fst (kupdate d e)).
Proof.
  unfold kupdate. induction e as [|[k v] e IH]; intros d H; cbn [fold_left fst snd]; [exact H|].
  apply IH. apply nodup_kset. exact H.
Qed.
Lemma nodup_kdict l : NoDup (map fst (kdict l)).
Proof. apply nodup_kupdate. constructor. Qed.

(* updating with a dict (distinct keys): its bindings win, the others stay *)
Lemma kfind_kupdate k e : NoDup (map fst e) -> forall d,
  kfind k (kupdate d e) = match kfind k e with Some v => Some v | None => kfind k d end.
Proof.
  unfold kupdate. induction e as [|[k' v] e IH]; intros Hnd d; cbn [fold_left fst snd kfind]; [reflexivity|].
  cbn [map fst] in Hnd. inversion Hnd as [|? ? Hnotin Hnd']; subst.
  rewrite (IH Hnd'), kfind_kset. destruct (key_eqb k k') eqn:E; [|reflexivity].
  apply key_eqb_eq in E. subst k'. apply kfind_none_notin in Hnotin. rewrite Hnotin. reflexivity.
Qed.

(* filtering by a predicate on the key *)
Lemma kfind_filter (p : nkey -> bool) k d :
  kfind k (filter (fun kv => p (fst kv)) d) = if p k then kfind k d else None.
Proof.
  induction d as [|[k' v] d IH]; cbn [filter kfind fst]; [destruct (p k); reflexivity|].
  destruct (p k') eqn:P; cbn [kfind]; destruct (key_eqb k k') eqn:E.
  - apply key_eqb_eq in E. subst. rewrite P. reflexivity.
  - exact IH.
  - apply key_eqb_eq in E. subst. rewrite IH, P. reflexivity.
  - exact IH.
Qed.
Lemma keys_filter_sub (p : nkey * str -> bool) d : NoDup (map fst d) -> NoDup (map fst (filter p d)).
Proof.
  induction d as [|[k v] d IH]; intro H; cbn [filter map fst]; [constructor|].
  cbn [map fst] in H. inversion H as [|? ? Hn Hd]; subst. destruct (p (k, v)); [|exact (IH Hd)].
  cbn [map fst]. constructor; [|exact (IH Hd)]. intro Hin. apply Hn.
  apply in_map_iff in Hin. destruct Hin as [[k2 v2] [E Hin]]. cbn in E. subst k2. apply filter_In in Hin.
  apply in_map_iff. exists (k, v2). split; [reflexivity|tauto].
Qed.

(* ---- THE merge as a finite map: what is stored under each key ---- *)
Theorem merge_lookup temp orig k :
  kfind k (name_merge temp orig) =
  match kfind k (kdict temp) with
  | Some v => Some v                                                        (* the override's record wins *)
  | None => if survives temp k then kfind k (kdict orig) else None          (* the default source's record stays or goes *)
  end.
Proof.
  unfold name_merge. rewrite kfind_kupdate by apply nodup_kdict.
  destruct (kfind k (kdict temp)); [reflexivity|]. apply (kfind_filter (survives temp)).
Qed.

Theorem merge_keys_distinct temp orig : NoDup (map fst (name_merge temp orig)).
Proof. unfold name_merge. apply nodup_kupdate. apply keys_filter_sub. apply nodup_kdict. Qed.

(* every record the override yields is written *)
Theorem override_wins temp orig k v : kfind k (kdict temp) = Some v -> kfind k (name_merge temp orig) = Some v.
Proof. intro H. rewrite merge_lookup, H. reflexivity. Qed.

(* NO STALE STRING: when the override writes a name (id, platform, language) at all, every record of that name in the result is
   one the override wrote -- whatever encoding the default source had used *)
Theorem no_stale_record_of_a_rewritten_name temp orig k v :
  rewritten temp k = true -> kfind k (name_merge temp orig) = Some v -> kfind k (kdict temp) = Some v.
Proof.
  intros Hr H. rewrite merge_lookup in H. destruct (kfind k (kdict temp)) eqn:E; [exact H|].
  unfold survives, kmem in H. rewrite E, Hr in H. cbn in H. discriminate.
Qed.

(* the predefined names in Windows English are exactly the override's: one it no longer yields (IDs 16 / 17, an empty string)
   is gone *)
Theorem predefined_names_are_the_overrides temp orig k :
  predefined_windows_english k = true -> kfind k (name_merge temp orig) = kfind k (kdict temp).
Proof.
  intro Hp. rewrite merge_lookup. destruct (kfind k (kdict temp)) eqn:E; [reflexivity|].
  unfold survives, kmem. rewrite E, Hp, andb_false_r. reflexivity.
Qed.

(* everything else of the default source's table is untouched: a name the override does not write, outside the predefined
   Windows-English ones (fvar / STAT names, other platforms and languages), keeps its record *)
Theorem other_records_untouched temp orig k :
  rewritten temp k = false -> predefined_windows_english k = false ->
  kfind k (name_merge temp orig) = kfind k (kdict orig).
Proof.
  intros Hr Hp. rewrite merge_lookup.
  destruct (kfind k (kdict temp)) eqn:E.
  - (* a key of temp has its name among the rewritten ones *)
    exfalso. assert (Hin : In k (map fst (kdict temp))) by (eapply kfind_some_in; exact E).
    revert Hr Hin. unfold rewritten, lmem. clear. intros Hr Hin.
    assert (Hk : In k (map fst temp)) by (destruct (keys_kupdate_sub k temp [] Hin) as [[]|H1]; exact H1).
    apply in_map_iff in Hk. destruct Hk as [[k2 v2] [E2 Hin2]]. cbn in E2. subst k2.
    assert (existsb (list_eqb Z.eqb (triple k)) (map (fun n => triple (fst n)) temp) = true).
    { apply existsb_exists. exists (triple k). split; [apply in_map_iff; exists (k, v2); split; [reflexivity|exact Hin2]|].
      unfold triple. cbn [list_eqb]. rewrite !Z.eqb_refl. reflexivity. }
    congruence.
  - unfold survives, kmem. rewrite E, Hr, Hp. reflexivity.
Qed.

(* non-vacuity and the two repaired defects as closed instances *)
Example merge_example :
  let fam := [70; 97; 109] in let other := [79] in let reg := [82] in
  (* default source: family 'Fam' (IDs 1, 16), style (17), an fvar name 256; override: family 'O' -- and IDs 16 / 17 no longer yielded *)
  name_merge [((1, 3, 1, 1033), other); ((2, 3, 1, 1033), reg)]
             [((1, 3, 1, 1033), fam); ((2, 3, 1, 1033), reg); ((16, 3, 10, 1033), fam); ((17, 3, 1, 1033), reg); ((256, 3, 1, 1033), reg); ((1, 1, 0, 0), fam)]
  = [((1, 3, 1, 1033), other); ((2, 3, 1, 1033), reg); ((256, 3, 1, 1033), reg); ((1, 1, 0, 0), fam)].
Proof. vm_compute. reflexivity. Qed.
