(* C16: the translation of InfoCompiler.setupTable_name (Generated/NameMergeGen.v, rewritten from /repo's source on every run) IS
   the hand model `name_merge` of Info/NameMerge.v -- so the merge theorems are theorems about what the code says now. *)
From Coq Require Import ZArith List Bool.
From U2F Require Import Base.Prelude Info.NameMerge Info.NameMergeProofs Generated.NameMergeGen.
Import ListNotations.
Open Scope Z_scope.

Lemma filter_filter {A} (p q : A -> bool) l : filter q (filter p l) = filter (fun x => p x && q x) l.
Proof.
  induction l as [|x l IH]; cbn [filter]; [reflexivity|].
  destruct (p x); cbn [filter andb]; [destruct (q x); rewrite IH; reflexivity | exact IH].
Qed.

Theorem translated_name_merge_is_the_model temp orig : tr_name_merge temp orig = name_merge temp orig.
Proof.
  unfold tr_name_merge, name_merge, kupdate. cbv zeta. rewrite filter_filter. f_equal.
  apply filter_ext. intros [k v]. cbn [fst]. unfold survives, rewritten, predefined_windows_english, triple.
  destruct (kmem k (kdict temp)); cbn [orb andb]; reflexivity.
Qed.

(* the theorems of the model, restated for the translated code *)
Theorem code_override_wins temp orig k v : kfind k (kdict temp) = Some v -> kfind k (tr_name_merge temp orig) = Some v.
Proof. rewrite translated_name_merge_is_the_model. apply override_wins. Qed.

Theorem code_no_stale_record_of_a_rewritten_name temp orig k v :
  rewritten temp k = true -> kfind k (tr_name_merge temp orig) = Some v -> kfind k (kdict temp) = Some v.
Proof. rewrite translated_name_merge_is_the_model. apply no_stale_record_of_a_rewritten_name. Qed.

Theorem code_predefined_names_are_the_overrides temp orig k :
  predefined_windows_english k = true -> kfind k (tr_name_merge temp orig) = kfind k (kdict temp).
Proof. rewrite translated_name_merge_is_the_model. apply predefined_names_are_the_overrides. Qed.

Theorem code_other_records_untouched temp orig k :
  rewritten temp k = false -> predefined_windows_english k = false ->
  kfind k (tr_name_merge temp orig) = kfind k (kdict orig).
Proof. rewrite translated_name_merge_is_the_model. apply other_records_untouched. Qed.

Theorem code_merge_keys_distinct temp orig : NoDup (map fst (tr_name_merge temp orig)).
Proof. rewrite translated_name_merge_is_the_model. apply merge_keys_distinct. Qed.
