(* C16: fontInfoData.getAttrWithFallback for the vertical-metrics attributes and
   intListToNum.  Definitions only. *)
From U2F Require Export Geometry.Model.
From U2F Require Import Generated.Constants.
Open Scope Qc_scope.

Record info := mkInfo {
  i_upm : option Qc; i_ascender : option Qc; i_descender : option Qc;
  i_capHeight : option Qc; i_xHeight : option Qc;
  i_typoAsc : option Qc; i_typoDesc : option Qc; i_typoGap : option Qc;
  i_hheaAsc : option Qc; i_hheaDesc : option Qc; i_hheaGap : option Qc;
  i_winAsc : option Qc; i_winDesc : option Qc }.

Definition dflt (o : option Qc) (d : Qc) : Qc := match o with Some v => v | None => d end.
Definition zq (z : Z) : Qc := qc_of_Z z.
Definition qmax (a b : Qc) : Qc := if qc_ltb a b then b else a.
(* Python int(): truncation towards zero *)
Definition ztrunc (q : Qc) : Z := if qc_ltb q qc0 then (- Qfloor (this (- q)))%Z else Qfloor (this q).

Definition get_upm (i : info) : Qc := dflt (i_upm i) (zq static_unitsPerEm).
(* otRound(upm * 0.8) etc. *)
Definition get_ascender (i : info) : Qc :=
  dflt (i_ascender i) (zq (otRound (get_upm i * qq f_ascender_num f_ascender_den))).
Definition get_descender (i : info) : Qc :=
  dflt (i_descender i) (- zq (otRound (get_upm i * qq f_descender_num f_descender_den))).
Definition get_capHeight (i : info) : Qc :=
  dflt (i_capHeight i) (zq (otRound (get_upm i * qq f_capheight_num f_capheight_den))).
Definition get_xHeight (i : info) : Qc :=
  dflt (i_xHeight i) (zq (otRound (get_upm i * qq f_xheight_num f_xheight_den))).
(* max(int(upm * 1.2) - ascender + descender, 0); int() truncates towards zero *)
Definition get_typoGap (i : info) : Qc :=
  dflt (i_typoGap i)
       (qmax (zq (ztrunc (get_upm i * qq f_linegap_num f_linegap_den)) - get_ascender i + get_descender i) qc0).
Definition get_typoAsc (i : info) : Qc := dflt (i_typoAsc i) (get_ascender i).
Definition get_typoDesc (i : info) : Qc := dflt (i_typoDesc i) (get_descender i).
Definition get_hheaAsc (i : info) : Qc := dflt (i_hheaAsc i) (get_ascender i + get_typoGap i).
Definition get_hheaDesc (i : info) : Qc := dflt (i_hheaDesc i) (get_descender i).
Definition get_hheaGap (i : info) : Qc := dflt (i_hheaGap i) (zq static_openTypeHheaLineGap).
Definition get_winAsc (i : info) : Qc := dflt (i_winAsc i) (qmax (get_ascender i + get_typoGap i) qc0).
Definition get_winDesc (i : info) : Qc := dflt (i_winDesc i) (qc_abs (get_descender i)).

(* what the tables hold: otRound of each *)
Record vmetrics := mkVM {
  v_upm : Z; v_xHeight : Z; v_capHeight : Z; v_typoAsc : Z; v_typoDesc : Z; v_typoGap : Z;
  v_winAsc : Z; v_winDesc : Z; v_hheaAsc : Z; v_hheaDesc : Z; v_hheaGap : Z }.

Definition table_metrics (i : info) : vmetrics :=
  mkVM (otRound (get_upm i)) (otRound (get_xHeight i)) (otRound (get_capHeight i))
       (otRound (get_typoAsc i)) (otRound (get_typoDesc i)) (otRound (get_typoGap i))
       (otRound (get_winAsc i)) (otRound (get_winDesc i))
       (otRound (get_hheaAsc i)) (otRound (get_hheaDesc i)) (otRound (get_hheaGap i)).

Definition vmetrics_eqb (a b : vmetrics) : bool :=
  Z.eqb (v_upm a) (v_upm b) && Z.eqb (v_xHeight a) (v_xHeight b) && Z.eqb (v_capHeight a) (v_capHeight b) &&
  Z.eqb (v_typoAsc a) (v_typoAsc b) && Z.eqb (v_typoDesc a) (v_typoDesc b) && Z.eqb (v_typoGap a) (v_typoGap b) &&
  Z.eqb (v_winAsc a) (v_winAsc b) && Z.eqb (v_winDesc a) (v_winDesc b) &&
  Z.eqb (v_hheaAsc a) (v_hheaAsc b) && Z.eqb (v_hheaDesc a) (v_hheaDesc b) && Z.eqb (v_hheaGap a) (v_hheaGap b).

(* explicit values appear as given (rounded); every field is in range *)
Definition explicit_ok (i : info) (o : vmetrics) : bool :=
  let chk (x : option Qc) (f : Z) := match x with Some v => Z.eqb (otRound v) f | None => true end in
  chk (i_upm i) (v_upm o) && chk (i_xHeight i) (v_xHeight o) && chk (i_capHeight i) (v_capHeight o) &&
  chk (i_typoAsc i) (v_typoAsc o) && chk (i_typoDesc i) (v_typoDesc o) && chk (i_typoGap i) (v_typoGap o) &&
  chk (i_winAsc i) (v_winAsc o) && chk (i_winDesc i) (v_winDesc o) &&
  chk (i_hheaAsc i) (v_hheaAsc o) && chk (i_hheaDesc i) (v_hheaDesc o) && chk (i_hheaGap i) (v_hheaGap o) &&
  Z.leb 0 (v_winAsc o) && Z.leb 0 (v_winDesc o).

(* ---- intListToNum(intList, start, length): bit k set iff start+k is listed ---- *)
Open Scope Z_scope.
Definition int_list_to_num (l : list Z) (start : Z) (len : nat) : Z :=
  fold_left (fun acc k => if existsb (Z.eqb (start + Z.of_nat k)) l then Z.setbit acc (Z.of_nat k) else acc)
            (seq 0 len) 0.
