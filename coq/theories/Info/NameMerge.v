(* C16: InfoCompiler.setupTable_name -- how the name records that a variable font's `public.fontInfo` override yields (the "temp"
   table, compiled from the default source's info + the override) are merged into the name table of the variable font built from
   the default source (the "orig" table).  After the repairs F39 / F48:
     - every record of temp is written (replacing orig's record of the same key, in place; new keys are appended);
     - a record of orig that temp does not write is DROPPED when temp writes the same name (nameID, platformID, langID) under
       another encoding, or when it is a predefined name (nameID < 256) in Windows English that the overridden info no longer
       yields (IDs 16 / 17 equal to 1 / 2, an empty string);
     - every other record of orig stays (fvar / STAT names, other platforms and languages).
   A record is its key (nameID, platformID, platEncID, langID) and its string.  Definitions only. *)
From Coq Require Import ZArith List Bool.
From U2F Require Import Base.Prelude.
Import ListNotations.
Open Scope Z_scope.

Definition nkey := (Z * Z * Z * Z)%type.
Definition kf (i : nat) (k : nkey) : Z :=
  let '(a, b, c, d) := k in match i with O => a | S O => b | S (S O) => c | _ => d end.
Definition key_eqb (a b : nkey) : bool :=
  Z.eqb (kf 0%nat a) (kf 0%nat b) && Z.eqb (kf 1%nat a) (kf 1%nat b) && Z.eqb (kf 2%nat a) (kf 2%nat b) && Z.eqb (kf 3%nat a) (kf 3%nat b).

(* a Python dict keyed by record keys: association list in insertion order, assignment replaces in place or appends *)
Definition ndict := list (nkey * str).
Fixpoint kfind (k : nkey) (d : ndict) : option str :=
  match d with [] => None | (k', v) :: d' => if key_eqb k k' then Some v else kfind k d' end.
Definition kmem (k : nkey) (d : ndict) : bool := match kfind k d with Some _ => true | None => false end.
Fixpoint kset (k : nkey) (v : str) (d : ndict) : ndict :=
  match d with [] => [(k, v)] | (k', v') :: d' => if key_eqb k k' then (k, v) :: d' else (k', v') :: kset k v d' end.
Definition kupdate (d e : ndict) : ndict := fold_left (fun d_ kv_ => kset (fst kv_) (snd kv_) d_) e d.
Definition kdict (l : list (nkey * str)) : ndict := kupdate [] l.

(* a set of tuples of integers *)
Definition lmem (t : list Z) (s : list (list Z)) : bool := existsb (list_eqb Z.eqb t) s.

(* ---- the model ---- *)
Definition triple (k : nkey) : list Z := [kf 0%nat k; kf 1%nat k; kf 3%nat k].                 (* the NAME: id, platform, language *)
Definition predefined_windows_english (k : nkey) : bool := Z.ltb (kf 0%nat k) 256 && Z.eqb (kf 1%nat k) 3 && Z.eqb (kf 3%nat k) 1033.
Definition rewritten (temp : list (nkey * str)) (k : nkey) : bool := lmem (triple k) (map (fun n => triple (fst n)) temp).
Definition survives (temp : list (nkey * str)) (k : nkey) : bool :=
  kmem k (kdict temp) || (negb (rewritten temp k) && negb (predefined_windows_english k)).
Definition name_merge (temp orig : list (nkey * str)) : ndict :=
  kupdate (filter (fun kv => survives temp (fst kv)) (kdict orig)) (kdict temp).

(* comparison with the real method's result *)
Definition ndict_eqb (a b : ndict) : bool := list_eqb (fun x y => key_eqb (fst x) (fst y) && str_eqb (snd x) (snd y)) a b.
