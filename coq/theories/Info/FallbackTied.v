(* C16: the fallback functions TRANSLATED from /repo's fontInfoData.py (Generated/InfoFallbacks.v, rewritten on every
   run) are (a) the hand-written model of Info/Fallback.v that the correspondence check runs, and (b) the DOCUMENTED
   fallbacks, stated here with literal numbers, independently of the source.  The theorems about the model are then
   restated about the translated code. *)
From Coq Require Import QArith Qcanon Lqa.
From U2F Require Import Base.Prelude Geometry.Model Geometry.ModelProofs Generated.Constants Info.Fallback Info.FallbackProofs
     Generated.InfoFallbacks.
Open Scope Qc_scope.

(* ---- the documented fallbacks (docstrings of fontInfoData.py, UFO / OpenType practice), literal numbers ---- *)
Definition doc_upm (i : info) : Qc := dflt (i_upm i) (zq 1000).
Definition doc_ascender (i : info) : Qc := dflt (i_ascender i) (zq (otRound (doc_upm i * qq 4 5))).          (* UPM * 0.8 *)
Definition doc_descender (i : info) : Qc := dflt (i_descender i) (- zq (otRound (doc_upm i * qq 1 5))).      (* -UPM * 0.2 *)
Definition doc_capHeight (i : info) : Qc := dflt (i_capHeight i) (zq (otRound (doc_upm i * qq 7 10))).       (* UPM * 0.7 *)
Definition doc_xHeight (i : info) : Qc := dflt (i_xHeight i) (zq (otRound (doc_upm i * qq 1 2))).            (* UPM * 0.5 *)
Definition doc_typoAsc (i : info) : Qc := dflt (i_typoAsc i) (doc_ascender i).                               (* ascender *)
Definition doc_typoDesc (i : info) : Qc := dflt (i_typoDesc i) (doc_descender i).                            (* descender *)
(* "UPM * 1.2 - ascender + descender, or zero if that's negative" *)
Definition doc_typoGap (i : info) : Qc :=
  dflt (i_typoGap i) (qmax (zq (ztrunc (doc_upm i * qq 6 5)) - doc_ascender i + doc_descender i) (zq 0)).
Definition doc_hheaAsc (i : info) : Qc := dflt (i_hheaAsc i) (doc_ascender i + doc_typoGap i).               (* ascender + typoLineGap *)
Definition doc_hheaDesc (i : info) : Qc := dflt (i_hheaDesc i) (doc_descender i).                            (* descender *)
Definition doc_hheaGap (i : info) : Qc := dflt (i_hheaGap i) (zq 0).
(* "ascender + typoLineGap, or zero if that's negative (usWinAscent is an unsigned field)" *)
Definition doc_winAsc (i : info) : Qc := dflt (i_winAsc i) (qmax (doc_ascender i + doc_typoGap i) (zq 0)).
Definition doc_winDesc (i : info) : Qc := dflt (i_winDesc i) (qc_abs (doc_descender i)).                     (* |descender| *)

(* what the tables hold, computed by the translated code *)
Definition tr_table_metrics (i : info) : vmetrics :=
  mkVM (otRound (tr_unitsPerEm i)) (otRound (tr_xHeight i)) (otRound (tr_capHeight i))
       (otRound (tr_openTypeOS2TypoAscender i)) (otRound (tr_openTypeOS2TypoDescender i)) (otRound (tr_openTypeOS2TypoLineGap i))
       (otRound (tr_openTypeOS2WinAscent i)) (otRound (tr_openTypeOS2WinDescent i))
       (otRound (tr_openTypeHheaAscender i)) (otRound (tr_openTypeHheaDescender i)) (otRound (tr_openTypeHheaLineGap i)).

(* ---- translated code = hand model (attribute by attribute) ---- *)
Lemma tr_upm_eq i : tr_unitsPerEm i = get_upm i. Proof. reflexivity. Qed.
Lemma tr_ascender_eq i : tr_ascender i = get_ascender i. Proof. reflexivity. Qed.
Lemma tr_descender_eq i : tr_descender i = get_descender i. Proof. reflexivity. Qed.
Lemma tr_capHeight_eq i : tr_capHeight i = get_capHeight i. Proof. reflexivity. Qed.
Lemma tr_xHeight_eq i : tr_xHeight i = get_xHeight i. Proof. reflexivity. Qed.
Lemma tr_typoAsc_eq i : tr_openTypeOS2TypoAscender i = get_typoAsc i. Proof. reflexivity. Qed.
Lemma tr_typoDesc_eq i : tr_openTypeOS2TypoDescender i = get_typoDesc i. Proof. reflexivity. Qed.
Lemma tr_typoGap_eq i : tr_openTypeOS2TypoLineGap i = get_typoGap i. Proof. reflexivity. Qed.
Lemma tr_hheaAsc_eq i : tr_openTypeHheaAscender i = get_hheaAsc i. Proof. reflexivity. Qed.
Lemma tr_hheaDesc_eq i : tr_openTypeHheaDescender i = get_hheaDesc i. Proof. reflexivity. Qed.
Lemma tr_hheaGap_eq i : tr_openTypeHheaLineGap i = get_hheaGap i. Proof. reflexivity. Qed.
Lemma tr_winAsc_eq i : tr_openTypeOS2WinAscent i = get_winAsc i. Proof. reflexivity. Qed.
Lemma tr_winDesc_eq i : tr_openTypeOS2WinDescent i = get_winDesc i. Proof. reflexivity. Qed.

Theorem code_is_the_model : tr_getattr_shape_ok = true /\ forall i, tr_table_metrics i = table_metrics i.
Proof. split; [reflexivity|]. intro i. reflexivity. Qed.

(* ---- translated code = documented fallbacks ---- *)
Theorem code_is_the_documented_fallback i :
  tr_unitsPerEm i = doc_upm i /\ tr_ascender i = doc_ascender i /\ tr_descender i = doc_descender i /\
  tr_capHeight i = doc_capHeight i /\ tr_xHeight i = doc_xHeight i /\
  tr_openTypeOS2TypoAscender i = doc_typoAsc i /\ tr_openTypeOS2TypoDescender i = doc_typoDesc i /\
  tr_openTypeOS2TypoLineGap i = doc_typoGap i /\
  tr_openTypeHheaAscender i = doc_hheaAsc i /\ tr_openTypeHheaDescender i = doc_hheaDesc i /\
  tr_openTypeHheaLineGap i = doc_hheaGap i /\
  tr_openTypeOS2WinAscent i = doc_winAsc i /\ tr_openTypeOS2WinDescent i = doc_winDesc i.
Proof. repeat split; reflexivity. Qed.

(* ---- the theorems of FallbackProofs, about the code as translated ---- *)
Theorem code_explicit_wins i :
  (forall v, i_upm i = Some v -> tr_unitsPerEm i = v) /\
  (forall v, i_ascender i = Some v -> tr_ascender i = v) /\
  (forall v, i_descender i = Some v -> tr_descender i = v) /\
  (forall v, i_capHeight i = Some v -> tr_capHeight i = v) /\
  (forall v, i_xHeight i = Some v -> tr_xHeight i = v) /\
  (forall v, i_typoAsc i = Some v -> tr_openTypeOS2TypoAscender i = v) /\
  (forall v, i_typoDesc i = Some v -> tr_openTypeOS2TypoDescender i = v) /\
  (forall v, i_typoGap i = Some v -> tr_openTypeOS2TypoLineGap i = v) /\
  (forall v, i_winAsc i = Some v -> tr_openTypeOS2WinAscent i = v) /\
  (forall v, i_winDesc i = Some v -> tr_openTypeOS2WinDescent i = v) /\
  (forall v, i_hheaAsc i = Some v -> tr_openTypeHheaAscender i = v) /\
  (forall v, i_hheaDesc i = Some v -> tr_openTypeHheaDescender i = v) /\
  (forall v, i_hheaGap i = Some v -> tr_openTypeHheaLineGap i = v).
Proof.
  unfold tr_unitsPerEm, tr_ascender, tr_descender, tr_capHeight, tr_xHeight, tr_openTypeOS2TypoAscender,
    tr_openTypeOS2TypoDescender, tr_openTypeOS2TypoLineGap, tr_openTypeOS2WinAscent, tr_openTypeOS2WinDescent,
    tr_openTypeHheaAscender, tr_openTypeHheaDescender, tr_openTypeHheaLineGap, dflt.
  repeat split; intros v E; rewrite E; reflexivity.
Qed.

Theorem code_derived_values_fit i :
  (i_winAsc i = None -> (0 <= otRound (tr_openTypeOS2WinAscent i))%Z) /\
  (i_winDesc i = None -> (0 <= otRound (tr_openTypeOS2WinDescent i))%Z) /\
  (i_typoGap i = None -> (0 <= otRound (tr_openTypeOS2TypoLineGap i))%Z).
Proof. rewrite tr_winAsc_eq, tr_winDesc_eq, tr_typoGap_eq. exact (derived_fits i). Qed.

(* the hhea / typo / win triple is consistent when nothing is set: the three ascenders agree up to the line gap, which is
   never negative, and the win metrics cover the typo metrics *)
Theorem code_default_metrics_consistent i :
  i_typoAsc i = None -> i_hheaAsc i = None -> i_winAsc i = None -> i_typoGap i = None ->
  tr_openTypeHheaAscender i = tr_openTypeOS2TypoAscender i + tr_openTypeOS2TypoLineGap i /\
  (this (tr_openTypeOS2TypoAscender i + tr_openTypeOS2TypoLineGap i) <= this (tr_openTypeOS2WinAscent i))%Q /\
  (0 <= this (tr_openTypeOS2TypoLineGap i))%Q.
Proof.
  intros Ea Eh Ew Eg.
  unfold tr_openTypeHheaAscender, tr_openTypeOS2TypoAscender, tr_openTypeOS2WinAscent, dflt. rewrite Ea, Eh, Ew.
  split; [reflexivity|]. split.
  - unfold qmax. destruct (qc_ltb _ _) eqn:E.
    + apply qc_ltb_lt in E. unfold Qclt in E. apply Qlt_le_weak. exact E.
    + apply Qle_refl.
  - unfold tr_openTypeOS2TypoLineGap, dflt. rewrite Eg. apply qmax_nonneg.
Qed.

(* non-vacuity: the empty info gives the well-known 1000-unit defaults *)
Example code_defaults_of_empty_info :
  tr_table_metrics (mkInfo None None None None None None None None None None None None None)
  = mkVM 1000 500 700 800 (-200) 200 1000 200 1000 (-200) 0.
Proof. vm_compute. reflexivity. Qed.
