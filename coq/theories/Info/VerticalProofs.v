From U2F Require Import Base.Prelude Geometry.Model Info.Fallback.
From U2F Require Import Info.Vertical.
Open Scope Z_scope.

Theorem vertical_iff_all_three a d g :
  vertical_enabled a d g = true <-> (a <> None /\ d <> None /\ g <> None).
Proof.
  destruct a, d, g; cbn; split; intro H; try discriminate; try reflexivity;
    try (repeat split; discriminate); destruct H as (H1 & H2 & H3); congruence.
Qed.

(* whatever the font info says, the generated .notdef is accepted by the vmtx builder *)
Theorem notdef_height_accepted i : vmtx_accepts (stub_height i) = true.
Proof. unfold vmtx_accepts, stub_height. apply Z.leb_le. apply Z.le_max_r. Qed.

(* the pre-repair stub (plain difference) is rejected for a spec-valid info: ascender 0, descender 100 *)
Example plain_difference_rejected : vmtx_accepts (0 - 100) = false.
Proof. reflexivity. Qed.
