(* C16: which name records setupTable_name writes, given the resolved values (after fallbacks) per name ID:
   IDs 16/17 (typographic family / subfamily) are dropped when BOTH equal the legacy IDs 1/2; empty values are not written.
   A reader falls back from 16 to 1 and from 17 to 2.  Definitions only. *)
From U2F Require Export Base.Prelude.
Import ListNotations.

Definition nassoc (k : nat) (l : list (nat * str)) : option str :=
  match find (fun kv => Nat.eqb (fst kv) k) l with Some kv => Some (snd kv) | None => None end.
Definition nval (k : nat) (l : list (nat * str)) : str := match nassoc k l with Some v => v | None => [] end.

Definition name_records (vals : list (nat * str)) : list (nat * str) :=
  let drop := str_eqb (nval 1 vals) (nval 16 vals) && str_eqb (nval 2 vals) (nval 17 vals) in
  filter (fun kv => negb (match snd kv with [] => true | _ => false end) &&
                    negb (drop && (Nat.eqb (fst kv) 16 || Nat.eqb (fst kv) 17))) vals.

(* what an application reads: the typographic name, else the legacy one *)
Definition typographic_family (recs : list (nat * str)) : str :=
  match nassoc 16 recs with Some v => v | None => nval 1 recs end.
Definition typographic_subfamily (recs : list (nat * str)) : str :=
  match nassoc 17 recs with Some v => v | None => nval 2 recs end.

Definition recs_eqb (a b : list (nat * str)) : bool :=
  list_eqb (fun x y => Nat.eqb (fst x) (fst y) && str_eqb (snd x) (snd y)) a b.
