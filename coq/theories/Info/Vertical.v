(* C16: when the vertical tables are built, and the advance height of the generated .notdef.
   BaseOutlineCompiler.compile: self.vertical = all three openTypeVheaVertTypo* metrics present (they have no
   fallback).  StubGlyph.height = max(ascender - descender, 0) (repaired defect F22: the plain difference was
   rejected by setupTable_vmtx when the ascender lies below the descender). *)
From U2F Require Import Base.Prelude Geometry.Model Info.Fallback.
Open Scope Z_scope.

Definition vertical_enabled (a d g : option Z) : bool :=
  match a, d, g with Some _, Some _, Some _ => true | _, _, _ => false end.

Definition stub_height (i : info) : Z := Z.max (otRound (get_ascender i) - otRound (get_descender i)) 0.

(* setupTable_vmtx: "The height should not be negative" *)
Definition vmtx_accepts (h : Z) : bool := 0 <=? h.

Definition vertical_obs_ok (i : info) (a d g : option Z) (built : bool) (notdef_height : option Z) : bool :=
  Bool.eqb (vertical_enabled a d g) built &&
  match notdef_height with Some h => (h =? stub_height i) && built | None => negb built end.
