From Coq Require Import Lqa.
From U2F Require Import Geometry.Model Geometry.ModelProofs Generated.Constants Info.Fallback.
Open Scope Qc_scope.

(* an explicitly set attribute is returned as given *)
Theorem explicit_wins i :
  (forall v, i_upm i = Some v -> get_upm i = v) /\
  (forall v, i_ascender i = Some v -> get_ascender i = v) /\
  (forall v, i_descender i = Some v -> get_descender i = v) /\
  (forall v, i_typoAsc i = Some v -> get_typoAsc i = v) /\
  (forall v, i_typoDesc i = Some v -> get_typoDesc i = v) /\
  (forall v, i_typoGap i = Some v -> get_typoGap i = v) /\
  (forall v, i_winAsc i = Some v -> get_winAsc i = v) /\
  (forall v, i_winDesc i = Some v -> get_winDesc i = v) /\
  (forall v, i_hheaAsc i = Some v -> get_hheaAsc i = v) /\
  (forall v, i_hheaDesc i = Some v -> get_hheaDesc i = v).
Proof.
  unfold get_upm, get_ascender, get_descender, get_typoAsc, get_typoDesc, get_typoGap, get_winAsc, get_winDesc,
    get_hheaAsc, get_hheaDesc, dflt.
  repeat split; intros v E; rewrite E; reflexivity.
Qed.

Lemma qc_ltb_false_le a b : qc_ltb a b = false -> (this b <= this a)%Q.
Proof.
  unfold qc_ltb. destruct (this a ?= this b)%Q eqn:E; try discriminate; intros _.
  - apply Qeq_alt in E. rewrite E. apply Qle_refl.
  - apply Qgt_alt in E. apply Qlt_le_weak. exact E.
Qed.

Lemma qmax_nonneg a : (0 <= this (qmax a qc0))%Q.
Proof.
  unfold qmax. destruct (qc_ltb a qc0) eqn:E.
  - apply Qle_refl.
  - apply qc_ltb_false_le in E. exact E.
Qed.

Lemma qc_abs_nonneg a : (0 <= this (qc_abs a))%Q.
Proof.
  unfold qc_abs. destruct (qc_ltb a qc0) eqn:E.
  - apply qc_ltb_lt in E. unfold Qclt in E. rewrite this_opp. change (this qc0) with 0%Q in E. lra.
  - apply qc_ltb_false_le in E. exact E.
Qed.

Lemma otRound_nonneg q : (0 <= this q)%Q -> (0 <= otRound q)%Z.
Proof.
  intro H. unfold otRound.
  change 0%Z with (Qfloor 0). apply Qfloor_resp_le. lra.
Qed.

(* derived values of the unsigned fields are never negative, whatever the inputs *)
Theorem derived_fits i :
  (i_winAsc i = None -> (0 <= otRound (get_winAsc i))%Z) /\
  (i_winDesc i = None -> (0 <= otRound (get_winDesc i))%Z) /\
  (i_typoGap i = None -> (0 <= otRound (get_typoGap i))%Z).
Proof.
  unfold get_winAsc, get_winDesc, get_typoGap, dflt. repeat split; intros ->; apply otRound_nonneg.
  - apply qmax_nonneg.
  - apply qc_abs_nonneg.
  - apply qmax_nonneg.
Qed.

(* before the repair (commit b3fbac2) the usWinAscent fallback was ascender + typoLineGap *)
Example win_ascent_v0_refuted :
  exists asc gap : Qc, (otRound (asc + gap) < 0)%Z.
Proof. exists (qi (-100)), (qi 0). vm_compute. reflexivity. Qed.

(* ---- intListToNum ---- *)
Open Scope Z_scope.

Lemma fold_setbit_testbit (l : list Z) start ks : forall acc k, 0 <= k ->
  Z.testbit (fold_left (fun acc k => if existsb (Z.eqb (start + Z.of_nat k)) l then Z.setbit acc (Z.of_nat k) else acc) ks acc) k
  = Z.testbit acc k || (existsb (fun j => Z.eqb (Z.of_nat j) k) ks && existsb (Z.eqb (start + k)) l).
Proof.
  induction ks as [|j ks IH]; intros acc k Hk; simpl.
  - rewrite orb_false_r. reflexivity.
  - rewrite IH by exact Hk.
    destruct (Z.eqb_spec (Z.of_nat j) k) as [E|Hne].
    + subst k. simpl. destruct (existsb (Z.eqb (start + Z.of_nat j)) l) eqn:Em.
      * rewrite Z.setbit_eq by lia. rewrite orb_true_r. reflexivity.
      * rewrite andb_false_r, orb_false_r. reflexivity.
    + simpl. destruct (existsb (Z.eqb (start + Z.of_nat j)) l).
      * rewrite Z.setbit_neq by lia. reflexivity.
      * reflexivity.
Qed.

(* bit k of the packed value is set exactly when position start+k is listed and k < length *)
Theorem intListToNum_bits l start len k : 0 <= k ->
  Z.testbit (int_list_to_num l start len) k = (k <? Z.of_nat len) && existsb (Z.eqb (start + k)) l.
Proof.
  intro Hk. unfold int_list_to_num. rewrite fold_setbit_testbit by exact Hk.
  rewrite Z.bits_0. simpl. f_equal.
  destruct (Z.ltb_spec k (Z.of_nat len)) as [Hlt|Hge].
  - apply existsb_exists. exists (Z.to_nat k). split.
    + apply in_seq. lia.
    + apply Z.eqb_eq. lia.
  - destruct (existsb _ (seq 0 len)) eqn:E; [|reflexivity].
    apply existsb_exists in E. destruct E as [j [Hj Ej]]. apply in_seq in Hj. apply Z.eqb_eq in Ej. lia.
Qed.
