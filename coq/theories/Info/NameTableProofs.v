From Coq Require Import List Bool Arith Lia.
From U2F Require Import Base.Prelude Info.NameTable.
Import ListNotations.

Lemma nassoc_filter_keep P k l v :
  NoDup (map fst l) -> nassoc k l = Some v -> P (k, v) = true -> nassoc k (filter P l) = Some v.
Proof.
  unfold nassoc. induction l as [|[k' v'] l IH]; intros Hnd E HP; cbn [find filter fst snd] in *; [discriminate|].
  inversion Hnd as [|? ? Hk Hnd']; subst.
  destruct (Nat.eqb k' k) eqn:Ek.
  - apply Nat.eqb_eq in Ek. subst k'. inversion E; subst. rewrite HP. cbn [find fst]. rewrite Nat.eqb_refl. reflexivity.
  - destruct (P (k', v')); [cbn [find fst]; rewrite Ek|]; apply IH; assumption.
Qed.

Lemma nassoc_filter_none P k l : nassoc k l = None -> nassoc k (filter P l) = None.
Proof.
  unfold nassoc. induction l as [|[k' v'] l IH]; intro E; cbn [find filter fst snd] in *; [reflexivity|].
  destruct (Nat.eqb k' k) eqn:Ek; [discriminate|]. destruct (P (k', v')); [cbn [find fst]; rewrite Ek|]; apply IH; exact E.
Qed.

Lemma nassoc_filter_drop P k l v :
  NoDup (map fst l) -> nassoc k l = Some v -> P (k, v) = false -> nassoc k (filter P l) = None.
Proof.
  unfold nassoc. induction l as [|[k' v'] l IH]; intros Hnd E HP; cbn [find filter fst snd] in *; [reflexivity|].
  inversion Hnd as [|? ? Hk Hnd']; subst.
  destruct (Nat.eqb k' k) eqn:Ek.
  - apply Nat.eqb_eq in Ek. subst k'. inversion E; subst. rewrite HP.
    assert (find (fun kv : nat * str => Nat.eqb (fst kv) k) l = None) as Hn.
    { destruct (find _ l) as [[k2 v2]|] eqn:Ef; [|reflexivity]. apply find_some in Ef. destruct Ef as [Hin Hq].
      cbn [fst] in Hq. apply Nat.eqb_eq in Hq. subst k2. exfalso. apply Hk. apply in_map_iff. exists (k, v2). split; [reflexivity|exact Hin]. }
    assert (nassoc k l = None) as Hn' by (unfold nassoc; rewrite Hn; reflexivity).
    pose proof (nassoc_filter_none P k l Hn') as H. unfold nassoc in H. exact H.
  - destruct (P (k', v')); [cbn [find fst]; rewrite Ek|]; apply IH; assumption.
Qed.

(* every explicitly resolved, non-empty name other than 16/17 is written as given *)
Theorem other_names_written vals k v :
  NoDup (map fst vals) -> k <> 16 -> k <> 17 -> nassoc k vals = Some v -> v <> [] ->
  nassoc k (name_records vals) = Some v.
Proof.
  intros Hnd H16 H17 E Hv. unfold name_records. apply nassoc_filter_keep; [exact Hnd|exact E|].
  cbn [fst snd]. destruct v; [congruence|]. cbn [negb andb].
  replace (Nat.eqb k 16) with false by (symmetry; apply Nat.eqb_neq; exact H16).
  replace (Nat.eqb k 17) with false by (symmetry; apply Nat.eqb_neq; exact H17).
  cbn [orb]. rewrite andb_false_r. reflexivity.
Qed.

(* whatever is dropped, an application still reads the preferred (typographic) names:
   ID 16 or else ID 1 is the preferred family, ID 17 or else ID 2 the preferred subfamily *)
Theorem typographic_names_readable vals f s f1 s1 :
  NoDup (map fst vals) ->
  nassoc 16 vals = Some f -> nassoc 17 vals = Some s -> nassoc 1 vals = Some f1 -> nassoc 2 vals = Some s1 ->
  f <> [] -> s <> [] -> f1 <> [] -> s1 <> [] ->
  typographic_family (name_records vals) = f /\ typographic_subfamily (name_records vals) = s.
Proof.
  intros Hnd E16 E17 E1 E2 Hf Hs Hf1 Hs1.
  assert (nval 1 vals = f1) as V1 by (unfold nval; rewrite E1; reflexivity).
  assert (nval 2 vals = s1) as V2 by (unfold nval; rewrite E2; reflexivity).
  assert (nval 16 vals = f) as V16 by (unfold nval; rewrite E16; reflexivity).
  assert (nval 17 vals = s) as V17 by (unfold nval; rewrite E17; reflexivity).
  pose proof (other_names_written vals 1 f1 Hnd ltac:(lia) ltac:(lia) E1 Hf1) as R1.
  pose proof (other_names_written vals 2 s1 Hnd ltac:(lia) ltac:(lia) E2 Hs1) as R2.
  unfold typographic_family, typographic_subfamily, nval. rewrite R1, R2.
  unfold name_records. rewrite V1, V2, V16, V17.
  destruct (str_eqb f1 f && str_eqb s1 s) eqn:Ed.
  - apply andb_true_iff in Ed. destruct Ed as [Ef Es]. apply str_eqb_eq in Ef. apply str_eqb_eq in Es.
    rewrite (nassoc_filter_drop _ 16 vals f Hnd E16), (nassoc_filter_drop _ 17 vals s Hnd E17).
    + split; assumption.
    + cbn [fst snd]. destruct s; [congruence|]. reflexivity.
    + cbn [fst snd]. destruct f; [congruence|]. reflexivity.
  - rewrite (nassoc_filter_keep _ 16 vals f Hnd E16), (nassoc_filter_keep _ 17 vals s Hnd E17).
    + split; reflexivity.
    + cbn [fst snd]. destruct s; [congruence|]. reflexivity.
    + cbn [fst snd]. destruct f; [congruence|]. reflexivity.
Qed.
