(* C16: fontInfoData.normalizeStringForPostscript / postscriptFontNameFallback.
   Unicode NFKD decomposition is a section variable: every theorem holds for
   every decomposition function.  Definitions only. *)
From U2F Require Export Base.Prelude.
From U2F Require Import Generated.Constants.
Open Scope Z_scope.

Definition ps_allowed (c : Z) : bool := Z.leb ps_allowed_lo c && Z.leb c ps_allowed_hi.
Definition ps_exception (c : Z) : bool := existsb (Z.eqb c) ps_exceptions.
Definition SPACE : Z := 32.

Section PS.
  Variable nfkd : Z -> list Z.

  (* c.encode("ascii", errors="replace").decode(): non-ASCII -> '?' *)
  Definition ascii_replace (l : list Z) : list Z := map (fun x => if Z.ltb x 128 then x else 63) l.

  Definition ps_keep (allowSpaces : bool) (x : Z) : bool :=
    (ps_allowed x && negb (ps_exception x)) || (Z.eqb x SPACE && allowSpaces).

  Definition normalize_char (allowSpaces : bool) (c : Z) : list Z :=
    if Z.eqb c SPACE && negb allowSpaces then []
    else if ps_exception c then []
    else if ps_allowed c then [c]
    else
      let d := nfkd c in
      let d' := if forallb ps_allowed d then d else ascii_replace d in
      filter (ps_keep allowSpaces) d'.

  Definition normalize_ps (allowSpaces : bool) (s : str) : str := flat_map (normalize_char allowSpaces) s.

  (* the code before the repair (commit fa90da0): decomposed characters were appended unchecked *)
  Definition normalize_char_v0 (allowSpaces : bool) (c : Z) : list Z :=
    if Z.eqb c SPACE && negb allowSpaces then []
    else if ps_exception c then []
    else if ps_allowed c then [c]
    else let d := nfkd c in if forallb ps_allowed d then d else ascii_replace d.
  Definition normalize_ps_v0 (allowSpaces : bool) (s : str) : str := flat_map (normalize_char_v0 allowSpaces) s.

  (* postscriptFontNameFallback: "{family}-{style}" without spaces *)
  Definition ps_font_name_fallback (family style : str) : str :=
    normalize_ps false (family ++ [45] ++ style).
End PS.

(* printable ASCII, no space, none of []{}<>()/% *)
Definition ps_clean_char (x : Z) : bool :=
  Z.leb 33 x && Z.leb x 126 &&
  negb (existsb (Z.eqb x) [91; 93; 40; 41; 123; 125; 60; 62; 47; 37]).
Definition ps_clean (s : str) : bool := forallb ps_clean_char s.

(* nfkd given as a finite table for the characters of one case *)
Definition nfkd_of_table (t : list (Z * list Z)) (c : Z) : list Z :=
  (fix go (l : list (Z * list Z)) := match l with
                                     | [] => [c]
                                     | (k, v) :: r => if Z.eqb k c then v else go r end) t.
