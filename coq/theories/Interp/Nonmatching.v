(* C09: TTFInterpolatablePreProcessor.check_for_nonmatching_components -- which composites are decomposed in ALL masters
   before the TrueType glyphs are built, so that no master ends up with a different structure.
   A layer = the 2x2 parts of the glyph's components in one master that has the glyph.  Definitions only. *)
From U2F Require Export Geometry.Model.

Definition m2x2 := (Qc * Qc * Qc * Qc)%type.
Definition entries (c : m2x2) : list Qc := let '(a, b, c', d) := c in [a; b; c'; d].
Definition m2x2_eqb (x y : m2x2) : bool := list_eqb qc_eqb (entries x) (entries y).

Definition qc2 : Qc := Q2Qc 2.
(* `s > 2 or s < -2`: what makes fontTools' TTGlyphPen decompose a composite on its own when glyf is built *)
Definition overflows (c : m2x2) : bool := existsb (fun s => qc_ltb qc2 s || qc_ltb s (- qc2)) (entries c).
Definition pen_decomposes (layer : list m2x2) : bool := existsb overflows layer.

Definition min_count (layers : list (list m2x2)) : nat :=
  match layers with [] => O | l :: rest => fold_left (fun m x => Nat.min m (length x)) rest (length l) end.

Definition mismatch_at (layers : list (list m2x2)) (i : nat) : bool :=
  match layers with
  | [] => false
  | l0 :: _ => existsb (fun l => negb (option_eqb m2x2_eqb (nth_error l i) (nth_error l0 i))) layers
  end.

Definition needs_decomposition (layers : list (list m2x2)) : bool :=
  if negb (existsb (fun l => negb (Nat.eqb (length l) 0)) layers) then false
  else if existsb pen_decomposes layers then true
  else existsb (mismatch_at layers) (seq 0 (min_count layers)).

(* the code before repairs F19 / F21: no overflow clause *)
Definition needs_decomposition_old (layers : list (list m2x2)) : bool :=
  if negb (existsb (fun l => negb (Nat.eqb (length l) 0)) layers) then false
  else existsb (mismatch_at layers) (seq 0 (min_count layers)).
