(* C10 / C19: the variation model for ANY number of masters and axes, as ufo2ft uses it
   (fontTools.varLib.models.VariationModel: getDeltas + interpolateFromDeltas, through fontMath / varLib.merger).
   Masters are taken in the model's own order (default first).  row_i = the scalars of ALL regions at master i's
   location (getScalars(location_i)).  Definitions only. *)
From U2F Require Export Geometry.Model.
Open Scope Qc_scope.

Fixpoint dot (a b : list Qc) : Qc :=
  match a, b with x :: a', y :: b' => x * y + dot a' b' | _, _ => qc0 end.

(* getDeltas: delta_i = master_i - sum_{j<i} scalar_j(location_i) * delta_j   (deltaWeights hold exactly those j < i) *)
Fixpoint get_deltas (ms : list Qc) (rows : list (list Qc)) (acc : list Qc) : list Qc :=
  match ms, rows with
  | m :: ms', r :: rows' => get_deltas ms' rows' (acc ++ [m - dot (firstn (length acc) r) acc])
  | _, _ => acc
  end.

(* interpolateFromDeltas with the scalars of a location *)
Definition interpolate (scalars deltas : list Qc) : Qc := dot scalars deltas.

(* the property of the model's regions that makes it reproduce the masters (checked on real VariationModel objects by
   the harness): at master i's location region i has scalar 1 and every LATER region has scalar 0 *)
Fixpoint unit_lower (i : nat) (rows : list (list Qc)) : bool :=
  match rows with
  | [] => true
  | r :: rows' => qc_eqb (nth i r qc0) qc1 && forallb (fun x => qc_eqb x qc0) (skipn (S i) r) && unit_lower (S i) rows'
  end.

Definition rows_ok (n : nat) (rows : list (list Qc)) : bool :=
  Nat.eqb (length rows) n && forallb (fun r => Nat.eqb (length r) n) rows && unit_lower 0 rows.

Definition qc_list_eqb (a b : list Qc) : bool := list_eqb qc_eqb a b.
