From U2F Require Import Geometry.Model Geometry.ModelProofs Interp.Instance.
Open Scope Qc_scope.

Lemma qc0_eq : qc0 = 0. Proof. apply Qc_is_canon. reflexivity. Qed.
Lemma qc1_eq : qc1 = 1. Proof. apply Qc_is_canon. reflexivity. Qed.

(* an instance at a master's location is that master *)
Theorem instance_at_master m0 m1 :
  instance_at m0 m1 qc0 = m0 /\ instance_at m0 m1 qc1 = m1.
Proof.
  unfold instance_at. split.
  - assert (qc_eqb qc0 qc0 = true) as -> by (apply qc_eqb_eq; reflexivity). reflexivity.
  - assert (qc_eqb qc1 qc0 = false) as ->.
    { destruct (qc_eqb qc1 qc0) eqn:E; [|reflexivity]. apply qc_eqb_eq in E. exfalso. discriminate (f_equal (fun q => Qnum (this q)) E). }
    assert (qc_eqb qc1 qc1 = true) as -> by (apply qc_eqb_eq; reflexivity). reflexivity.
Qed.

(* elsewhere on a two-master axis every number is the exact linear blend *)
Theorem two_master_linear m0 m1 t k a b :
  t <> qc0 -> t <> qc1 -> nth_error m0 k = Some a -> nth_error m1 k = Some b ->
  nth_error (instance_at m0 m1 t) k = Some (a + t * (b - a)).
Proof.
  intros H0 H1. unfold instance_at.
  assert (qc_eqb t qc0 = false) as -> by (destruct (qc_eqb t qc0) eqn:E; [apply qc_eqb_eq in E; contradiction|reflexivity]).
  assert (qc_eqb t qc1 = false) as -> by (destruct (qc_eqb t qc1) eqn:E; [apply qc_eqb_eq in E; contradiction|reflexivity]).
  revert m1 k. induction m0 as [|x m0 IH]; intros [|y m1] [|k] Ha Hb; simpl in *; try discriminate.
  - inversion Ha; inversion Hb; subst. reflexivity.
  - apply IH; assumption.
Qed.

(* the blend is continuous at the masters: the formula itself gives the masters at 0 and 1 *)
Theorem blend_endpoints m0 m1 : length m0 = length m1 -> blend m0 m1 0 = m0 /\ blend m0 m1 1 = m1.
Proof.
  revert m1. induction m0 as [|x m0 IH]; intros [|y m1] Hl; simpl in *; try discriminate; [auto|].
  destruct (IH m1) as [H0 H1]; [congruence|]. rewrite H0, H1. split; f_equal; ring.
Qed.

(* ---- swapping ---- *)
Lemma sw_invol a b n : sw a b (sw a b n) = n.
Proof.
  unfold sw. destruct (str_eqb n a) eqn:Ea.
  - apply str_eqb_eq in Ea. subst n. destruct (str_eqb b a) eqn:Eba.
    + apply str_eqb_eq in Eba. exact Eba.
    + rewrite str_eqb_refl. reflexivity.
  - destruct (str_eqb n b) eqn:Eb.
    + apply str_eqb_eq in Eb. subst n. rewrite str_eqb_refl. reflexivity.
    + rewrite Ea, Eb. reflexivity.
Qed.

Lemma map_sw_invol a b l : map (sw a b) (map (sw a b) l) = l.
Proof. rewrite map_map. rewrite <- (map_id l) at 2. apply map_ext. intro. apply sw_invol. Qed.

(* code points are not swapped *)
Theorem swap_keeps_unicodes a b f f' n g :
  swap_glyph_names a b f = Some f' -> assoc n (sf_glyphs f) = Some g ->
  exists g', assoc n (sf_glyphs f') = Some g' /\ sg_unicodes g' = sg_unicodes g.
Proof.
  unfold swap_glyph_names. destruct (assoc a (sf_glyphs f)) as [ga|]; [|discriminate].
  destruct (assoc b (sf_glyphs f)) as [gb|]; [|discriminate]. intro E. inversion E; subst; clear E. simpl.
  induction (sf_glyphs f) as [|[k v] l IH]; simpl; [discriminate|].
  destruct (str_eqb n k) eqn:Enk.
  - intro H. inversion H; subst.
    destruct (str_eqb k a); simpl; [rewrite Enk; eexists; split; [reflexivity|reflexivity]|].
    destruct (str_eqb k b); simpl; rewrite Enk; eexists; split; reflexivity.
  - intro H. destruct (IH H) as [g' [H1 H2]]. exists g'. split; [|exact H2].
    destruct (str_eqb k a); simpl; [rewrite Enk; exact H1|].
    destruct (str_eqb k b); simpl; rewrite Enk; exact H1.
Qed.

(* kerning and group references are renamed by an involution: swapping twice restores them *)
Theorem swap_twice_restores_references a b f f1 f2 :
  swap_glyph_names a b f = Some f1 -> swap_glyph_names a b f1 = Some f2 ->
  sf_kerning f2 = sf_kerning f /\ sf_groups f2 = sf_groups f.
Proof.
  unfold swap_glyph_names.
  destruct (assoc a (sf_glyphs f)) as [ga|]; [|discriminate].
  destruct (assoc b (sf_glyphs f)) as [gb|]; [|discriminate]. intro E1. inversion E1; subst; clear E1. simpl.
  destruct (assoc a _) as [ga'|]; [|discriminate]. destruct (assoc b _) as [gb'|]; [|discriminate].
  intro E2. inversion E2; subst; clear E2. simpl. split.
  - rewrite map_map. rewrite <- (map_id (sf_kerning f)) at 2. apply map_ext. intros [[k1 k2] v]. simpl.
    rewrite !sw_invol. reflexivity.
  - rewrite map_map. rewrite <- (map_id (sf_groups f)) at 2. apply map_ext. intros [k m]. simpl.
    rewrite map_sw_invol. reflexivity.
Qed.

