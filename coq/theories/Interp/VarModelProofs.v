From Coq Require Import QArith Qcanon.
From U2F Require Import Base.Prelude Geometry.Model Geometry.ModelProofs.
From U2F Require Import Interp.VarModel.
Open Scope Qc_scope.

Lemma qc0_is_0 : qc0 = 0. Proof. reflexivity. Qed.
Lemma qc1_is_1 : qc1 = 1. Proof. reflexivity. Qed.

Lemma dot_app a c b d : length a = length c -> dot (a ++ b) (c ++ d) = dot a c + dot b d.
Proof.
  revert c. induction a as [|x a IH]; intros [|y c] H; try discriminate; cbn [app dot].
  - rewrite qc0_is_0. ring.
  - injection H as H. rewrite (IH c H). ring.
Qed.

Lemma dot_zeros z d : forallb (fun x => qc_eqb x qc0) z = true -> dot z d = 0.
Proof.
  revert d. induction z as [|x z IH]; intros d H; cbn [dot]; [reflexivity|]. destruct d as [|y d]; [reflexivity|].
  cbn [forallb] in H. apply andb_true_iff in H. destruct H as [Hx Hz]. apply qc_eqb_eq in Hx. subst x.
  rewrite (IH d Hz), qc0_is_0. ring.
Qed.

Lemma get_deltas_prefix ms : forall rows acc, exists tl, get_deltas ms rows acc = acc ++ tl.
Proof.
  induction ms as [|m ms IH]; intros rows acc; cbn [get_deltas]; [exists []; rewrite app_nil_r; reflexivity|].
  destruct rows as [|r rows]; [exists []; rewrite app_nil_r; reflexivity|].
  destruct (IH rows (acc ++ [m - dot (firstn (length acc) r) acc])) as [tl E]. rewrite E, <- app_assoc.
  eexists. reflexivity.
Qed.

Lemma firstn_prefix (acc tl : list Qc) : firstn (length acc) (acc ++ tl) = acc.
Proof. rewrite firstn_app, Nat.sub_diag, firstn_all. cbn. apply app_nil_r. Qed.

Lemma get_deltas_nth ms : forall rows acc i m r,
  nth_error ms i = Some m -> nth_error rows i = Some r ->
  nth_error (get_deltas ms rows acc) (length acc + i) =
  Some (m - dot (firstn (length acc + i) r) (firstn (length acc + i) (get_deltas ms rows acc))).
Proof.
  induction ms as [|m0 ms IH]; intros rows acc i m r Hm Hr; [destruct i; discriminate|].
  destruct rows as [|r0 rows]; [destruct i; discriminate|]. cbn [get_deltas].
  set (d0 := m0 - dot (firstn (length acc) r0) acc).
  destruct i as [|k].
  - cbn in Hm, Hr. injection Hm as <-. injection Hr as <-. rewrite Nat.add_0_r.
    destruct (get_deltas_prefix ms rows (acc ++ [d0])) as [tl E]. rewrite E, <- app_assoc.
    rewrite firstn_prefix. rewrite nth_error_app2 by lia. rewrite Nat.sub_diag. reflexivity.
  - cbn in Hm, Hr. specialize (IH rows (acc ++ [d0]) k m r Hm Hr).
    rewrite app_length in IH. cbn [length] in IH.
    replace (length acc + 1 + k)%nat with (length acc + S k)%nat in IH by lia. exact IH.
Qed.

Lemma split_at {A} (l : list A) i x : nth_error l i = Some x -> l = firstn i l ++ x :: skipn (S i) l.
Proof.
  revert i. induction l as [|y l IH]; intros [|i] H; try discriminate; cbn in *.
  - injection H as ->. reflexivity.
  - f_equal. apply IH. exact H.
Qed.

Lemma unit_lower_nth rows : forall k i r,
  unit_lower k rows = true -> nth_error rows i = Some r ->
  nth (k + i) r qc0 = qc1 /\ forallb (fun x => qc_eqb x qc0) (skipn (S (k + i)) r) = true.
Proof.
  induction rows as [|r0 rows IH]; intros k i r H Hr; [destruct i; discriminate|].
  cbn [unit_lower] in H. apply andb_true_iff in H. destruct H as [H H3]. apply andb_true_iff in H. destruct H as [H1 H2].
  destruct i as [|i]; cbn in Hr.
  - injection Hr as <-. rewrite Nat.add_0_r. split; [apply qc_eqb_eq; exact H1|exact H2].
  - replace (k + S i)%nat with (S k + i)%nat by lia. apply IH; assumption.
Qed.

(* ANY variation model whose regions have scalar 1 at their own master's location and scalar 0 at every earlier
   master's location reproduces every master at that master's location -- any number of masters, any number of axes *)
Theorem model_reproduces_masters ms rows :
  rows_ok (length ms) rows = true ->
  forall i m r, nth_error ms i = Some m -> nth_error rows i = Some r ->
  interpolate r (get_deltas ms rows []) = m.
Proof.
  intros Hok i m r Hm Hr. unfold rows_ok in Hok. apply andb_true_iff in Hok. destruct Hok as [Hok Hu].
  apply andb_true_iff in Hok. destruct Hok as [Hn Hlen]. apply Nat.eqb_eq in Hn.
  pose proof (get_deltas_nth ms rows [] i m r Hm Hr) as HD. cbn [length Nat.add] in HD.
  set (D := get_deltas ms rows []) in *.
  destruct (unit_lower_nth rows 0 i r Hu Hr) as [H1 H0]. cbn [Nat.add] in H1, H0.
  assert (length r = length ms) as Hlr.
  { rewrite forallb_forall in Hlen. apply Nat.eqb_eq. apply Hlen. eapply nth_error_In. exact Hr. }
  assert (i < length r)%nat as Hi by (rewrite Hlr; apply nth_error_Some; congruence).
  assert (nth_error r i = Some qc1) as Hri.
  { rewrite <- H1. apply nth_error_nth'. exact Hi. }
  unfold interpolate. rewrite (split_at r i qc1 Hri) at 1. rewrite (split_at D i _ HD) at 1.
  rewrite dot_app.
  - cbn [dot]. rewrite (dot_zeros _ _ H0), qc1_is_1. ring.
  - rewrite !firstn_length. assert (i < length D)%nat by (apply nth_error_Some; congruence). lia.
Qed.

(* two masters on one axis: rows [[1;0];[1;1]] -- the blend of Interp/Instance.v is this model *)
Example two_master_instance m0 m1 t :
  interpolate [1; t] (get_deltas [m0; m1] [[1; 0]; [1; 1]] []) = m0 + t * (m1 - m0).
Proof. cbn [get_deltas interpolate dot firstn length app]. rewrite qc0_is_0. ring. Qed.

(* three masters on one axis, default in the middle (regions: default, [-1,-1,0], [0,1,1]); non-vacuity of rows_ok *)
Example three_master_rows_ok :
  rows_ok 3 [[1; 0; 0]; [1; 1; 0]; [1; 0; 1]] = true.
Proof. vm_compute. reflexivity. Qed.
