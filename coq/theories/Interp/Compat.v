(* C09: point-compatibility ("shape") of glyphs and what decomposition does to it. *)
From U2F Require Export Geometry.Model Geometry.Cff.
Open Scope nat_scope.

(* the interpolation-relevant structure of a contour: on/off flags in order + segment types *)
Definition shape := (list bool * list ptype)%type.
Definition contour_shape (c : contour) : shape := (map on (cpts c), ctypes c).

Definition shape_eqb (a b : shape) : bool :=
  list_eqb Bool.eqb (fst a) (fst b) && list_eqb ptype_eqb (snd a) (snd b).

(* reversal acts on shapes *)
Fixpoint drop_leading_false (l : list bool) : list bool :=
  match l with b :: l' => if b then l else drop_leading_false l' | [] => [] end.

Definition rev_shape (s : shape) : shape :=
  match fst s with
  | [] => s
  | b0 :: rest =>
      match snd s with
      | Move :: r => (drop_leading_false (rev (fst s)), Move :: rev r)
      | ts => (b0 :: rev rest,
               if b0 then match ts with t1 :: r => rot_right (t1 :: rev r) | [] => [] end
               else rot_right (rev ts))
      end
  end.

(* per-glyph structure: contour shapes + component base names *)
Definition glyph_shape (g : glyph) : list shape * list str := (map contour_shape (gcontours g), map fst (gcomps g)).

(* two masters' decomposed outlines have the same structure *)
Definition outlines_compatible (a b : list contour) : bool :=
  list_eqb shape_eqb (map contour_shape a) (map contour_shape b).
