From Coq Require Import QArith Qcanon.
From U2F Require Import Base.Prelude Geometry.Model Geometry.ModelProofs.
From U2F Require Import Interp.Nonmatching.

Lemma m2x2_eqb_eq x y : m2x2_eqb x y = true <-> x = y.
Proof.
  unfold m2x2_eqb. destruct x as [[[a b] c] d], y as [[[a' b'] c'] d']. cbn [entries].
  rewrite (list_eqb_spec qc_eqb qc_eqb_eq). split; intro H; [injection H as -> -> -> ->|injection H as -> -> -> ->]; reflexivity.
Qed.

(* a composite that is kept never makes the TrueType pen decompose it in some master on its own *)
Theorem kept_composite_never_overflows layers :
  needs_decomposition layers = false -> forall l, In l layers -> pen_decomposes l = false.
Proof.
  unfold needs_decomposition. intros H l Hl.
  destruct (negb (existsb (fun l => negb (Nat.eqb (length l) 0)) layers)) eqn:E0.
  - (* no components anywhere *)
    apply negb_true_iff in E0. destruct l as [|c l']; [reflexivity|]. exfalso.
    assert (existsb (fun l => negb (Nat.eqb (length l) 0)) layers = true); [|congruence].
    apply existsb_exists. exists (c :: l'). split; [exact Hl|reflexivity].
  - destruct (existsb pen_decomposes layers) eqn:E1; [discriminate|].
    destruct (pen_decomposes l) eqn:E; [|reflexivity]. exfalso.
    assert (existsb pen_decomposes layers = true); [|congruence]. apply existsb_exists. exists l. auto.
Qed.

Lemma fold_min_le (rest : list (list m2x2)) : forall m x, In x rest -> (fold_left (fun m x => Nat.min m (length x)) rest m <= length x)%nat.
Proof.
  induction rest as [|y rest IH]; intros m x Hin; [destruct Hin|]. cbn [fold_left]. destruct Hin as [->|Hin].
  - clear IH. generalize (Nat.min m (length x)) (Nat.le_min_r m (length x)). clear m.
    induction rest as [|z rest IH]; intros m Hm; cbn [fold_left]; [exact Hm|]. apply IH. lia.
  - apply IH. exact Hin.
Qed.

Lemma fold_min_init (rest : list (list m2x2)) : forall m, (fold_left (fun m x => Nat.min m (length x)) rest m <= m)%nat.
Proof. induction rest as [|y rest IH]; intro m; cbn [fold_left]; [lia|]. specialize (IH (Nat.min m (length y))). lia. Qed.

Lemma fold_min_ge (rest : list (list m2x2)) : forall m k, (k <= m)%nat -> (forall x, In x rest -> (k <= length x)%nat) ->
  (k <= fold_left (fun m x => Nat.min m (length x)) rest m)%nat.
Proof.
  induction rest as [|y rest IH]; intros m k Hm Hall; cbn [fold_left]; [exact Hm|]. apply IH.
  - specialize (Hall y (or_introl eq_refl)). lia.
  - intros x Hx. apply Hall. right. exact Hx.
Qed.

Lemma nth_error_ext' {A} (l l' : list A) : (forall i, nth_error l i = nth_error l' i) -> l = l'.
Proof.
  revert l'. induction l as [|x l IH]; intros [|y l'] H; [reflexivity|specialize (H O); discriminate|specialize (H O); discriminate|].
  pose proof (H O) as H0. cbn in H0. injection H0 as ->. f_equal. apply IH. intro i. exact (H (S i)).
Qed.

(* ... and when all masters have the same number of components, a kept composite has the same 2x2 part, component by
   component, in every master: the masters stay structurally compatible, only the offsets vary *)
Theorem kept_composite_matches layers l0 rest :
  layers = l0 :: rest -> (forall l, In l layers -> length l = length l0) ->
  needs_decomposition layers = false -> forall l, In l layers -> l = l0.
Proof.
  intros -> Hlen H l Hl. unfold needs_decomposition in H.
  destruct (negb (existsb (fun l => negb (Nat.eqb (length l) 0)) (l0 :: rest))) eqn:E0.
  - (* no components anywhere: all layers are empty lists *)
    apply negb_true_iff in E0.
    assert (forall x, In x (l0 :: rest) -> x = []) as Hnil.
    { intros x Hx. destruct x as [|c x']; [reflexivity|]. exfalso.
      assert (existsb (fun l => negb (Nat.eqb (length l) 0)) (l0 :: rest) = true); [|congruence].
      apply existsb_exists. exists (c :: x'). split; [exact Hx|reflexivity]. }
    rewrite (Hnil l Hl), (Hnil l0 (or_introl eq_refl)). reflexivity.
  - destruct (existsb pen_decomposes (l0 :: rest)); [discriminate|].
    assert (min_count (l0 :: rest) = length l0) as Hmin.
    { unfold min_count. apply Nat.le_antisymm; [apply fold_min_init|]. apply fold_min_ge; [lia|].
      intros x Hx. rewrite (Hlen x (or_intror Hx)). lia. }
    rewrite Hmin in H.
    apply nth_error_ext'. intro i. destruct (Nat.lt_ge_cases i (length l0)) as [Hi|Hi].
    + destruct (option_eqb m2x2_eqb (nth_error l i) (nth_error l0 i)) eqn:Ee.
      * destruct (nth_error l i) as [x|], (nth_error l0 i) as [y|]; cbn in Ee; try discriminate; [|reflexivity].
        apply m2x2_eqb_eq in Ee. subst. reflexivity.
      * exfalso. assert (existsb (mismatch_at (l0 :: rest)) (seq 0 (length l0)) = true); [|congruence].
        apply existsb_exists. exists i. split; [apply in_seq; lia|]. unfold mismatch_at. apply existsb_exists.
        exists l. split; [exact Hl|]. rewrite Ee. reflexivity.
    + assert (nth_error l0 i = None) as -> by (apply nth_error_None; exact Hi).
      apply nth_error_None. rewrite (Hlen l Hl). exact Hi.
Qed.

(* before repairs F19 / F21 a composite scaled by 2.25 in every master was kept -- and then decomposed by the pen master by
   master (against a sparse master's empty placeholders: the glyph came out empty there) *)
Example old_code_keeps_an_overflowing_composite :
  let c := (Q2Qc (9#4), Q2Qc 0, Q2Qc 0, Q2Qc (9#4)) in
  needs_decomposition_old [[c]; [c]] = false /\ pen_decomposes [c] = true /\ needs_decomposition [[c]; [c]] = true.
Proof. vm_compute. repeat split. Qed.
