From U2F Require Import Geometry.Model Geometry.ModelProofs Geometry.Cff Interp.Compat.
Open Scope nat_scope.

Lemma shape_aff t c : contour_shape (aff_contour t c) = contour_shape c.
Proof.
  unfold contour_shape, aff_contour. simpl. f_equal. rewrite map_map. apply map_ext. reflexivity.
Qed.

Lemma map_on_drop l : map on (drop_leading_off l) = drop_leading_false (map on l).
Proof. induction l as [|p l IH]; [reflexivity|]. simpl. destruct (on p) eqn:E; simpl; [rewrite E; reflexivity|exact IH]. Qed.

(* the structure of a reversed contour is a function of the structure of the contour *)
Theorem shape_rev c : contour_shape (rev_contour c) = rev_shape (contour_shape c).
Proof.
  destruct c as [pts ts]. unfold rev_contour, contour_shape, rev_shape, is_open. simpl.
  destruct pts as [|p0 rest]; [reflexivity|]. simpl map.
  destruct ts as [|[] r]; simpl; try (rewrite map_rev; reflexivity).
  rewrite map_on_drop. simpl. rewrite map_app, map_rev. reflexivity.
Qed.

(* the same structure in, the same structure out -- provided both masters mirror or both do not *)
Theorem place_shape t t' c c' :
  mirrors t = mirrors t' -> contour_shape c = contour_shape c' ->
  contour_shape (place t c) = contour_shape (place t' c').
Proof.
  intros Hm Hs. unfold place. rewrite <- Hm. destruct (mirrors t).
  - rewrite !shape_rev, !shape_aff, Hs. reflexivity.
  - rewrite !shape_aff. exact Hs.
Qed.

(* without that hypothesis the statement is false: a component mirrored in one master only
   yields different structures (line,curve,line) vs its reversal (finding F7) *)
Example compat_refuted :
  exists t t' c, contour_shape (place t c) <> contour_shape (place t' c).
Proof.
  exists aff_id, (mkA (qi (-1)) qc0 qc0 qc1 qc0 qc0),
         (mkC [mkP (qi 0) (qi 0) true; mkP (qi 9) (qi 0) true; mkP (qi 9) (qi 5) false; mkP (qi 5) (qi 9) false;
               mkP (qi 0) (qi 9) true; mkP (qi (-3)) (qi 4) true]
              [Line; Line; Curve; Line]).
  vm_compute. discriminate.
Qed.

(* lists of contours *)
Lemma map_place_shape t t' cs cs' :
  mirrors t = mirrors t' -> map contour_shape cs = map contour_shape cs' ->
  map contour_shape (map (place t) cs) = map contour_shape (map (place t') cs').
Proof.
  intro Hm. revert cs'. induction cs as [|c cs IH]; intros [|c' cs'] H; simpl in *; try discriminate; [reflexivity|].
  pose proof (f_equal (hd (contour_shape c)) H) as H1. pose proof (f_equal (@tl shape) H) as H2. cbn [hd tl] in H1, H2.
  f_equal; [apply place_shape; [exact Hm|exact H1]|apply IH; exact H2].
Qed.
