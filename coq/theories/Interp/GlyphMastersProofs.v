From U2F Require Import Base.Prelude.
From U2F Require Import Interp.GlyphMasters.
Open Scope Z_scope.

Lemma existsb_perm {A} (p : A -> bool) l l' : Permutation l l' -> existsb p l = existsb p l'.
Proof.
  intro H. destruct (existsb p l) eqn:E.
  - symmetry. apply existsb_exists. apply existsb_exists in E. destruct E as [x [Hx Hp]]. exists x. split; [|exact Hp].
    eapply Permutation_in; eauto.
  - symmetry. destruct (existsb p l') eqn:E'; [|reflexivity]. apply existsb_exists in E'. destruct E' as [x [Hx Hp]].
    assert (existsb p l = true) as C; [|congruence]. apply existsb_exists. exists x. split; [|exact Hp].
    eapply Permutation_in; [apply Permutation_sym; exact H|exact Hx].
Qed.

Lemma filter_perm {A} (p : A -> bool) l l' : Permutation l l' -> Permutation (filter p l) (filter p l').
Proof.
  induction 1 as [|x l l' _ IH|x y l|l l' l'' _ IH1 _ IH2]; cbn.
  - constructor.
  - destruct (p x); [constructor|]; exact IH.
  - destruct (p x), (p y); try apply Permutation_refl; apply perm_swap.
  - eapply Permutation_trans; eauto.
Qed.

(* the order in which the designspace lists its sources does not matter *)
Theorem collect_order_independent srcs srcs' :
  Permutation srcs srcs' ->
  match collect srcs, collect srcs' with
  | Some a, Some b => Permutation a b
  | None, None => True
  | _, _ => False
  end.
Proof.
  intro H. unfold collect.
  rewrite (existsb_perm (fun s => s_default s && is_absent s) _ _ H).
  destruct (existsb (fun s => s_default s && is_absent s) srcs'); [trivial|].
  rewrite (existsb_perm (fun s => s_default s && is_empty s) _ _ H).
  rewrite (existsb_perm (fun s => negb (s_default s) && is_empty s) _ _ H).
  destruct (negb _ && _); repeat apply filter_perm; exact H.
Qed.

Section Keeps.
  Variable srcs kept : list src.
  Hypothesis Hc : collect srcs = Some kept.

  Lemma no_default_absent d : In d srcs -> s_default d = true -> is_absent d = false.
  Proof.
    intros Hd Hdd. unfold collect in Hc. destruct (existsb (fun s => s_default s && is_absent s) srcs) eqn:Ea; [discriminate|].
    destruct (is_absent d) eqn:E; [|reflexivity]. exfalso.
    assert (existsb (fun s => s_default s && is_absent s) srcs = true); [|congruence].
    apply existsb_exists. exists d. split; [exact Hd|]. rewrite Hdd, E. reflexivity.
  Qed.

  Lemma kept_char s : In s kept <->
    In s srcs /\ is_absent s = false /\
    (negb (existsb (fun s => s_default s && is_empty s) srcs) && existsb (fun s => negb (s_default s) && is_empty s) srcs = true -> is_empty s = false).
  Proof.
    unfold collect in Hc. destruct (existsb (fun s => s_default s && is_absent s) srcs); [discriminate|].
    injection Hc as <-. destruct (negb _ && _).
    - rewrite !filter_In, !negb_true_iff. tauto.
    - rewrite filter_In, negb_true_iff. split; [intros [H1 H2]; repeat split; auto; discriminate|tauto].
  Qed.

  (* the default source always takes part *)
  Theorem default_kept s : In s srcs -> s_default s = true -> In s kept.
  Proof.
    intros Hin Hd. apply kept_char. repeat split; [exact Hin|apply no_default_absent; assumption|].
    intro H. apply andb_true_iff in H. destruct H as [H _]. apply negb_true_iff in H.
    destruct (is_empty s) eqn:E; [|reflexivity]. exfalso.
    assert (existsb (fun s => s_default s && is_empty s) srcs = true); [|congruence].
    apply existsb_exists. exists s. split; [exact Hin|]. rewrite Hd, E. reflexivity.
  Qed.

  (* a source that has the glyph with an outline always takes part *)
  Theorem outlined_kept s : In s srcs -> s_glyph s = Outlined -> In s kept.
  Proof.
    intros Hin Ho. apply kept_char. unfold is_absent, is_empty. rewrite Ho. repeat split; auto.
  Qed.

  (* when the default's glyph is empty nothing is dropped: a glyph that is empty everywhere (a space) keeps all its masters,
     with their advances *)
  Theorem empty_kept_when_default_empty d s :
    In d srcs -> s_default d = true -> s_glyph d = Empty -> In s srcs -> s_glyph s = Empty -> In s kept.
  Proof.
    intros Hd Hdd Hde Hin He. apply kept_char. unfold is_absent. rewrite He. repeat split; auto.
    intro H. apply andb_true_iff in H. destruct H as [H _]. apply negb_true_iff in H. exfalso.
    assert (existsb (fun s => s_default s && is_empty s) srcs = true); [|congruence].
    apply existsb_exists. exists d. split; [exact Hd|]. unfold is_empty. rewrite Hdd, Hde. reflexivity.
  Qed.

  (* an empty non-default master is dropped exactly when no default source is empty *)
  Theorem empty_dropped_when_default_outlined s :
    (forall d, In d srcs -> s_default d = true -> s_glyph d <> Empty) ->
    In s srcs -> s_default s = false -> s_glyph s = Empty -> ~ In s kept.
  Proof.
    intros Hall Hin Hnd He Hk. apply kept_char in Hk. destruct Hk as [_ [_ Hk]].
    assert (is_empty s = true) as E by (unfold is_empty; rewrite He; reflexivity).
    rewrite Hk in E; [discriminate|]. apply andb_true_iff. split.
    - apply negb_true_iff. destruct (existsb (fun s => s_default s && is_empty s) srcs) eqn:Ex; [|reflexivity]. exfalso.
      apply existsb_exists in Ex. destruct Ex as [d [Hd Hp]]. apply andb_true_iff in Hp. destruct Hp as [Hp1 Hp2].
      apply (Hall d Hd Hp1). unfold is_empty in Hp2. destruct (s_glyph d); try discriminate. reflexivity.
    - apply existsb_exists. exists s. split; [exact Hin|]. rewrite Hnd, E. reflexivity.
  Qed.
End Keeps.

(* the single-pass refactoring (seeded change C19-sub4) depends on the order: Light, Regular (default), Bold, all empty *)
Example single_pass_order_dependent :
  let l := mkSrc 100 false Empty in let r := mkSrc 400 true Empty in let b := mkSrc 700 false Empty in
  collect [l; r; b] = Some [l; r; b] /\ collect_single_pass false [l; r; b] = [r; b] /\ collect_single_pass false [r; l; b] = [r; l; b].
Proof. vm_compute. repeat split. Qed.
