(* C06 / C10: util.collapse_varscalar -- a variable value whose masters all agree (within a threshold, 0 by default) is
   written as a plain number.  Definitions only. *)
From U2F Require Export Geometry.Model Interp.VarModel.
Open Scope Qc_scope.

(* values in the order of the designspace's sources; the threshold compares every value with the FIRST one *)
Definition collapse (values : list Qc) (threshold : Qc) : option Qc :=
  match values with
  | [] => None
  | v0 :: rest => if forallb (fun v => qc_leb (qc_abs (v - v0)) threshold) rest then Some v0 else None
  end.

(* the two slips of seeded changes C10-sub5 (first against last only) and C06-sub5 (any instead of all) *)
Definition collapse_first_last (values : list Qc) (threshold : Qc) : option Qc :=
  match values with
  | [] => None
  | v0 :: rest => if qc_leb (qc_abs (last rest v0 - v0)) threshold then Some v0 else None
  end.
Definition collapse_any (values : list Qc) (threshold : Qc) : option Qc :=
  match values with
  | [] => None
  | v0 :: rest => if (match rest with [] => true | _ => false end) || existsb (fun v => qc_leb (qc_abs (v - v0)) threshold) rest
                  then Some v0 else None
  end.
