(* C19: instantiator.collect_glyph_masters -- which sources take part in a glyph's variation model.
   A source either lacks the glyph (sparse layer), or has it empty (no contours, no components), or has it with an
   outline.  Definitions only. *)
From U2F Require Export Base.Prelude.
Open Scope Z_scope.

Inductive presence := Absent | Empty | Outlined.
Record src := mkSrc { s_loc : Z; s_default : bool; s_glyph : presence }.

Definition is_absent (s : src) : bool := match s_glyph s with Absent => true | _ => false end.
Definition is_empty (s : src) : bool := match s_glyph s with Empty => true | _ => false end.

(* None = InstantiatorError (the default source must have the glyph) *)
Definition collect (srcs : list src) : option (list src) :=
  if existsb (fun s => s_default s && is_absent s) srcs then None else
  let present := filter (fun s => negb (is_absent s)) srcs in
  let default_empty := existsb (fun s => s_default s && is_empty s) srcs in
  let other_empty := existsb (fun s => negb (s_default s) && is_empty s) srcs in
  Some (if negb default_empty && other_empty then filter (fun s => negb (is_empty s)) present else present).

(* the single-pass refactoring of seeded change C19-sub4: an empty non-default master is skipped on the spot unless the
   default has ALREADY been seen to be empty *)
Fixpoint collect_single_pass (seen_default_empty : bool) (srcs : list src) : list src :=
  match srcs with
  | [] => []
  | s :: rest =>
      if is_absent s then collect_single_pass seen_default_empty rest
      else if is_empty s then
        if s_default s then s :: collect_single_pass true rest
        else if seen_default_empty then s :: collect_single_pass seen_default_empty rest
        else collect_single_pass seen_default_empty rest
      else s :: collect_single_pass seen_default_empty rest
  end.

Definition src_eqb (a b : src) : bool :=
  Z.eqb (s_loc a) (s_loc b) && Bool.eqb (s_default a) (s_default b) &&
  match s_glyph a, s_glyph b with Absent, Absent | Empty, Empty | Outlined, Outlined => true | _, _ => false end.
