From U2F Require Import Base.Prelude.
From U2F Require Import Interp.Placeholders.

Lemma dedup_acc_In x l : forall acc, In x (dedup_acc acc l) <-> In x acc \/ In x l.
Proof.
  induction l as [|y l IH]; intro acc; cbn [dedup_acc]; [cbn; tauto|]. rewrite IH. destruct (mem y acc) eqn:E.
  - cbn. split; [tauto|]. intros [H|[->|H]]; auto. left. apply mem_In. exact E.
  - rewrite in_app_iff. cbn. tauto.
Qed.
Lemma dedup_In x l : In x (dedup l) <-> In x l.
Proof. unfold dedup. rewrite dedup_acc_In. cbn. tauto. Qed.

Lemma In_missing gs b : In b (missing_bases gs) <-> (exists g, In g gs /\ In b (snd g)) /\ ~ In b (names gs).
Proof.
  unfold missing_bases. rewrite dedup_In, filter_In, in_flat_map, negb_true_iff, mem_false. tauto.
Qed.

Lemma names_placeholders gs x : In x (names (add_placeholders true gs)) <-> In x (names gs) \/ In x (missing_bases gs).
Proof.
  unfold add_placeholders, names. rewrite map_app, in_app_iff, map_map. cbn [fst]. rewrite map_id. tauto.
Qed.

(* after the placeholders are added every component of every glyph of a sparse master has its base in the glyph set *)
Theorem placeholders_cover_components gs g b :
  In g (add_placeholders true gs) -> In b (snd g) -> In b (names (add_placeholders true gs)).
Proof.
  intros Hg Hb. apply names_placeholders. unfold add_placeholders in Hg. apply in_app_or in Hg. destruct Hg as [Hg|Hg].
  - destruct (mem b (names gs)) eqn:E; [left; apply mem_In; exact E|right].
    apply In_missing. split; [exists g; auto|apply mem_false; exact E].
  - apply in_map_iff in Hg. destruct Hg as [x [<- _]]. destruct Hb.
Qed.

Lemma filter_all_id {A} (f : A -> bool) l : forallb f l = true -> filter f l = l.
Proof. induction l as [|x l IH]; cbn; [reflexivity|]. intro H. apply andb_true_iff in H. destruct H as [H1 H2]. rewrite H1, (IH H2). reflexivity. Qed.

(* hence the pen drops nothing: a composite of a sparse master keeps exactly its component list *)
Theorem sparse_master_keeps_component_lists gs g :
  In g (add_placeholders true gs) -> pen_components (add_placeholders true gs) (snd g) = snd g.
Proof.
  intro Hg. unfold pen_components. apply filter_all_id. apply forallb_forall. intros b Hb. apply mem_In.
  eapply placeholders_cover_components; eauto.
Qed.

(* the original glyphs come first and unchanged; placeholders are empty *)
Theorem placeholders_are_appended_and_empty gs :
  firstn (length gs) (add_placeholders true gs) = gs /\
  forall g, In g (skipn (length gs) (add_placeholders true gs)) -> snd g = [] /\ ~ In (fst g) (names gs).
Proof.
  unfold add_placeholders. split.
  - rewrite firstn_app, Nat.sub_diag, firstn_all. cbn. apply app_nil_r.
  - intros g Hg. rewrite skipn_app, Nat.sub_diag, skipn_all in Hg. cbn in Hg.
    apply in_map_iff in Hg. destruct Hg as [b [<- Hb]]. cbn. split; [reflexivity|]. apply In_missing in Hb. tauto.
Qed.

(* treating a sparse UFO master like the default source (seeded change C09-sub5) loses a component *)
Example without_placeholders_a_component_is_dropped :
  let gs := [([1%Z], [[2%Z]; [3%Z]]); ([3%Z], [])] in      (* Aacute = A + acute, the sparse master has acute but no A *)
  pen_components (add_placeholders false gs) [[2%Z]; [3%Z]] = [[3%Z]] /\
  pen_components (add_placeholders true gs) [[2%Z]; [3%Z]] = [[2%Z]; [3%Z]].
Proof. vm_compute. split; reflexivity. Qed.
