(* C19: instantiator.Variator.instance_at on one axis with two masters, and swap_glyph_names.
   Definitions only. *)
From U2F Require Export Geometry.Model.
Open Scope Qc_scope.

(* ---- Variator.instance_at, one axis, masters at normalized locations 0 (default) and 1 ---- *)
(* a master is a vector of numbers (coordinates, advances, kerning values, ...) *)
Definition vec := list Qc.

Fixpoint blend (a b : vec) (t : Qc) : vec :=
  match a, b with
  | x :: a', y :: b' => (x + t * (y - x)) :: blend a' b' t
  | _, _ => []
  end.

(* exact location match returns (a copy of) the master itself, otherwise the model's interpolation *)
Definition instance_at (m0 m1 : vec) (t : Qc) : vec :=
  if qc_eqb t qc0 then m0 else if qc_eqb t qc1 then m1 else blend m0 m1 t.

Definition round_vec (v : vec) : list Z := map otRound v.

(* ---- swap_glyph_names on an abstract font ---- *)
Record sglyph := mkSG {
  sg_outline : Z;                 (* stands for contours *)
  sg_width : Z;
  sg_anchors : list (str * Z);
  sg_comps : list str;            (* component base names *)
  sg_unicodes : list Z }.

Record sfont := mkSF {
  sf_glyphs : list (str * sglyph);
  sf_kerning : list ((str * str) * Z);
  sf_groups : list (str * list str) }.

Definition sw (a b n : str) : str := if str_eqb n a then b else if str_eqb n b then a else n.

(* contents that travel with the swap: outline, width, anchors, components; code points stay *)
Definition with_body (g body : sglyph) : sglyph :=
  mkSG (sg_outline body) (sg_width body) (sg_anchors body) (sg_comps body) (sg_unicodes g).

Definition rename_comps (a b : str) (g : sglyph) : sglyph :=
  mkSG (sg_outline g) (sg_width g) (sg_anchors g) (map (sw a b) (sg_comps g)) (sg_unicodes g).

Definition swap_glyph_names (a b : str) (f : sfont) : option sfont :=
  match assoc a (sf_glyphs f), assoc b (sf_glyphs f) with
  | Some ga, Some gb =>
      let glyphs1 := map (fun ng => if str_eqb (fst ng) a then (fst ng, with_body (snd ng) gb)
                                    else if str_eqb (fst ng) b then (fst ng, with_body (snd ng) ga)
                                    else ng) (sf_glyphs f) in
      Some (mkSF (map (fun ng => (fst ng, rename_comps a b (snd ng))) glyphs1)
                 (map (fun kv => ((sw a b (fst (fst kv)), sw a b (snd (fst kv))), snd kv)) (sf_kerning f))
                 (map (fun gm => (fst gm, map (sw a b) (snd gm))) (sf_groups f)))
  | _, _ => None                      (* InstantiatorError *)
  end.

(* comparison helpers *)
Definition sglyph_eqb (x y : sglyph) : bool :=
  Z.eqb (sg_outline x) (sg_outline y) && Z.eqb (sg_width x) (sg_width y) &&
  list_eqb (fun p q => str_eqb (fst p) (fst q) && Z.eqb (snd p) (snd q)) (sg_anchors x) (sg_anchors y) &&
  list_eqb str_eqb (sg_comps x) (sg_comps y) && list_eqb Z.eqb (sg_unicodes x) (sg_unicodes y).
Definition sfont_eqb (x y : sfont) : bool :=
  list_eqb (fun p q => str_eqb (fst p) (fst q) && sglyph_eqb (snd p) (snd q)) (sf_glyphs x) (sf_glyphs y) &&
  list_eqb (fun p q => str_eqb (fst (fst p)) (fst (fst q)) && str_eqb (snd (fst p)) (snd (fst q)) && Z.eqb (snd p) (snd q))
           (sf_kerning x) (sf_kerning y) &&
  list_eqb (fun p q => str_eqb (fst p) (fst q) && list_eqb str_eqb (snd p) (snd q)) (sf_groups x) (sf_groups y).
