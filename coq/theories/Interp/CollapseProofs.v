From Coq Require Import QArith Qcanon Lqa.
From U2F Require Import Base.Prelude Geometry.Model Geometry.ModelProofs Info.Fallback Info.FallbackProofs Interp.VarModel Interp.VarModelProofs.
From U2F Require Import Interp.Collapse.
Open Scope Qc_scope.

Lemma qc_abs_zero_le0 x : qc_leb (qc_abs x) qc0 = true -> x = qc0.
Proof.
  unfold qc_leb. intro H. apply negb_true_iff in H. apply qc_ltb_false_le in H. change (this qc0) with 0%Q in H.
  apply Qc_is_canon. change (this qc0) with 0%Q.
  unfold qc_abs in H. destruct (qc_ltb x qc0) eqn:E.
  - apply qc_ltb_lt in E. unfold Qclt in E. change (this qc0) with 0%Q in E. rewrite this_opp in H. lra.
  - apply qc_ltb_false_le in E. change (this qc0) with 0%Q in E. lra.
Qed.

(* with the default threshold 0: a collapsed value is the value of EVERY master *)
Theorem collapse_sound values c : collapse values qc0 = Some c -> forall v, In v values -> v = c.
Proof.
  unfold collapse. destruct values as [|v0 rest]; [discriminate|].
  destruct (forallb _ rest) eqn:E; [|discriminate]. intro H. injection H as <-. intros v [<-|Hin]; [reflexivity|].
  rewrite forallb_forall in E. specialize (E v Hin). apply qc_abs_zero_le0 in E.
  apply Qc_is_canon. assert (this (v - v0) == 0)%Q as Hz by (rewrite E; reflexivity).
  unfold Qcminus, Qcplus, Qcopp, Q2Qc in Hz. cbn [this] in Hz. rewrite !Qred_correct in Hz. lra.
Qed.

(* ... and replacing the variable value by that constant loses nothing: a variation model whose masters all have the value c
   (default region's scalar 1 everywhere, regions unit lower triangular at the master locations) yields c at EVERY location *)
Lemma dot_cons_zeros c k (r : list Qc) x :
  dot (x :: r) (c :: repeat qc0 k) = x * c.
Proof.
  cbn [dot]. assert (dot r (repeat qc0 k) = 0) as ->; [|ring].
  revert r. induction k as [|k IH]; intros [|y r]; cbn [repeat dot]; try reflexivity. rewrite IH. unfold qc0. change (Q2Qc 0) with 0. ring.
Qed.

Lemma get_deltas_constant c : forall rows k,
  (forall r, In r rows -> exists tl, r = qc1 :: tl) ->
  get_deltas (repeat c (length rows)) rows (c :: repeat qc0 k) = c :: repeat qc0 (k + length rows).
Proof.
  induction rows as [|r rows IH]; intros k Hr; cbn [length repeat get_deltas].
  - rewrite Nat.add_0_r. reflexivity.
  - destruct (Hr r (or_introl eq_refl)) as [tl ->].
    cbn [length]. rewrite repeat_length. cbn [firstn].
    assert (dot (qc1 :: firstn k tl) (c :: repeat qc0 k) = c) as ->.
    { rewrite dot_cons_zeros. unfold qc1. change (Q2Qc 1) with 1. ring. }
    assert (c - c = qc0) as -> by (unfold qc0; change (Q2Qc 0) with 0; ring).
    assert ((c :: repeat qc0 k) ++ [qc0] = c :: repeat qc0 (S k)) as ->.
    { cbn [app]. f_equal. clear. induction k as [|k IH]; cbn; [reflexivity|f_equal; exact IH]. }
    rewrite IH; [|intros r' Hr'; apply Hr; right; exact Hr']. f_equal. f_equal. lia.
Qed.

Theorem constant_masters_interpolate_constant c rows scalars tl :
  rows <> [] -> (forall r, In r rows -> exists t, r = qc1 :: t) -> scalars = qc1 :: tl ->
  interpolate scalars (get_deltas (repeat c (length rows)) rows []) = c.
Proof.
  intros Hne Hr ->. destruct rows as [|r rows]; [contradiction|].
  cbn [length repeat get_deltas firstn dot].
  assert (c - qc0 = c) as -> by (unfold qc0; change (Q2Qc 0) with 0; ring).
  cbn [app]. change [c] with (c :: repeat qc0 0).
  rewrite get_deltas_constant; [|intros r' Hr'; apply Hr; right; exact Hr'].
  unfold interpolate. rewrite dot_cons_zeros. unfold qc1. change (Q2Qc 1) with 1. ring.
Qed.

(* the two seeded slips collapse values that are NOT constant *)
Example slips_refuted :
  let vs := [Q2Qc (-40 # 1); Q2Qc (-70 # 1); Q2Qc (-40 # 1)] in
  collapse vs qc0 = None /\ collapse_first_last vs qc0 = Some (Q2Qc (-40 # 1)) /\
  collapse [Q2Qc 250; Q2Qc 250; Q2Qc 270] qc0 = None /\ collapse_any [Q2Qc 250; Q2Qc 250; Q2Qc 270] qc0 = Some (Q2Qc 250).
Proof. vm_compute. repeat split. Qed.
