(* C09: OutlineTTFCompiler.makeMissingRequiredGlyphs for a non-default master of a variable font: every component base that
   the (sparse) master lacks gets an empty placeholder glyph, so that fontTools' TTGlyphPointPen -- which silently DROPS a
   component whose base is not in the glyph set -- keeps the composite as it is in the other masters.  Definitions only. *)
From U2F Require Export Base.Prelude.

(* a master's glyph set, as far as structure goes: glyph name and the base names of its components *)
Definition cglyph := (str * list str)%type.
Definition names (gs : list cglyph) : list str := map fst gs.

(* first occurrences, in order (the code adds a placeholder the first time it meets a missing base) *)
Fixpoint dedup_acc (acc l : list str) : list str :=
  match l with [] => acc | x :: r => dedup_acc (if mem x acc then acc else acc ++ [x]) r end.
Definition dedup (l : list str) : list str := dedup_acc [] l.

Definition missing_bases (gs : list cglyph) : list str :=
  dedup (filter (fun b => negb (mem b (names gs))) (flat_map snd gs)).

(* sparse: this master is not the default source (compilingVFDefaultSource = False) *)
Definition add_placeholders (sparse : bool) (gs : list cglyph) : list cglyph :=
  if sparse then gs ++ map (fun b => (b, [])) (missing_bases gs) else gs.

(* TTGlyphPointPen: components whose base is unknown are dropped *)
Definition pen_components (gs : list cglyph) (comps : list str) : list str :=
  filter (fun b => mem b (names gs)) comps.
