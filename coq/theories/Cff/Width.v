(* C12: the advance a 'CFF ' table carries.  OutlineOTFCompiler.getCharStringForGlyph encodes the
   advance relative to (defaultWidthX, nominalWidthX); setupTable_CFF writes those two values into the
   Private dict only when they are non-zero; a reader (fontTools T2WidthExtractor, any rasteriser)
   decodes with the Private dict's values, absent entries reading as 0 (the CFF defaults). *)
From U2F Require Import Base.Prelude Geometry.Model.
Open Scope Z_scope.

Record private := mkPriv { p_default : option Z; p_nominal : option Z }.

(* setupTable_CFF: `if defaultWidthX: rawDict[...] = defaultWidthX`, `if nominalWidthX: ...` *)
Definition write_private (d n : Z) : private :=
  mkPriv (if d =? 0 then None else Some d) (if n =? 0 then None else Some n).

(* cffLib PrivateDict defaults *)
Definition read_default (p : private) : Z := match p_default p with Some d => d | None => 0 end.
Definition read_nominal (p : private) : Z := match p_nominal p with Some n => n | None => 0 end.

(* getCharStringForGlyph: the (unrounded) width is compared with defaultWidthX; when equal the width
   operand is omitted, otherwise otRound(width - nominalWidthX) is the charstring's first operand *)
Definition encode_width (w : Qc) (d n : Z) : option Z :=
  if qc_eqb w (qc_of_Z d) then None else Some (otRound (w - qc_of_Z n)).

(* T2WidthExtractor.popallWidth *)
Definition decode_width (p : private) (arg : option Z) : Z :=
  match arg with None => read_default p | Some a => read_nominal p + a end.

Definition cff_advance (w : Qc) (d n : Z) : Z := decode_width (write_private d n) (encode_width w d n).

(* executable comparison with the implementation: Private dict entries, the charstring's width operand,
   the decoded advance *)
Definition width_obs_eqb (w : Qc) (d n : Z) (pd pn : option Z) (arg : option Z) (adv : Z) : bool :=
  option_eqb Z.eqb (p_default (write_private d n)) pd && option_eqb Z.eqb (p_nominal (write_private d n)) pn &&
  option_eqb Z.eqb (encode_width w d n) arg && (cff_advance w d n =? adv).
