(* C12: postProcessor.process_cff decision logic and the specialisation switch
   (definitions only). *)
From U2F Require Export Base.Prelude.
From U2F Require Import Generated.Constants.
Open Scope Z_scope.

Inductive backend := Cffsubr | Compreffor.
Inductive cff_action :=
| Subroutinize (b : backend) (outv : Z)
| ConvertToCFF2
| Nothing
| NotImplemented.

Definition backend_of_code (c : Z) : backend := if Z.eqb c 1 then Compreffor else Cffsubr.
Definition default_backend (v : Z) : backend :=
  backend_of_code (if Z.eqb v 2 then default_subroutinizer_cff2 else default_subroutinizer_cff1).

(* PostProcessor.process + process_cff: optimize is the CFFOptimization level the
   compiler was given, inv the version of the table the outline compiler built,
   outv the requested cffVersion *)
Definition process_cff (optimize : Z) (subr : option backend) (inv : Z) (outv : option Z) : cff_action :=
  let o := match outv with None => inv | Some v => v end in
  if Z.leb cffopt_subroutinize optimize then
    match (match subr with None => default_backend o | Some b => b end) with
    | Compreffor => if Z.eqb inv 1 && Z.eqb o 1 then Subroutinize Compreffor 1 else NotImplemented
    | Cffsubr => Subroutinize Cffsubr o
    end
  else if Z.eqb inv o then Nothing
  else if Z.eqb inv 1 && Z.eqb o 2 then ConvertToCFF2
  else NotImplemented.

(* OutlineOTFCompiler: charstring specialisation is on from SPECIALIZE upwards *)
Definition specializes (optimize : Z) : bool := Z.leb cffopt_specialize optimize.

Definition action_code (a : cff_action) : Z :=
  match a with
  | Subroutinize Cffsubr v => 10 + v
  | Subroutinize Compreffor v => 20 + v
  | ConvertToCFF2 => 2
  | Nothing => 1
  | NotImplemented => 0
  end.
