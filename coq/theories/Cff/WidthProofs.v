From U2F Require Import Base.Prelude Geometry.Model Geometry.ModelProofs.
From U2F Require Import Cff.Width.
From Coq Require Import Lqa.
Open Scope Z_scope.

Lemma read_default_write d n : read_default (write_private d n) = d.
Proof. unfold read_default, write_private; cbn [p_default]. destruct (d =? 0) eqn:E; [apply Z.eqb_eq in E; congruence|reflexivity]. Qed.

Lemma read_nominal_write d n : read_nominal (write_private d n) = n.
Proof. unfold read_nominal, write_private; cbn [p_nominal]. destruct (n =? 0) eqn:E; [apply Z.eqb_eq in E; congruence|reflexivity]. Qed.

(* rounding half up commutes with integer translations *)
Lemma otRound_sub_Z w n : otRound (w - qc_of_Z n) = otRound w - n.
Proof.
  unfold otRound.
  assert (this (w - qc_of_Z n) + (1#2) == (this w + (1#2)) - inject_Z n)%Q as E.
  { unfold Qcminus, Qcplus, Qcopp, qc_of_Z, Q2Qc; cbn [this]. rewrite !Qred_correct. ring. }
  rewrite (Qfloor_comp _ _ E).
  set (x := (this w + (1#2))%Q).
  pose proof (Qfloor_le x) as A1. pose proof (Qlt_floor x) as A2.
  pose proof (Qfloor_le (x - inject_Z n)) as B1. pose proof (Qlt_floor (x - inject_Z n)) as B2.
  rewrite inject_Z_plus in A2, B2. change (inject_Z 1) with 1%Q in A2, B2.
  set (f := Qfloor x) in *. set (g := Qfloor (x - inject_Z n)) in *. clearbody f g. clearbody x. clear E.
  assert (g < f - n + 1) as C1.
  { rewrite Zlt_Qlt. unfold Z.sub. rewrite !inject_Z_plus, inject_Z_opp. change (inject_Z 1) with 1%Q. lra. }
  assert (f - n < g + 1) as C2.
  { rewrite Zlt_Qlt. unfold Z.sub. rewrite !inject_Z_plus, inject_Z_opp. change (inject_Z 1) with 1%Q. lra. }
  lia.
Qed.

Theorem cff_width_roundtrip w d n : cff_advance w d n = otRound w.
Proof.
  unfold cff_advance, encode_width. destruct (qc_eqb w (qc_of_Z d)) eqn:E.
  - apply qc_eqb_eq in E. subst w. cbn [decode_width]. rewrite read_default_write, otRound_integer. reflexivity.
  - cbn [decode_width]. rewrite read_nominal_write, otRound_sub_Z. lia.
Qed.

(* the slip of seeded change C12-sub4 (nominalWidthX written only under `if defaultWidthX:`) is refuted by the same statement *)
Definition write_private_nested (d n : Z) : private :=
  mkPriv (if d =? 0 then None else Some d) (if d =? 0 then None else if n =? 0 then None else Some n).
Example nested_write_loses_the_advance :
  decode_width (write_private_nested 0 543) (encode_width (qc_of_Z 620) 0 543) <> otRound (qc_of_Z 620).
Proof. vm_compute. discriminate. Qed.

Example roundtrip_nontrivial :
  cff_advance (Q2Qc (999 # 2)) 0 543 = 500 /\ encode_width (Q2Qc (999 # 2)) 0 543 = Some (-43) /\
  cff_advance (qc_of_Z 0) 0 543 = 0 /\ encode_width (qc_of_Z 0) 0 543 = None.
Proof. vm_compute. repeat split. Qed.
