From U2F Require Import Base.Prelude Generated.Constants Cff.Decision.
Open Scope Z_scope.

(* ufo2ft always builds a 'CFF ' (version 1) table first.  Among all requested
   combinations of level {0,1,2} x backend {default, cffsubr, compreffor} x output
   version {1,2}, the only unsupported one is compreffor with CFF2 output. *)
Theorem process_cff_table optimize subr outv :
  In optimize [0; 1; 2] -> In outv [1; 2] ->
  (process_cff optimize subr 1 (Some outv) = NotImplemented <->
   (optimize = 2 /\ subr = Some Compreffor /\ outv = 2)).
Proof.
  intros Ho Hv. simpl in Ho, Hv.
  destruct Ho as [<-|[<-|[<-|[]]]]; destruct Hv as [<-|[<-|[]]]; destruct subr as [[]|];
    vm_compute; split; intro H; try discriminate; try (destruct H as [H1 [H2 H3]]; discriminate); auto.
Qed.

(* every supported combination either leaves the table alone, converts 1 -> 2, or
   subroutinises into the requested version *)
Theorem process_cff_supported optimize subr outv a :
  In optimize [0; 1; 2] -> In outv [1; 2] ->
  process_cff optimize subr 1 (Some outv) = a -> a <> NotImplemented ->
  (optimize < 2 /\ ((outv = 1 /\ a = Nothing) \/ (outv = 2 /\ a = ConvertToCFF2))) \/
  (optimize = 2 /\ exists b, a = Subroutinize b outv).
Proof.
  intros Ho Hv E Hn. simpl in Ho, Hv.
  destruct Ho as [<-|[<-|[<-|[]]]]; destruct Hv as [<-|[<-|[]]]; destruct subr as [[]|];
    vm_compute in E; subst a; try (exfalso; apply Hn; reflexivity);
    try (left; split; [lia|]; auto; fail); right; split; try reflexivity; eexists; reflexivity.
Qed.

Theorem specialize_threshold : specializes 0 = false /\ specializes 1 = true /\ specializes 2 = true.
Proof. vm_compute. auto. Qed.
