(* C09 / C14: BaseInterpolatablePreProcessor._try_as_interpolatable_filter -- how the per-master filter objects of one
   slot (None where a master lists fewer filters) become ONE interpolatable filter run jointly on all masters, or stay
   separate.  Definitions only. *)
From U2F Require Import Base.Prelude.

(* BaseFilter's include / exclude arguments *)
Inductive inc_spec := IncAll | IncNames (l : list str) | ExcNames (l : list str).
Definition includes (s : inc_spec) (g : str) : bool :=
  match s with IncAll => true | IncNames l => mem g l | ExcNames l => negb (mem g l) end.

(* a filter object: its class, its options (an opaque code: equal codes = equal option namespaces), pre, include spec *)
Record pfilter := mkPF { pf_class : Z; pf_options : Z; pf_pre : bool; pf_inc : inc_spec }.
Definition same_filter (a b : pfilter) : bool :=
  Z.eqb (pf_class a) (pf_class b) && Z.eqb (pf_options a) (pf_options b) && Bool.eqb (pf_pre a) (pf_pre b).

Fixpoint somes {A} (l : list (option A)) : list A :=
  match l with [] => [] | Some x :: r => x :: somes r | None :: r => somes r end.

(* the merged filter: class, options, pre and the masters' filters whose includes are united *)
Record merged := mkM { m_class : Z; m_options : Z; m_pre : bool; m_parts : list pfilter }.
Definition merged_includes (m : merged) (g : str) : bool := existsb (fun f => includes (pf_inc f) g) (m_parts m).

(* has_ifilter: which filter classes have an interpolatable form *)
Definition try_merge (has_ifilter : Z -> bool) (fs : list (option pfilter)) : option merged :=
  match somes fs with
  | [] => None
  | f :: rest =>
      if forallb (same_filter f) rest && has_ifilter (pf_class f)
      then Some (mkM (pf_class f) (pf_options f) (pf_pre f) (f :: rest)) else None
  end.
