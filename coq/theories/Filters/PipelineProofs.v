(* Theorems about the default filter pipelines AS TRANSLATED FROM /repo's CURRENT SOURCE (Generated/Pipelines.v):
   re-checked on every run; a change of initDefaultFilters that alters when a filter runs breaks them. *)
From U2F Require Import Base.Prelude Filters.Pipeline Generated.Pipelines.

Ltac all_options o :=
  destruct o as [ro ob fc cc ce aq rd rc ip cf];
  destruct ro, ob, fc, cc, ce, aq, rd, rc, ip, cf; vm_compute; try reflexivity; try (split; congruence); auto.

(* ---- C01: the CFF pipeline ---- *)
(* the whole list: colour layers exploded (colour fonts only), every composite decomposed (no include restriction), and
   overlap removal exactly when it was asked for -- nothing else, nothing the translator did not understand *)
Theorem otf_pipeline_shape o :
  kinds (otf_default_filters o) =
  (if color_font o then [ExplodeColorLayerGlyphs] else []) ++ [DecomposeComponents] ++
  (if removeOverlaps o then [RemoveOverlaps] else []).
Proof. all_options o. Qed.

Theorem otf_overlaps_iff_requested o : has RemoveOverlaps (otf_default_filters o) = removeOverlaps o.
Proof. all_options o. Qed.

(* naming a backend chooses HOW overlaps would be removed; without the request the pipeline is the same *)
Theorem otf_backend_alone_changes_nothing o b :
  removeOverlaps o = false -> otf_default_filters (with_backend b o) = otf_default_filters o.
Proof. intro H. destruct o as [ro ob fc cc ce aq rd rc ip cf]; simpl in H; subst ro.
  destruct b, ob, cf; vm_compute; reflexivity. Qed.

(* all components are decomposed for CFF: the decomposing filter carries no include restriction *)
Theorem otf_decomposes_everything o :
  In (DecomposeComponents, []) (otf_default_filters o).
Proof. destruct o as [ro ob fc cc ce aq rd rc ip cf]; destruct ro, ob, cf; vm_compute; auto 6. Qed.

Theorem otf_default_is_decompose_only : kinds (otf_default_filters otf_defaults) = [DecomposeComponents].
Proof. vm_compute. reflexivity. Qed.

(* ---- C02: the TrueType pipeline ---- *)
Theorem ttf_pipeline_shape o :
  kinds (ttf_default_filters o) =
  (if color_font o then [ExplodeColorLayerGlyphs] else []) ++ [DecomposeComponents] ++
  (if flattenComponents o then [FlattenComponents] else []) ++
  (if removeOverlaps o then [RemoveOverlaps] else []) ++
  (if convertCubics o then [CubicToQuadratic] else if reverseDirection o then [ReverseContourDirection] else []).
Proof. all_options o. Qed.

(* the contour direction is reversed exactly when reverseDirection is on -- whether or not curves are converted *)
Theorem ttf_reverses_iff_requested o : reverses (ttf_default_filters o) = reverseDirection o.
Proof. all_options o. Qed.

(* ... and at most once *)
Theorem ttf_reverses_once o :
  (count CubicToQuadratic (ttf_default_filters o) + count ReverseContourDirection (ttf_default_filters o) <= 1)%nat.
Proof. destruct o as [ro ob fc cc ce aq rd rc ip cf];
  destruct ro, ob, fc, cc, ce, aq, rd, rc, ip, cf; vm_compute; auto. Qed.

(* the converter is told the caller's allQuadratic, and to remember the curve type only on the caller's own font *)
Theorem ttf_converter_arguments o args :
  In (CubicToQuadratic, args) (ttf_default_filters o) ->
  arg K_allQuadratic args = Some (AB (allQuadratic o)) /\
  arg K_rememberCurveType args = Some (AB (rememberCurveType o && inplace o)) /\
  arg K_reverseDirection args = Some (AB (reverseDirection o)).
Proof.
  destruct o as [ro ob fc cc ce aq rd rc ip cf];
  destruct ro, ob, fc, cc, ce, aq, rd, rc, ip, cf; vm_compute; intro H;
  repeat (destruct H as [H | H]; [try discriminate H; inversion H; subst; auto | ]); try contradiction.
Qed.

(* only glyphs that mix contours and components are decomposed for TrueType: the filter carries an include restriction *)
Theorem ttf_decompose_is_restricted o args :
  In (DecomposeComponents, args) (ttf_default_filters o) -> arg K_include args = Some AOpaque.
Proof.
  destruct o as [ro ob fc cc ce aq rd rc ip cf];
  destruct ro, ob, fc, cc, ce, aq, rd, rc, ip, cf; vm_compute; intro H;
  repeat (destruct H as [H | H]; [try discriminate H; inversion H; subst; auto | ]); try contradiction.
Qed.

Theorem ttf_backend_alone_changes_nothing o b :
  removeOverlaps o = false -> ttf_default_filters (with_backend b o) = ttf_default_filters o.
Proof. intro H. destruct o as [ro ob fc cc ce aq rd rc ip cf]; simpl in H; subst ro.
  destruct b, ob, fc, cc, ce, aq, rd, rc, ip, cf; vm_compute; reflexivity. Qed.

Theorem ttf_default_pipeline : kinds (ttf_default_filters ttf_defaults) = [DecomposeComponents; CubicToQuadratic]
                               /\ reverses (ttf_default_filters ttf_defaults) = true.
Proof. vm_compute. auto. Qed.

(* nothing the translator failed to understand is in either pipeline *)
Theorem pipelines_fully_translated o :
  has UnknownFilter (otf_default_filters o) = false /\ has UnknownFilter (ttf_default_filters o) = false.
Proof. all_options o. Qed.
