From U2F Require Import Geometry.Model Geometry.Cff Geometry.Filters Filters.Framework.
Open Scope nat_scope.

Section DriverProofs.
  Variable f : glyphset -> str -> glyph -> glyph * bool.
  Variable include : str -> glyph -> bool.

  Lemma assoc_set_glyph_other n g gs k : k <> n -> assoc k (set_glyph n g gs) = assoc k gs.
  Proof.
    intro Hne. induction gs as [|[k0 v] r IH]; simpl; [reflexivity|].
    destruct (str_eqb n k0) eqn:E; simpl.
    - apply str_eqb_eq in E. subst k0. destruct (str_eqb k n) eqn:E2; [apply str_eqb_eq in E2; contradiction|reflexivity].
    - destruct (str_eqb k k0); [reflexivity|exact IH].
  Qed.

  (* a glyph that is not reported as modified is exactly as it was *)
  Lemma visit_unreported st n k :
    ~ In k (snd (visit f include st n)) -> assoc k (fst (visit f include st n)) = assoc k (fst st).
  Proof.
    destruct st as [gs modified]. unfold visit.
    destruct (mem n modified); [reflexivity|].
    destruct (assoc n gs) as [g|]; [|reflexivity].
    destruct (include n g); [|reflexivity].
    destruct (f gs n g) as [g' changed]. destruct changed; [|reflexivity].
    simpl. intro Hk. apply assoc_set_glyph_other. intro E. subst. apply Hk. apply in_or_app. right. left. reflexivity.
  Qed.

  Lemma visit_modified_grows st n k : In k (snd st) -> In k (snd (visit f include st n)).
  Proof.
    destruct st as [gs modified]. unfold visit.
    destruct (mem n modified); [auto|].
    destruct (assoc n gs) as [g|]; [|auto].
    destruct (include n g); [|auto].
    destruct (f gs n g) as [g' changed]. destruct changed; simpl; [|auto].
    intro H. apply in_or_app. auto.
  Qed.

  Lemma fold_modified_grows order : forall st k, In k (snd st) -> In k (snd (fold_left (visit f include) order st)).
  Proof.
    induction order as [|n o IH]; intros st k H; [exact H|]. simpl. apply IH. apply visit_modified_grows. exact H.
  Qed.

  Theorem unreported_unchanged order : forall gs k,
    ~ In k (snd (run_filter f include order gs)) ->
    assoc k (fst (run_filter f include order gs)) = assoc k gs.
  Proof.
    unfold run_filter. intros gs.
    assert (forall st k, ~ In k (snd (fold_left (visit f include) order st)) ->
                         assoc k (fst (fold_left (visit f include) order st)) = assoc k (fst st)) as K.
    { induction order as [|n o IH]; intros st k H; [reflexivity|]. simpl in *.
      rewrite IH by exact H. apply visit_unreported. intro Hin. apply H. apply fold_modified_grows. exact Hin. }
    intros k H. apply (K (gs, []) k H).
  Qed.

  (* only included glyphs are ever reported *)
  Lemma visit_reports_included st n k :
    In k (snd (visit f include st n)) -> In k (snd st) \/ (k = n /\ exists g, assoc n (fst st) = Some g /\ include n g = true).
  Proof.
    destruct st as [gs modified]. unfold visit.
    destruct (mem n modified); [auto|].
    destruct (assoc n gs) as [g|] eqn:Ea; [|auto].
    destruct (include n g) eqn:Ei; [|auto].
    destruct (f gs n g) as [g' changed]. destruct changed; simpl; [|auto].
    intro H. apply in_app_or in H. destruct H as [H|[<-|[]]]; [auto|]. right. split; [reflexivity|]. exists g. auto.
  Qed.
End DriverProofs.

(* no state is carried between invocations: the result is a function of the arguments only
   (trivially true of the model, stated for the record: the driver starts from an empty set) *)
Theorem run_filter_fresh f include order gs :
  run_filter f include order gs = fold_left (visit f include) order (gs, []).
Proof. reflexivity. Qed.
