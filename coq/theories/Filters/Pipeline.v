(* C01 / C02: which default filters a pre-processor runs, as a function of the compile options.
   This file holds the TYPES only.  The functions themselves (otf_default_filters, ttf_default_filters) are not written by
   hand: harness/pipeline_from_source.py translates OTFPreProcessor.initDefaultFilters / TTFPreProcessor.initDefaultFilters
   of /repo's current source into Generated/Pipelines.v on every run (fail-closed: a statement or a filter class the
   translator does not know becomes UnknownFilter, which the shape theorems reject), and Filters/PipelineProofs.v is
   re-checked against what the code says now. *)
From U2F Require Import Base.Prelude.

(* the options the two functions read; `_set` = "the argument is not None"; color_font = the condition of
   _init_explode_color_layer_glyphs_filter (palettes and a layer mapping present, no explicit colour layers) *)
Record popts := mkPO {
  removeOverlaps : bool; overlapsBackend_set : bool; flattenComponents : bool; convertCubics : bool;
  conversionError_set : bool; allQuadratic : bool; reverseDirection : bool; rememberCurveType : bool;
  inplace : bool; color_font : bool }.

Inductive fkind := ExplodeColorLayerGlyphs | DecomposeComponents | FlattenComponents | RemoveOverlaps | CubicToQuadratic
                 | ReverseContourDirection | UnknownFilter.
Inductive akey := K_backend | K_include | K_conversionError | K_reverseDirection | K_rememberCurveType | K_allQuadratic | K_other.
Inductive aval := AB (b : bool) | AOpaque.
Definition fcall := (fkind * list (akey * aval))%type.

Definition fkind_eqb (a b : fkind) : bool :=
  match a, b with
  | ExplodeColorLayerGlyphs, ExplodeColorLayerGlyphs | DecomposeComponents, DecomposeComponents
  | FlattenComponents, FlattenComponents | RemoveOverlaps, RemoveOverlaps | CubicToQuadratic, CubicToQuadratic
  | ReverseContourDirection, ReverseContourDirection | UnknownFilter, UnknownFilter => true
  | _, _ => false end.
Definition akey_eqb (a b : akey) : bool :=
  match a, b with
  | K_backend, K_backend | K_include, K_include | K_conversionError, K_conversionError
  | K_reverseDirection, K_reverseDirection | K_rememberCurveType, K_rememberCurveType | K_allQuadratic, K_allQuadratic
  | K_other, K_other => true
  | _, _ => false end.

Definition kinds (l : list fcall) : list fkind := map fst l.
Definition has (k : fkind) (l : list fcall) : bool := existsb (fun c => fkind_eqb (fst c) k) l.
Definition count (k : fkind) (l : list fcall) : nat := length (filter (fun c => fkind_eqb (fst c) k) l).
Definition arg (k : akey) (args : list (akey * aval)) : option aval :=
  match filter (fun a => akey_eqb (fst a) k) args with a :: _ => Some (snd a) | [] => None end.
Definition arg_true (k : akey) (args : list (akey * aval)) : bool :=
  match arg k args with Some (AB true) => true | _ => false end.

(* does the pipeline reverse the contour direction: a cubic-to-quadratic conversion told to, or the reversing filter *)
Definition reverses (l : list fcall) : bool :=
  existsb (fun c => match fst c with
                    | CubicToQuadratic => arg_true K_reverseDirection (snd c)
                    | ReverseContourDirection => true
                    | _ => false end) l.

(* observable form for the correspondence with the real pre-processor objects: kind, and the boolean arguments *)
Definition with_backend (b : bool) (o : popts) : popts :=
  mkPO (removeOverlaps o) b (flattenComponents o) (convertCubics o) (conversionError_set o) (allQuadratic o)
       (reverseDirection o) (rememberCurveType o) (inplace o) (color_font o).

(* equality of observed and translated pipelines *)
Definition aval_eqb (a b : aval) : bool :=
  match a, b with AB x, AB y => Bool.eqb x y | AOpaque, AOpaque => true | _, _ => false end.
Definition fcall_eqb (a b : fcall) : bool :=
  fkind_eqb (fst a) (fst b) && list_eqb (fun x y => akey_eqb (fst x) (fst y) && aval_eqb (snd x) (snd y)) (snd a) (snd b).
Definition pipeline_eqb (a b : list fcall) : bool := list_eqb fcall_eqb a b.
