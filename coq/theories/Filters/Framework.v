(* C14: the BaseFilter.__call__ driver over an arbitrary per-glyph filter.
   A glyph filter reads the current glyph set and returns the new glyph together
   with the boolean it reports.  Definitions only. *)
From U2F Require Export Geometry.Model Geometry.Cff Geometry.Filters.
Open Scope nat_scope.

Section Driver.
  (* the per-glyph filter body *)
  Variable f : glyphset -> str -> glyph -> glyph * bool.
  (* the include predicate (name list, exclusion list or callable) *)
  Variable include : str -> glyph -> bool.

  Fixpoint set_glyph (n : str) (g : glyph) (gs : glyphset) : glyphset :=
    match gs with
    | [] => []
    | (k, v) :: r => if str_eqb n k then (k, g) :: r else (k, v) :: set_glyph n g r
    end.

  (* one visit: skipped if already reported, filtered only if included *)
  Definition visit (st : glyphset * list str) (n : str) : glyphset * list str :=
    let '(gs, modified) := st in
    if mem n modified then st
    else match assoc n gs with
         | None => st
         | Some g =>
             if include n g then
               let '(g', changed) := f gs n g in
               if changed then (set_glyph n g' gs, modified ++ [n]) else (gs, modified)
             else st
         end.

  (* fresh context (empty modified set) on every call; `order` = glyph names by decreasing component depth *)
  Definition run_filter (order : list str) (gs : glyphset) : glyphset * list str :=
    fold_left visit order (gs, []).
End Driver.

(* ---- concrete instance used for the correspondence run: DecomposeComponentsFilter ---- *)
Definition depth_of (gs : glyphset) (g : glyph) : nat :=
  match comp_depth (fuel_for gs) gs g with Some d => d | None => O end.

(* sorted(glyphSet.keys(), key=lambda g: -depth): stable, decreasing depth *)
Fixpoint insert_by_depth (gs : glyphset) (x : str * glyph) (l : list (str * glyph)) : list (str * glyph) :=
  match l with
  | [] => [x]
  | y :: r => if Nat.ltb (depth_of gs (snd y)) (depth_of gs (snd x)) then x :: l else y :: insert_by_depth gs x r
  end.
Definition filter_order (gs : glyphset) : list str :=
  map fst (fold_right (fun x acc => insert_by_depth gs x acc) [] gs).

Definition f_decompose (gs : glyphset) (n : str) (g : glyph) : glyph * bool :=
  match gcomps g with
  | [] => (g, false)
  | _ => match decompose (fuel_for gs) gs g with
         | Some cs => (mkG cs [] (gwidth g) (ganchors g), true)
         | None => (g, false)
         end
  end.

Definition c14_decompose_check (incl : list str) (gs gs' : glyphset) (modified : list str) : bool :=
  let '(m_gs, m_mod) := run_filter f_decompose (fun n _ => mem n incl) (filter_order gs) gs in
  list_eqb (fun a b => str_eqb (fst a) (fst b) && glyph_eqb (snd a) (snd b)) m_gs gs' &&
  forallb (fun n => mem n modified) m_mod && forallb (fun n => mem n m_mod) modified.
