From U2F Require Import Base.Prelude.
From U2F Require Import Filters.FilterMerge.

(* a master that does not list the filter (None) changes nothing, wherever it stands (repaired defect F28) *)
Theorem missing_entries_are_immaterial h fs : try_merge h fs = try_merge h (map Some (somes fs)).
Proof. unfold try_merge. assert (E : somes (map Some (somes fs)) = somes fs).
  { induction (somes fs) as [|x l IH]; simpl; [reflexivity | rewrite IH; reflexivity]. }
  rewrite E. reflexivity. Qed.

Theorem missing_entry_first h fs : try_merge h (None :: fs) = try_merge h fs.
Proof. reflexivity. Qed.

Lemma somes_app {A} (a b : list (option A)) : somes (a ++ b) = somes a ++ somes b.
Proof. induction a as [|[x|] a IH]; simpl; [reflexivity | rewrite IH; reflexivity | exact IH]. Qed.

Theorem missing_entry_anywhere h a b : try_merge h (a ++ None :: b) = try_merge h (a ++ b).
Proof. unfold try_merge. rewrite !somes_app. reflexivity. Qed.

(* the merged filter touches exactly the glyphs that SOME master's filter includes: include lists are united, an exclude
   list stays an exclude list *)
Theorem merged_include_is_the_union h fs m g :
  try_merge h fs = Some m ->
  (merged_includes m g = true <-> exists f, In (Some f) fs /\ includes (pf_inc f) g = true).
Proof.
  unfold try_merge. destruct (somes fs) as [|f rest] eqn:E; [discriminate|].
  destruct (forallb (same_filter f) rest && h (pf_class f)); [|discriminate]. intro H. inversion H. subst m. clear H.
  unfold merged_includes. cbn [m_parts]. rewrite <- E. rewrite existsb_exists.
  assert (S : forall x, In x (somes fs) <-> In (Some x) fs).
  { clear. intro x. induction fs as [|[y|] fs IH]; simpl; [tauto | | ].
    - rewrite IH. split; intros [H|H]; auto; [left; congruence | left; inversion H; reflexivity].
    - rewrite IH. split; [auto | intros [H|H]; [discriminate | exact H]]. }
  split; intros [x [Hx Hi]]; exists x; split; auto; apply S; exact Hx. Qed.

(* an excluded glyph stays excluded when every master excludes it *)
Corollary excluded_everywhere_is_left_alone h fs m g :
  try_merge h fs = Some m -> (forall f, In (Some f) fs -> includes (pf_inc f) g = false) -> merged_includes m g = false.
Proof. intros H Hall. destruct (merged_includes m g) eqn:E; [|reflexivity].
  apply (merged_include_is_the_union h fs m g H) in E. destruct E as [f [Hf Hi]]. rewrite (Hall f Hf) in Hi. discriminate. Qed.

(* filters are merged only when they are the same filter: class, options and pre -- the include lists may differ *)
Theorem merged_only_if_same h fs m f1 f2 :
  try_merge h fs = Some m -> In (Some f1) fs -> In (Some f2) fs ->
  pf_class f1 = pf_class f2 /\ pf_options f1 = pf_options f2 /\ pf_pre f1 = pf_pre f2.
Proof.
  unfold try_merge. destruct (somes fs) as [|f rest] eqn:E; [discriminate|].
  destruct (forallb (same_filter f) rest) eqn:A; [|discriminate]. intros _ H1 H2.
  assert (S : forall x, In (Some x) fs -> In x (f :: rest)).
  { rewrite <- E. clear. intros x. induction fs as [|[y|] fs IH]; simpl; [tauto | | ].
    - intros [H|H]; [left; congruence | right; exact (IH H)].
    - intros [H|H]; [discriminate | exact (IH H)]. }
  assert (P : forall x, In x (f :: rest) -> pf_class f = pf_class x /\ pf_options f = pf_options x /\ pf_pre f = pf_pre x).
  { intros x [Hx|Hx]; [subst x; auto|]. rewrite forallb_forall in A. specialize (A x Hx). unfold same_filter in A.
    apply andb_true_iff in A. destruct A as [A A3]. apply andb_true_iff in A. destruct A as [A1 A2].
    apply Z.eqb_eq in A1. apply Z.eqb_eq in A2. apply eqb_prop in A3. auto. }
  destruct (P f1 (S f1 H1)) as (a1 & a2 & a3). destruct (P f2 (S f2 H2)) as (b1 & b2 & b3). repeat split; congruence. Qed.

Example union_of_different_lists :
  let a := [97]%Z in let b := [98]%Z in let c := [99]%Z in
  match try_merge (fun _ => true) [Some (mkPF 1 0 true (IncNames [b])); None; Some (mkPF 1 0 true (IncNames [b; c]))] with
  | Some m => (merged_includes m a, merged_includes m b, merged_includes m c)
  | None => (true, true, true) end = (false, true, true).
Proof. vm_compute. reflexivity. Qed.
