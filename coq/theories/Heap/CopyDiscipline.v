(* C07: the copy discipline of _GlyphSet.from_layer / _copyGlyph / _copyLayer as a heap model.
   Objects have identity; a glyph set maps names to references.  With copy = true every
   reference is to a freshly allocated object, so no write addressed through the glyph set
   can reach a source object. *)
From U2F Require Export Base.Prelude.
Open Scope nat_scope.

Inductive ref := RSrc (i : nat) | RFresh (i : nat).
Record heap := mkH { h_src : list (nat * Z); h_fresh : list (nat * Z) }.   (* object id -> content *)

Fixpoint upd (i : nat) (v : Z) (l : list (nat * Z)) : list (nat * Z) :=
  match l with
  | [] => []
  | (k, x) :: r => if Nat.eqb k i then (k, v) :: r else (k, x) :: upd i v r
  end.
Fixpoint get (i : nat) (l : list (nat * Z)) : option Z :=
  match l with [] => None | (k, x) :: r => if Nat.eqb k i then Some x else get i r end.

Definition write (h : heap) (r : ref) (v : Z) : heap :=
  match r with
  | RSrc i => mkH (upd i v (h_src h)) (h_fresh h)
  | RFresh i => mkH (h_src h) (upd i v (h_fresh h))
  end.

(* from_layer: the layer is a list (name, source object id) *)
Definition from_layer (copy : bool) (h : heap) (layer : list (str * nat)) : heap * list (str * ref) :=
  if copy then
    let base := length (h_fresh h) in
    let fresh := map (fun ni => match get (snd ni) (h_src h) with Some v => v | None => 0%Z end) layer in
    (mkH (h_src h) (h_fresh h ++ combine (seq base (length layer)) fresh),
     combine (map fst layer) (map RFresh (seq base (length layer))))
  else (h, map (fun ni => (fst ni, RSrc (snd ni))) layer).

(* a stage of the pipeline = a list of writes addressed by glyph name through the glyph set *)
Definition run_writes (gs : list (str * ref)) (h : heap) (ws : list (str * Z)) : heap :=
  fold_left (fun h w => match assoc (fst w) gs with Some r => write h r (snd w) | None => h end) ws h.

(* writers that bypass the glyph set and address a source object directly (the catalogue of
   DESIGN.md C07: MATH constants, colour layers, dotted circle) are modelled as RSrc writes *)
Definition direct_write (h : heap) (i : nat) (v : Z) : heap := write h (RSrc i) v.
