(* C08: the two reasons the output is a function of content and options only.
   (a) wherever a Python set is serialised the code sorts first: the result is the same for every
       enumeration order of the set, i.e. for every PYTHONHASHSEED;
   (b) a compile that leaves the sources untouched (C07) is followed by a compile that sees the
       same input, hence yields the same output. *)
From U2F Require Import Base.Prelude Heap.CopyDiscipline Heap.CopyDisciplineProofs.

(* (a) any two enumerations of the same set (permutations of each other) serialise identically *)
Theorem sorted_serialisation_order_independent (l l' : list str) :
  Permutation l l' -> sort_str l = sort_str l'.
Proof.
  intro P. apply sorted_perm_unique; try apply sort_str_sorted.
  eapply perm_trans; [apply Permutation_sym, sort_str_perm|].
  eapply perm_trans; [exact P|apply sort_str_perm].
Qed.

(* membership tests and commutative accumulation do not see the order either *)
Theorem membership_order_independent (l l' : list str) x : Permutation l l' -> mem x l = mem x l'.
Proof.
  intro P. destruct (mem x l) eqn:E1, (mem x l') eqn:E2; try reflexivity.
  - apply mem_In in E1. apply (Permutation_in _ P) in E1. apply mem_In in E1. congruence.
  - apply mem_In in E2. apply (Permutation_in _ (Permutation_sym P)) in E2. apply mem_In in E2. congruence.
Qed.

(* (b) *)
Theorem second_call_same {Out} (compile : list (nat * Z) -> Out) h layer ws :
  let '(h1, gs) := from_layer true h layer in
  compile (h_src (run_writes gs h1 ws)) = compile (h_src h).
Proof.
  pose proof (copy_isolation h layer ws) as H.
  destruct (from_layer true h layer) as [h1 gs]. rewrite H. reflexivity.
Qed.

(* ... and fails exactly when a stage wrote to a source object directly (findings F1b, F4) *)
Example second_call_differs_after_direct_write :
  exists (compile : list (nat * Z) -> Z) h, compile (h_src (direct_write h 0 0%Z)) <> compile (h_src h).
Proof.
  exists (fun s => match get 0 s with Some v => v | None => 0%Z end), (mkH [(0, 20%Z)] []). simpl. discriminate.
Qed.
