From U2F Require Import Base.Prelude Heap.CopyDiscipline.
Open Scope nat_scope.

Definition all_fresh (gs : list (str * ref)) : Prop :=
  forall n r, In (n, r) gs -> exists i, r = RFresh i.

Lemma assoc_In {V} k (v : V) l : assoc k l = Some v -> In (k, v) l.
Proof.
  induction l as [|[k' v'] l IH]; simpl; [discriminate|].
  destruct (str_eqb k k') eqn:E; [intro H; inversion H; subst; apply str_eqb_eq in E; subst; auto|auto].
Qed.

Lemma run_writes_src gs ws : all_fresh gs -> forall h, h_src (run_writes gs h ws) = h_src h.
Proof.
  intro Hf. unfold run_writes. induction ws as [|w ws IH]; intro h; [reflexivity|]. simpl.
  rewrite IH. destruct (assoc (fst w) gs) as [r|] eqn:E; [|reflexivity].
  apply assoc_In in E. destruct (Hf _ _ E) as [i ->]. reflexivity.
Qed.

Lemma from_layer_copy_fresh h layer : all_fresh (snd (from_layer true h layer)).
Proof.
  unfold from_layer, all_fresh. simpl. intros n r Hin.
  apply in_combine_r in Hin. apply in_map_iff in Hin. destruct Hin as [i [<- _]]. exists i. reflexivity.
Qed.

(* with copy = not inplace = true: whatever is written through the glyph set, in any number of
   stages, every source object is exactly as before *)
Theorem copy_isolation h layer ws :
  let '(h1, gs) := from_layer true h layer in
  h_src (run_writes gs h1 ws) = h_src h.
Proof.
  pose proof (from_layer_copy_fresh h layer) as Hf.
  destruct (from_layer true h layer) as [h1 gs] eqn:E. simpl in Hf.
  rewrite (run_writes_src gs ws Hf).
  unfold from_layer in E. inversion E; subst. reflexivity.
Qed.

(* without copying (inplace) a write does reach the source: the guard matters *)
Example inplace_writes_source :
  let h := mkH [(0, 5%Z)] [] in
  let '(h1, gs) := from_layer false h [([97]%Z, 0)] in
  h_src (run_writes gs h1 [([97]%Z, 9%Z)]) = [(0, 9%Z)].
Proof. reflexivity. Qed.

(* a direct writer is visible in the source: such writers are exactly the property's violations *)
Example direct_write_changes_source :
  h_src (direct_write (mkH [(0, 20%Z)] []) 0 0%Z) <> h_src (mkH [(0, 20%Z)] []).
Proof. simpl. discriminate. Qed.
