(* GENERATED on every run by harness/info_from_source.py from Lib/ufo2ft/fontInfoData.py -- do not edit. *)
From Coq Require Import QArith Qcanon String.
From U2F Require Import Base.Prelude Geometry.Model Info.Fallback.
Open Scope Qc_scope.

(* a source construct outside the translated fragment: opaque, nothing can be proved about it *)
Definition tr_untranslated (what : string) : Qc. Proof. exact qc0. Qed.

(* getAttrWithFallback: explicit value unless missing / None, else special fallback, else static value *)
Definition tr_getattr_shape_ok : bool := true.

Definition tr_unitsPerEm (i : info) : Qc := dflt (i_upm i) ((zq (1000))).
Definition tr_openTypeHheaLineGap (i : info) : Qc := dflt (i_hheaGap i) ((zq (0))).
Definition tr_ascender (i : info) : Qc := dflt (i_ascender i) (let upm_ := (tr_unitsPerEm i) in (zq (otRound (upm_ * (qq (4) 5))))).
Definition tr_descender (i : info) : Qc := dflt (i_descender i) (let upm_ := (tr_unitsPerEm i) in (- (zq (otRound (upm_ * (qq (1) 5)))))).
Definition tr_capHeight (i : info) : Qc := dflt (i_capHeight i) (let upm_ := (tr_unitsPerEm i) in (zq (otRound (upm_ * (qq (7) 10))))).
Definition tr_xHeight (i : info) : Qc := dflt (i_xHeight i) (let upm_ := (tr_unitsPerEm i) in (zq (otRound (upm_ * (qq (1) 2))))).
Definition tr_openTypeOS2TypoAscender (i : info) : Qc := dflt (i_typoAsc i) ((tr_ascender i)).
Definition tr_openTypeOS2TypoDescender (i : info) : Qc := dflt (i_typoDesc i) ((tr_descender i)).
Definition tr_openTypeOS2TypoLineGap (i : info) : Qc := dflt (i_typoGap i) ((qmax (((zq (ztrunc ((tr_unitsPerEm i) * (qq (6) 5)))) - (tr_ascender i)) + (tr_descender i)) (zq (0)))).
Definition tr_openTypeHheaDescender (i : info) : Qc := dflt (i_hheaDesc i) ((tr_descender i)).
Definition tr_openTypeOS2WinDescent (i : info) : Qc := dflt (i_winDesc i) ((qc_abs (tr_descender i))).
Definition tr_openTypeHheaAscender (i : info) : Qc := dflt (i_hheaAsc i) (((tr_ascender i) + (tr_openTypeOS2TypoLineGap i))).
Definition tr_openTypeOS2WinAscent (i : info) : Qc := dflt (i_winAsc i) ((qmax ((tr_ascender i) + (tr_openTypeOS2TypoLineGap i)) (zq (0)))).

Definition tr_untranslated_count : nat := 0.
