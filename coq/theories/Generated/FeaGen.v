(* GENERATED on every run by harness/fea_from_source.py from /repo's current source -- do not edit. *)
From Coq Require Import ZArith List String Bool.
From U2F Require Import Base.Prelude Fea.LookupRefs Fea.Context.
Import ListNotations.

(* a source construct outside the translated fragment: opaque, nothing can be proved about it *)
Definition fea_untranslated_refs (what : string) (out_ : list fstmt) (lookups_ : list str) (script_ : option str) (languages_ : list str)
  (exclude_dflt_ : bool) : list fstmt. Proof. exact []. Qed.
Definition fea_untranslated_ctx (what : string) (statements_ : list cstmt) : list cstmt. Proof. exact []. Qed.

(* Python truthiness of an optional string (None and "" are falsy), its value, and `lst or default` (None / empty are falsy) *)
Definition truthy (o : option str) : bool := match o with Some (_ :: _) => true | _ => false end.
Definition oget (o : option str) : str := match o with Some s => s | None => [] end.
Definition or_list (l d : list str) : list str := match l with [] => d | _ => l end.
(* isinstance tests on feature-file statements, and `[s for s in (...) if s is not None]` *)
Definition is_script (s : cstmt) : bool := match s with Context.SScript _ => true | _ => false end.
Definition is_language (s : cstmt) : bool := match s with Context.SLanguage _ => true | _ => false end.
Definition is_flag (s : cstmt) : bool := match s with Context.SFlag _ => true | _ => false end.
Definition somes (l : list (option cstmt)) : list cstmt := flat_map (fun o => match o with Some x => [x] | None => [] end) l.

Definition tr_add_lookup_refs (out_ : list fstmt) (lookups_ : list str) (script_ : option str) (languages_ : list str)
  (exclude_dflt_ : bool) : list fstmt :=
  (if (negb (truthy script_)) then let out_ := fold_left (fun (out_ : list fstmt) (lookup_ : str) => let out_ := out_ ++ [(LookupRefs.SLookup lookup_)] in out_) lookups_ out_ in out_ else let out_ := out_ ++ [(LookupRefs.SScript (oget script_))] in let out_ := (if exclude_dflt_ then let out_ := fold_left (fun (out_ : list fstmt) (language_ : str) => let out_ := out_ ++ [(LookupRefs.SLang language_ false)] in let out_ := fold_left (fun (out_ : list fstmt) (lookup_ : str) => let out_ := out_ ++ [(LookupRefs.SLookup lookup_)] in out_) lookups_ out_ in out_) (or_list languages_ [([100; 102; 108; 116]%Z : str)]) out_ in out_ else let out_ := out_ ++ [(LookupRefs.SLang ([100; 102; 108; 116]%Z : str) true)] in let out_ := fold_left (fun (out_ : list fstmt) (lookup_ : str) => let out_ := out_ ++ [(LookupRefs.SLookup lookup_)] in out_) lookups_ out_ in let out_ := fold_left (fun (out_ : list fstmt) (language_ : str) => (if (str_eqb language_ ([100; 102; 108; 116]%Z : str)) then out_ else let out_ := out_ ++ [(LookupRefs.SLang language_ true)] in out_)) (or_list languages_ []) out_ in out_) in out_).

Definition tr_context_at_step (st : option cstmt * option cstmt * option cstmt) (statement_ : cstmt) : option cstmt * option cstmt * option cstmt :=
  let '(script_, language_, lookupflag_) := st in (if is_script statement_ then ((Some statement_), None, None) else (if is_language statement_ then (script_, (Some statement_), lookupflag_) else (if is_flag statement_ then (script_, language_, (Some statement_)) else (script_, language_, lookupflag_)))).
Definition tr_context_at (statements_ : list cstmt) : list cstmt :=
  let '(script_, language_, lookupflag_) := fold_left tr_context_at_step statements_ (None, None, None) in
  somes [script_; language_; lookupflag_].
