(* GENERATED on every run by harness/imp_from_source.py from /repo's current source -- do not edit. *)
From Coq Require Import ZArith List String.
From U2F Require Import Base.Prelude.
Import ListNotations.
Open Scope Z_scope.

(* a source construct outside the translated fragment: opaque, nothing can be proved about it *)
Definition imp_untranslated (what : string) (keys_ glyphOrder_ : list str) : list str. Proof. exact []. Qed.

Definition tr_glyph_order_loop1 (st : list str * list str) (name_ : str) : list str * list str :=
  let '(names_, order_) := st in (if (negb (mem name_ names_)) then (names_, order_) else let names_ := (remove_str name_ names_) in let order_ := (order_ ++ [name_]) in (names_, order_)).
Definition tr_glyph_order (keys_ glyphOrder_ : list str) : list str :=
  let names_ := keys_ in let order_ := [] in let '(names_, order_) := (let '(names_, order_) := (if (mem ([46; 110; 111; 116; 100; 101; 102] : str) names_) then let names_ := (remove_str ([46; 110; 111; 116; 100; 101; 102] : str) names_) in let order_ := (order_ ++ [([46; 110; 111; 116; 100; 101; 102] : str)]) in (names_, order_) else (names_, order_)) in let '(names_, order_) := fold_left tr_glyph_order_loop1 glyphOrder_ (names_, order_) in let order_ := (order_ ++ (sort_str names_)) in (names_, order_)) in order_.
