(* GENERATED on every run by harness/imp_from_source.py from /repo's current source -- do not edit. *)
From Coq Require Import ZArith List String.
From U2F Require Import Base.Prelude.
Import ListNotations.
Open Scope Z_scope.

(* a source construct outside the translated fragment: opaque, nothing can be proved about it *)
Definition imp_untranslated (what : string) (keys_ glyphOrder_ : list str) : list str. Proof. exact []. Qed.
Definition imp_untranslated_u2g (what : string) (glyphOrder_ : list (str * list Z)) : list (Z * str) + (str * Z * str).
Proof. exact (inl []). Qed.

(* Python dicts with integer keys and name values: association lists in insertion order *)
Fixpoint zfind (k : Z) (m : list (Z * str)) : option str :=
  match m with [] => None | (k', v) :: m' => if Z.eqb k k' then Some v else zfind k m' end.
Definition zmem (k : Z) (m : list (Z * str)) : bool := match zfind k m with Some _ => true | None => false end.
Definition zget (k : Z) (m : list (Z * str)) : str := match zfind k m with Some v => v | None => [] end.   (* KeyError when absent *)
Fixpoint zset (k : Z) (v : str) (m : list (Z * str)) : list (Z * str) :=
  match m with [] => [(k, v)] | (k', v') :: m' => if Z.eqb k k' then (k, v) :: m' else (k', v') :: zset k v m' end.
(* ... with integer keys and any values (d[k] = v), and equality of optional names *)
Fixpoint dset {V} (k : Z) (v : V) (m : list (Z * V)) : list (Z * V) :=
  match m with [] => [(k, v)] | (k', v') :: m' => if Z.eqb k k' then (k, v) :: m' else (k', v') :: dset k v m' end.
Definition ostr_eqb (a b : option str) : bool :=
  match a, b with Some x, Some y => str_eqb x y | None, None => true | _, _ => false end.
Definition imp_untranslated_uvs (what : string) (allGlyphs_ : list str) (mapping_ : list (Z * str)) (uvsMapping_ : list (Z * list (Z * str)))
  : list (Z * list (Z * option str)). Proof. exact []. Qed.

Definition tr_glyph_order_loop1 (st : list str * list str) (name_ : str) : list str * list str :=
  let '(names_, order_) := st in (if (negb (mem name_ names_)) then (names_, order_) else let names_ := (remove_str name_ names_) in let order_ := (order_ ++ [name_]) in (names_, order_)).
Definition tr_glyph_order (keys_ glyphOrder_ : list str) : list str :=
  let names_ := keys_ in let order_ := [] in let '(names_, order_) := (let '(names_, order_) := (if (mem ([46; 110; 111; 116; 100; 101; 102] : str) names_) then let names_ := (remove_str ([46; 110; 111; 116; 100; 101; 102] : str) names_) in let order_ := (order_ ++ [([46; 110; 111; 116; 100; 101; 102] : str)]) in (names_, order_) else (names_, order_)) in let '(names_, order_) := fold_left (tr_glyph_order_loop1) glyphOrder_ (names_, order_) in let order_ := (order_ ++ (sort_str names_)) in (names_, order_)) in order_.

Definition tr_u2g_loop1 (glyphName_ : str) (unicodes_ : list Z) (st : list (Z * str) * option (str * Z * str)) (uni_ : Z) : list (Z * str) * option (str * Z * str) :=
  let '(mapping_, err_) := st in match err_ with Some _ => (mapping_, err_) | None => let '(mapping_, err_) := (if (negb (zmem uni_ mapping_)) then let mapping_ := (zset uni_ glyphName_ mapping_) in (mapping_, err_) else let err_ := Some (glyphName_, uni_, (zget uni_ mapping_)) in (mapping_, err_)) in (mapping_, err_) end.
Definition tr_u2g_loop2 (st : list (Z * str) * option (str * Z * str)) (elem_ : str * list Z) : list (Z * str) * option (str * Z * str) :=
  let '(mapping_, err_) := st in let '(glyphName_, unicodes_) := elem_ in match err_ with Some _ => (mapping_, err_) | None => let '(mapping_, err_) := fold_left (tr_u2g_loop1 glyphName_ unicodes_) unicodes_ (mapping_, err_) in (mapping_, err_) end.
Definition tr_u2g (glyphOrder_ : list (str * list Z)) : list (Z * str) + (str * Z * str) :=
  let mapping_ := [] in let err_ := (None : option (str * Z * str)) in let '(mapping_, err_) := (let '(mapping_, err_) := fold_left (tr_u2g_loop2) glyphOrder_ (mapping_, err_) in (mapping_, err_)) in match err_ with Some e_ => inr e_ | None => inl mapping_ end.

Definition tr_uvs_inner (allGlyphs_ : list str) (mapping_ : list (Z * str)) (uvsList_ : list (Z * option str)) (e_ : Z * str)
  : list (Z * option str) :=
  let '(hexvalue_, glyphName_) := e_ in (if negb (mem glyphName_ allGlyphs_) then uvsList_ else let uvsList_ := (if (ostr_eqb (Some glyphName_) (zfind hexvalue_ mapping_)) then uvsList_ ++ [(hexvalue_, None)] else uvsList_ ++ [(hexvalue_, (Some glyphName_))]) in uvsList_).
Definition tr_uvs_outer (allGlyphs_ : list str) (mapping_ : list (Z * str)) (uvsDict_ : list (Z * list (Z * option str)))
  (e_ : Z * list (Z * str)) : list (Z * list (Z * option str)) :=
  let '(hexvs_, glyphMapping_) := e_ in
  let uvsList_ := fold_left (tr_uvs_inner allGlyphs_ mapping_) glyphMapping_ [] in
  match uvsList_ with [] => uvsDict_ | _ => dset hexvs_ uvsList_ uvsDict_ end.
Definition tr_uvs (allGlyphs_ : list str) (mapping_ : list (Z * str)) (uvsMapping_ : list (Z * list (Z * str)))
  : list (Z * list (Z * option str)) :=
  fold_left (tr_uvs_outer allGlyphs_ mapping_) uvsMapping_ [].
