(* GENERATED on every run by harness/name_from_source.py from /repo's current source -- do not edit. *)
From Coq Require Import ZArith List String Bool.
From U2F Require Import Base.Prelude Info.NameMerge.
Import ListNotations.
Open Scope Z_scope.

(* a source construct outside the translated fragment: opaque, nothing can be proved about it *)
Definition name_untranslated (what : string) (temp_ orig_ : list (nkey * str)) : list (nkey * str). Proof. exact []. Qed.

Definition tr_name_merge (temp_ orig_ : list (nkey * str)) : list (nkey * str) :=
  let temp_names_ := kdict temp_ in
  let orig_names_ := kdict orig_ in
  let rewritten_ := map (fun n_ => [(kf 0%nat (fst n_)); (kf 1%nat (fst n_)); (kf 3%nat (fst n_))]) temp_ in
  let orig_names_ := filter (fun kv_ => let key_ := fst kv_ in ((kmem key_ temp_names_) || (negb (lmem [(kf 0%nat key_); (kf 1%nat key_); (kf 3%nat key_)] rewritten_)))) orig_names_ in
  let orig_names_ := filter (fun kv_ => let key_ := fst kv_ in ((kmem key_ temp_names_) || (negb ((Z.ltb (kf 0%nat key_) 256) && (Z.eqb (kf 1%nat key_) 3) && (Z.eqb (kf 3%nat key_) 1033))))) orig_names_ in
  let orig_names_ := fold_left (fun d_ kv_ => kset (fst kv_) (snd kv_) d_) temp_names_ orig_names_ in
  orig_names_.
