(* Base definitions shared by all models: strings as code-point lists with
   Python's ordering, boolean list helpers, sorting.  Stdlib only. *)
From Coq Require Export ZArith List Bool Lia Permutation Sorted.
From Coq Require Import Orders Mergesort.
Export ListNotations.

Definition str := list Z.

(* ---- equality ---- *)
Fixpoint list_eqb {A} (eqb : A -> A -> bool) (a b : list A) : bool :=
  match a, b with
  | [], [] => true
  | x :: a', y :: b' => eqb x y && list_eqb eqb a' b'
  | _, _ => false
  end.

Lemma list_eqb_spec {A} (eqb : A -> A -> bool) :
  (forall x y, eqb x y = true <-> x = y) ->
  forall a b, list_eqb eqb a b = true <-> a = b.
Proof.
  intros H a. induction a as [|x a IH]; intros [|y b]; simpl; split; intro E;
    try reflexivity; try discriminate.
  - apply andb_true_iff in E. destruct E as [E1 E2].
    apply H in E1. apply IH in E2. subst. reflexivity.
  - inversion E; subst. apply andb_true_iff. split; [apply H|apply IH]; reflexivity.
Qed.

Definition str_eqb : str -> str -> bool := list_eqb Z.eqb.

Lemma str_eqb_eq a b : str_eqb a b = true <-> a = b.
Proof. apply list_eqb_spec. intros x y. apply Z.eqb_eq. Qed.

Lemma str_eqb_refl a : str_eqb a a = true.
Proof. apply str_eqb_eq. reflexivity. Qed.

Lemma str_eqb_neq a b : str_eqb a b = false <-> a <> b.
Proof.
  split; intro H.
  - intro E. apply str_eqb_eq in E. congruence.
  - destruct (str_eqb a b) eqn:E; [apply str_eqb_eq in E; contradiction|reflexivity].
Qed.

Lemma str_eq_dec (a b : str) : {a = b} + {a <> b}.
Proof. apply list_eq_dec. apply Z.eq_dec. Defined.

(* ---- Python's str order: lexicographic on code points ---- *)
Fixpoint str_leb (a b : str) : bool :=
  match a, b with
  | [], _ => true
  | _ :: _, [] => false
  | x :: a', y :: b' => if Z.ltb x y then true else if Z.eqb x y then str_leb a' b' else false
  end.

Definition str_ltb (a b : str) : bool := str_leb a b && negb (str_eqb a b).

Lemma str_leb_total a b : str_leb a b = true \/ str_leb b a = true.
Proof.
  revert b. induction a as [|x a IH]; intros [|y b]; simpl; auto.
  destruct (Z.ltb_spec x y), (Z.ltb_spec y x); auto; try lia.
  assert (x = y) by lia. subst. rewrite Z.eqb_refl. apply IH.
Qed.

Lemma str_leb_refl a : str_leb a a = true.
Proof. induction a as [|x a IH]; simpl; auto. rewrite Z.ltb_irrefl, Z.eqb_refl. exact IH. Qed.

Lemma str_leb_trans a b c : str_leb a b = true -> str_leb b c = true -> str_leb a c = true.
Proof.
  revert b c. induction a as [|x a IH]; intros [|y b] [|z c]; simpl; auto; try discriminate.
  destruct (Z.ltb_spec x y), (Z.ltb_spec y z), (Z.ltb_spec x z); auto; try lia;
    destruct (Z.eqb_spec x y), (Z.eqb_spec y z), (Z.eqb_spec x z); auto; try lia; try discriminate.
  apply IH.
Qed.

Lemma str_leb_antisym a b : str_leb a b = true -> str_leb b a = true -> a = b.
Proof.
  revert b. induction a as [|x a IH]; intros [|y b]; simpl; auto; try discriminate.
  intros H1 H2.
  destruct (Z.ltb_spec x y) as [Hxy|Hxy].
  - destruct (Z.ltb_spec y x) as [Hyx|Hyx]; [lia|].
    destruct (Z.eqb_spec y x); [lia|discriminate].
  - destruct (Z.eqb_spec x y) as [->|Hne]; [|discriminate].
    rewrite Z.ltb_irrefl, Z.eqb_refl in H2. f_equal. auto.
Qed.

(* ---- membership / removal on string lists ---- *)
Fixpoint mem (x : str) (l : list str) : bool :=
  match l with [] => false | y :: l' => str_eqb x y || mem x l' end.

Lemma mem_In x l : mem x l = true <-> In x l.
Proof.
  induction l as [|y l IH]; simpl; [split; [discriminate|tauto]|].
  rewrite orb_true_iff, IH, str_eqb_eq. split; intros [H|H]; auto.
Qed.

Lemma mem_false x l : mem x l = false <-> ~ In x l.
Proof.
  rewrite <- mem_In. destruct (mem x l); split; intro H; congruence.
Qed.

Definition remove_str (x : str) (l : list str) : list str :=
  filter (fun y => negb (str_eqb x y)) l.

Lemma In_remove_str x y l : In y (remove_str x l) <-> In y l /\ y <> x.
Proof.
  unfold remove_str. rewrite filter_In, negb_true_iff, str_eqb_neq. intuition congruence.
Qed.

(* ---- sorting strings (Python's sorted on str) ---- *)
Module StrOrder <: TotalLeBool.
  Definition t := str.
  Definition leb := str_leb.
  Theorem leb_total : forall a b, leb a b = true \/ leb b a = true.
  Proof. exact str_leb_total. Qed.
End StrOrder.

Module StrSort := Sort StrOrder.

Definition sort_str : list str -> list str := StrSort.sort.

Lemma sort_str_perm l : Permutation l (sort_str l).
Proof. apply StrSort.Permuted_sort. Qed.

Lemma sort_str_sorted l : LocallySorted (fun a b => is_true (str_leb a b)) (sort_str l).
Proof. apply StrSort.LocallySorted_sort. Qed.

Lemma sort_str_In x l : In x (sort_str l) <-> In x l.
Proof.
  split; intro H.
  - eapply Permutation_in; [apply Permutation_sym, sort_str_perm|exact H].
  - eapply Permutation_in; [apply sort_str_perm|exact H].
Qed.

Lemma sort_str_NoDup l : NoDup l -> NoDup (sort_str l).
Proof. intro H. eapply Permutation_NoDup; [apply sort_str_perm|exact H]. Qed.

(* Sorted + NoDup = strictly increasing (used to say "sorted by name") *)
Definition str_lt (a b : str) : Prop := str_leb a b = true /\ a <> b.

Lemma sorted_nodup_strict l :
  LocallySorted (fun a b => is_true (str_leb a b)) l -> NoDup l -> LocallySorted str_lt l.
Proof.
  induction 1 as [|a|a b l Hs IH Hab]; intro Hn; constructor.
  - apply IH. inversion Hn; assumption.
  - split; [exact Hab|]. inversion Hn as [|? ? Hni _]; subst.
    intro E. subst. apply Hni. left. reflexivity.
Qed.

(* a sorted list is determined by its elements *)
Lemma str_sorted_head_le a l :
  LocallySorted (fun a b => is_true (str_leb a b)) (a :: l) -> forall x, In x l -> str_leb a x = true.
Proof.
  revert a. induction l as [|b l IH]; intros a Hs x Hx; [destruct Hx|].
  inversion Hs as [| |? ? ? Hs' Hab]; subst.
  destruct Hx as [->|Hx]; [exact Hab|].
  eapply str_leb_trans; [exact Hab|apply IH; assumption].
Qed.

Lemma sorted_perm_unique l1 l2 :
  LocallySorted (fun a b => is_true (str_leb a b)) l1 ->
  LocallySorted (fun a b => is_true (str_leb a b)) l2 ->
  Permutation l1 l2 -> l1 = l2.
Proof.
  revert l2. induction l1 as [|a l1 IH]; intros l2 H1 H2 P.
  - apply Permutation_nil in P. subst. reflexivity.
  - destruct l2 as [|b l2]; [apply Permutation_sym, Permutation_nil in P; discriminate|].
    assert (a = b) as ->.
    { apply str_leb_antisym.
      - assert (In b (a :: l1)) as Hb by (eapply Permutation_in; [apply Permutation_sym, P|left; reflexivity]).
        destruct Hb as [->|Hb]; [apply str_leb_refl|eapply str_sorted_head_le; eassumption].
      - assert (In a (b :: l2)) as Ha by (eapply Permutation_in; [apply P|left; reflexivity]).
        destruct Ha as [->|Ha]; [apply str_leb_refl|eapply str_sorted_head_le; eassumption]. }
    f_equal. apply IH.
    + inversion H1; subst; [constructor|assumption].
    + inversion H2; subst; [constructor|assumption].
    + eapply Permutation_cons_inv. exact P.
Qed.

(* ---- generic helpers ---- *)
Fixpoint index_of (x : str) (l : list str) : option nat :=
  match l with
  | [] => None
  | y :: l' => if str_eqb x y then Some O else option_map S (index_of x l')
  end.

Definition option_eqb {A} (eqb : A -> A -> bool) (a b : option A) : bool :=
  match a, b with
  | None, None => true
  | Some x, Some y => eqb x y
  | _, _ => false
  end.

Definition pair_eqb {A B} (ea : A -> A -> bool) (eb : B -> B -> bool) (a b : A * B) : bool :=
  ea (fst a) (fst b) && eb (snd a) (snd b).

Fixpoint nodup_str (l : list str) : bool :=
  match l with [] => true | x :: l' => negb (mem x l') && nodup_str l' end.

Lemma nodup_str_NoDup l : nodup_str l = true <-> NoDup l.
Proof.
  induction l as [|x l IH]; simpl; [split; [constructor|reflexivity]|].
  rewrite andb_true_iff, negb_true_iff, mem_false, IH. split.
  - intros [H1 H2]. constructor; assumption.
  - intro H. inversion H; auto.
Qed.

(* association lists keyed by strings *)
Fixpoint assoc {V} (k : str) (l : list (str * V)) : option V :=
  match l with
  | [] => None
  | (k', v) :: l' => if str_eqb k k' then Some v else assoc k l'
  end.

Definition keys {V} (l : list (str * V)) : list str := map fst l.

(* ---- NoDup over append (absent from the 8.16 stdlib) ---- *)
Lemma NoDup_app_l {A} (a b : list A) : NoDup (a ++ b) -> NoDup a.
Proof.
  induction a as [|x a IH]; simpl; intro H; [constructor|].
  inversion H as [|? ? Hx Hr]; subst. constructor; [|apply IH; exact Hr].
  intro Hin. apply Hx. apply in_or_app. auto.
Qed.

Lemma NoDup_app_r {A} (a b : list A) : NoDup (a ++ b) -> NoDup b.
Proof. induction a as [|x a IH]; simpl; intro H; [exact H|]. inversion H; auto. Qed.

Lemma NoDup_app_disj {A} (a b : list A) x : NoDup (a ++ b) -> In x a -> In x b -> False.
Proof.
  induction a as [|y a IH]; simpl; intros H Ha Hb; [destruct Ha|].
  inversion H as [|? ? Hy Hr]; subst. destruct Ha as [->|Ha].
  - apply Hy. apply in_or_app. auto.
  - eapply IH; eassumption.
Qed.

Lemma NoDup_snoc {A} (l : list A) a : NoDup l -> ~ In a l -> NoDup (l ++ [a]).
Proof.
  induction l as [|x l IH]; simpl; intros Hn Ha; [constructor; [intros []|constructor]|].
  inversion Hn as [|? ? Hx Hl]; subst. constructor.
  - intro Hin. apply in_app_or in Hin. destruct Hin as [Hin|[E|[]]]; [contradiction|].
    subst. apply Ha. auto.
  - apply IH; [exact Hl|]. intro. apply Ha. auto.
Qed.
