#!/bin/bash
# usage: seedconfirm.sh <dir-with-patch.diff-and-demo.py> [notests]
# Confirms a seeded change in a scratch worktree of /repo: demo passes on the unchanged tree,
# fails with the patch, and the repository's test suite still passes with the patch.
set -u
D=$(cd "$1" && pwd)
W=/tmp/sc.$$
git -C /repo worktree add --detach -f $W >/dev/null 2>&1 || { echo "worktree failed"; exit 2; }
trap 'git -C /repo worktree remove --force $W >/dev/null 2>&1; rm -rf $W' EXIT
run_demo() { (cd $W && PYTHONPATH=$W/Lib PYTHONHASHSEED=0 timeout 600 /venv/bin/python $D/demo.py >/tmp/sc.$$.out 2>&1; echo $?); }
a=$(run_demo); echo "demo on unchanged tree: exit $a"
git -C $W apply $D/patch.diff || { echo "patch failed"; exit 2; }
b=$(run_demo); echo "demo with patch: exit $b"; tail -3 /tmp/sc.$$.out
if [ "${2:-}" != "notests" ]; then
  t=$(cd $W && PYTHONPATH=$W/Lib timeout 1800 /venv/bin/python -m pytest -q -p no:cacheprovider tests 2>&1 | tail -1); echo "tests with patch: $t"
fi
rm -f /tmp/sc.$$.out
[ "$a" = 0 ] && [ "$b" != 0 ] && echo CONFIRMED || echo NOT-CONFIRMED
