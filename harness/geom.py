"""Geometry helpers for the harness: reading glyph objects into plain point
lists, Gallina terms for the geometry model, and an independent segment-level
reference renderer (exact Fractions) used for direct checks on compiled fonts."""
from fractions import Fraction as Fr
import math
from harness import gterm as G


# ------------------------------------------------------------------ observers
def glyph_points(glyph):
    """-> (contours [[(x, y, type)]], components [(base, 6-tuple)]) with Fractions"""
    from fontTools.pens.recordingPen import RecordingPointPen
    rec = RecordingPointPen()
    glyph.drawPoints(rec)
    contours, comps, cur = [], [], None
    for op, args, kw in rec.value:
        if op == "beginPath":
            cur = []
        elif op == "addPoint":
            pt, st = args[0], args[1]
            cur.append((Fr(pt[0]), Fr(pt[1]), st or "off"))
        elif op == "endPath":
            contours.append(cur)
            cur = None
        elif op == "addComponent":
            comps.append((args[0], tuple(Fr(v) for v in args[1])))
    return contours, comps


def drawn_points(drawable, glyphset=None):
    """glyph of a compiled font (segment pen protocol) -> point contours via SegmentToPointPen"""
    from fontTools.pens.recordingPen import RecordingPointPen
    from fontTools.pens.pointPen import SegmentToPointPen
    rec = RecordingPointPen()
    drawable.draw(SegmentToPointPen(rec))
    contours, cur = [], None
    for op, args, kw in rec.value:
        if op == "beginPath":
            cur = []
        elif op == "addPoint":
            pt, st = args[0], args[1]
            cur.append((Fr(pt[0]), Fr(pt[1]), st or "off"))
        elif op == "endPath":
            contours.append(cur)
    return contours


def drawn_segments(drawable):
    from fontTools.pens.recordingPen import RecordingPen
    rec = RecordingPen()
    drawable.draw(rec)
    return rec.value


# ------------------------------------------------------------------ Gallina terms
def g_q(v):
    v = Fr(v)
    if v.denominator == 1:
        return "(qi %s)" % G.z(v.numerator)
    return "(qq %s %d)" % (G.z(v.numerator), v.denominator)


PT = {"move": "Move", "line": "Line", "curve": "Curve", "qcurve": "QCurve"}


def g_contour(c):
    pts = G.lst(["(mkP %s %s %s)" % (g_q(x), g_q(y), G.b(t != "off")) for x, y, t in c], "pnt")
    tys = G.lst([PT[t] for _, _, t in c if t != "off"], "ptype")
    return "(mkC %s %s)" % (pts, tys)


def g_contours(cs):
    return G.lst([g_contour(c) for c in cs], "contour")


def g_affine(t):
    return "(mkA %s)" % " ".join(g_q(v) for v in t)


def g_glyph(g):
    comps = G.lst([G.tup(G.s(b), g_affine(t)) for b, t in g.get("components", [])], "(str * affine)")
    anchors = G.lst([G.tup(G.s(a[0]), G.tup(g_q(a[1]), g_q(a[2]))) for a in g.get("anchors", [])], "(str * (Qc * Qc))")
    return "(mkG %s %s %s %s)" % (g_contours(g.get("contours", [])), comps, g_q(g.get("width", 0)), anchors)


def g_glyphset(glyphs):
    return G.lst([G.tup(G.s(g["name"]), g_glyph(g)) for g in glyphs], "(str * glyph)")


# ------------------------------------------------------------------ reference renderer (segments)
def ot_round(v):
    return math.floor(Fr(v) + Fr(1, 2))


def to_segments(contour):
    """UFO point contour -> (closed, start_point, [segments]); a segment is
    ('line', p) | ('curve', c1, c2, p) | ('qcurve', [offs...], p).  Closed contours are
    rotated to start at their first on-curve point; all-off-curve contours are returned
    as ('qblob', [offs])."""
    pts = [(Fr(x), Fr(y), t) for x, y, t in contour]
    if not pts:
        return None
    if pts[0][2] == "move":
        start = pts[0][:2]
        rest = pts[1:]
        closed = False
    else:
        ons = [i for i, p in enumerate(pts) if p[2] != "off"]
        if not ons:
            return ("blob", [p[:2] for p in pts])
        i0 = ons[0]
        rot = pts[i0 + 1:] + pts[:i0 + 1]
        start = pts[i0][:2]
        rest = rot
        closed = True
    segs, offs = [], []
    for x, y, t in rest:
        if t == "off":
            offs.append((x, y))
        else:
            if t == "line":
                segs.append(("line", (x, y)))
            elif t == "curve":
                segs.append(("curve", tuple(offs), (x, y)))
            elif t == "qcurve":
                segs.append(("qcurve", tuple(offs), (x, y)))
            offs = []
    return ("closed" if closed else "open", start, segs, tuple(offs))


def reverse_segments(s):
    """independent statement of 'contour direction reversed, start point kept'"""
    if s is None:
        return None
    if s[0] == "blob":
        pts = s[1]
        return ("blob", [pts[0]] + pts[1:][::-1])
    kind, start, segs, trailing = s
    # walk backwards: the segment that ended at p_i now runs from p_i to p_{i-1}
    ends = [start] + [sg[-1] for sg in segs]
    out = []
    for i in range(len(segs) - 1, -1, -1):
        sg = segs[i]
        if sg[0] == "line":
            out.append(("line", ends[i]))
        else:
            out.append((sg[0], tuple(reversed(sg[1])), ends[i]))
    if kind == "closed":
        # start stays: segments now go start=ends[0] ... but the reversed walk starts at ends[-1] == start (closed)
        return (kind, start, out, ())
    return (kind, ends[-1], out, ())


def apply_aff(t, p):
    xx, xy, yx, yy, dx, dy = t
    return (xx * p[0] + yx * p[1] + dx, xy * p[0] + yy * p[1] + dy)


def map_segments(s, f):
    if s is None:
        return None
    if s[0] == "blob":
        return ("blob", [f(p) for p in s[1]])
    kind, start, segs, trailing = s
    out = []
    for sg in segs:
        if sg[0] == "line":
            out.append(("line", f(sg[1])))
        else:
            out.append((sg[0], tuple(f(p) for p in sg[1]), f(sg[2])))
    return (kind, f(start), out, tuple(f(p) for p in trailing))


def ref_resolve(glyphs_by_name, name, depth=0):
    """nested resolution at segment level: own contours, then each component's resolved
    base mapped by the component matrix, reversed iff det < 0"""
    if depth > 50:
        raise RecursionError(name)
    g = glyphs_by_name[name]
    out = []
    for c in g.get("contours", []):
        s = to_segments(c)
        if s is not None:
            out.append(s)
    for base, t in g.get("components", []):
        t = tuple(Fr(v) for v in t)
        det = t[0] * t[3] - t[1] * t[2]
        for s in ref_resolve(glyphs_by_name, base, depth + 1):
            s2 = map_segments(s, lambda p: apply_aff(t, p))
            if det < 0:
                s2 = closed_reverse(s2)
            out.append(s2)
    return out


def closed_reverse(s):
    return reverse_cycle(s) if s[0] == "closed" else reverse_segments(s)


def reverse_cycle(s):
    """closed: treat as cycle start -> ... -> back to start (rotation in to_segments guarantees the
    last segment ends at start: the start point is the first on-curve and is also the
    end of the last segment)"""
    kind, start, segs, trailing = s
    if kind != "closed":
        return reverse_segments(s)
    # by construction segs[-1] ends at `start`
    assert segs and segs[-1][-1] == start, s
    pts = [start] + [sg[-1] for sg in segs]  # pts[-1] == start
    out = []
    for i in range(len(segs) - 1, -1, -1):
        sg = segs[i]
        if sg[0] == "line":
            out.append(("line", pts[i]))
        else:
            out.append((sg[0], tuple(reversed(sg[1])), pts[i]))
    return (kind, start, out, ())


def round_tol(tol, v):
    """fontTools roundFunc(tolerance): 0 -> identity; >= .5 -> otRound; else maybeRound"""
    v = Fr(v)
    if tol == 0:
        return v
    r = Fr(ot_round(v))
    if tol >= Fr(1, 2):
        return r
    return r if abs(r - v) <= tol else v


class NearHalf(Exception):
    pass


def guard(v, eps=Fr(1, 10 ** 6)):
    """float guard: reject values whose exact image is within eps of a rounding boundary"""
    f = (Fr(v) - Fr(1, 2)) % 1
    if min(f, 1 - f) < eps and f != 0:
        raise NearHalf(v)
    return v


def elevate(segs_closed, inexact_guard=True):
    """quadratic segments -> cubic (BasePen.qCurveTo/_qCurveToOne), exact"""
    kind, start, segs, trailing = segs_closed
    out, cur = [], start
    for sg in segs:
        if sg[0] != "qcurve":
            out.append(sg)
            cur = sg[-1]
            continue
        offs, end = list(sg[1]), sg[2]
        if not offs:
            out.append(("line", end))
            cur = end
            continue
        pairs = []
        for i in range(len(offs) - 1):
            imp = ((offs[i][0] + offs[i + 1][0]) / 2, (offs[i][1] + offs[i + 1][1]) / 2)
            pairs.append((offs[i], imp))
        pairs.append((offs[-1], end))
        for q, p2 in pairs:
            c1 = (cur[0] + Fr(2, 3) * (q[0] - cur[0]), cur[1] + Fr(2, 3) * (q[1] - cur[1]))
            c2 = (p2[0] + Fr(2, 3) * (q[0] - p2[0]), p2[1] + Fr(2, 3) * (q[1] - p2[1]))
            if inexact_guard:
                for v in c1 + c2:
                    guard(v)
            out.append(("curve", (c1, c2), p2))
            cur = p2
    return (kind, start, out, trailing)


def round_segments(s, tol):
    return map_segments(s, lambda p: (round_tol(tol, p[0]), round_tol(tol, p[1])))


def cyc_canon(s):
    """closed contour -> canonical rotation of its segment cycle (start point immaterial)"""
    kind, start, segs, trailing = s
    if kind != "closed" or not segs:
        return s
    # drop an explicit zero-length closing line
    n = len(segs)
    best = None
    for i in range(n):
        rot = segs[i:] + segs[:i]
        st = segs[i - 1][-1]
        key = repr((st, rot))
        if best is None or key < best[0]:
            best = (key, (kind, st, rot, ()))
    return best[1]


def merge_axis_lines(s):
    """closed contour -> the same outline with every on-curve point removed that lies strictly inside a straight
    horizontal (or vertical) run of two line segments going the same way.  The charstring specialiser (optimizeCFF >= 1)
    merges such runs into one hlineto/vlineto argument: the shape drawn is the same, one collinear point is gone."""
    kind, start, segs, trailing = s
    if kind != "closed" or len(segs) < 3:
        return s
    segs = list(segs)
    changed = True
    while changed and len(segs) >= 3:
        changed = False
        n = len(segs)
        for i in range(n):
            a, b = segs[i], segs[(i + 1) % n]
            if a[0] != "line" or b[0] != "line":
                continue
            p0, p1, p2 = segs[i - 1][-1], a[-1], b[-1]
            for ax in (0, 1):
                o = 1 - ax
                if p0[o] == p1[o] == p2[o] and (p1[ax] - p0[ax]) * (p2[ax] - p1[ax]) > 0:
                    # drop p1: segment a disappears, b now runs p0 -> p2
                    del segs[i]
                    changed = True
                    break
            if changed:
                break
    return (kind, segs[-1][-1], segs, ())


def recorded_to_segments(value, snap_eps=None):
    """RecordingPen.value of a compiled glyph -> list of closed segment cycles"""
    out, cur, start = [], None, None
    for op, args in value:
        if op == "moveTo":
            start = (Fr(args[0][0]), Fr(args[0][1]))
            cur = []
        elif op == "lineTo":
            cur.append(("line", (Fr(args[0][0]), Fr(args[0][1]))))
        elif op == "curveTo":
            pts = [(Fr(a[0]), Fr(a[1])) for a in args]
            cur.append(("curve", tuple(pts[:-1]), pts[-1]))
        elif op == "qCurveTo":
            pts = [(Fr(a[0]), Fr(a[1])) for a in args if a is not None]
            cur.append(("qcurve", tuple(pts[:-1]), pts[-1]))
        elif op in ("closePath", "endPath"):
            if cur is not None:
                last = cur[-1][-1] if cur else start
                if last != start:
                    if snap_eps is not None and cur and abs(last[0] - start[0]) <= snap_eps and abs(last[1] - start[1]) <= snap_eps:
                        # fixed-point delta encoding did not return exactly to the start point
                        cur[-1] = cur[-1][:-1] + (start,)
                    else:
                        cur.append(("line", start))
                out.append(("closed", start, cur, ()))
            cur = None
    return out


def snapshot_glyph(name, glyph):
    cs, comps = glyph_points(glyph)
    return {"name": name, "contours": cs, "components": comps, "width": Fr(glyph.width),
            "height": Fr(getattr(glyph, "height", 0) or 0),
            "anchors": [(a.name, Fr(a.x), Fr(a.y)) for a in glyph.anchors]}


def snapshot_glyphset(glyphset):
    """dict-like of glyph objects -> list of plain glyph dicts (insertion order)"""
    return [snapshot_glyph(n, glyphset[n]) for n in glyphset.keys()]
