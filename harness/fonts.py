"""Abstract font descriptions (plain data) -> ufoLib2 / defcon fonts, plus
random generators for glyph sets shared by several properties."""
import warnings
warnings.filterwarnings("ignore")
from fractions import Fraction as Fr


def num(v):
    """Fraction -> int or float (exact for the dyadic rationals we generate)"""
    if isinstance(v, Fr):
        if v.denominator == 1:
            return int(v)
        f = float(v)
        assert Fr(f) == v, "non-dyadic value %r" % v
        return f
    return v


def jsonable(o):
    if isinstance(o, Fr):
        return str(o)
    if isinstance(o, dict):
        return {str(k): jsonable(v) for k, v in o.items()}
    if isinstance(o, (list, tuple)):
        return [jsonable(x) for x in o]
    if isinstance(o, (set, frozenset)):
        return sorted(jsonable(x) for x in o)
    return o


def build_font(desc, lib="ufoLib2"):
    if lib == "ufoLib2":
        import ufoLib2
        font = ufoLib2.Font()
    else:
        import defcon
        font = defcon.Font()
    info = dict(desc.get("info", {}))
    if not desc.get("no_info_defaults"):
        info.setdefault("unitsPerEm", 1000)
        info.setdefault("familyName", "Test")
        info.setdefault("styleName", "Regular")
    for k, v in info.items():
        setattr(font.info, k, num(v) if not isinstance(v, (list, dict, str)) else v)
    for g in desc["glyphs"]:
        glyph = font.newGlyph(g["name"])
        glyph.width = num(g.get("width", 0))
        if "height" in g:
            glyph.height = num(g["height"])
        if g.get("unicodes"):
            glyph.unicodes = list(g["unicodes"])
        pen = glyph.getPointPen()
        for c in g.get("contours", []):
            pen.beginPath()
            for pt in c:
                x, y, t = pt[0], pt[1], pt[2]
                pen.addPoint((num(x), num(y)), segmentType=(None if t == "off" else t),
                             smooth=bool(pt[3]) if len(pt) > 3 else False)
            pen.endPath()
        ids = g.get("component_ids") or []
        for ci, (base, tr) in enumerate(g.get("components", [])):
            if ci < len(ids) and ids[ci]:
                pen.addComponent(base, tuple(num(v) for v in tr), identifier=ids[ci])     # (tied to public.objectLibs)
            else:
                pen.addComponent(base, tuple(num(v) for v in tr))
        for a in g.get("anchors", []):
            ad = {"name": a[0], "x": num(a[1]), "y": num(a[2])}
            if len(a) > 3 and a[3]:
                ad["identifier"] = a[3]       # contextual anchors ("*name") are tied to public.objectLibs by identifier
            glyph.appendAnchor(ad)
        for k, v in g.get("lib", {}).items():
            glyph.lib[k] = v
    if desc.get("glyphOrder") is not None:
        font.glyphOrder = list(desc["glyphOrder"])
    for k, v in desc.get("groups", {}).items():
        font.groups[k] = list(v)
    for (a, b2), v in desc.get("kerning", {}).items():
        font.kerning[(a, b2)] = num(v)
    if desc.get("features"):
        font.features.text = desc["features"]
    for k, v in desc.get("lib", {}).items():
        font.lib[k] = v
    return font


# ------------------------------------------------------------------ generators
# no "space": a CFF whose charset is a prefix of ISOAdobe (.notdef, space, ...) is written with the
# predefined charset by cffsubr and cannot be re-read by fontTools 4.55 -- environment limit
NAMES = ["a", "b", "c", "d", "e", "A", "B", "aa", "ab", "a.alt", "f_i", "zero", "one", "x", "y", "Z",
         "acutecomb", "gravecomb", "nbspace", "uni0041", "_part", "b.sc", "Aacute", "adieresis", "o", "n"]


def rand_names(rng, n, pool=None):
    pool = list(pool or NAMES)
    rng.shuffle(pool)
    out = pool[:n]
    i = 0
    while len(out) < n:
        out.append("g%d" % i)
        i += 1
    return out


COORDS = None


def rand_coord(rng, big=False):
    """edge classes: integers, x.5, quarters, negatives, large"""
    k = rng.random()
    if k < 0.45:
        v = Fr(rng.randint(-300, 900))
    elif k < 0.70:
        v = Fr(rng.randint(-300, 900)) + Fr(1, 2)
    elif k < 0.85:
        v = Fr(rng.randint(-1200, 3600), 4)
    elif k < 0.95:
        v = Fr(rng.randint(-64 * 300, 64 * 900), 64)
    else:
        v = Fr(rng.choice([-4000, 4000, -3999, 3456])) + rng.choice([0, Fr(1, 2)])
    return v


def rand_contour(rng, kinds=("line", "curve", "qcurve"), closed=True):
    """UFO point list for one closed contour; returns list of (x, y, type)"""
    kind = rng.choice(kinds)
    pts = []
    nseg = rng.randint(2, 5)
    for i in range(nseg):
        seg = kind if rng.random() < 0.7 else "line"
        if seg == "curve":
            pts.append((rand_coord(rng), rand_coord(rng), "off"))
            pts.append((rand_coord(rng), rand_coord(rng), "off"))
            pts.append((rand_coord(rng), rand_coord(rng), "curve"))
        elif seg == "qcurve":
            for _ in range(rng.choice([1, 1, 2, 3])):
                pts.append((rand_coord(rng), rand_coord(rng), "off"))
            pts.append((rand_coord(rng), rand_coord(rng), "qcurve"))
        else:
            pts.append((rand_coord(rng), rand_coord(rng), "line"))
    if not closed:
        # open contour: first point is a move, must start on-curve
        pts = [(rand_coord(rng), rand_coord(rng), "move")] + pts
    else:
        # rotate so that a closed contour may start anywhere (incl. off-curve)
        r = rng.randrange(len(pts)) if rng.random() < 0.5 else 0
        pts = pts[r:] + pts[:r]
    return pts


MATRICES = {
    "identity": (1, 0, 0, 1),
    "scale": (Fr(3, 2), 0, 0, Fr(3, 2)),
    "nonuniform": (2, 0, 0, Fr(1, 2)),
    "shear": (1, 0, Fr(1, 4), 1),
    "rot90": (0, 1, -1, 0),
    "mirror_x": (-1, 0, 0, 1),
    "mirror_y": (1, 0, 0, -1),
    "point_reflect": (-1, 0, 0, -1),
    "mirror_scale": (Fr(-3, 4), 0, 0, Fr(5, 4)),
    "general": (Fr(3, 4), Fr(1, 2), Fr(-1, 4), Fr(5, 4)),
    "shrink_mirror": (Fr(-3, 4), 0, 0, Fr(1, 2)),
    "general_small": (Fr(3, 4), Fr(1, 4), Fr(-1, 4), Fr(1, 2)),
}


def rand_transform(rng, classes=None, offset=True):
    name = rng.choice(classes or list(MATRICES))
    m = tuple(Fr(v) for v in MATRICES[name])
    if offset and rng.random() < 0.8:
        dx, dy = rand_coord(rng), rand_coord(rng)
    else:
        dx, dy = Fr(0), Fr(0)
    return name, m + (dx, dy)


def gen_component_font(rng, n=None, kinds=("line", "curve", "qcurve"), max_depth=4, classes=None,
                       mixed=True, anchors=False, widths="mixed", singular=False):
    """random glyph set with a component DAG: glyph i may reference glyphs j < i.
    Returns desc with 'glyphs' (names g00.. plus a few real names), every number a Fraction."""
    n = n or rng.randint(3, 12)
    names = rand_names(rng, n)
    glyphs, depth = [], {}
    for i, nm in enumerate(names):
        g = {"name": nm, "unicodes": [], "contours": [], "components": [], "anchors": []}
        k = rng.random()
        cands = [m for m in names[:i] if depth[m] < max_depth]
        if i == 0 or k < 0.35 or not cands:
            for _ in range(rng.randint(1, 3)):
                g["contours"].append(rand_contour(rng, kinds))
        else:
            if mixed and rng.random() < 0.3:
                g["contours"].append(rand_contour(rng, kinds))
            for _ in range(rng.randint(1, 3)):
                b = rng.choice(cands)
                cls, t = rand_transform(rng, classes)
                if singular and rng.random() < 0.1:
                    t = (Fr(1), Fr(2), Fr(2), Fr(4)) + t[4:]
                g["components"].append((b, t))
        depth[nm] = 1 + max([depth[b] for b, _ in g["components"]], default=-1)
        if widths == "mixed":
            w = rng.choice([Fr(500), Fr(0), Fr(rng.randint(0, 2000)), Fr(rng.randint(0, 4000), 2) + Fr(1, 2),
                            Fr(rng.randint(0, 8000), 4)])
        else:
            w = Fr(rng.randint(0, 1000))
        g["width"] = w
        if anchors and rng.random() < 0.6:
            for an in rng.sample(["top", "bottom", "_top", "ogonek", "top_1", "top_2", "entry", "exit"], rng.randint(1, 3)):
                g["anchors"].append((an, rand_coord(rng), rand_coord(rng)))
        glyphs.append(g)
    rng.shuffle(glyphs)  # definition order != dependency order
    return {"glyphs": glyphs, "glyphOrder": None}


def number_range_error(e):
    """the compile failed because some number (an outline extreme, a side bearing, a charstring operand, an offset) does not fit
    the 16- or 32-bit field OpenType gives it: no font exists for that input, whatever ufo2ft does (environment limit)"""
    msg = str(e)
    return ("does not fit in format" in msg or "format requires" in msg or isinstance(e, OverflowError)
            or "out of range" in msg and "struct" in type(e).__module__)
