#!/bin/bash
# usage: seeded_run.sh [id ...]   -- runs each stored seeded change (seeded/<id>/patch.diff) against the quick check of its
# property (harness/mutest.sh: scratch worktree of /repo + isolated copy of /verif) and records the outcome in
# seeded/<id>/result.txt.  JOBS changes run side by side (default 4).  Exit 0 iff every change is detected.
cd "$(dirname "$0")/.."
ids=("$@"); [ ${#ids[@]} -eq 0 ] && ids=($(ls seeded))
one() {
  id=$1
  prop=$(python3 -c "import json;print(json.load(open('seeded/$id/meta.json'))['property'])")
  out=$(harness/mutest.sh "$PWD/seeded/$id/patch.diff" $prop 2>&1 | grep -v "^KNOWN-FINDING")
  line=$(echo "$out" | grep "tier=" | tail -1)
  if echo "$out" | grep -q "^VIOLATION property=$prop"; then verdict=DETECTED; else verdict=MISSED; fi
  nf=$(echo "$out" | grep -c "no-failing-input-found")
  echo "$id $prop $verdict $( [ $nf -gt 0 ] && echo '(no failing input found: broken proof/correspondence only)' ) :: $line" | tee seeded/$id/result.txt
}
export -f one
printf "%s\n" "${ids[@]}" | xargs -P ${JOBS:-4} -I{} bash -c 'one {}' | tee .work/seeded_run.last
! grep -q " MISSED " .work/seeded_run.last
