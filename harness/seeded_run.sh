#!/bin/bash
# usage: seeded_run.sh [id ...]   -- runs each stored seeded change (seeded/<id>/patch.diff) against the quick check of its
# property in a scratch worktree and records the outcome in seeded/<id>/result.txt.  Exit 0 iff every change is detected.
cd "$(dirname "$0")/.."
ids=("$@"); [ ${#ids[@]} -eq 0 ] && ids=($(ls seeded))
rc=0
for id in "${ids[@]}"; do
  prop=$(python3 -c "import json;print(json.load(open('seeded/$id/meta.json'))['property'])")
  out=$(harness/mutest.sh "$PWD/seeded/$id/patch.diff" $prop 2>&1 | grep -v "^KNOWN-FINDING")
  line=$(echo "$out" | grep "tier=" | tail -1)
  if echo "$out" | grep -q "^VIOLATION property=$prop"; then verdict=DETECTED; else verdict=MISSED; rc=1; fi
  nf=$(echo "$out" | grep -c "no-failing-input-found")
  echo "$id $prop $verdict $( [ $nf -gt 0 ] && echo '(no failing input found: broken proof/correspondence only)' ) :: $line" | tee seeded/$id/result.txt
done
exit $rc
