import argparse, importlib, logging, os, sys


def main():
    ap = argparse.ArgumentParser()
    ap.add_argument("pid")
    ap.add_argument("--tier", default=os.environ.get("VERIF_TIER", "quick"), choices=["quick", "thorough"])
    ap.add_argument("--seed", type=int, default=int(os.environ.get("VERIF_SEED", "20260930")))
    ap.add_argument("--replay")
    a = ap.parse_args()
    logging.disable(logging.CRITICAL)
    from harness import core
    mod = importlib.import_module("harness.props." + a.pid.lower())
    sys.exit(core.run_check(mod, a.tier, a.seed, a.replay))


if __name__ == "__main__":
    main()
