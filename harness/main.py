import argparse, importlib, logging, os, sys


def main():
    ap = argparse.ArgumentParser()
    ap.add_argument("pid")
    ap.add_argument("--tier", default=os.environ.get("VERIF_TIER", "quick"), choices=["quick", "thorough"])
    ap.add_argument("--seed", type=int, default=int(os.environ.get("VERIF_SEED", "20260930")))
    ap.add_argument("--replay")
    a = ap.parse_args()
    if a.replay:
        # every case of a run is derived from (seed, tier) alone: replaying a recorded violation = re-running the check with the
        # seed and tier stored in the replay file (the failing case then recurs as long as the code still fails on it)
        import json
        try:
            rec = json.load(open(a.replay))
            a.seed = int(rec.get("seed", a.seed))
            a.tier = rec.get("tier", a.tier)
            print("replaying %s: seed=%s tier=%s recorded: %s" % (a.replay, a.seed, a.tier, str(rec.get("detail") or rec.get("what"))[:200].replace("\n", " ")))
        except Exception as e:
            print("cannot read replay file %s: %s" % (a.replay, e))
    logging.disable(logging.CRITICAL)
    from harness import core
    mod = importlib.import_module("harness.props." + a.pid.lower())
    sys.exit(core.run_check(mod, a.tier, a.seed, a.replay))


if __name__ == "__main__":
    main()
