"""C09 -- interpolatable compilation keeps compatible masters compatible."""
import io, traceback
from fractions import Fraction as Fr
from harness import dsgen, geom, gterm as G
from harness.fonts import build_font, jsonable

PID = "C09"
LEVEL_TEXT = ("PARTIAL. Proved in Coq: the interpolation-relevant structure of a contour (on/off flags + segment types) after "
              "placing it through a component matrix is a function of its structure before and of whether the matrix mirrors; "
              "hence decomposing components turns equal structures into equal structures when each component mirrors in all "
              "masters or in none -- and a closed witness that the unrestricted statement is false (a component mirrored in one "
              "master only: known finding F7). check_for_nonmatching_components is transcribed (Interp/Nonmatching.v) and proved: a "
              "composite it keeps never makes the TrueType pen decompose it in one master on its own, and with equal component "
              "counts has the same 2x2 parts in every master (pre-repair code F19/F21 refuted); compared exactly with the real "
              "method on random families around the F2Dot14 bounds. makeMissingRequiredGlyphs' placeholders for the component bases a "
              "non-default master lacks are transcribed (Interp/Placeholders.v): with them the TrueType pen, which drops "
              "components of unknown bases, keeps every composite's component list (compared exactly with OutlineTTFCompiler on "
              "random glyph sets, as default and as non-default source). The other joint decisions of the interpolatable pre-processors (which glyphs to "
              "decompose / flatten / convert) and the sparse-master rules are checked on the implementation: every master "
              "returned by compileInterpolatableTTFs / ...TTFsFromDS / ...OTFsFromDS must have, per glyph, the same contour count, "
              "point count, on/off sequence and component list (cu2qu's joint search is environment).")
LEVEL_NOTE = ("Trusted: Coq kernel for the structural theorems; harness readers of glyf / charstrings. Known finding F7 recognised "
              "by signature.")
TECHNIQUE = "Coq theorems on contour structure under placement/reversal (+ refutation witness) and per-glyph structure comparison across compiled masters"
RULE = ("families of 2-4 point-compatible masters (integer perturbations of a random master: cubic/line contours, nested components "
        "with mirrors/shears, anchors) x {compileInterpolatableTTFs, ...TTFsFromDS, ...OTFsFromDS} x {flattenComponents, "
        "skipExportGlyphs, propagateAnchors lib filter} x both UFO libraries; variants: one component's 2x2 differs between "
        "masters (forces joint decomposition), a component mirrored in one master only (F7), a sparse intermediate layer. "
        "Non-trivial = family has a composite glyph."
        " Further families: one 2x2 entry differing between masters (component 2x2 compared, not only names), a closing point coincident in one master (F15), a sparse layer with a mark-ligature composite (F16), a sparse layer + post decomposeComponents filter.")
ASSUMPTIONS = ["cu2qu converts compatible cubics to compatible quadratic splines (its contract)"]
F7_SIG = "component-mirrored-in-one-master"
F15_SIG = "closing-point-coincides-in-one-master-otf"


def tt_structure(tt, name):
    if "glyf" in tt:
        g = tt["glyf"][name]
        if g.isComposite():
            # gvar can vary a component's offset only: the 2x2 must be the same in every master
            return ("composite", tuple((c.glyphName, tuple(tuple(round(v * 16384) for v in row) for row in c.transform)
                                        if hasattr(c, "transform") else None) for c in g.components))
        if g.numberOfContours <= 0:
            return ("empty",)
        return ("simple", tuple(g.endPtsOfContours), tuple(int(f) & 1 for f in g.flags))
    ops = geom.drawn_segments(tt.getGlyphSet()[name])
    return ("cff", tuple((op, len(args)) for op, args in ops))


def users_of(desc, target):
    """names of the glyphs whose component closure contains target (and target itself)"""
    by = {g["name"]: g for g in desc["glyphs"]}
    out = {target}
    changed = True
    while changed:
        changed = False
        for g in desc["glyphs"]:
            if g["name"] not in out and any(b in out for b, _ in g["components"]):
                out.add(g["name"]); changed = True
    return out


def compare_masters(ctx, case, fonts, sig=None, sparse=None, sig_glyphs=None):
    names = None
    ok = True
    base = fonts[0]
    order = base.getGlyphOrder()
    for k, f in enumerate(fonts[1:], 1):
        if f.getGlyphOrder() != order:
            # sparse masters may hold fewer glyphs
            pass
        for n in f.getGlyphOrder():
            if n not in order:
                ctx.spec_failure(case, "master %d has glyph %r that the default master lacks" % (k, n)); ok = False
                continue
            a, b = tt_structure(base, n), tt_structure(f, n)
            if sparse is not None and k == sparse[0] and n not in sparse[1] and b in (("empty",), ("cff", ())):
                continue      # empty placeholder for a base that the sparse layer does not hold
            if a != b:
                ctx.spec_failure(dict(case, glyph=n, master=k, default=repr(a)[:300], other=repr(b)[:300]),
                                 "glyph %r: master %d is not point-compatible with the default master" % (n, k),
                                 signature=sig if (sig_glyphs is None or n in sig_glyphs) else None)
                ok = False
                break
    return ok


def ligamark_family(rng, lib):
    """two full masters + a sparse layer that holds only a mark-ligature composite (acutecomb_gravecomb), not the marks it is
    made of; propagateAnchors (lib filter) must find the composite's lowest mark component through the glyph set being
    processed (fixed finding F16: defcon's Component.bounds looked in the sparse layer and returned None)"""
    from fontTools.designspaceLib import SourceDescriptor
    def master(k):
        dx = 30 * k
        marks = []
        for n, u, yo in (("acutecomb", 0x301, 0), ("gravecomb", 0x300, 10)):
            marks.append({"name": n, "unicodes": [u], "width": Fr(0), "components": [],
                          "contours": [[(Fr(0), Fr(500 + yo), "line"), (Fr(50 + dx), Fr(500 + yo), "line"), (Fr(25), Fr(600 + yo + dx), "line")]],
                          "anchors": [("_top", Fr(25), Fr(480)), ("top", Fr(25), Fr(620 + dx))]})
        comp = {"name": "acutecomb_gravecomb", "unicodes": [], "width": Fr(0), "contours": [], "anchors": [],
                "components": [("acutecomb", (Fr(1), Fr(0), Fr(0), Fr(1), Fr(0), Fr(0))),
                               ("gravecomb", (Fr(1), Fr(0), Fr(0), Fr(1), Fr(rng.randint(-20, 20)), Fr(150 + dx)))]}
        base = {"name": "a", "unicodes": [0x61], "width": Fr(500 + dx), "components": [], "anchors": [("top", Fr(250), Fr(520 + dx))],
                "contours": [[(Fr(50), Fr(0), "line"), (Fr(450 + dx), Fr(0), "line"), (Fr(250), Fr(500 + dx), "line")]]}
        gl = [base] + marks + [comp]
        return {"glyphs": gl, "glyphOrder": [g["name"] for g in gl], "kerning": {}, "groups": {},
                "lib": {"com.github.googlei18n.ufo2ft.filters": [{"name": "propagateAnchors", "pre": True}],
                        "public.openTypeCategories": {"acutecomb": "mark", "gravecomb": "mark", "acutecomb_gravecomb": "mark", "a": "base"}},
                "info": {"familyName": "Fam", "styleName": "Master%d" % k, "unitsPerEm": 1000, "ascender": 800, "descender": -200}}
    masters = [master(0), master(1)]
    ds, fonts = dsgen.make_designspace(rng, masters, lib)
    layer = fonts[0].newLayer("mid")
    gl = layer.newGlyph("acutecomb_gravecomb")
    gl.width = 0
    pen = gl.getPointPen()
    pen.addComponent("acutecomb", (1, 0, 0, 1, 0, 0))
    pen.addComponent("gravecomb", (1, 0, 0, 1, 5, 170))
    sd = SourceDescriptor()
    sd.font, sd.layerName, sd.location, sd.name = fonts[0], "mid", {"Weight": 500}, "master.mid"
    sd.familyName, sd.styleName = "Fam", "Mid"
    ds.sources.insert(1, sd)
    return ds, fonts, masters


def postfilter_family(rng, lib, via_lib):
    """Light / sparse Medium layer / Bold.  The sparse layer holds a mixed glyph M (contour + component A) and a pure
    composite N (component A) but not A itself; A's on/off pattern is not symmetric under reversal; a POST filter
    decomposes what is left after the default filters have run (so every composite of the sparse master is drawn from
    bases interpolated AFTER the cubic-to-quadratic conversion and reversal rewrote them)"""
    from fontTools.designspaceLib import SourceDescriptor
    def master(k):
        d = 30 * k
        j = [rng.randint(-8, 8) for _ in range(6)]
        A = {"name": "A", "unicodes": [0x41], "width": Fr(500 + d), "components": [], "anchors": [],
             "contours": [[(Fr(0), Fr(0), "line"), (Fr(200 + d), Fr(0), "line"), (Fr(200 + d), Fr(300 + j[0]), "line"),
                           (Fr(120 + d), Fr(380 + d), "off"), (Fr(0), Fr(300 + j[1]), "qcurve")]]}
        box = [(Fr(300), Fr(0), "line"), (Fr(350 + d), Fr(0), "line"), (Fr(350 + d), Fr(50 + d), "line"), (Fr(300), Fr(50 + d), "line")]
        M = {"name": "M", "unicodes": [], "width": Fr(500 + d), "contours": [box], "anchors": [],
             "components": [("A", (Fr(1), Fr(0), Fr(0), Fr(1), Fr(10 + d), Fr(j[2])))]}
        N = {"name": "N", "unicodes": [], "width": Fr(500 + d), "contours": [], "anchors": [],
             "components": [("A", (Fr(1), Fr(0), Fr(0), Fr(1), Fr(20 + d), Fr(5 + j[3])))]}
        gl = [A, M, N]
        lb = {"com.github.googlei18n.ufo2ft.filters": [{"name": "decomposeComponents", "pre": False}]} if via_lib else {}
        return {"glyphs": gl, "glyphOrder": ["A", "M", "N"], "kerning": {}, "groups": {}, "lib": lb,
                "info": {"familyName": "Fam", "styleName": "Master%d" % k, "unitsPerEm": 1000, "ascender": 800, "descender": -200}}
    masters = [master(0), master(2)]
    mid = master(1)
    ds, fonts = dsgen.make_designspace(rng, masters, lib)
    layer = fonts[0].newLayer("mid")
    tmp = build_font(mid, lib)
    for nm in ("M", "N"):
        gl = layer.newGlyph(nm)
        gl.width = tmp[nm].width
        tmp[nm].drawPoints(gl.getPointPen())
    sd = SourceDescriptor()
    sd.font, sd.layerName, sd.location, sd.name = fonts[0], "mid", {"Weight": 500}, "master.mid"
    sd.familyName, sd.styleName = "Fam", "Mid"
    ds.sources.insert(1, sd)
    return ds, fonts, masters


def overflow_family(rng, lib, negative=False):
    """Light / sparse Medium layer / Bold.  D = A scaled by 2.25 (beyond F2Dot14 directly: fixed finding F19);
    C = B scaled 1.5 with B = A scaled 1.5 (2.25 only once flattenComponents has composed the two: fixed finding F21).
    The sparse layer holds C and D but neither B nor A."""
    from fontTools.designspaceLib import SourceDescriptor
    def master(k):
        d = 20 * k
        j = [rng.randint(-6, 6) for _ in range(4)]
        A = {"name": "A", "unicodes": [0x41], "width": Fr(300 + d), "components": [], "anchors": [],
             "contours": [[(Fr(0), Fr(0), "line"), (Fr(100 + d), Fr(0), "line"), (Fr(100 + d), Fr(120 + j[0]), "line"), (Fr(0), Fr(120 + j[1]), "line")]]}
        B = {"name": "B", "unicodes": [], "width": Fr(450), "contours": [], "anchors": [],
             "components": [("A", (Fr(-3, 2), Fr(0), Fr(0), Fr(1), Fr(10 + d), Fr(j[2])) if negative else
                                 (Fr(3, 2), Fr(0), Fr(0), Fr(3, 2), Fr(10 + d), Fr(j[2])))]}
        C = {"name": "C", "unicodes": [0x43], "width": Fr(700), "contours": [], "anchors": [],
             "components": [("B", (Fr(3, 2), Fr(0), Fr(0), Fr(1) if negative else Fr(3, 2), Fr(5), Fr(d + j[3])))]}
        D = {"name": "D", "unicodes": [0x44], "width": Fr(700), "contours": [], "anchors": [],
             "components": [("A", (Fr(1), Fr(0), Fr(0), Fr(-9, 4), Fr(d), Fr(0)) if negative else (Fr(9, 4), Fr(0), Fr(0), Fr(9, 4), Fr(d), Fr(0)))]}
        return {"glyphs": [A, B, C, D], "glyphOrder": ["A", "B", "C", "D"], "kerning": {}, "groups": {}, "lib": {},
                "info": {"familyName": "Fam", "styleName": "Master%d" % k, "unitsPerEm": 1000, "ascender": 800, "descender": -200}}
    masters = [master(0), master(2)]
    mid = master(1)
    ds, fonts = dsgen.make_designspace(rng, masters, lib)
    layer = fonts[0].newLayer("mid")
    tmp = build_font(mid, lib)
    for nm in ("C", "D"):
        gl = layer.newGlyph(nm)
        gl.width = tmp[nm].width
        tmp[nm].drawPoints(gl.getPointPen())
    sd = SourceDescriptor()
    sd.font, sd.layerName, sd.location, sd.name = fonts[0], "mid", {"Weight": 500}, "master.mid"
    sd.familyName, sd.styleName = "Fam", "Mid"
    ds.sources.insert(1, sd)
    return ds, fonts, masters


def nonmatching_section(ctx):
    """TTFInterpolatablePreProcessor.check_for_nonmatching_components against Interp/Nonmatching.v on random families:
    2-4 masters (some lacking the glyph), 0-3 components each, 2x2 entries around the F2Dot14 bounds (+-2 exactly, just
    beyond), differing in one entry in one master, differing component counts"""
    from ufo2ft.preProcessor import TTFInterpolatablePreProcessor
    import ufoLib2
    rng = ctx.subrng("nonmatching")
    POOL = [Fr(1), Fr(1), Fr(0), Fr(-1), Fr(1, 2), Fr(2), Fr(-2), Fr(9, 4), Fr(-17, 8), Fr(3, 2), Fr(2) + Fr(1, 16384)]
    cases, meta = [], []
    for i in range(ctx.budget(150, 1200)):
        nm = rng.randint(2, 4)
        nc = rng.randint(0, 3)
        base = [tuple(rng.choice(POOL[:7] if rng.random() < 0.7 else POOL) for _ in range(4)) for _ in range(nc)]
        layers = []
        for k in range(nm):
            l = list(base)
            r = rng.random()
            if r < 0.25 and l:
                j = rng.randrange(len(l)); e = rng.randrange(4)
                c = list(l[j]); c[e] = rng.choice(POOL); l[j] = tuple(c)
            elif r < 0.35:
                l = l[:-1] if l and rng.random() < 0.5 else l + [tuple(rng.choice(POOL[:6]) for _ in range(4))]
            layers.append(l if rng.random() < 0.85 or k == 0 else None)          # None: this master lacks the glyph
        glyphsets = []
        for l in layers:
            f = ufoLib2.Font()
            f.newGlyph("base")
            if l is not None:
                g = f.newGlyph("x")
                pen = g.getPointPen()
                for c in l:
                    pen.addComponent("base", tuple(float(v) for v in c) + (rng.randint(-50, 50), rng.randint(-50, 50)))
            glyphsets.append({g.name: g for g in f})
        pp = TTFInterpolatablePreProcessor.__new__(TTFInterpolatablePreProcessor)
        pp.glyphSets = glyphsets
        needs = set()
        try:
            pp.check_for_nonmatching_components(needs)
        except Exception as e:
            ctx.spec_failure({"layers": jsonable(layers)}, "check_for_nonmatching_components raised %s: %s" % (type(e).__name__, e))
            continue
        present = [l for l in layers if l is not None]
        ctx.count(); ctx.klass("nonmatching: %s" % ("decomposed" if "x" in needs else "kept"))
        if "x" in needs and nc:
            ctx.nontriv(("nm", i, ctx.scale))
        gl = G.lst([G.lst([G.tup(*[geom.g_q(v) for v in c]) for c in l], "m2x2") for l in present], "(list m2x2)")
        cases.append(G.tup(gl, G.b("x" in needs)))
        meta.append({"layers": jsonable(layers), "decomposed": "x" in needs})
    vals = ctx.coq_eval("From Coq Require Import QArith Qcanon.\nFrom U2F Require Import Base.Prelude Geometry.Model Interp.Nonmatching.",
                        "fun c : (list (list m2x2) * bool) => if Bool.eqb (needs_decomposition (fst c)) (snd c) then 3 else 2",
                        cases, chunk=150, tag="Nonmatching")
    for v, case in zip(vals, meta):
        if v is not None and v != 3:
            ctx.corr_mismatch(case, "Gallina needs_decomposition (Interp/Nonmatching.v) differs from check_for_nonmatching_components")


def placeholders_section(ctx):
    """OutlineTTFCompiler.makeMissingRequiredGlyphs + the TrueType pen against Interp/Placeholders.v: random glyph sets whose
    composites reference glyphs the (sparse) master lacks; as the default source and as a non-default one"""
    from ufo2ft.outlineCompiler import OutlineTTFCompiler
    import ufoLib2
    rng = ctx.subrng("placeholders")
    cases, meta = [], []
    POOL = ["a", "b", "c", "d", "e", "f", "g"]
    for i in range(ctx.budget(60, 400)):
        present = rng.sample(POOL, rng.randint(1, 5))
        f = ufoLib2.Font()
        f.info.unitsPerEm = 1000; f.info.ascender = 800; f.info.descender = -200
        nd = f.newGlyph(".notdef"); nd.width = 500
        gs_model = [(".notdef", [])]
        for nm in present:
            g = f.newGlyph(nm); g.width = 500
            comps = []
            lower = [x for x in POOL if x < nm]            # references go to alphabetically smaller names only: no cycles
            if lower and rng.random() < 0.7:
                comps = [rng.choice(lower) for _ in range(rng.randint(1, 3))]
                pen = g.getPointPen()
                for b in comps:
                    pen.addComponent(b, (1, 0, 0, 1, rng.randint(0, 50), 0))
            else:
                pen = g.getPen(); pen.moveTo((0, 0)); pen.lineTo((100, 0)); pen.lineTo((50, 100)); pen.closePath()
            gs_model.append((nm, comps))
        # (a composite whose bases are composites themselves is fine for the pen; nesting is not what is modelled here)
        sparse = i % 3 != 0
        glyphSet = {g.name: g for g in f}
        f.glyphOrder = [".notdef"] + present
        try:
            comp = OutlineTTFCompiler(f, glyphSet=glyphSet, compilingVFDefaultSource=not sparse)
            all_names = list(comp.allGlyphs.keys())
            tt = comp.compile()
            obs = []
            for nm, comps in gs_model:
                g = tt["glyf"][nm]
                obs.append((nm, [c.glyphName for c in g.components] if g.isComposite() else []))
        except Exception as e:
            ctx.spec_failure({"glyphs": gs_model, "sparse": sparse}, "OutlineTTFCompiler raised %s: %s\n%s" % (type(e).__name__, e, traceback.format_exc()[-800:]))
            continue
        ctx.count(); ctx.klass("placeholders: %s master" % ("non-default" if sparse else "default"))
        if sparse and any(b not in present for _, cs in gs_model for b in cs):
            ctx.nontriv(("ph", i, ctx.scale))
        gg = lambda l: G.lst([G.tup(G.s(n), G.lst([G.s(b) for b in cs], "str")) for n, cs in l], "cglyph")
        cases.append(G.tup(G.b(sparse), gg(gs_model), G.lst([G.s(n) for n in all_names], "str"), gg(obs)))
        meta.append({"glyphs": gs_model, "non_default_master": sparse, "glyph_set_after": all_names, "compiled_component_lists": obs})
    vals = ctx.coq_eval("From U2F Require Import Base.Prelude Interp.Placeholders.",
                        "fun c : (bool * list cglyph * list str * list cglyph) => let '(sp, gs, allnames, obs) := c in "
                        "let gs' := add_placeholders sp gs in "
                        "(if list_eqb str_eqb (names gs') allnames && "
                        "list_eqb (fun x y => str_eqb (fst x) (fst y) && list_eqb str_eqb (snd x) (snd y)) (map (fun g => (fst g, pen_components gs' (snd g))) gs) obs then 1 else 0) + "
                        "(if negb sp || list_eqb (fun x y => str_eqb (fst x) (fst y) && list_eqb str_eqb (snd x) (snd y)) gs obs then 2 else 0)",
                        cases, chunk=100, tag="Placeholders")
    for v, case in zip(vals, meta):
        if v is None:
            continue
        if not v & 2:
            ctx.spec_failure(case, "a composite of a non-default master lost a component although placeholders should stand in for the missing bases")
        elif not v & 1:
            ctx.corr_mismatch(case, "Gallina add_placeholders / pen_components (Interp/Placeholders.v) differ from OutlineTTFCompiler")


def notdef_family_section(ctx):
    """Light / sparse Medium layer / Bold, the sparse layer holding one glyph and NO .notdef, while the default master's
    .notdef is drawn / a pure composite / blank / absent: the .notdef of every compiled master is compatible with the
    default's (an empty stand-in in the sparse master counts as compatible, as for any glyph the sparse layer lacks)"""
    import ufo2ft
    from fontTools.designspaceLib import SourceDescriptor
    rng = ctx.subrng("notdef-family")
    KINDS = ["composite", "blank", "drawn", "absent"]
    for i in range(ctx.budget(8, 32)):
        lib = ["ufoLib2", "defcon"][i % 2]
        kind = KINDS[(i // 2) % 4]
        fn = ["compileInterpolatableTTFsFromDS", "compileInterpolatableOTFsFromDS"][(i // 8) % 2] if i % 5 else "compileVariableTTF"

        def master(k):
            d = 30 * k
            box = [[(Fr(50), Fr(0), "line"), (Fr(450 + d), Fr(0), "line"), (Fr(450 + d), Fr(700), "line"), (Fr(50), Fr(700), "line")]]
            gl = [{"name": "box", "unicodes": [0x25A1], "width": Fr(500 + d), "contours": box, "components": [], "anchors": []},
                  {"name": "A", "unicodes": [0x41], "width": Fr(600 + d), "components": [], "anchors": [],
                   "contours": [[(Fr(0), Fr(0), "line"), (Fr(300 + d), Fr(0), "line"), (Fr(150), Fr(600 + d), "line")]]}]
            if kind != "absent":
                gl.insert(0, {"name": ".notdef", "unicodes": [], "width": Fr(500 + d), "anchors": [],
                              "contours": box if kind == "drawn" else [],
                              "components": [("box", (Fr(1), Fr(0), Fr(0), Fr(1), Fr(0), Fr(0)))] if kind == "composite" else []})
            return {"glyphs": gl, "glyphOrder": [g["name"] for g in gl], "kerning": {}, "groups": {}, "lib": {},
                    "info": {"familyName": "Fam", "styleName": "Master%d" % k, "unitsPerEm": 1000, "ascender": 800, "descender": -200}}
        masters = [master(0), master(2)]
        ds, fonts = dsgen.make_designspace(rng, masters, lib)
        layer = fonts[0].newLayer("mid")
        tmp = build_font(master(1), lib)
        gl = layer.newGlyph("A"); gl.width = tmp["A"].width; tmp["A"].drawPoints(gl.getPointPen())
        sd = SourceDescriptor()
        sd.font, sd.layerName, sd.location, sd.name = fonts[0], "mid", {"Weight": 500}, "master.mid"
        sd.familyName, sd.styleName = "Fam", "Mid"
        ds.sources.insert(1, sd)
        case = {"function": fn, "lib": lib, "variant": "sparse layer without .notdef; the default master's .notdef is " + kind,
                "font": jsonable(masters[0]), "last_master": jsonable(masters[-1])}
        ctx.count(); ctx.klass("%s/sparse layer without .notdef/default .notdef %s" % (fn, kind)); ctx.nontriv(("ndf", i, ctx.scale))
        try:
            if fn == "compileVariableTTF":
                ufo2ft.compileVariableTTF(ds)
                continue
            out = [s.font for s in getattr(ufo2ft, fn)(ds).sources]
        except Exception as e:
            ctx.spec_failure(case, "%s raised %s: %s\n%s" % (fn, type(e).__name__, e, traceback.format_exc()[-1000:]))
            continue
        compare_masters(ctx, case, out, sparse=(1, ["A"]))


def filter_list_length_section(ctx):
    """masters whose libs list DIFFERENT NUMBERS of filters (one master lists propagateAnchors only, the other also
    flattenComponents / decomposeComponents -- first or last in the family): the compile goes through and what is flattened
    or decomposed is so in every master"""
    import ufo2ft
    KEY = "com.github.googlei18n.ufo2ft.filters"
    rng = ctx.subrng("filter-list-length")
    for i in range(ctx.budget(8, 24)):
        lib = ["ufoLib2", "defcon"][i % 2]
        longer = ["last", "first"][(i // 2) % 2]
        extra = [{"name": "flattenComponents", "pre": True}, {"name": "decomposeComponents", "pre": True}][(i // 4) % 2]
        fn = ["compileInterpolatableTTFs", "compileInterpolatableTTFsFromDS"][(i // 8) % 2]

        def master(k, filters):
            d = 20 * k
            gl = [{"name": "a", "unicodes": [0x61], "width": Fr(500 + d), "components": [], "anchors": [("top", Fr(100), Fr(500 + d))],
                   "contours": [[(Fr(0), Fr(0), "line"), (Fr(100 + d), Fr(0), "line"), (Fr(50), Fr(100 + d), "line")]]},
                  {"name": "b", "unicodes": [0x62], "width": Fr(500), "contours": [], "anchors": [], "components": [("a", (Fr(1), Fr(0), Fr(0), Fr(1), Fr(10 + d), Fr(0)))]},
                  {"name": "c", "unicodes": [0x63], "width": Fr(500), "contours": [], "anchors": [], "components": [("b", (Fr(1), Fr(0), Fr(0), Fr(1), Fr(5), Fr(d)))]}]
            return {"glyphs": gl, "glyphOrder": ["a", "b", "c"], "kerning": {}, "groups": {}, "lib": {KEY: filters},
                    "info": {"familyName": "Fam", "styleName": "Master%d" % k, "unitsPerEm": 1000, "ascender": 800, "descender": -200}}
        short, long_ = [{"name": "propagateAnchors", "pre": True}], [{"name": "propagateAnchors", "pre": True}, extra]
        masters = [master(0, long_ if longer == "first" else short), master(1, short if longer == "first" else long_)]
        ds, fonts = dsgen.make_designspace(rng, masters, lib)
        case = {"function": fn, "lib": lib, "variant": "the %s master lists one filter more (%s)" % (longer, extra["name"]),
                "filters": [m["lib"][KEY] for m in masters], "font": jsonable(masters[0])}
        ctx.count(); ctx.klass("%s/filter lists of different length (longer %s)" % (fn, longer)); ctx.nontriv(("fll", i, ctx.scale))
        try:
            if fn == "compileInterpolatableTTFs":
                out = list(ufo2ft.compileInterpolatableTTFs(fonts))
            else:
                out = [sd.font for sd in ufo2ft.compileInterpolatableTTFsFromDS(ds).sources]
        except Exception as e:
            ctx.spec_failure(case, "%s raised %s: %s\n%s" % (fn, type(e).__name__, e, traceback.format_exc()[-800:]))
            continue
        compare_masters(ctx, case, out)


def two_sparse_layers_section(ctx):
    """TWO sparse layers in one family: one holds the base `a` of the mixed composite `c` (so `c` is interpolated there), the
    other holds only the unrelated glyph `b`.  A sparse master contains .notdef, the glyphs of its layer and what component
    references tie to them -- nothing else -- and all masters stay compatible"""
    import ufo2ft
    from fontTools.designspaceLib import SourceDescriptor
    rng = ctx.subrng("two-sparse")
    for i in range(ctx.budget(6, 18)):
        lib = ["ufoLib2", "defcon"][i % 2]
        fn = ["compileInterpolatableTTFsFromDS", "compileInterpolatableOTFsFromDS", "compileVariableTTF"][(i // 2) % 3]

        def glyphs(names, d):
            box = lambda x0, x1, y1: [[(Fr(x0), Fr(0), "line"), (Fr(x1), Fr(0), "line"), (Fr(x1), Fr(y1), "line"), (Fr(x0), Fr(y1), "line")]]
            gl = []
            if "a" in names:
                gl.append({"name": "a", "unicodes": [0x61], "width": Fr(500 + d), "contours": box(50, 400 + d, 500), "components": [], "anchors": []})
            if "b" in names:
                gl.append({"name": "b", "unicodes": [0x62], "width": Fr(520 + d), "contours": box(60, 420 + d, 700), "components": [], "anchors": []})
            if "c" in names:
                gl.append({"name": "c", "unicodes": [0x63], "width": Fr(600 + d), "contours": box(450 + d, 560 + d, 300), "anchors": [],
                           "components": [("a", (Fr(1), Fr(0), Fr(0), Fr(1), Fr(10 + d // 10), Fr(0)))]})
            return gl

        def master(k):
            d = 100 * k
            return {"glyphs": glyphs("abc", d), "glyphOrder": ["a", "b", "c"], "kerning": {}, "groups": {}, "lib": {},
                    "info": {"familyName": "Fam", "styleName": "Master%d" % k, "unitsPerEm": 1000, "ascender": 800, "descender": -200}}
        masters = [master(0), master(3)]
        ds, fonts = dsgen.make_designspace(rng, masters, lib)
        order = [("L1", 400, "a"), ("L2", 650, "b")] if i % 2 == 0 else [("L2", 650, "b"), ("L1", 400, "a")]
        for pos, (lname, loc, held) in enumerate(order):
            layer = fonts[0].newLayer(lname)
            tmp = build_font({"glyphs": glyphs(held, (loc - 100) // 8 * 3)}, lib)
            gl = layer.newGlyph(held); gl.width = tmp[held].width; tmp[held].drawPoints(gl.getPointPen())
            sd = SourceDescriptor()
            sd.font, sd.layerName, sd.location, sd.name = fonts[0], lname, {"Weight": loc}, "master." + lname
            sd.familyName, sd.styleName = "Fam", lname
            ds.sources.insert(1 + pos, sd)
        case = {"function": fn, "lib": lib, "variant": "two sparse layers: %s" % ", ".join("%s@%d holds %s" % o for o in order), "font": jsonable(masters[0])}
        ctx.count(); ctx.klass("%s/two sparse layers" % fn); ctx.nontriv(("2sp", i, ctx.scale))
        try:
            if fn == "compileVariableTTF":
                ufo2ft.compileVariableTTF(ds)
                continue
            res = getattr(ufo2ft, fn)(ds)
        except Exception as e:
            ctx.spec_failure(case, "%s raised %s: %s\n%s" % (fn, type(e).__name__, e, traceback.format_exc()[-1000:]))
            continue
        by_name = {sd.name: sd.font for sd in res.sources}
        got = sorted(n for n in by_name["master.L2"].getGlyphOrder() if n != ".notdef")
        if got != ["b"]:
            ctx.spec_failure(dict(case, sparse_master_glyphs=got), "the master of the layer that holds only 'b' contains %r" % got)
        got1 = sorted(n for n in by_name["master.L1"].getGlyphOrder() if n != ".notdef")
        if not set(got1) <= {"a", "c"} or "a" not in got1:
            ctx.spec_failure(dict(case, sparse_master_glyphs=got1), "the master of the layer that holds only 'a' contains %r" % got1)
        outs = [sd.font for sd in res.sources]
        compare_masters(ctx, case, outs)


def source_order_section(ctx):
    """the ORDER of the sources must not matter: a source that lacks glyphs (a sparse layer in a designspace, a smaller font in a
    list) is listed FIRST.  The full masters hold a composite whose 2x2 differs between them (to be decomposed jointly), a
    nested composite (flattening) and a composite using a non-exported part; every full master must come out compatible with
    the default one, exactly as when the full sources are listed first"""
    import ufo2ft
    from fontTools.designspaceLib import SourceDescriptor
    rng = ctx.subrng("source-order")
    box = lambda x0, x1, y1: [[(Fr(x0), Fr(0), "line"), (Fr(x1), Fr(0), "line"), (Fr(x1), Fr(y1), "line"), (Fr(x0), Fr(y1), "line")]]
    one = (Fr(1), Fr(0), Fr(0), Fr(1))
    for i in range(ctx.budget(8, 24)):
        lib = ["ufoLib2", "defcon"][i % 2]
        fn, kw = [("compileInterpolatableTTFsFromDS", {}), ("compileInterpolatableTTFsFromDS", {"flattenComponents": True}),
                  ("compileInterpolatableOTFsFromDS", {}), ("compileInterpolatableTTFs", {})][(i // 2) % 4]

        def master(k):
            d = 60 * k
            sc = Fr(1) - Fr(k, 8)
            return {"glyphs": [
                {"name": "a", "unicodes": [0x61], "width": Fr(500 + d), "contours": box(50, 400 + d, 500), "components": [], "anchors": []},
                {"name": "_part", "unicodes": [], "width": Fr(0), "contours": box(100, 200 + d, 80), "components": [], "anchors": []},
                {"name": "aacute", "unicodes": [0xE1], "width": Fr(500 + d), "contours": [], "anchors": [],
                 "components": [("a", one + (Fr(0), Fr(0))), ("_part", one + (Fr(50 + d), Fr(560)))]},
                {"name": "ascaled", "unicodes": [0x1D00], "width": Fr(450 + d), "contours": [], "anchors": [],
                 "components": [("a", (sc, Fr(0), Fr(0), sc, Fr(5), Fr(0)))]},
                {"name": "anested", "unicodes": [], "width": Fr(900 + d), "contours": [], "anchors": [],
                 "components": [("aacute", one + (Fr(0), Fr(0))), ("a", one + (Fr(480 + d), Fr(0)))]}],
                "glyphOrder": ["a", "_part", "aacute", "ascaled", "anested"], "kerning": {}, "groups": {}, "lib": {},
                "info": {"familyName": "Fam", "styleName": "Master%d" % k, "unitsPerEm": 1000, "ascender": 800, "descender": -200}}
        masters = [master(0), master(2)]
        small = {"glyphs": [g for g in master(1)["glyphs"] if g["name"] == "a"], "glyphOrder": ["a"]}
        case = {"function": fn, "options": kw, "lib": lib, "first_source": "the one that lacks glyphs", "font": jsonable(masters[0])}
        ctx.count(); ctx.klass("source order: %s%s, partial source first" % (fn, "+flatten" if kw else "")); ctx.nontriv(("so", i, ctx.scale))
        try:
            if fn == "compileInterpolatableTTFs":
                fonts = [build_font(small, lib)] + [build_font(m, lib) for m in masters]
                outs = list(ufo2ft.compileInterpolatableTTFs(fonts, skipExportGlyphs=["_part"], useProductionNames=False))
                full = outs[1:]
            else:
                ds, fonts = dsgen.make_designspace(rng, masters, lib, instances=False)
                layer = fonts[0].newLayer("Medium")
                tmp = build_font(small, lib)
                gl = layer.newGlyph("a"); gl.width = tmp["a"].width; tmp["a"].drawPoints(gl.getPointPen())
                sd = SourceDescriptor()
                sd.font, sd.layerName, sd.location, sd.name = fonts[0], "Medium", {"Weight": 500}, "master.Medium"
                sd.familyName, sd.styleName = "Fam", "Medium"
                ds.sources.insert(0, sd)
                ds.lib["public.skipExportGlyphs"] = ["_part"]
                res = getattr(ufo2ft, fn)(ds, useProductionNames=False, **kw)
                full = [s_.font for s_ in res.sources if s_.name != "master.Medium"]
        except Exception as e:
            ctx.spec_failure(case, "%s raised %s: %s\n%s" % (fn, type(e).__name__, e, traceback.format_exc()[-1000:]))
            continue
        for k, f in enumerate(full):
            if "_part" in f.getGlyphOrder():
                ctx.spec_failure(dict(case, master=k), "the non-exported glyph '_part' is in full master %d" % k)
        compare_masters(ctx, case, full)


def layer_names_section(ctx):
    """the font-LIST entry point with layerNames (no designspace): compileInterpolatableTTFs([regular, regular, bold],
    layerNames=[None, "Medium", None]) where the sparse layer holds a composite whose bases it lacks (and, in turn, one plain
    glyph): the sparse master keeps the composite with the same component list as the full masters -- against empty placeholder
    bases -- and every master is compatible with the first full one"""
    import ufo2ft
    rng = ctx.subrng("layer-names")
    box = lambda x0, x1, y1: [[(Fr(x0), Fr(0), "line"), (Fr(x1), Fr(0), "line"), (Fr(x1), Fr(y1), "line"), (Fr(x0), Fr(y1), "line")]]
    one = (Fr(1), Fr(0), Fr(0), Fr(1))
    for i in range(ctx.budget(4, 12)):
        lib = ["ufoLib2", "defcon"][i % 2]
        pos = [1, 0, 2][(i // 2) % 3]               # where the sparse layer stands in the list

        def glyphs(k, names):
            d = 40 * k
            gl = [{"name": "A", "unicodes": [0x41], "width": Fr(500 + d), "contours": box(50, 400 + d, 500), "components": [], "anchors": []},
                  {"name": "acutecomb", "unicodes": [0x301], "width": Fr(0), "contours": box(-40, 40 + d // 4, 60), "components": [], "anchors": []},
                  {"name": "Aacute", "unicodes": [0xC1], "width": Fr(500 + d), "contours": [], "anchors": [],
                   "components": [("A", one + (Fr(0), Fr(0))), ("acutecomb", one + (Fr(200 + d), Fr(520)))]},
                  {"name": "B", "unicodes": [0x42], "width": Fr(520 + d), "contours": box(60, 380 + d, 480), "components": [], "anchors": []}]
            return [g for g in gl if g["name"] in names]
        full = lambda k: {"glyphs": glyphs(k, ("A", "acutecomb", "Aacute", "B")), "glyphOrder": ["A", "acutecomb", "Aacute", "B"],
                          "info": {"familyName": "Fam", "styleName": "M%d" % k, "unitsPerEm": 1000, "ascender": 800, "descender": -200}}
        case = {"function": "compileInterpolatableTTFs", "layerNames": "sparse layer 'Medium' at position %d of the list" % pos, "lib": lib,
                "font": jsonable(full(0)), "sparse_layer_glyphs": ["Aacute", "B"]}
        ctx.count(); ctx.klass("font list + layerNames: sparse layer at %d" % pos); ctx.nontriv(("ln", i, ctx.scale))
        try:
            reg, bold = build_font(full(0), lib), build_font(full(2), lib)
            layer = reg.newLayer("Medium")
            tmp = build_font({"glyphs": glyphs(1, ("A", "acutecomb", "Aacute", "B"))}, lib)
            for n in ("Aacute", "B"):
                g = layer.newGlyph(n); g.width = tmp[n].width; tmp[n].drawPoints(g.getPointPen())
            srcs, lns = [reg, bold], [None, None]
            srcs.insert(pos, reg); lns.insert(pos, "Medium")
            outs = list(ufo2ft.compileInterpolatableTTFs(srcs, layerNames=lns, useProductionNames=False))
        except Exception as e:
            ctx.spec_failure(case, "compileInterpolatableTTFs raised %s: %s\n%s" % (type(e).__name__, e, traceback.format_exc()[-1000:]))
            continue
        fulls = [tt for k, tt in enumerate(outs) if k != pos]
        sparse = outs[pos]
        want = tt_structure(fulls[0], "Aacute")
        got = tt_structure(sparse, "Aacute") if "Aacute" in sparse.getGlyphOrder() else None
        if got is None or got[0] != "composite" or [c[0] for c in got[1]] != [c[0] for c in want[1]]:
            ctx.spec_failure(dict(case, sparse_master=repr(got)[:200], full_master=repr(want)[:200]),
                             "the sparse master's 'Aacute' is %r, the full masters hold %r" % (got and got[0], want[0]))
        if tt_structure(sparse, "B") != tt_structure(fulls[0], "B"):
            ctx.spec_failure(case, "the sparse master's own plain glyph 'B' is not compatible with the full masters'")
        compare_masters(ctx, case, fulls)


def per_master_filter_section(ctx):
    """masters whose libs name the SAME filter (one that has an interpolatable form) with DIFFERENT include / exclude lists:
    master 0 asks for composite B only, master 1 for B and C.  Whatever is decomposed must be decomposed in every master."""
    import ufo2ft
    KEY = "com.github.googlei18n.ufo2ft.filters"
    rng = ctx.subrng("per-master-filter")
    for i in range(ctx.budget(12, 48)):
        lib = ["ufoLib2", "defcon"][i % 2]
        fname = ["decomposeComponents", "decomposeTransformedComponents", "flattenComponents"][(i // 2) % 3]
        pre = (i // 6) % 2 == 1
        how = ["include", "exclude"][(i // 12) % 2]
        fn = ["compileInterpolatableTTFs", "compileInterpolatableTTFsFromDS", "compileVariableTTF"][i % 3]
        tr = (Fr(1), Fr(0), Fr(0), Fr(1)) if fname != "decomposeTransformedComponents" else (Fr(3, 4), Fr(0), Fr(0), Fr(3, 4))

        def master(k):
            d = 40 * k
            A = {"name": "A", "unicodes": [0x41], "width": Fr(500 + d), "components": [], "anchors": [],
                 "contours": [[(Fr(0), Fr(0), "line"), (Fr(200 + d), Fr(0), "line"), (Fr(200 + d), Fr(300 + rng.randint(-9, 9)), "line"),
                               (Fr(0), Fr(300 + d), "line")]]}
            comp = lambda nm, base, cp, dx: {"name": nm, "unicodes": [cp], "width": Fr(500 + d), "contours": [], "anchors": [],
                                             "components": [(base, tr + (Fr(dx + d), Fr(rng.randint(0, 9))))]}
            gl = [A, comp("B", "A", 0x42, 10), comp("C", "A", 0x43, 20), comp("D", "B", 0x44, 30), comp("E", "C", 0x45, 40)]
            lists = [["B"], ["B", "C"], ["B", "C", "E"]] if how == "include" else [["A", "C", "D", "E"], ["A", "D", "E"], ["A", "D"]]
            return {"glyphs": gl, "glyphOrder": list("ABCDE"), "kerning": {}, "groups": {},
                    "lib": {KEY: [{"name": fname, "pre": pre, how: lists[k]}]},
                    "info": {"familyName": "Fam", "styleName": "Master%d" % k, "unitsPerEm": 1000, "ascender": 800, "descender": -200}}
        masters = [master(k) for k in range(2 + (i // 3) % 2)]
        ds, fonts = dsgen.make_designspace(rng, masters, lib)
        case = {"function": fn, "lib": lib, "variant": "lib filter %s (pre=%s) with per-master %s lists" % (fname, pre, how),
                "filters": [m["lib"][KEY] for m in masters], "font": jsonable(masters[0]), "last_master": jsonable(masters[-1])}
        ctx.count(); ctx.klass("%s/per-master %s of %s%s" % (fn, how, fname, "/pre" if pre else "")); ctx.nontriv(("pmf", i, ctx.scale))
        try:
            if fn == "compileInterpolatableTTFs":
                out = list(ufo2ft.compileInterpolatableTTFs(fonts))
            elif fn == "compileInterpolatableTTFsFromDS":
                out = [sd.font for sd in ufo2ft.compileInterpolatableTTFsFromDS(ds).sources]
            else:
                ufo2ft.compileVariableTTF(ds)
                continue
        except Exception as e:
            ctx.spec_failure(case, "%s raised %s: %s\n%s" % (fn, type(e).__name__, e, traceback.format_exc()[-1000:]))
            continue
        compare_masters(ctx, case, out)


def mixed_in_one_master_section(ctx):
    """a glyph that is MIXED (contour + component) in only one master and drawn entirely as contours in the others -- the same
    outline once resolved.  The one master is the default, another full master, or a sparse layer that does not hold the
    component's base (which is then interpolated).  Decomposition is decided jointly: every master's glyph comes out with the
    same contours and points"""
    import ufo2ft
    from fontTools.designspaceLib import SourceDescriptor
    rng = ctx.subrng("mixed-one")
    box = lambda x0, y0, x1, y1: [(Fr(x0), Fr(y0), "line"), (Fr(x1), Fr(y0), "line"), (Fr(x1), Fr(y1), "line"), (Fr(x0), Fr(y1), "line")]
    one = (Fr(1), Fr(0), Fr(0), Fr(1))
    for i in range(ctx.budget(12, 24)):
        lib = ["ufoLib2", "defcon"][i % 2]
        fn = ["compileInterpolatableOTFsFromDS", "compileInterpolatableTTFsFromDS"][(i // 2) % 2]
        where = ["sparse layer", "default master", "other full master"][(i // 4) % 3]

        def G_glyph(w, mixed):
            stem = box(50, 0, 50 + w, 700)
            if mixed:
                return {"name": "G", "unicodes": [0x47], "width": Fr(600), "contours": [stem], "anchors": [],
                        "components": [("bar", one + (Fr(200), Fr(300)))]}
            return {"name": "G", "unicodes": [0x47], "width": Fr(600), "contours": [stem, box(200, 300, 200 + 2 * w, 300 + w)], "anchors": [], "components": []}

        def master(k, mixed):
            w = 80 + 60 * k
            gl = [{"name": "bar", "unicodes": [0x2D], "width": Fr(400), "contours": [box(0, 0, 2 * w, w)], "components": [], "anchors": []}, G_glyph(w, mixed)]
            return {"glyphs": gl, "glyphOrder": ["bar", "G"], "kerning": {}, "groups": {}, "lib": {},
                    "info": {"familyName": "Fam", "styleName": "Master%d" % k, "unitsPerEm": 1000, "ascender": 800, "descender": -200}}
        masters = [master(0, where == "default master"), master(2, where == "other full master")]
        ds, fonts = dsgen.make_designspace(rng, masters, lib)
        if where == "sparse layer":
            layer = fonts[0].newLayer("Medium")
            tmp = build_font({"glyphs": [G_glyph(140, True), {"name": "bar", "unicodes": [], "width": Fr(400), "contours": [], "components": [], "anchors": []}]}, lib)
            gl = layer.newGlyph("G"); gl.width = tmp["G"].width; tmp["G"].drawPoints(gl.getPointPen())
            sd = SourceDescriptor()
            sd.font, sd.layerName, sd.location, sd.name = fonts[0], "Medium", {"Weight": 500}, "master.Medium"
            sd.familyName, sd.styleName = "Fam", "Medium"
            ds.sources.insert(1, sd)
        case = {"function": fn, "lib": lib, "variant": "G is mixed (contour + component) only in the %s" % where, "font": jsonable(masters[0])}
        ctx.count(); ctx.klass("%s/mixed glyph in one master only: %s" % (fn, where)); ctx.nontriv(("mix1", i, ctx.scale))
        try:
            res = getattr(ufo2ft, fn)(ds)
        except Exception as e:
            ctx.spec_failure(case, "%s raised %s: %s\n%s" % (fn, type(e).__name__, e, traceback.format_exc()[-1000:]))
            continue
        outs = [sd.font for sd in res.sources]
        compare_masters(ctx, case, outs)
        for k, f in enumerate(outs):
            if "G" in f.getGlyphOrder():
                st = tt_structure(f, "G")
                n_on = sum(st[2]) if st[0] == "simple" else sum(1 for op, _n in st[1] if op in ("moveTo", "lineTo")) if st[0] == "cff" else -1
                if st[0] == "composite" or n_on != 8:
                    ctx.spec_failure(dict(case, master=k, structure=repr(st)[:300]), "master %d: 'G' resolves to two boxes (8 points); compiled structure %r" % (k, st))


def custom_ifilter_section(ctx):
    """the documented extension point: a USER-DEFINED filter class handed in through `filters=[...]` that has an interpolatable
    sibling `<Name>IFilter` in its module.  The interpolatable compilers run the sibling (one joint decision for all masters),
    whatever the class is called -- names whose stem ends in a letter of the word "Filter" included.  The filter drops
    contours smaller than a threshold; the small second contour of `a` is below it in the light master only: jointly it stays"""
    import sys
    import ufo2ft
    from ufo2ft.filters import BaseFilter, BaseIFilter
    mod = sys.modules[__name__]

    def small(contour, limit=150):
        xs, ys = [p.x for p in contour], [p.y for p in contour]
        return (max(xs) - min(xs)) * (max(ys) - min(ys)) < limit

    def make(stem):
        class F(BaseFilter):
            def filter(self, glyph):
                doomed = [c for c in glyph if small(c)]
                for c in doomed:
                    glyph.removeContour(c)
                return bool(doomed)

        class IF(BaseIFilter):
            def filter(self, glyphName, glyphs):
                n = min(len(g) for g in glyphs)
                doomed = [j for j in range(n) if all(small(g[j]) for g in glyphs)]
                for g in glyphs:
                    for j in reversed(doomed):
                        g.removeContour(g[j])
                return bool(doomed)
        F.__name__ = F.__qualname__ = stem + "Filter"
        IF.__name__ = IF.__qualname__ = stem + "IFilter"
        F.__module__ = IF.__module__ = __name__
        setattr(mod, F.__name__, F); setattr(mod, IF.__name__, IF)
        return F
    box = lambda x0, y0, x1, y1: [(Fr(x0), Fr(y0), "line"), (Fr(x1), Fr(y0), "line"), (Fr(x1), Fr(y1), "line"), (Fr(x0), Fr(y1), "line")]
    STEMS = ["DropSpeckle", "Despeckles", "TrimTail", "Filter", "RemoveDirt", "Cleanup"]
    rng = ctx.subrng("custom-ifilter")
    for i in range(ctx.budget(len(STEMS), 2 * len(STEMS))):
        stem = STEMS[i % len(STEMS)]
        lib = ["ufoLib2", "defcon"][(i // len(STEMS)) % 2]
        fn = ["compileInterpolatableTTFsFromDS", "compileInterpolatableOTFsFromDS"][i % 2]
        def master(k):
            d = [8, 14][k]
            return {"glyphs": [{"name": "a", "unicodes": [0x61], "width": Fr(500 + 40 * k), "components": [], "anchors": [],
                                "contours": [box(50, 0, 350 + 40 * k, 400), box(400, 0, 400 + d, d)]}],
                    "glyphOrder": ["a"], "kerning": {}, "groups": {}, "lib": {}, "features": "",
                    "info": {"familyName": "Fam", "styleName": "M%d" % k, "unitsPerEm": 1000, "ascender": 800, "descender": -200}}
        masters = [master(0), master(1)]
        case = {"function": fn, "lib": lib, "filter_class": stem + "Filter", "masters": [jsonable(m) for m in masters]}
        ctx.count(); ctx.klass("user-defined filter with an interpolatable sibling: %sFilter" % stem); ctx.nontriv(("cif", i, ctx.scale))
        try:
            cls = make(stem)
            ds, fonts = dsgen.make_designspace(rng, masters, lib, instances=False)
            res = getattr(ufo2ft, fn)(ds, filters=[..., cls()], useProductionNames=False)
        except Exception as e:
            ctx.spec_failure(case, "%s raised %s: %s\n%s" % (fn, type(e).__name__, e, traceback.format_exc()[-1000:]))
            continue
        compare_masters(ctx, case, [sd.font for sd in res.sources])


def explore(ctx):
    custom_ifilter_section(ctx)
    mixed_in_one_master_section(ctx)
    per_master_filter_section(ctx)
    notdef_family_section(ctx)
    two_sparse_layers_section(ctx)
    source_order_section(ctx)
    layer_names_section(ctx)
    filter_list_length_section(ctx)
    placeholders_section(ctx)
    nonmatching_section(ctx)
    import ufo2ft
    from ufo2ft.errors import InvalidFontData
    rng = ctx.subrng("ligamark")
    for i in range(ctx.budget(4, 12)):
        lib = ["defcon", "ufoLib2"][i % 2]
        fn = ["compileInterpolatableTTFsFromDS", "compileInterpolatableOTFsFromDS"][(i // 2) % 2]
        ds, fonts, masters = ligamark_family(rng, lib)
        case = {"function": fn, "variant": "sparse layer holding only a mark-ligature composite + propagateAnchors", "lib": lib,
                "font": jsonable(masters[0]), "last_master": jsonable(masters[-1])}
        ctx.count(); ctx.klass("%s/sparse-ligamark" % fn); ctx.nontriv(("ligamark", i, ctx.scale))
        try:
            out = [s.font for s in getattr(ufo2ft, fn)(ds).sources]
        except Exception as e:
            ctx.spec_failure(case, "%s raised %s: %s\n%s" % (fn, type(e).__name__, e, traceback.format_exc()[-1000:]))
            continue
        compare_masters(ctx, case, out, sparse=(1, ["acutecomb_gravecomb"]))
    rng = ctx.subrng("postfilter")
    from ufo2ft.filters.decomposeComponents import DecomposeComponentsFilter
    for i in range(ctx.budget(4, 16)):
        lib = ["ufoLib2", "defcon"][i % 2]
        via_lib = (i // 2) % 2 == 1
        ds, fonts, masters = postfilter_family(rng, lib, via_lib)
        case = {"function": "compileInterpolatableTTFsFromDS", "variant": "sparse layer (mixed + composite, base absent) with a post decomposeComponents filter (%s)" % (
            "UFO lib" if via_lib else "filters argument"), "lib": lib, "font": jsonable(masters[0]), "last_master": jsonable(masters[-1])}
        ctx.count(); ctx.klass("TTFsFromDS/sparse+post-filter"); ctx.nontriv(("postfilter", i, ctx.scale))
        try:
            kw = {} if via_lib else {"filters": [DecomposeComponentsFilter(pre=False)]}
            out = [s.font for s in ufo2ft.compileInterpolatableTTFsFromDS(ds, **kw).sources]
        except Exception as e:
            ctx.spec_failure(case, "compileInterpolatableTTFsFromDS raised %s: %s\n%s" % (type(e).__name__, e, traceback.format_exc()[-1000:]))
            continue
        compare_masters(ctx, case, out, sparse=(1, ["M", "N"]))
    rng = ctx.subrng("overflow")
    for i in range(ctx.budget(4, 12)):
        lib = ["ufoLib2", "defcon"][i % 2]
        flatten = i % 4 < 2
        negative = i % 2 == 1          # the composed scale is -2.25 (a mirrored inner component): overflow below -2, nothing above +2
        ds, fonts, masters = overflow_family(rng, lib, negative)
        case = {"function": "compileInterpolatableTTFsFromDS", "options": {"flattenComponents": flatten}, "lib": lib,
                "variant": "component scales beyond F2Dot14 (directly, and by flattening 1.5 x 1.5) + sparse layer without the bases",
                "font": jsonable(masters[0]), "last_master": jsonable(masters[-1])}
        ctx.count(); ctx.klass("TTFsFromDS/overflow+sparse/flatten=%s/%s" % (flatten, "negative" if negative else "positive")); ctx.nontriv(("overflow", i, ctx.scale))
        try:
            out = [s.font for s in ufo2ft.compileInterpolatableTTFsFromDS(ds, flattenComponents=flatten).sources]
        except Exception as e:
            ctx.spec_failure(case, "compileInterpolatableTTFsFromDS raised %s: %s\n%s" % (type(e).__name__, e, traceback.format_exc()[-1000:]))
            continue
        compare_masters(ctx, case, out, sparse=(1, ["C", "D"]))
    rng = ctx.subrng("families")
    for i in range(ctx.budget(96, 480)):
        lib = ["ufoLib2", "defcon"][i % 2]
        n = rng.choice([2, 2, 3, 4])
        variant = ["plain", "diff2x2", "plain", "mirror-one", "sparse", "edge-point", "closing-point", "plain"][i % 8]
        if variant == "sparse":
            n = max(n, 3)
        base = dsgen.base_master(rng)
        # every second sparse case is forced (not left to chance) to be the interaction "nested composite kept in the sparse
        # layer without its intermediate composite" x flattenComponents on the designspace TrueType path
        forced = variant == "sparse" and (i // 8) % 6 == 0
        if forced:
            for _ in range(40):
                by0 = {g["name"]: g for g in base["glyphs"]}
                if any(any(by0[b]["components"] for b, _ in g["components"]) for g in base["glyphs"]):
                    break
                base = dsgen.base_master(rng)
        masters = [base] + [dsgen.perturb(rng, base, k) for k in range(1, n)]
        sparse_keep = [g["name"] for g in base["glyphs"][:2]]
        if variant == "sparse" and (forced or rng.random() < 0.6):
            # a nested composite (top -> mid -> ...) kept in the sparse layer WITHOUT its intermediate composite
            by0 = {g["name"]: g for g in base["glyphs"]}
            nested = [g["name"] for g in base["glyphs"] if any(by0[b]["components"] for b, _ in g["components"])]
            if nested:
                top = rng.choice(nested)
                mids = {b for b, _ in by0[top]["components"] if by0[b]["components"]}
                others = [g["name"] for g in base["glyphs"] if g["name"] != top and g["name"] not in mids]
                sparse_keep = [top] + (rng.sample(others, 1) if others and rng.random() < 0.5 else [])
        comp_glyphs = [g["name"] for g in base["glyphs"] if g["components"]]
        sig = None
        sig_glyphs = None
        if variant == "diff2x2" and comp_glyphs:
            pure = [g["name"] for g in base["glyphs"] if g["components"] and not g["contours"]]
            gname = rng.choice(pure or comp_glyphs)
            g = next(x for x in masters[-1]["glyphs"] if x["name"] == gname)
            b, t = g["components"][0]
            # same orientation, another 2x2: all four entries, or exactly one of them (xx / xy / yx / yy alone)
            which = ["yy", "all", "xx", "xy", "yx"][(i // 8) % 5]
            f = {"all": (Fr(5, 4), 0, 0, Fr(3, 4)), "xx": (Fr(5, 4), 0, 0, 1), "xy": (1, Fr(1, 8), 0, 1), "yx": (1, 0, Fr(1, 8), 1),
                 "yy": (1, 0, 0, Fr(5, 4))}[which]
            g["components"][0] = (b, (t[0] * f[0] if f[0] else t[0], t[1] + f[1], t[2] + f[2], t[3] * f[3] if f[3] else t[3], t[4], t[5]))
            if (g["components"][0][1][0] * g["components"][0][1][3] - g["components"][0][1][1] * g["components"][0][1][2]) * \
                    (t[0] * t[3] - t[1] * t[2]) <= 0:
                g["components"][0] = (b, t)        # would flip the orientation: that is the mirror-one variant
        elif variant == "mirror-one" and comp_glyphs:
            gname = rng.choice(comp_glyphs)
            g = next(x for x in masters[-1]["glyphs"] if x["name"] == gname)
            b, t = g["components"][0]
            g["components"][0] = (b, (-t[0], t[1], -t[2], t[3], t[4], t[5]))
            sig = F7_SIG
            sig_glyphs = users_of(base, gname)
        elif variant == "edge-point":
            # a point lying exactly on a straight horizontal edge in the default master, off the edge in the others: same
            # point structure; a charstring specialiser would fold the run in the default master only
            for k, m in enumerate(masters):
                m["glyphs"][0]["contours"].append([(Fr(10), Fr(10), "line"), (Fr(100 + 3 * k), Fr(10 - 8 * k), "line"),
                                                   (Fr(200 + 5 * k), Fr(10), "line"), (Fr(200 + 5 * k), Fr(300), "line"),
                                                   (Fr(10), Fr(300 + k), "line")])
        elif variant == "closing-point":
            # in the last master the last point of an all-line contour coincides with its first point: still the same
            # number and types of points (known finding F15 on the OTF path)
            cands = [(g, ci) for g in masters[-1]["glyphs"] for ci, c in enumerate(g["contours"])
                     if len(c) >= 4 and all(p[2] == "line" for p in c)]
            if not cands:
                for k, m in enumerate(masters):
                    m["glyphs"][0]["contours"].append([(Fr(10), Fr(10), "line"), (Fr(200 + 5 * k), Fr(10), "line"),
                                                       (Fr(200 + 5 * k), Fr(300), "line"), (Fr(10), Fr(300 + k), "line")])
                cands = [(masters[-1]["glyphs"][0], len(masters[-1]["glyphs"][0]["contours"]) - 1)]
            if cands:
                g, ci = rng.choice(cands)
                c = g["contours"][ci]
                g["contours"][ci] = c[:-1] + [(c[0][0], c[0][1], "line")]
                sig_glyphs = users_of(base, g["name"])
            else:
                variant = "plain"
        elif variant in ("diff2x2", "mirror-one"):
            variant = "plain"
        opts = {}
        fn = ["compileInterpolatableTTFs", "compileInterpolatableTTFsFromDS", "compileInterpolatableOTFsFromDS"][(i % 8 + i // 8) % 3]
        if variant == "closing-point" and "OTF" in fn:
            sig = F15_SIG
        if "OTF" in fn and (variant == "edge-point" or rng.random() < 0.3):
            # the specialiser level must not reach the masters (they are merged point by point).  Level 2 (subroutinise) is
            # not passed: it contradicts "interpolatable" and makes the post-processor run cffsubr on sparse masters, which
            # have no cmap (observation O10)
            opts["optimizeCFF"] = 1
        if (forced or rng.random() < (0.6 if variant == "sparse" else 0.3)) and "TTF" in fn:
            opts["flattenComponents"] = True
        if rng.random() < 0.25:
            opts["skipExportGlyphs"] = [base["glyphs"][-1]["name"]]
        if rng.random() < 0.3:
            for m in masters:
                m.setdefault("lib", {})["com.github.googlei18n.ufo2ft.filters"] = [{"name": "propagateAnchors", "pre": True}]
        ds, fonts = dsgen.make_designspace(rng, masters, lib)
        if variant == "sparse" and n >= 3 and fn != "compileInterpolatableTTFs":
            # turn master 1 into a sparse layer of master 0 holding two glyphs
            src = ds.sources[1]
            f0 = fonts[0]
            keep = list(sparse_keep)
            if (i // 8) % 4 in (1, 3):
                # the sparse master is a UFO of its own (layerName None) holding only the kept glyphs in its default layer
                m1 = dict(masters[1], glyphs=[g for g in masters[1]["glyphs"] if g["name"] in keep], glyphOrder=list(keep), kerning={}, groups={})
                src.font = build_font(m1, lib)
                src.layerName = None
                case_sparse_kind = "sparse UFO"
            else:
                layer = f0.newLayer("sparse")
                for nm in keep:
                    gl = layer.newGlyph(nm)
                    fonts[1][nm].drawPoints(gl.getPointPen())
                    gl.width = fonts[1][nm].width
                src.font = f0
                src.layerName = "sparse"
                case_sparse_kind = "sparse layer"
            ctx.klass("sparse master as: " + case_sparse_kind)
        case = {"function": fn, "options": jsonable(opts), "variant": variant, "masters": n, "lib": lib,
                "font": jsonable(base), "last_master": jsonable(masters[-1])}
        ctx.count()
        ctx.klass("%s/%s" % (fn, variant))
        if comp_glyphs:
            ctx.nontriv((fn, variant, i, ctx.scale))
        try:
            if fn == "compileInterpolatableTTFs":
                out = list(ufo2ft.compileInterpolatableTTFs(fonts, **opts))
            else:
                res = getattr(ufo2ft, fn)(ds, **opts)
                out = [s.font for s in res.sources]
        except InvalidFontData as e:
            ctx.klass("rejected:InvalidFontData")
            continue
        except Exception as e:
            if variant == "mirror-one":
                ctx.klass("rejected:" + type(e).__name__)     # refusing incompatible output is acceptable
                continue
            ctx.spec_failure(case, "%s raised %s: %s\n%s" % (fn, type(e).__name__, e, traceback.format_exc()[-1000:]))
            continue
        is_sparse = variant == "sparse" and n >= 3 and fn != "compileInterpolatableTTFs"
        compare_masters(ctx, case, out, sig=sig, sig_glyphs=sig_glyphs,
                        sparse=(1, list(sparse_keep)) if is_sparse else None)
        if is_sparse:
            sparse_font = out[1]
            order = sparse_font.getGlyphOrder()
            keep = list(sparse_keep)
            by = {g["name"]: g for g in base["glyphs"]}

            def reach(nm, acc):
                for b, _ in by[nm]["components"]:
                    if b not in acc:
                        acc.add(b); reach(b, acc)
                return acc
            tied = set(keep)
            for k in keep:
                tied |= reach(k, set())
            # composites whose bases are in the sparse layer are tied to it, too
            for g in base["glyphs"]:
                if reach(g["name"], set()) & set(keep):
                    tied.add(g["name"])
            extra = [x for x in order if x != ".notdef" and x not in tied]
            if ".notdef" not in order or any(k not in order for k in keep if k not in opts.get("skipExportGlyphs", [])) or extra:
                ctx.spec_failure(case, "sparse master glyph order %r: expected .notdef + %r + only glyphs tied to them by components" % (order, keep))
    ctx.sample({"functions": sorted(ctx.hist)})
