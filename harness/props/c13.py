"""C13 -- non-exported glyphs vanish without altering the remaining glyphs."""
import io, itertools, traceback
from fractions import Fraction as Fr
from harness import gterm as G, geom
from harness.fonts import build_font, gen_component_font, jsonable, number_range_error

PID = "C13"
LEVEL_TEXT = ("Proof + correspondence: Coq theorems, for all glyph sets (non-singular component matrices, closed contours), all skip "
              "lists and any nesting of skipped glyphs: the one-level inlining pen leaves no reference to a skipped glyph "
              "(skip_absent); a filtered glyph resolves to a PERMUTATION of the contours it resolved to (skip_glyph_render); and "
              "for the whole filter (skip_filter: skipped glyphs removed, every other glyph replaced) skipped names are gone, the "
              "others keep their relative order, advance and anchors, and every remaining glyph -- resolved in the FILTERED glyph "
              "set -- renders a permutation of what it rendered in the source (skip_filter_preserves_rendering). The Gallina "
              "skip_filter is compared exactly (glyph set equality, order included) with SkipExportGlyphsFilter's output, and the "
              "executable statement skip_ok is evaluated on the real filter's and on OTFPreProcessor's before/after glyph sets. "
              "Compiled OTF/TTF with and without skipping are compared directly (order, cmap, hmtx, contour multisets). Designspace "
              "builds (list given by the designspace lib; by argument / UFO libs for compileInterpolatableTTFs) are observed: the "
              "variable font built with skipping is instantiated at every source location -- including sparse layer masters that "
              "only the skipped component has -- and each remaining glyph must render like in the build with nothing skipped."
              " The variation-sequence loop of setupTable_cmap as translated from /repo's source (Generated/Imp.v, Order/UvsTied.v) names glyphs of the compiled glyph set only (theorem about the translated code).")
LEVEL_NOTE = ("Trusted: Coq kernel, hand model of the filter pen (correspondence-tested, exact), harness. TrueType binaries are "
              "compared on order/cmap/hmtx only (composite vs inlined rounding differs inherently, DESIGN C13); the interpolatable "
              "variant of the filter (sparse masters, interpolated layers) is observed, not modelled; generated kerning/marks on "
              "remaining glyphs are covered through C05/C06's interpreter runs with skipExportGlyphs.")
TECHNIQUE = "Coq theorems (no reference to skipped glyphs left; filtered glyph set renders a permutation of the source contours, for all inputs; the variation-sequence loop translated from source and proved to name exported glyphs only) + exact correspondence of the Gallina filter with SkipExportGlyphsFilter; designspace builds observed"
IMPORTS = "From U2F Require Import Base.Prelude Geometry.Model Geometry.Cff Geometry.Filters."
RULE = ("random component DAGs (depth <= 3-4, mirrored/nested references) x random skip subsets biased to glyphs used as bases "
        "(thorough: every subset of fonts with <= 6 glyphs) given by argument or by public.skipExportGlyphs, both UFO libraries; "
        "2-3 master families on axes whose default is the minimum / the maximum (other masters at negative normalised "
        "coordinates) / in the middle, with a sparse layer master for the skipped component, list given by designspace lib, "
        "argument or UFO libs. "
        "Non-trivial = some remaining glyph references a skipped glyph (directly or nested).")
ASSUMPTIONS = ["IEEE doubles exact on dyadic inputs"]

FN = ("fun c : (list str * glyphset * glyphset) => let '(skip, gs, gs') := c in "
      "bits (model_skip_eqb skip gs gs' && model_filter_eqb skip gs gs') (skip_ok skip gs gs')")
FN_PRE = ("fun c : (list str * glyphset * glyphset) => let '(skip, gs, gs') := c in "
          "if skip_ok skip gs gs' then 3 else 1")


def references_skipped(desc, skip):
    by = {g["name"]: g for g in desc["glyphs"]}
    return any(b in skip for g in desc["glyphs"] if g["name"] not in skip for b, _ in g["components"])


def contour_multiset(tt, name):
    segs = geom.recorded_to_segments(geom.drawn_segments(tt.getGlyphSet()[name]))
    return sorted(repr(geom.cyc_canon(s)) for s in segs)


def explore(ctx):
    import ufo2ft
    from fontTools.ttLib import TTFont
    from ufo2ft.util import _GlyphSet
    from ufo2ft.filters.skipExportGlyphs import SkipExportGlyphsFilter
    from ufo2ft.preProcessor import OTFPreProcessor

    rng = ctx.subrng("skip")
    jobs = []
    for i in range(ctx.budget(50, 250)):
        desc = gen_component_font(rng, n=rng.randint(3, 9), max_depth=3, anchors=True)
        names = [g["name"] for g in desc["glyphs"]]
        used = sorted({b for g in desc["glyphs"] for b, _ in g["components"]})
        skip = set()
        for n in names:
            p = 0.5 if n in used else 0.15
            if rng.random() < p:
                skip.add(n)
        if len(skip) == len(names):
            skip.discard(names[0])
        if rng.random() < 0.15:
            skip.add("nonexistent")
        jobs.append((desc, sorted(skip)))
    if not ctx.quick():
        for j in range(6 * ctx.scale):
            desc = gen_component_font(rng, n=rng.randint(3, 6), max_depth=3)
            names = [g["name"] for g in desc["glyphs"]]
            for r in range(1, len(names)):
                for sub in itertools.combinations(names, r):
                    jobs.append((desc, list(sub)))
        ctx.notes["exhaustive_subset_fonts"] = 6 * ctx.scale
    filt, pre = ([], []), ([], [])
    for i, (desc, skip) in enumerate(jobs):
        lib = ["ufoLib2", "defcon"][i % 2]
        case = {"font": jsonable(desc), "skipExportGlyphs": skip, "lib": lib}
        ctx.count()
        if references_skipped(desc, set(skip)):
            ctx.nontriv(("skip", i, ctx.scale))
            ctx.klass("references-skipped")
        else:
            ctx.klass("no-reference-to-skipped")
        gskip = G.lst([G.s(n) for n in skip], "str")
        try:
            # ---- the filter alone
            font = build_font(desc, lib)
            gset = _GlyphSet.from_layer(font)
            before = geom.snapshot_glyphset(gset)
            modified = SkipExportGlyphsFilter(skip)(font, gset)
            after = geom.snapshot_glyphset(gset)
            filt[0].append(G.tup(gskip, geom.g_glyphset(before), geom.g_glyphset(after)))
            filt[1].append(dict(case, level="SkipExportGlyphsFilter"))
            # ---- the OTF pre-processor with / without (via lib key on odd cases)
            f0 = build_font(desc, lib)
            g0 = geom.snapshot_glyphset(OTFPreProcessor(f0).process())
            f1 = build_font(desc, lib)
            g1 = geom.snapshot_glyphset(OTFPreProcessor(f1, skipExportGlyphs=skip).process())
            pre[0].append(G.tup(gskip, geom.g_glyphset(g0), geom.g_glyphset(g1)))
            pre[1].append(dict(case, level="OTFPreProcessor"))
        except Exception as e:
            ctx.spec_failure(case, "raised %s: %s\n%s" % (type(e).__name__, e, traceback.format_exc()[-1200:]))
            continue
        # ---- compiled fonts (a third of the cases)
        if i % 3 == 0:
            try:
                compare_binaries(ctx, case, desc, skip, lib, i)
            except Exception as e:
                if number_range_error(e):
                    # nested scaled components pushed a coordinate beyond 16 bits: no font exists for this input, skipping or not
                    ctx.klass("outside_opentype_number_range_rejected")
                    continue
                ctx.spec_failure(case, "compile raised %s: %s\n%s" % (type(e).__name__, e, traceback.format_exc()[-1200:]))
    for (cases, meta), fn, tag in ((filt, FN, "Filt"), (pre, FN_PRE, "Pre")):
        vals = ctx.coq_eval(IMPORTS, fn, cases, chunk=6, tag=tag)
        for v, case in zip(vals, meta):
            if v is None:
                continue
            if not v & 2:
                ctx.spec_failure(case, "skip_ok (Coq) false: a remaining glyph's resolved contour multiset/advance/anchors/order "
                                       "changed, a skipped glyph survived or is still referenced (%s)" % case["level"])
            elif not v & 1:
                ctx.corr_mismatch(case, "Gallina skip_glyph differs from SkipExportGlyphsFilter output")
        if meta:
            ctx.sample({"skip": meta[0]["skipExportGlyphs"], "level": meta[0]["level"], "glyphs": meta[0]["font"]["glyphs"][:2]})
    interpolatable_section(ctx)
    features_section(ctx)
    script_section(ctx)
    master_only_glyph_section(ctx)
    layer_section(ctx)
    instance_section(ctx)


def flat_contours(tt, name):
    """the rendered contours of a glyph of a compiled font, components resolved"""
    from fontTools.pens.recordingPen import DecomposingRecordingPen
    gs = tt.getGlyphSet()
    pen = DecomposingRecordingPen(gs)
    gs[name].draw(pen)
    contours, cur = [], None
    for op, args in pen.value:
        if op == "moveTo":
            cur = [args[0]]
        elif op == "lineTo":
            cur.append(args[0])
        elif op in ("qCurveTo", "curveTo"):
            cur.extend(a for a in args if a is not None)
        elif op in ("closePath", "endPath"):
            contours.append(cur); cur = None
    return contours


def same_contour(a, b, tol):
    if len(a) != len(b):
        return False
    n = len(a)
    for seq in (b, b[::-1]):
        for r in range(n):
            if all(abs(a[k][0] - seq[(k + r) % n][0]) <= tol and abs(a[k][1] - seq[(k + r) % n][1]) <= tol for k in range(n)):
                return True
    return False


def same_rendering(ca, cb, tol=2):
    """same multiset of contours up to tol units, start point and direction"""
    if len(ca) != len(cb):
        return False
    rest = list(cb)
    for a in ca:
        hit = next((k for k, b in enumerate(rest) if same_contour(a, b, tol)), None)
        if hit is None:
            return False
        rest.pop(hit)
    return True


def masters_only(ctx, rng, base, masters, skip, users, how, lib, i):
    import ufo2ft
    case = {"font": jsonable(base), "last_master": jsonable(masters[-1]), "skipExportGlyphs": skip, "given_by": how, "lib": lib,
            "level": "compileInterpolatableTTFs"}
    ctx.count()
    ctx.klass("ufos:%s" % how)
    if users:
        ctx.nontriv(("ufos", i, ctx.scale))
    try:
        full = list(ufo2ft.compileInterpolatableTTFs([build_font(m, lib) for m in masters]))
        # UFO libs: the union of all masters' lists applies; the lists may differ from master to master
        per_master = [list(skip) for _ in masters]
        if how == "ufo-libs" and len(skip) >= 1 and i % 2 == 0:
            per_master = [[skip[0]]] + [list(skip[1:]) for _ in masters[1:]]
        ms = [dict(m, lib=dict(m.get("lib", {}), **({"public.skipExportGlyphs": per_master[k]} if how == "ufo-libs" else {})))
              for k, m in enumerate(masters)]
        case["per_master_lib_lists"] = per_master if how == "ufo-libs" else None
        kw = {"skipExportGlyphs": list(skip)} if how == "argument" else {}
        skipped = list(ufo2ft.compileInterpolatableTTFs([build_font(m, lib) for m in ms], **kw))
    except Exception as e:
        ctx.spec_failure(case, "compileInterpolatableTTFs raised %s: %s\n%s" % (type(e).__name__, e, traceback.format_exc()[-1200:]))
        return
    for k, (t0, t1) in enumerate(zip(full, skipped)):
        want_order = [n for n in t0.getGlyphOrder() if n not in skip]
        if t1.getGlyphOrder() != want_order:
            ctx.spec_failure(dict(case, master=k), "glyph order with skipping %r, expected %r" % (t1.getGlyphOrder(), want_order))
            return
        for n in want_order:
            if t0["hmtx"][n][0] != t1["hmtx"][n][0] or not same_rendering(flat_contours(t0, n), flat_contours(t1, n), tol=1):
                ctx.spec_failure(dict(case, master=k, glyph=n), "master %d: remaining glyph %r differs from the build with nothing skipped" % (k, n))
                return


def layer_section(ctx):
    """compileTTF / compileOTF of a NON-default layer (layerName=...) with non-exported glyphs (by argument and by the lib
    key): the listed glyphs are gone from glyph order, cmap and metrics, nothing references them, and every remaining
    glyph renders what it renders when the same layer is compiled without a skip list"""
    import ufo2ft
    from fontTools.ttLib import TTFont
    sq = lambda x, y, w, h: [[(Fr(x), Fr(y), "line"), (Fr(x + w), Fr(y), "line"), (Fr(x + w), Fr(y + h), "line"), (Fr(x), Fr(y + h), "line")]]
    one = (Fr(1), Fr(0), Fr(0), Fr(1))
    for i in range(ctx.budget(8, 24)):
        lib = ["ufoLib2", "defcon"][i % 2]
        flavor = ["ttf", "otf"][(i // 2) % 2]
        via_lib = (i // 4) % 2 == 1
        d = 20 * (i % 3)
        layer_glyphs = [
            {"name": "_bar", "unicodes": [0x7C], "width": Fr(200), "contours": sq(60, 0, 80 + d, 700), "components": [], "anchors": []},
            {"name": "_stem", "unicodes": [], "width": Fr(220), "contours": [], "anchors": [], "components": [("_bar", one + (Fr(10), Fr(0)))]},
            {"name": "I", "unicodes": [0x49], "width": Fr(300), "contours": [], "anchors": [],
             "components": [("_stem", one + (Fr(20), Fr(0))), ("_bar", (Fr(-1), Fr(0), Fr(0), Fr(1), Fr(290), Fr(0)))]},
            {"name": "H", "unicodes": [0x48], "width": Fr(700), "contours": sq(50, 0, 100, 700) + sq(550, 0, 100 + d, 700), "components": [], "anchors": []},
            {"name": "space", "unicodes": [0x20], "width": Fr(250), "contours": [], "components": [], "anchors": []}]
        default_glyphs = [dict(g, contours=sq(0, 0, 50, 50) if g["contours"] else [], components=[]) for g in layer_glyphs]
        skip = ["_bar", "_stem"]
        desc = {"glyphs": default_glyphs, "glyphOrder": [g["name"] for g in layer_glyphs], "lib": {"public.skipExportGlyphs": skip} if via_lib else {}}
        case = {"function": "compile" + flavor.upper(), "layerName": "bold", "skipExportGlyphs": skip, "given_by": "lib" if via_lib else "argument",
                "lib": lib, "layer": jsonable(layer_glyphs)}
        ctx.count(); ctx.klass("layerName compile with a skip list/%s/%s" % (flavor, "lib" if via_lib else "argument")); ctx.nontriv(("layer", i, ctx.scale))

        def font(with_lib):
            f = build_font(dict(desc, lib=desc["lib"] if with_lib else {}), lib)
            src = build_font({"glyphs": layer_glyphs, "glyphOrder": desc["glyphOrder"]}, lib)
            layer = f.newLayer("bold")
            for g in layer_glyphs:
                gl = layer.newGlyph(g["name"]); gl.width = src[g["name"]].width; gl.unicodes = list(g["unicodes"])
                src[g["name"]].drawPoints(gl.getPointPen())
            return f
        comp = ufo2ft.compileTTF if flavor == "ttf" else ufo2ft.compileOTF
        try:
            kw = {} if via_lib else {"skipExportGlyphs": skip}
            tt = comp(font(True), layerName="bold", useProductionNames=False, **kw)
            ref = comp(font(False), layerName="bold", useProductionNames=False)
            b = io.BytesIO(); tt.save(b); tt = TTFont(io.BytesIO(b.getvalue()))
            b = io.BytesIO(); ref.save(b); ref = TTFont(io.BytesIO(b.getvalue()))
        except Exception as e:
            ctx.spec_failure(case, "compile raised %s: %s\n%s" % (type(e).__name__, e, traceback.format_exc()[-1000:]))
            continue
        order = tt.getGlyphOrder()
        left = [n for n in skip if n in order]
        if left or any(n in (tt["cmap"].getBestCmap() or {}).values() for n in skip):
            ctx.spec_failure(dict(case, glyph_order=order), "non-exported glyphs %r are still in the compiled font (glyph order %r)" % (left, order))
            continue
        if [n for n in ref.getGlyphOrder() if n not in skip] != order:
            ctx.spec_failure(dict(case, glyph_order=order), "the remaining glyphs changed order: %r vs %r" % (order, ref.getGlyphOrder()))
            continue
        for n in order:
            if "glyf" in tt and tt["glyf"][n].isComposite() and any(c.glyphName in skip for c in tt["glyf"][n].components):
                ctx.spec_failure(dict(case, glyph=n), "glyph %r still references a non-exported glyph" % n)
                break
            if tt["hmtx"][n] != ref["hmtx"][n] or not same_rendering(flat_contours(ref, n), flat_contours(tt, n), tol=1.5):
                ctx.spec_failure(dict(case, glyph=n), "glyph %r of the layer renders / measures differently once %r are not exported" % (n, skip))
                break


def instance_section(ctx):
    """static instances generated from a designspace (Instantiator.generate_instance, as fontmake does) and then compiled: the
    DESIGNSPACE's public.skipExportGlyphs decides -- also when the default master's own lib carries another (older, shorter,
    empty) list -- the listed glyphs are gone, nothing references them, the rest renders as without a skip list"""
    import ufo2ft
    from harness import dsgen
    from ufo2ft.instantiator import Instantiator
    from fontTools.designspaceLib import InstanceDescriptor
    from fontTools.ttLib import TTFont
    sq = lambda x, y, w, h: [[(Fr(x), Fr(y), "line"), (Fr(x + w), Fr(y), "line"), (Fr(x + w), Fr(y + h), "line"), (Fr(x), Fr(y + h), "line")]]
    one = (Fr(1), Fr(0), Fr(0), Fr(1))
    rng = ctx.subrng("instances")
    for i in range(ctx.budget(8, 24)):
        lib = ["ufoLib2", "defcon"][i % 2]
        flavor = ["ttf", "otf"][(i // 2) % 2]
        own = [["_old"], [], None, ["_old", "_part"]][(i // 4) % 4]

        def master(k):
            d = 20 * k
            gl = [{"name": "_part", "unicodes": [], "width": Fr(200), "contours": sq(20, 0, 60 + d, 500), "components": [], "anchors": []},
                  {"name": "_old", "unicodes": [0x7C], "width": Fr(210), "contours": sq(10, 0, 50 + d, 400), "components": [], "anchors": []},
                  {"name": "A", "unicodes": [0x41], "width": Fr(600 + d), "contours": sq(300, 0, 100, 700), "anchors": [],
                   "components": [("_part", one + (Fr(30 + d), Fr(0)))]},
                  {"name": "B", "unicodes": [0x42], "width": Fr(620 + d), "contours": [], "anchors": [],
                   "components": [("_part", one + (Fr(0), Fr(0))), ("_old", (Fr(-1), Fr(0), Fr(0), Fr(1), Fr(500), Fr(0)))]},
                  {"name": "C", "unicodes": [0x43], "width": Fr(500), "contours": sq(0, 0, 200 + d, 200), "components": [], "anchors": []}]
            lb = {} if own is None else {"public.skipExportGlyphs": list(own)}
            return {"glyphs": gl, "glyphOrder": [g["name"] for g in gl], "lib": lb, "groups": {},
                    "kerning": {("B", "_part"): Fr(-20 - k), ("_part", "B"): Fr(-10), ("A", "C"): Fr(-30 - k)},
                    "info": {"familyName": "Fam", "styleName": "M%d" % k, "unitsPerEm": 1000, "ascender": 800, "descender": -200}}
        ds, fonts = dsgen.make_designspace(rng, [master(0), master(2)], lib, instances=False)
        ds.lib["public.skipExportGlyphs"] = ["_part", "_old"]
        inst = InstanceDescriptor(); inst.familyName, inst.styleName, inst.location, inst.name = "Fam", "Mid", {"Weight": 500}, "mid"
        case = {"function": "Instantiator.generate_instance + compile" + flavor.upper(), "lib": lib,
                "designspace_skipExportGlyphs": ["_part", "_old"], "default_master_skipExportGlyphs": own}
        ctx.count(); ctx.klass("instance from a designspace/%s/master's own list %r" % (flavor, own)); ctx.nontriv(("inst", i, ctx.scale))
        comp = ufo2ft.compileTTF if flavor == "ttf" else ufo2ft.compileOTF
        try:
            ufo = Instantiator.from_designspace(ds).generate_instance(inst)
            tt = comp(ufo, useProductionNames=False)
            ufo2 = Instantiator.from_designspace(ds).generate_instance(inst)
            ref = comp(ufo2, useProductionNames=False, skipExportGlyphs=[])
            b = io.BytesIO(); tt.save(b); tt = TTFont(io.BytesIO(b.getvalue()))
            b = io.BytesIO(); ref.save(b); ref = TTFont(io.BytesIO(b.getvalue()))
        except Exception as e:
            ctx.spec_failure(case, "raised %s: %s\n%s" % (type(e).__name__, e, traceback.format_exc()[-1000:]))
            continue
        order = tt.getGlyphOrder()
        if order != [".notdef", "A", "B", "C"]:
            ctx.spec_failure(dict(case, glyph_order=order), "the compiled instance has glyph order %r; the designspace does not export _part and _old" % order)
            continue
        for n in ("A", "B", "C"):
            if tt["hmtx"][n][0] != ref["hmtx"][n][0] or not same_rendering(flat_contours(ref, n), flat_contours(tt, n), tol=1.5):
                ctx.spec_failure(dict(case, glyph=n), "glyph %r of the instance renders / measures differently once the parts are not exported" % n)
                break


def interpolatable_section(ctx):
    """skipExportGlyphs in designspace builds (argument / designspace lib / UFO libs): the variable font built with
    skipping must render every remaining glyph like the one built without, at every source location -- including the
    locations of sparse layer masters that only the skipped component has"""
    import ufo2ft
    from fontTools.ttLib import TTFont
    from fontTools.varLib import instancer
    from harness import dsgen
    rng = ctx.subrng("skip-ds")
    AXES = [("Weight", "wght", 100, 100, 900, [100, 900], 500),           # default at the minimum
            ("Slant", "slnt", -12, 0, 0, [0, -12], -6),                   # default at the maximum: other masters negative
            ("Width", "wdth", 50, 100, 150, [100, 50, 150], 75)]          # default in the middle
    for i in range(ctx.budget(12, 80)):
        lib = ["ufoLib2", "defcon"][i % 2]
        axis = AXES[i % 3]
        aname, tag, lo, df, hi, locs, mid = axis
        base = dsgen.base_master(rng, kinds=("line",), max_depth=2, anchors=False,
                                 classes=["identity", "scale", "shear", "mirror_x", "general_small"])
        masters = [base] + [dsgen.perturb(rng, base, k) for k in range(1, len(locs))]
        names = [g["name"] for g in base["glyphs"]]
        used = sorted({b for g in base["glyphs"] for b, _ in g["components"]})
        if not used:
            ctx.klass("ds:no-components(skipped)")
            continue
        skip = [rng.choice(used)]
        if rng.random() < 0.3:
            extra = [n for n in names if n not in skip]
            if len(extra) > 2:
                skip.append(rng.choice(extra))
        users = [g["name"] for g in base["glyphs"] if g["name"] not in skip and any(b in skip for b, _ in g["components"])]
        sparse = i % 4 != 3
        # designspace builds take the list from the designspace lib only (documented: the argument is overwritten and
        # the keys of the individual UFOs are ignored); argument / UFO libs apply to compileInterpolatableTTFs(ufos)
        how = ["designspace-lib", "designspace-lib", "argument", "ufo-libs"][(i // 3) % 4]
        if how in ("argument", "ufo-libs"):
            masters_only(ctx, rng, base, masters, skip, users, how, lib, i)
            continue

        def build(with_skip):
            ms = [dict(m, lib=dict(m.get("lib", {}))) for m in masters]
            if with_skip and how == "ufo-libs":
                for m in ms:
                    m["lib"]["public.skipExportGlyphs"] = list(skip)
            ds, fonts = dsgen.make_designspace(rng, ms, lib, axes=[(aname, tag, lo, df, hi)],
                                               locations=[{aname: v} for v in locs], instances=False)
            if sparse:
                from fontTools.designspaceLib import SourceDescriptor
                layer = fonts[0].newLayer("mid")
                for nm in [skip[0]]:
                    src_g = next(g for g in base["glyphs"] if g["name"] == nm)
                    gl = layer.newGlyph(nm)
                    gl.width = fonts[0][nm].width
                    pen = gl.getPointPen()
                    for c in src_g["contours"]:
                        pen.beginPath()
                        for k, (x, y, t) in enumerate(c):
                            # deliberately NOT the linear blend of the full masters
                            pen.addPoint((int(x) + 90 + 7 * k, int(y) - 70 + 5 * k), segmentType=t)
                        pen.endPath()
                    for b, t in src_g["components"]:
                        pen.addComponent(b, tuple(float(v) for v in t))
                sd = SourceDescriptor()
                sd.font, sd.layerName, sd.location = fonts[0], "mid", {aname: mid}
                sd.name, sd.familyName, sd.styleName = "master.mid", "Fam", "Mid"
                ds.addSource(sd)
            kw = {}
            if with_skip and how == "argument":
                kw["skipExportGlyphs"] = list(skip)
            if with_skip and how == "designspace-lib":
                ds.lib["public.skipExportGlyphs"] = list(skip)
            vf = ufo2ft.compileVariableTTF(ds, **kw)
            buf = io.BytesIO(); vf.save(buf)
            return buf.getvalue()
        case = {"font": jsonable(base), "last_master": jsonable(masters[-1]), "axis": list(axis[:5]), "master_locations": locs,
                "sparse_layer_at": mid if sparse else None, "sparse_layer_glyphs": [skip[0]] if sparse else [],
                "skipExportGlyphs": skip, "given_by": how, "lib": lib, "level": "compileVariableTTF"}
        ctx.count()
        ctx.klass("ds:%s/%s%s" % (tag, how, "/sparse-component-master" if sparse else ""))
        if users:
            ctx.nontriv(("ds", i, ctx.scale))
        try:
            full, skipped = build(False), build(True)
        except Exception as e:
            ctx.spec_failure(case, "compileVariableTTF raised %s: %s\n%s" % (type(e).__name__, e, traceback.format_exc()[-1200:]))
            continue
        t0, t1 = TTFont(io.BytesIO(full)), TTFont(io.BytesIO(skipped))
        want_order = [n for n in t0.getGlyphOrder() if n not in skip]
        if t1.getGlyphOrder() != want_order:
            ctx.spec_failure(case, "glyph order with skipping %r, expected %r" % (t1.getGlyphOrder(), want_order))
            continue
        c0 = {u: n for u, n in t0.getBestCmap().items() if n not in skip}
        if t1.getBestCmap() != c0:
            ctx.spec_failure(case, "cmap with skipping %r, expected %r" % (t1.getBestCmap(), c0))
        for v in locs + ([mid] if sparse else []) + [(lo + hi) / 2 + 1]:
            try:
                i0 = instancer.instantiateVariableFont(TTFont(io.BytesIO(full)), {tag: v})
                i1 = instancer.instantiateVariableFont(TTFont(io.BytesIO(skipped)), {tag: v})
            except Exception as e:
                ctx.spec_failure(dict(case, location=v), "instantiating raised %s: %s" % (type(e).__name__, e))
                break
            bad = None
            for n in want_order:
                if abs(i0["hmtx"][n][0] - i1["hmtx"][n][0]) > 1:
                    bad = (n, "advance %r vs %r" % (i1["hmtx"][n][0], i0["hmtx"][n][0])); break
                a, b = flat_contours(i0, n), flat_contours(i1, n)
                if not same_rendering(a, b):
                    bad = (n, "renders %r, without skipping %r" % (b[:3], a[:3])); break
            if bad:
                ctx.spec_failure(dict(case, location=v, glyph=bad[0]),
                                 "at %s=%s remaining glyph %r differs from the build with nothing skipped: %s" % (tag, v, bad[0], bad[1]))
                break


def features_section(ctx):
    """generated kerning, mark positioning and GDEF classes: skipped glyphs that are kerning keys, kerning-group members,
    anchored glyphs and listed in public.openTypeCategories (zero-width AND spacing marks, bases) -- the font with skipping
    must compile, and for every remaining pair of glyphs the kerning value, the mark attachment and the GDEF class are what
    they are in the build with nothing skipped (judged on the compiled GPOS/GDEF through harness/otl.Layout)"""
    import ufo2ft
    from fontTools.ttLib import TTFont
    from harness.otl import Layout
    from harness import dsgen
    rng = ctx.subrng("skip-features")
    SQ = [[(Fr(50), Fr(0), "line"), (Fr(250), Fr(0), "line"), (Fr(250), Fr(300), "line"), (Fr(50), Fr(300), "line")]]
    base = [("A", 0x41, 600, [("top", 300, 700), ("bottom", 300, 0)], "base"), ("V", 0x56, 580, [("top", 290, 700)], "base"),
            ("V.alt", None, 590, [("top", 295, 700)], "base"), ("a", 0x61, 500, [("top", 250, 500)], "base"),
            ("o", 0x6F, 520, [("top", 260, 500), ("bottom", 260, -10)], "base"),
            ("acutecomb", 0x301, 0, [("_top", 0, 480), ("top", 0, 640)], "mark"),
            ("acutecomb.alt", None, 0, [("_top", 0, 470)], "mark"),
            ("dotbelowcomb", 0x323, 0, [("_bottom", 0, -20)], "mark"),
            ("tildemod", 0x2DC, 300, [("_top", 150, 480)], "mark"),        # spacing marks: category mark, advance > 0
            ("ring.old", None, 250, [("_top", 125, 480)], "mark"),
            ("f_i", None, 700, [("top_1", 150, 700), ("top_2", 500, 700)], "ligature"),
            # the FOURTH class: parts of glyphs, categorised "component"
            ("f.part", None, 300, [], "component"), ("i.part", None, 250, [], "component")]
    candidates = ["ring.old", "acutecomb.alt", "V.alt", "o", "tildemod", "f_i", "dotbelowcomb", "i.part", "f.part"]
    for i in range(ctx.budget(14, 70)):
        skip = [c for k, c in enumerate(candidates) if ((i * 37 + 5) >> k) & 1] or [candidates[i % len(candidates)]]
        if i % 7 == 6:
            skip = [candidates[(i // 7) % len(candidates)]]          # singletons
        glyphs = [{"name": n, "unicodes": [u] if u else [], "width": w + rng.choice([0, 0, 10]), "contours": list(SQ), "components": [],
                   "anchors": [(an, Fr(x), Fr(y)) for an, x, y in anchors]} for n, u, w, anchors, _ in base]
        names = [g["name"] for g in glyphs]
        desc = {"glyphs": glyphs,
                "groups": {"public.kern1.A": ["A"], "public.kern1.V": ["V", "V.alt"], "public.kern2.V": ["V", "V.alt"],
                           "public.kern2.round": ["o", "a"], "public.kern1.marks": ["tildemod", "ring.old"]},
                "kerning": {("public.kern1.A", "public.kern2.V"): Fr(-60), ("public.kern1.V", "public.kern2.round"): Fr(-35),
                            ("V.alt", "o"): Fr(-20), ("A", "tildemod"): Fr(-15), ("public.kern1.marks", "A"): Fr(12),
                            ("a", "ring.old"): Fr(-8), ("f_i", "public.kern2.V"): Fr(-25), ("o", "A"): Fr(rng.choice([-10, 15]))},
                "lib": {"public.openTypeCategories": {n: c for n, _, _, _, c in base}},
                "features": "languagesystem DFLT dflt;\nlanguagesystem latn dflt;\n", "glyphOrder": list(names)}
        lib = ["ufoLib2", "defcon"][i % 2]
        mode = ["ttf-argument", "otf-libkey", "ttf-libkey", "variable-designspace-lib", "otf-argument"][i % 5]
        case = {"font": jsonable(desc), "skipExportGlyphs": skip, "lib": lib, "mode": mode, "level": "generated features"}
        ctx.count(); ctx.klass("features:" + mode); ctx.nontriv(("skf", i, ctx.scale))
        fonts = []
        try:
            for with_skip in (False, True):
                if mode.startswith("variable"):
                    r2 = __import__("random").Random(i)
                    ds, ufos = dsgen.make_designspace(r2, [desc, dsgen.perturb(r2, desc, 1)], lib, instances=False)
                    if with_skip:
                        ds.lib["public.skipExportGlyphs"] = list(skip)
                    tt = ufo2ft.compileVariableTTF(ds, useProductionNames=False)
                else:
                    f = build_font(desc, lib)
                    kw = {"useProductionNames": False}
                    if with_skip and mode.endswith("libkey"):
                        f.lib["public.skipExportGlyphs"] = list(skip)
                    elif with_skip:
                        kw["skipExportGlyphs"] = list(skip)
                    tt = (ufo2ft.compileTTF if mode.startswith("ttf") else ufo2ft.compileOTF)(f, **kw)
                buf = io.BytesIO(); tt.save(buf); buf.seek(0); fonts.append(TTFont(buf))
        except Exception as e:
            ctx.spec_failure(case, "compile (%s skipping) raised %s: %s\n%s" % ("with" if fonts else "without", type(e).__name__, e,
                                                                              traceback.format_exc()[-1200:]))
            continue
        a, b = fonts
        la, lb = Layout(a), Layout(b)
        remaining = [n for n in names if n not in skip]
        if [n for n in b.getGlyphOrder() if n != ".notdef"] != remaining:
            ctx.spec_failure(case, "glyph order with skipping: %r" % b.getGlyphOrder())
            continue
        ca, cb = la.glyph_classes(), lb.glyph_classes()
        if {k: v for k, v in ca.items() if k not in skip} != cb:
            ctx.spec_failure(case, "GDEF classes of the remaining glyphs changed or a skipped glyph is still classified: %r -> %r" % (ca, cb))
        bad = None
        for tag in la.scripts():
            ka, kb = la.lookups_for(tag, {"kern", "dist"}), lb.lookups_for(tag, {"kern", "dist"})
            ma, mb = la.lookups_for(tag, {"mark", "mkmk"}), lb.lookups_for(tag, {"mark", "mkmk"})
            for x in remaining:
                for y in remaining:
                    if la.pair_adjust(ka, x, y)[:3] != lb.pair_adjust(kb, x, y)[:3]:
                        bad = bad or "kerning of the remaining pair (%s, %s) under %s: %r -> %r" % (x, y, tag, la.pair_adjust(ka, x, y)[:3], lb.pair_adjust(kb, x, y)[:3])
                    if la.mark_attach(ma, x, y) != lb.mark_attach(mb, x, y):
                        bad = bad or "attachment of %s to %s under %s: %r -> %r" % (y, x, tag, la.mark_attach(ma, x, y), lb.mark_attach(mb, x, y))
        if bad:
            ctx.spec_failure(case, "generated positioning between remaining glyphs is affected by skipping %r: %s" % (skip, bad))


def script_section(ctx):
    """a non-exported glyph must not leave its SCRIPT behind: a skipped glyph carries the only code point of its script
    (Syriac / Thaana) while remaining glyphs whose Script_Extensions include that script (U+060C ARABIC COMMA, U+061F) are
    kerned.  The font compiled with the skip list has the script list and the pair values of the same font from which the
    glyph was deleted beforehand"""
    import ufo2ft
    from fontTools.ttLib import TTFont
    from harness.otl import Layout
    from harness import dsgen
    SQ = [[(Fr(50), Fr(0), "line"), (Fr(250), Fr(0), "line"), (Fr(250), Fr(300), "line"), (Fr(50), Fr(300), "line")]]
    for i in range(ctx.budget(6, 16)):
        lib = ["ufoLib2", "defcon"][i % 2]
        mode = ["ttf-argument", "otf-libkey", "variable-designspace-lib", "otf-argument", "ttf-libkey", "variable-designspace-lib"][i % 6]
        extra = [("alaph-sy", 0x710), ("haa-thaana", 0x780)][(i // 2) % 2]
        base = [("alef-ar", 0x627), ("beh-ar", 0x628), ("comma-ar", 0x60C), ("question-ar", 0x61F), extra]
        def desc_of(names):
            return {"glyphs": [{"name": n, "unicodes": [u], "width": 500, "contours": list(SQ), "components": [], "anchors": []} for n, u in names],
                    "groups": {}, "kerning": {("comma-ar", "beh-ar"): Fr(-30), ("alef-ar", "question-ar"): Fr(-20), ("beh-ar", "alef-ar"): Fr(14)},
                    "lib": {}, "features": "", "glyphOrder": [n for n, _ in names]}
        full, pruned = desc_of(base), desc_of(base[:-1])
        skip = [extra[0]]
        case = {"font": jsonable(full), "skipExportGlyphs": skip, "lib": lib, "mode": mode, "level": "scripts of generated kerning"}
        ctx.count(); ctx.klass("scripts:" + mode); ctx.nontriv(("sks", i, ctx.scale))
        outs = []
        try:
            for desc, with_skip in ((full, True), (pruned, False)):
                if mode.startswith("variable"):
                    r2 = __import__("random").Random(i)
                    ds, ufos = dsgen.make_designspace(r2, [desc, dsgen.perturb(r2, desc, 1)], lib, instances=False)
                    if with_skip:
                        ds.lib["public.skipExportGlyphs"] = list(skip)
                    tt = ufo2ft.compileVariableTTF(ds, useProductionNames=False, variableFeatures=(i // 6) % 2 == 0)
                else:
                    f = build_font(desc, lib)
                    kw = {"useProductionNames": False}
                    if with_skip and mode.endswith("libkey"):
                        f.lib["public.skipExportGlyphs"] = list(skip)
                    elif with_skip:
                        kw["skipExportGlyphs"] = list(skip)
                    tt = (ufo2ft.compileTTF if mode.startswith("ttf") else ufo2ft.compileOTF)(f, **kw)
                buf = io.BytesIO(); tt.save(buf); buf.seek(0); outs.append(TTFont(buf))
        except Exception as e:
            ctx.spec_failure(case, "compile raised %s: %s\n%s" % (type(e).__name__, e, traceback.format_exc()[-1200:]))
            continue
        la, lb = Layout(outs[0]), Layout(outs[1])
        if sorted(la.scripts()) != sorted(lb.scripts()):
            ctx.spec_failure(dict(case, scripts_with_skip_list=sorted(la.scripts()), scripts_with_glyph_deleted=sorted(lb.scripts())),
                             "GPOS scripts with %r skipped: %r; with the glyph deleted from the source beforehand: %r" % (
                                 skip, sorted(la.scripts()), sorted(lb.scripts())))
            continue
        remaining = [n for n, _ in base[:-1]]
        for tag in la.scripts():
            ka, kb = la.lookups_for(tag, {"kern", "dist"}), lb.lookups_for(tag, {"kern", "dist"})
            bad = [(x, y) for x in remaining for y in remaining if la.pair_adjust(ka, x, y)[:3] != lb.pair_adjust(kb, x, y)[:3]]
            if bad:
                ctx.spec_failure(dict(case, script=tag, pairs=bad[:4]), "kerning of remaining pairs under %s differs from the font with the glyph deleted beforehand: %r" % (tag, bad[:4]))
                break


def master_only_glyph_section(ctx):
    """a non-exported glyph that exists in ONE master only -- a non-default one (a leftover drawn in Bold only, with a code point
    and a kerning pair there) or the default one: it is in no compiled master's glyph order, cmap or metrics, and every master
    equals the one compiled from the same sources without that glyph"""
    import ufo2ft
    from fontTools.ttLib import TTFont
    from harness import dsgen
    rng = ctx.subrng("master-only-glyph")
    sq = lambda x, d: [[(Fr(x), Fr(0), "line"), (Fr(x + d), Fr(0), "line"), (Fr(x + d), Fr(d), "line"), (Fr(x), Fr(d), "line")]]
    for i in range(ctx.budget(6, 12)):
        lib = ["ufoLib2", "defcon"][i % 2]
        fn = ["compileInterpolatableTTFsFromDS", "compileInterpolatableOTFsFromDS", "compileInterpolatableTTFs"][(i // 2) % 3]
        holder = [1, 1, 0][(i // 2) % 3] if i < 6 else i % 2          # the master that alone has the glyph

        def master(k, with_draft):
            gl = [{"name": n, "unicodes": [u], "width": Fr(500 + 10 * k), "contours": sq(10 + j, 300 + 10 * k), "components": [], "anchors": []}
                  for j, (n, u) in enumerate([("a", 0x61), ("b", 0x62), ("c", 0x63)])]
            kern = {("a", "b"): Fr(-20 - k)}
            if with_draft and k == holder:
                gl.append({"name": "_draft", "unicodes": [0xE000], "width": Fr(640), "contours": sq(30, 200), "components": [], "anchors": []})
                kern[("_draft", "a")] = Fr(-40)
            return {"glyphs": gl, "glyphOrder": [g["name"] for g in gl], "kerning": kern, "groups": {}, "lib": {},
                    "info": {"familyName": "Fam", "styleName": "M%d" % k, "unitsPerEm": 1000, "ascender": 800, "descender": -200}}
        case = {"function": fn, "lib": lib, "master_with_the_glyph": holder, "skipExportGlyphs": ["_draft"], "font": jsonable(master(holder, True))}
        ctx.count(); ctx.klass("a non-exported glyph in master %d only / %s" % (holder, fn)); ctx.nontriv(("mog", i, ctx.scale))
        try:
            outs = []
            for with_draft in (True, False):
                ms = [master(0, with_draft), master(1, with_draft)]
                if fn == "compileInterpolatableTTFs":
                    fonts = [build_font(m, lib) for m in ms]
                    res = list(ufo2ft.compileInterpolatableTTFs(fonts, skipExportGlyphs=["_draft"], useProductionNames=False))
                else:
                    ds, fonts = dsgen.make_designspace(rng, ms, lib, instances=False)
                    ds.lib["public.skipExportGlyphs"] = ["_draft"]
                    res = [s_.font for s_ in getattr(ufo2ft, fn)(ds, useProductionNames=False).sources]
                fs = []
                for tt in res:
                    b = io.BytesIO(); tt.save(b); fs.append(TTFont(io.BytesIO(b.getvalue())))
                outs.append(fs)
        except Exception as e:
            ctx.spec_failure(case, "%s raised %s: %s\n%s" % (fn, type(e).__name__, e, traceback.format_exc()[-1000:]))
            continue
        for k, (tt, ref) in enumerate(zip(*outs)):
            if tt.getGlyphOrder() != [".notdef", "a", "b", "c"] or 0xE000 in (tt.getBestCmap() or {}) or "_draft" in tt["hmtx"].metrics:
                ctx.spec_failure(dict(case, master=k, glyph_order=tt.getGlyphOrder(), cmap=sorted(tt.getBestCmap() or {})),
                                 "master %d: the non-exported glyph is still there (glyph order %r)" % (k, tt.getGlyphOrder()))
                break
            diff = [t for t in ("hmtx", "cmap", "GPOS", "glyf", "CFF ") if (t in tt.reader) != (t in ref.reader) or (t in tt.reader and tt.reader[t] != ref.reader[t])]
            if diff:
                ctx.spec_failure(dict(case, master=k, tables=diff), "master %d differs in %r from the one compiled without the glyph in the sources" % (k, diff))
                break


def compare_binaries(ctx, case, desc, skip, lib, i):
    import ufo2ft
    from fontTools.ttLib import TTFont
    # give some glyphs code points so that the cmap is exercised
    desc = dict(desc, glyphs=[dict(g, unicodes=[0x41 + k]) for k, g in enumerate(desc["glyphs"])])
    # ... and variation sequences to EVERY glyph (so also to the skipped ones): the sequences of a skipped glyph vanish from the
    # character map with it, the others stay
    nm = [g["name"] for g in desc["glyphs"]]
    uvs = {"FE00": {"%04X" % (0x41 + k): nm[(k + 1) % len(nm)] for k in range(len(nm))}, "FE01": {"%04X" % 0x41: nm[-1]}}
    desc = dict(desc, lib=dict(desc.get("lib", {}), **{"public.unicodeVariationSequences": uvs}))
    for flavor in ("otf", "ttf"):
        comp = ufo2ft.compileOTF if flavor == "otf" else ufo2ft.compileTTF
        fa = build_font(desc, lib)
        fb = build_font(desc, lib)
        kw = {"useProductionNames": False}
        if i % 2:
            fb.lib["public.skipExportGlyphs"] = list(skip)
            b = comp(fb, **kw)
        else:
            b = comp(fb, skipExportGlyphs=list(skip), **kw)
        a = comp(fa, **kw)
        out = []
        for t in (a, b):
            buf = io.BytesIO(); t.save(buf); buf.seek(0); out.append(TTFont(buf))
        a, b = out
        oa, ob = a.getGlyphOrder(), b.getGlyphOrder()
        c2 = dict(case, flavor=flavor)
        if ob != [n for n in oa if n not in skip]:
            ctx.spec_failure(c2, "glyph order with skipping %r is not the order without %r minus the skipped glyphs" % (ob, oa))
            continue
        ca, cb = a["cmap"].getBestCmap(), b["cmap"].getBestCmap()
        if cb != {k: v for k, v in ca.items() if v not in skip}:
            ctx.spec_failure(c2, "cmap with skipping is not the cmap without minus skipped glyphs")
        def uvs_of(t):
            sub = [st for st in t["cmap"].tables if st.format == 14]
            return {(sel, cp): (g if g is not None else t["cmap"].getBestCmap().get(cp)) for st in sub for sel, lst in st.uvsDict.items() for cp, g in lst}
        ua, ub = uvs_of(a), uvs_of(b)
        if ub != {k: v for k, v in ua.items() if v not in skip}:
            ctx.spec_failure(dict(c2, sequences_without_skipping=jsonable(sorted(ua.items())), sequences_with_skipping=jsonable(sorted(ub.items()))),
                             "variation sequences with skipping are not the sequences without minus those of skipped glyphs")
        for n in ob:
            if a["hmtx"][n][0] != b["hmtx"][n][0]:
                ctx.spec_failure(c2, "advance of %r changed: %r -> %r" % (n, a["hmtx"][n], b["hmtx"][n]))
            if flavor == "otf" and contour_multiset(a, n) != contour_multiset(b, n):
                ctx.spec_failure(c2, "glyph %r renders a different set of contours when %r are skipped" % (n, skip))
        if flavor == "ttf":
            for n in ob:
                g = b["glyf"][n]
                if g.isComposite() and any(c.glyphName in skip for c in g.components):
                    ctx.spec_failure(c2, "composite %r still references a skipped glyph" % n)
        ctx.klass("binary:" + flavor)
