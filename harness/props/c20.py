"""C20 -- generated positioning features are reachable from every registered script."""
import io, re, traceback
from fractions import Fraction as Fr
from harness import gterm as G
from harness.fonts import build_font, jsonable
from harness.otl import Layout

PID = "C20"
LEVEL_TEXT = ("Proof + correspondence: Coq model of feaLib's registration rule applied to the blocks the writers emit (kern/dist with "
              "explicit script statements, mark/mkmk/curs/abvm/blwm without); theorems: a script named by a languagesystem "
              "statement reaches every generated feature, hence the property holds whenever every script the kerning blocks name "
              "is declared; and a closed witness that the full statement is FALSE of the faithful model when no languagesystem "
              "names the script (known finding F6); for kerning BETWEEN scripts, the lookup of a bucket is registered under every "
              "script of that bucket (mergeScripts, Kern/Merge.v, C20_cross_script_bucket_registered_under_all_its_scripts) and "
              "compiled fonts with chains of cross-script pairs are read back script by script. The property (spec_C20) and the model's script list are evaluated with "
              "vm_compute on the ScriptList/LangSys/Feature structure read from compiled fonts."
              " featureWriters/ast.addLookupReferences is TRANSLATED from /repo's source on every run (harness/fea_from_source.py -> Generated/FeaGen.v) and proved equal to the model (Fea/LookupRefsTied.v): 'every listed language reaches the lookups' is restated about the translated code.")
LEVEL_NOTE = ("Trusted: Coq kernel, hand model, harness, GPOS reader, feaLib. Which script tags the kern block names is taken from "
              "the compiled font (the kern writer's script detection is C05's subject).")
TECHNIQUE = "Coq model + theorems (incl. refutation witness) of feature registration (addLookupReferences translated from source and proved equal to its model); vm_compute check of compiled ScriptLists"
IMPORTS = "From U2F Require Import Base.Prelude Fea.Reach."
RULE = ("fonts with Latin/Cyrillic/Greek/Arabic/Hebrew/Devanagari glyphs, kerning between glyphs of each script, top/_top anchors "
        "on every base and mark, optional entry/exit anchors; languagesystem statements: none, DFLT only, DFLT+one script, all "
        "scripts, with extra languages. Non-trivial = font has kerning and marks and at least two script tags."
        " Every language system of a script must expose the same generated features as the script's default one (dev2/deva and latn declared with differing language lists); shared-script digits and non-exported glyphs of other scripts must not register new scripts.")
ASSUMPTIONS = []
F6_SIG = "kern-script-not-declared-by-languagesystem"

FN = ("fun c : (reach_in * list (str * list str)) => let '(i, obs) := c in "
      "(if model_matches i obs then 1 else 0) + (if spec_C20 (ri_plain i) obs then 2 else 0)")

SCRIPTS = {"latn": [("A", 0x41), ("V", 0x56)], "cyrl": [("a-cy", 0x430), ("be-cy", 0x431)], "grek": [("alpha", 0x3B1), ("beta", 0x3B2)],
           "arab": [("alef-ar", 0x627), ("beh-ar", 0x628)], "hebr": [("alef-hb", 0x5D0), ("bet-hb", 0x5D1)],
           "dev2": [("ka-deva", 0x915), ("kha-deva", 0x916)]}
GEN = ["kern", "dist", "mark", "mkmk", "curs", "abvm", "blwm"]


def gen(rng, unkerned_extra=False, ambiguous_extra=False):
    tags = rng.sample(list(SCRIPTS), rng.randint(1, 2 if unkerned_extra else 3))
    if ambiguous_extra:
        unkerned_extra = True
        tags = [t for t in tags if t not in ("hebr", "arab")] or ["latn"]
    glyphs, kerning = [], {}
    for t in tags:
        (a, ua), (b, ub) = SCRIPTS[t]
        for n, u in ((a, ua), (b, ub)):
            anchors = [("top", Fr(250), Fr(700))]
            if rng.random() < 0.4:
                anchors += [("entry", Fr(0), Fr(0)), ("exit", Fr(500), Fr(0))]
            glyphs.append({"name": n, "unicodes": [u], "width": 500, "anchors": anchors, "contours": []})
        kerning[(a, b)] = Fr(-40)
    glyphs.append({"name": "acutecomb", "unicodes": [0x301], "width": 0, "contours": [],
                   "anchors": [("_top", Fr(0), Fr(500))] + ([("top", Fr(0), Fr(700))] if rng.random() < 0.5 else [])})
    lib = {}
    if rng.random() < 0.4 and not unkerned_extra:
        # a glyph whose code point belongs to several scripts (U+02BC: Latn, Cyrl, Deva, ...) kerned against a glyph of the
        # font, and a NON-EXPORTED glyph of one of those scripts that the font otherwise lacks
        glyphs.append({"name": "apostrophemod", "unicodes": [0x2BC], "width": 200, "anchors": [], "contours": []})
        kerning[("apostrophemod", SCRIPTS[tags[0]][0][0])] = Fr(-25)
        absent = [t for t in ("cyrl", "latn", "dev2") if t not in tags]
        if absent:
            t = rng.choice(absent)
            n, u = SCRIPTS[t][0]
            glyphs.append({"name": n, "unicodes": [u], "width": 500, "anchors": [("top", Fr(250), Fr(700))], "contours": []})
            kerning[(n, "apostrophemod")] = Fr(-10)
            lib["public.skipExportGlyphs"] = [n]
    if rng.random() < 0.35 and not unkerned_extra:
        # digits whose primary script is specific (Deva / Arab / Beng) but which are shared between many scripts, in a font
        # that has none of those scripts: they are "common" for this font
        cands = [("zero-deva", 0x966, ("dev2",)), ("zero-ar", 0x660, ("arab",)), ("zero-bengali", 0x9E6, ())]
        cands = [c for c in cands if not set(c[2]) & set(tags)]
        if cands:
            n, u, _ = rng.choice(cands)
            glyphs.append({"name": n, "unicodes": [u], "width": 500, "anchors": [("top", Fr(250), Fr(700))], "contours": []})
            kerning[(n, SCRIPTS[tags[0]][0][0])] = Fr(-15)
            kerning[(SCRIPTS[tags[0]][1][0], n)] = Fr(-12)
    kerned_tags = sorted(set(tags) | ({"deva"} if "dev2" in tags else set()))
    if unkerned_extra:
        # glyphs of ONE MORE script that takes no part in any kerning pair, and kerning between common glyphs (digits): the
        # extra script has nothing of its own to register
        have = {g["name"] for g in glyphs}
        extra = next(t for t in ((("hebr",) if ambiguous_extra else ()) + ("grek", "cyrl", "latn", "hebr")) if t not in tags and not ({n for n, _ in SCRIPTS[t]} & have))
        for n, u in SCRIPTS[extra]:
            glyphs.append({"name": n, "unicodes": [u], "width": 500, "anchors": [("top", Fr(250), Fr(700))], "contours": []})
        for n, u in (("one", 0x31), ("two", 0x32), ("period", 0x2E)):
            glyphs.append({"name": n, "unicodes": [u], "width": 500, "anchors": [], "contours": []})
        kerning[("one", "two")] = Fr(-15)
        kerning[("two", "period")] = Fr(-25)
        if ambiguous_extra:
            # the extra (right-to-left) script IS named by kerning pairs, but only by pairs against European digits, which the
            # writer sets aside (mixed direction): no lookup holds a rule for it, so it has nothing to register either
            kerning[("alef-hb", "one")] = Fr(-30)
            kerning[("two", "bet-hb")] = Fr(-20)
        tags = tags + [extra]
    mode = rng.choice(["none", "dflt", "one", "all", "all+lang"])
    if unkerned_extra:
        mode = "one"
    ls = []
    if mode != "none":
        ls.append(("DFLT", "dflt"))
        real = {"dev2": "dev2"}
        if mode == "one":
            ls.append((tags[0], "dflt"))
        elif mode in ("all", "all+lang"):
            for t in tags:
                ls.append((t, "dflt"))
                if t == "dev2":
                    ls.append(("deva", "dflt"))
            if mode == "all+lang" and "latn" in tags:
                ls.append(("latn", "TRK "))
            if mode == "all+lang" and "dev2" in tags:
                # one Unicode script declared under both of its OpenType tags with DIFFERENT language lists
                ls += rng.choice([[("deva", "MAR "), ("deva", "NEP ")], [("dev2", "MAR ")], [("dev2", "NEP "), ("deva", "MAR ")]])
    fea = "".join("languagesystem %s %s;\n" % sl for sl in ls)
    return {"glyphs": glyphs, "kerning": kerning, "features": fea, "languagesystems": ls, "mode": mode, "lib": lib,
            "exported_script_tags": sorted(set(tags) | ({"deva"} if "dev2" in tags else set())), "kerned_script_tags": kerned_tags}


def lookup_refs_section(ctx):
    """featureWriters/ast.addLookupReferences against Fea/LookupRefs.v: (1) the statements it appends, exactly; (2) the Gallina
    reading of such statements (`read`: which language system ends up with which lookups) against what feaLib compiles from
    them -- a GPOS table built from the very statements, read back per language system"""
    import random
    from fontTools.feaLib import ast
    from fontTools.feaLib.builder import addOpenTypeFeatures
    from fontTools.ttLib import TTFont
    from ufo2ft.featureWriters.ast import addLookupReferences
    rng = ctx.subrng("lookup-refs")
    LANGS = ["dflt", "TRK ", "AZE ", "ROM ", "dflt", "NLD "]
    cases, meta = [], []
    for i in range(ctx.budget(60, 400)):
        nl = 1 + i % 3
        names = ["L%d" % k for k in range(nl)]
        script = [None, "latn", "cyrl", "latn"][i % 4]
        langs = None
        if i % 5:
            langs = [LANGS[(i + k * 7) % len(LANGS)] for k in range((i // 5) % 4)]
            if i % 7 == 3:
                langs = [l for l in langs if l != "dflt"] + ["dflt"]           # dflt last
            if i % 7 == 4 and langs:
                langs = [l for l in langs if l != "dflt"]                      # only named languages
            langs = list(dict.fromkeys(langs))
        excl = i % 6 == 5
        lookups = []
        for k, nm in enumerate(names):
            lb = ast.LookupBlock(nm)
            lb.statements.append(ast.SinglePosStatement([(ast.GlyphName("a"), ast.ValueRecord(xAdvance=10 + k))], [], [], False))
            lookups.append(lb)
        feat = ast.FeatureBlock("kern")
        case = {"lookups": names, "script": script, "languages": langs, "exclude_dflt": excl}
        ctx.count(); ctx.klass("addLookupReferences: script=%s exclude=%s" % (bool(script), excl))
        if script and langs and langs[0] != "dflt":
            ctx.nontriv(("lr", i, ctx.scale))
        try:
            addLookupReferences(feat, lookups, script, langs, excl)
        except Exception as e:
            ctx.spec_failure(case, "addLookupReferences raised %s: %s" % (type(e).__name__, e))
            continue
        obs = []
        for st in feat.statements:
            if isinstance(st, ast.ScriptStatement):
                obs.append("(SScript %s)" % G.s(st.script))
            elif isinstance(st, ast.LanguageStatement):
                obs.append("(SLang %s %s)" % (G.s(st.language), G.b(st.include_default)))
            elif isinstance(st, ast.LookupReferenceStatement):
                obs.append("(SLookup %s)" % G.s(st.lookup.name))
            else:
                obs.append("(SLookup %s)" % G.s("?" + type(st).__name__))
        # feaLib's own reading of these statements
        compiled = None
        if script:
            try:
                ff = ast.FeatureFile()
                ff.statements.append(ast.LanguageSystemStatement("DFLT", "dflt"))
                ff.statements.extend(lookups)
                ff.statements.append(feat)
                tt = TTFont(); tt.setGlyphOrder([".notdef", "a"])
                addOpenTypeFeatures(tt, ff, tables=["GPOS"])
                t = tt["GPOS"].table
                fl = t.FeatureList.FeatureRecord
                compiled = {}
                for sr in t.ScriptList.ScriptRecord:
                    if sr.ScriptTag != script:
                        continue
                    lss = [("dflt", sr.Script.DefaultLangSys)] if sr.Script.DefaultLangSys else []
                    lss += [(lr.LangSysTag, lr.LangSys) for lr in sr.Script.LangSysRecord]
                    for tag, ls in lss:
                        idx = []
                        for fi in ls.FeatureIndex:
                            idx += list(fl[fi].Feature.LookupListIndex)
                        compiled[tag] = [names[k] for k in idx]
            except Exception as e:
                ctx.spec_failure(case, "feaLib could not compile the generated statements: %s: %s" % (type(e).__name__, e))
                continue
        g_comp = "(@None (list (str * list str)))" if compiled is None else "(Some %s)" % G.lst(
            [G.tup(G.s(k), G.lst([G.s(x) for x in v], "str")) for k, v in sorted(compiled.items())], "(str * list str)")
        cases.append(G.tup(G.tup(G.lst([G.s(n) for n in names], "str"), "(@None str)" if script is None else "(Some %s)" % G.s(script)),
                           G.tup(G.lst([G.s(l) for l in (langs or [])], "str"), G.b(excl)),
                           G.tup(G.lst(obs, "fstmt"), g_comp)))
        meta.append(dict(case, statements=[st.asFea() for st in feat.statements], compiled=compiled))
    vals = ctx.coq_eval(
        "From U2F Require Import Base.Prelude Fea.LookupRefs.",
        "fun c : ((list str * option str) * (list str * bool) * (list fstmt * option (list (str * list str)))) => "
        "let '((lk, sc), (lg, ex), (obs, comp)) := c in "
        "let stmt_eqb := fun a b => match a, b with SScript x, SScript y => str_eqb x y | SLang x i, SLang y j => str_eqb x y && Bool.eqb i j "
        "| SLookup x, SLookup y => str_eqb x y | _, _ => false end in "
        "let m := read obs in "
        "(fun (a b : bool) => ((if a then 1 else 0) + (if b then 2 else 0))%Z) (list_eqb stmt_eqb (add_lookup_references lk sc lg ex) obs) "
        "(match comp with None => true | Some cm => "
        "forallb (fun kv => list_eqb str_eqb (ls_lookups m (fst kv)) (snd kv)) cm && "
        "forallb (fun kv => existsb (fun kv2 => str_eqb (fst kv) (fst kv2)) cm || match snd kv with [] => true | _ => false end) m end)",
        cases, chunk=100, tag="LookupRefs")
    for v, case in zip(vals, meta):
        if v is None:
            continue
        if not v & 1:
            ctx.corr_mismatch(case, "Gallina add_lookup_references differs from the statements addLookupReferences appended")
        if not v & 2:
            ctx.corr_mismatch(case, "Gallina `read` of the statements (language system -> lookups) differs from what feaLib compiled from them")


def rules_section(ctx):
    """variable fonts whose designspace RULES put unencoded alternates in place of a script's letters -- one glyph replaced by
    DIFFERENT alternates in two rules (heavy / light), the script's only kerning sitting on the alternates of the rule listed
    first, last, or on both: every declared script reaches the generated kern that applies its pairs, and mark"""
    import ufo2ft
    from harness import dsgen
    from fontTools.ttLib import TTFont
    from fontTools.designspaceLib import RuleDescriptor
    rng = ctx.subrng("rules")
    for i in range(ctx.budget(8, 24)):
        lib = ["ufoLib2", "defcon"][i % 2]
        fn = ["compileVariableTTF", "compileVariableCFF2"][(i // 2) % 2]
        where = ["first-rule", "last-rule", "both"][(i // 4) % 3]
        LET = [("A", 0x41), ("V", 0x56), ("alpha", 0x3B1), ("beta", 0x3B2)]
        ALT = ["alpha.heavy", "beta.heavy", "alpha.light", "beta.light"]

        def master(k):
            gl = [{"name": n, "unicodes": [u], "width": Fr(500 + 20 * k), "components": [], "anchors": [("top", Fr(250), Fr(700 + 5 * k))],
                   "contours": [[(Fr(100), Fr(0), "line"), (Fr(150 + 30 * k), Fr(0), "line"), (Fr(150 + 30 * k), Fr(400), "line"), (Fr(100), Fr(400), "line")]]}
                  for n, u in LET]
            gl += [{"name": n, "unicodes": [], "width": Fr(500 + 20 * k), "components": [], "anchors": [("top", Fr(250), Fr(700 + 5 * k))],
                    "contours": [[(Fr(100), Fr(0), "line"), (Fr(160 + 30 * k), Fr(0), "line"), (Fr(160 + 30 * k), Fr(410), "line"), (Fr(100), Fr(410), "line")]]}
                   for n in ALT]
            gl.append({"name": "acutecomb", "unicodes": [0x301], "width": Fr(0), "components": [], "anchors": [("_top", Fr(0), Fr(500))],
                       "contours": [[(Fr(-30), Fr(520), "line"), (Fr(30 + k), Fr(520), "line"), (Fr(0), Fr(600), "line")]]})
            kern = {("A", "V"): Fr(-40 - 5 * k)}
            if where in ("first-rule", "both"):
                kern[("alpha.heavy", "beta.heavy")] = Fr(-30 - 5 * k)
            if where in ("last-rule", "both"):
                kern[("alpha.light", "beta.light")] = Fr(-20 - 5 * k)
            return {"glyphs": gl, "glyphOrder": [g["name"] for g in gl], "kerning": kern, "groups": {}, "lib": {},
                    "features": "languagesystem DFLT dflt;\nlanguagesystem latn dflt;\nlanguagesystem grek dflt;\n",
                    "info": {"familyName": "Fam", "styleName": "M%d" % k, "unitsPerEm": 1000, "ascender": 800, "descender": -200}}
        masters = [master(1), master(0), master(2)]
        ds, fonts = dsgen.make_designspace(rng, masters, lib, axes=[("Weight", "wght", 100, 400, 900)],
                                           locations=[{"Weight": 400}, {"Weight": 100}, {"Weight": 900}], instances=False)
        for name, lo, hi, suffix in (("heavy", 700, 900, ".heavy"), ("light", 100, 300, ".light")):
            r = RuleDescriptor(); r.name = name
            r.conditionSets = [[{"name": "Weight", "minimum": lo, "maximum": hi}]]
            r.subs = [("alpha", "alpha" + suffix), ("beta", "beta" + suffix)]
            ds.addRule(r)
        case = {"function": fn, "lib": lib, "greek_kerning_on": where, "rules": [[r.name, list(map(list, r.subs))] for r in ds.rules],
                "font": jsonable(masters[0])}
        ctx.count(); ctx.klass("rules: one glyph replaced by two rules / kerning on %s" % where); ctx.nontriv(("rules", i, ctx.scale))
        try:
            tt = getattr(ufo2ft, fn)(ds, useProductionNames=False)
            buf = io.BytesIO(); tt.save(buf); buf.seek(0); tt = TTFont(buf)
        except Exception as e:
            ctx.spec_failure(case, "%s raised %s: %s\n%s" % (fn, type(e).__name__, e, traceback.format_exc()[-1000:]))
            continue
        lay = Layout(tt)
        sc = lay.scripts()
        for t in ("latn", "grek"):
            feats = sc.get(t, {}).get("dflt", [])
            for f in ("kern", "mark"):
                if f not in feats:
                    ctx.spec_failure(case, "declared script %s does not expose the generated %s feature (it has %r)" % (t, f, feats))
        for (a, b), v in masters[0]["kerning"].items():
            t = "latn" if a == "A" else "grek"
            got = lay.pair_adjust(lay.lookups_for(t, {"kern"}), a, b)
            if got[0] != v:
                ctx.spec_failure(dict(case, pair=[a, b]), "pair (%s, %s) = %s of the default master is not applied under script %r (got %r)" % (a, b, v, t, got[:3]))


def master_only_kerning_section(ctx):
    """variable fonts in which a declared script's ONLY kerning is class kerning that the default master does not have (absent
    or 0 there, real values in another master): that script still has glyphs the generated kerning acts on, so it must expose
    kern next to mark / mkmk, and at the other master's location the pair has that master's value"""
    import ufo2ft
    from harness import dsgen
    from fontTools.ttLib import TTFont
    from fontTools.varLib import instancer
    rng = ctx.subrng("master-only-kerning")
    for i in range(ctx.budget(8, 24)):
        lib = ["ufoLib2", "defcon"][i % 2]
        fn = ["compileVariableTTF", "compileVariableCFF2"][(i // 2) % 2]
        in_default = ["absent", "zero"][(i // 4) % 2]
        LET = [("A", 0x41), ("V", 0x56), ("be-cy", 0x431), ("ve-cy", 0x432), ("ghe-cy", 0x433)]

        def master(k):
            gl = [{"name": n, "unicodes": [u], "width": Fr(500 + 20 * k), "components": [], "anchors": [("top", Fr(250), Fr(700 + 5 * k))],
                   "contours": [[(Fr(100), Fr(0), "line"), (Fr(150 + 30 * k), Fr(0), "line"), (Fr(150 + 30 * k), Fr(400), "line"), (Fr(100), Fr(400), "line")]]}
                  for n, u in LET]
            gl.append({"name": "acutecomb", "unicodes": [0x301], "width": Fr(0), "components": [], "anchors": [("_top", Fr(0), Fr(500)), ("top", Fr(0), Fr(650))],
                       "contours": [[(Fr(-30), Fr(520), "line"), (Fr(30 + k), Fr(520), "line"), (Fr(0), Fr(600), "line")]]})
            kern = {("A", "V"): Fr(-40 - 5 * k)}
            if k > 0:
                kern[("public.kern1.be", "public.kern2.ve")] = Fr(-25 * k)
            elif in_default == "zero":
                kern[("public.kern1.be", "public.kern2.ve")] = Fr(0)
            return {"glyphs": gl, "glyphOrder": [g["name"] for g in gl], "kerning": kern,
                    "groups": {"public.kern1.be": ["be-cy"], "public.kern2.ve": ["ve-cy", "ghe-cy"]}, "lib": {},
                    "features": "languagesystem DFLT dflt;\nlanguagesystem latn dflt;\nlanguagesystem cyrl dflt;\n",
                    "info": {"familyName": "Fam", "styleName": "M%d" % k, "unitsPerEm": 1000, "ascender": 800, "descender": -200}}
        masters = [master(0), master(2)]
        ds, fonts = dsgen.make_designspace(rng, masters, lib, instances=False)
        case = {"function": fn, "lib": lib, "cyrillic_class_pair_in_the_default_master": in_default, "masters": [jsonable({k: (v if k != "kerning" else {"%s|%s" % kk: vv for kk, vv in v.items()}) for k, v in m.items()}) for m in masters]}
        ctx.count(); ctx.klass("a script kerned in a non-default master only (%s in the default master)/%s" % (in_default, fn)); ctx.nontriv(("mok", i, ctx.scale))
        try:
            tt = getattr(ufo2ft, fn)(ds, useProductionNames=False)
            buf = io.BytesIO(); tt.save(buf)
        except Exception as e:
            ctx.spec_failure(case, "%s raised %s: %s\n%s" % (fn, type(e).__name__, e, traceback.format_exc()[-1000:]))
            continue
        lay = Layout(TTFont(io.BytesIO(buf.getvalue())))
        sc = lay.scripts()
        bad = False
        for t in ("latn", "cyrl"):
            feats = sc.get(t, {}).get("dflt", [])
            for f in ("kern", "mark", "mkmk"):
                if f not in feats:
                    ctx.spec_failure(dict(case, script=t), "declared script %s, whose glyphs are kerned in the last master, does not expose the generated %s feature (it has %r)" % (t, f, feats))
                    bad = True
        if bad:
            continue
        inst = instancer.instantiateVariableFont(TTFont(io.BytesIO(buf.getvalue())), {"wght": 900})
        b2 = io.BytesIO(); inst.save(b2)
        l2 = Layout(TTFont(io.BytesIO(b2.getvalue())))
        for a, b, want in (("be-cy", "ve-cy", -50), ("be-cy", "ghe-cy", -50)):
            got = l2.pair_adjust(l2.lookups_for("cyrl", {"kern"}), a, b)
            if got[0] != want:
                ctx.spec_failure(dict(case, pair=[a, b]), "at the last master's location the pair (%s, %s) is adjusted by %r under cyrl; that master's kerning says %d" % (a, b, got[:3], want))


def cross_script_section(ctx):
    """kerning pairs BETWEEN scripts, linking three to five declared left-to-right scripts into chains (some scripts kerned only
    across scripts): every script of a pair's glyphs must reach, from its default language system, a generated kern lookup that
    applies the pair's value -- and, as everywhere, mark positioning too"""
    import ufo2ft
    from fontTools.ttLib import TTFont
    rng = ctx.subrng("cross-script")
    POOL = {"latn": [("A", 0x41), ("V", 0x56)], "cyrl": [("a-cy", 0x430), ("be-cy", 0x431)], "grek": [("alpha", 0x3B1), ("beta", 0x3B2)],
            "armn": [("ayb-arm", 0x561), ("ben-arm", 0x562)], "geor": [("an-georgian", 0x10D0), ("ban-georgian", 0x10D1)],
            # OpenType tags shorter than four letters are space-padded ("lao ", "nko " is right-to-left and left out here)
            "lao ": [("ko-lao", 0xE81), ("khosung-lao", 0xE82)], "vai ": [("e-vai", 0xA500), ("een-vai", 0xA501)],
            # scripts encoded beyond the Basic Multilingual Plane (only the format-12 cmap subtables carry their code points)
            "dsrt": [("longi-deseret", 0x10400), ("longe-deseret", 0x10401)], "osge": [("a-osage", 0x104B0), ("ai-osage", 0x104B1)]}
    LANGS = {"latn": "TRK ", "cyrl": "SRB ", "grek": "PGR ", "lao ": "LAO ", "vai ": "VAI "}
    for i in range(ctx.budget(24, 120)):
        tags = rng.sample(list(POOL), rng.randint(3, 5))
        if i % 4 == 1 and not {"dsrt", "osge"} & set(tags):
            tags[-1] = ["dsrt", "osge"][(i // 4) % 2]        # every fourth font has a supplementary-plane script
        script_of, glyphs = {}, []
        for t in tags:
            for n, u in POOL[t]:
                script_of[n] = t
                glyphs.append({"name": n, "unicodes": [u], "width": 500, "anchors": [("top", Fr(250), Fr(700))], "contours": []})
        glyphs.append({"name": "acutecomb", "unicodes": [0x301], "width": 0, "contours": [], "anchors": [("_top", Fr(0), Fr(500))]})
        # links: a spanning chain (or tree) over the scripts, listed in random order; own-script pairs for some scripts only
        links = [(tags[k], tags[k + 1]) for k in range(len(tags) - 1)] if i % 3 else [(tags[rng.randrange(k)], tags[k]) for k in range(1, len(tags))]
        rng.shuffle(links)
        pairs = []
        for k, (s1, s2) in enumerate(links):
            if rng.random() < 0.5:
                s1, s2 = s2, s1
            pairs.append(((POOL[s1][k % 2][0], POOL[s2][(k + 1) % 2][0]), Fr(-10 - 3 * k)))
            if rng.random() < 0.5:
                pairs.append(((POOL[s1][(k + 1) % 2][0], POOL[s2][k % 2][0]), Fr(-11 - 3 * k)))
        for t in tags:
            if rng.random() < 0.5:
                pairs.append(((POOL[t][0][0], POOL[t][1][0]), Fr(-40)))
        rng.shuffle(pairs)
        ls = [("DFLT", "dflt")] + [(t, "dflt") for t in tags]
        # named language systems for some of the scripts: each must expose what the script's default one does
        ls += [(t, LANGS[t]) for k, t in enumerate(tags) if t in LANGS and (i + k) % 2 == 0]
        if i % 3 == 1:
            # a script's named language declared BEFORE its default one (only "DFLT dflt" has to come first), and one more
            # named language per script after it
            named = [(t, lg) for t, lg in ls if lg != "dflt"]
            if not named:
                named = [(t, LANGS[t]) for t in tags if t in LANGS][:1]
            ls = [("DFLT", "dflt")] + named + [(t, "dflt") for t in tags] + [(t, "ZZZ ") for t, _ in named[:1]]
            ctx.klass("cross-script: named language declared before the script's default")
        desc = {"glyphs": glyphs, "kerning": dict(pairs), "features": "".join("languagesystem %s %s;\n" % sl for sl in ls)}
        lib = ["ufoLib2", "defcon"][i % 2]
        case = {"font": jsonable(dict(desc, kerning={"%s|%s" % k: v for k, v in desc["kerning"].items()})), "lib": lib,
                "links": links, "level": "cross-script kerning chains"}
        ctx.count(); ctx.klass("cross-script: %d scripts, %s" % (len(tags), "chain" if i % 3 else "tree")); ctx.nontriv(("xs", i, ctx.scale))
        try:
            tt = (ufo2ft.compileTTF if i % 4 else ufo2ft.compileOTF)(build_font(desc, lib), useProductionNames=False)
            buf = io.BytesIO(); tt.save(buf); buf.seek(0); tt = TTFont(buf)
        except Exception as e:
            ctx.spec_failure(case, "compile raised %s: %s\n%s" % (type(e).__name__, e, traceback.format_exc()[-1200:]))
            continue
        lay = Layout(tt)
        sc = lay.scripts()
        bad = None
        for t in tags:
            feats = sc.get(t, {}).get("dflt", [])
            for f in ("kern", "mark"):
                if f not in feats:
                    bad = bad or "declared script %s (kerned%s) does not expose the generated %s feature: %r" % (
                        t, "" if any(script_of[a] == script_of[b] == t for (a, b), _ in pairs) else " only across scripts", f, feats)
        for t, lg in ls:
            if t != "DFLT" and lg != "dflt":
                feats = sc.get(t, {}).get(lg)
                if feats is None or "kern" not in feats or "mark" not in feats:
                    bad = bad or "declared language system %r/%r does not expose the generated kern and mark features: %r" % (t, lg, feats)
        for (a, b), v in desc["kerning"].items():
            for t in {script_of[a], script_of[b]}:
                for lg in ["dflt"] + [l for tt_, l in ls if tt_ == t and l != "dflt"]:
                    got = lay.pair_adjust(lay.lookups_for(t, {"kern", "dist"}, lang=lg), a, b)
                    if got[0] != v:
                        bad = bad or "pair (%s, %s) = %s is not applied under script %r language %r (got %r)" % (a, b, v, t, lg, got[:3])
        if bad:
            ctx.spec_failure(case, bad)


def declared_tag_section(ctx):
    """declared script tags of every kind -- the tag fontTools derives from the Unicode script (grek), an older tag of the same
    script (deva next to no dev2), a tag whose characters belong to another tag's script (jamo: Hang), tags that belong to no
    Unicode script at all (musc, byzm), a tag nobody knows (zzzq): each has a record in GPOS because the mark feature is
    registered for every declared script, and from each the kerning between script-neutral glyphs (which occur in runs of
    every script) is reachable and applies the UFO value"""
    import ufo2ft
    from fontTools.ttLib import TTFont
    TAGS = [("grek", [("alpha", 0x3B1)]), ("deva", [("ka-deva", 0x915)]), ("jamo", [("kiyeok-jamo", 0x1100)]), ("musc", [("gclef", 0x1D11E)]),
            ("byzm", [("psili-byz", 0x1D000)]), ("zzzq", [("a", 0x61)]), ("math", [("Abold-math", 0x1D400)]), ("kana", [("a-kata", 0x30A2)])]
    for i in range(ctx.budget(2 * len(TAGS), 4 * len(TAGS))):
        tag, letters = TAGS[i % len(TAGS)]
        lib = ["ufoLib2", "defcon"][(i // len(TAGS)) % 2]
        flavor = ["ttf", "otf"][(i // (2 * len(TAGS))) % 2]
        glyphs = [{"name": n, "unicodes": [u], "width": 500, "contours": [], "anchors": [("top", Fr(250), Fr(600))] if a else []}
                  for n, u, a in [("A", 0x41, True), ("V", 0x56, False), ("period", 0x2E, False), ("quotesingle", 0x27, False), ("one", 0x31, False)]
                  + [(n, u, True) for n, u in letters]]
        glyphs.append({"name": "acutecomb", "unicodes": [0x301], "width": 0, "contours": [], "anchors": [("_top", Fr(0), Fr(480))]})
        names = [g["name"] for g in glyphs]
        kerning = {("A", "V"): Fr(-40), ("period", "quotesingle"): Fr(-55), ("one", "period"): Fr(12)}
        desc = {"glyphs": glyphs, "glyphOrder": names, "kerning": kerning,
                "features": "languagesystem DFLT dflt;\nlanguagesystem latn dflt;\nlanguagesystem %s dflt;\n" % tag,
                "lib": {"public.openTypeCategories": dict({n: "base" for n in names}, acutecomb="mark")}}
        case = {"font": jsonable(dict(desc, kerning={"%s|%s" % k: v for k, v in kerning.items()})), "lib": lib, "flavor": flavor, "declared_tag": tag,
                "level": "declared script tags of every kind"}
        ctx.count(); ctx.klass("declared tag %s" % tag); ctx.nontriv(("dtag", i, ctx.scale))
        try:
            tt = (ufo2ft.compileTTF if flavor == "ttf" else ufo2ft.compileOTF)(build_font(desc, lib), useProductionNames=False)
            buf = io.BytesIO(); tt.save(buf); buf.seek(0); tt = TTFont(buf)
        except Exception as e:
            ctx.spec_failure(case, "compile raised %s: %s\n%s" % (type(e).__name__, e, traceback.format_exc()[-1200:]))
            continue
        lay = Layout(tt)
        sc = lay.scripts()
        for t in ("DFLT", "latn", tag):
            if t not in sc:
                continue                    # (no record of its own: the shaper takes DFLT's)
            feats = sc[t].get("dflt", [])
            if "mark" in feats and not ({"kern", "dist"} & set(feats)):
                ctx.spec_failure(dict(case, script=t, features=feats), "script %s exposes the generated mark feature but no generated kerning (%r), "
                                 "although the font kerns script-neutral glyphs" % (t, feats))
                continue
            lk = lay.lookups_for(t, {"kern", "dist"})
            for (a, c), v in (("period", "quotesingle"), -55), (("one", "period"), 12):
                got = lay.pair_adjust(lk, a, c)[0]
                if got != v:
                    ctx.spec_failure(dict(case, script=t, pair=[a, c]), "under %s the pair (%s, %s) of script-neutral glyphs is adjusted by %r, the UFO says %r" % (t, a, c, got, v))


def marker_context_section(ctx):
    """a hand-written kern feature with the marker in the MIDDLE, whose rules before the marker stand under script / language
    statements (a language of an EARLIER script, then another script): the compiled GPOS has exactly the declared language
    systems, and each exposes the generated mark feature next to the kerning"""
    import ufo2ft
    from fontTools.ttLib import TTFont
    VARIANTS = [("script latn; language SRB; pos A V -10; script cyrl; pos a-cy be-cy -20;", [("latn", "SRB "), ("cyrl", "dflt")]),
                ("script cyrl; language SRB; pos a-cy be-cy -20; script latn; pos A V -10;", [("cyrl", "SRB "), ("latn", "dflt")]),
                ("script latn; language SRB; pos A V -10; language dflt; script cyrl; language dflt; pos a-cy be-cy -20;", [("latn", "SRB "), ("cyrl", "dflt")])]
    for i in range(ctx.budget(2 * len(VARIANTS), 4 * len(VARIANTS))):
        body, extra_ls = VARIANTS[i % len(VARIANTS)]
        lib = ["ufoLib2", "defcon"][(i // len(VARIANTS)) % 2]
        flavor = ["ttf", "otf"][(i // (2 * len(VARIANTS))) % 2]
        glyphs = [{"name": n, "unicodes": [u], "width": 500, "contours": [], "anchors": [("top", Fr(250), Fr(600))]}
                  for n, u in (("A", 0x41), ("V", 0x56), ("a-cy", 0x430), ("be-cy", 0x431))]
        glyphs.append({"name": "acutecomb", "unicodes": [0x301], "width": 0, "contours": [], "anchors": [("_top", Fr(0), Fr(480))]})
        declared = [("DFLT", "dflt"), ("latn", "dflt"), ("cyrl", "dflt")] + [ls for ls in extra_ls if ls[1] != "dflt"]
        fea = "".join("languagesystem %s %s;\n" % ls for ls in declared) + "feature kern {\n    %s\n    # Automatic Code\n    pos V A -30;\n} kern;\n" % body
        desc = {"glyphs": glyphs, "kerning": {("A", "V"): Fr(-40), ("a-cy", "be-cy"): Fr(-15)}, "features": fea,
                "lib": {"public.openTypeCategories": {"A": "base", "V": "base", "a-cy": "base", "be-cy": "base", "acutecomb": "mark"}}}
        case = {"font": jsonable(dict(desc, kerning={"%s|%s" % k: v for k, v in desc["kerning"].items()})), "lib": lib, "flavor": flavor,
                "level": "marker in the middle of a hand-written kern feature with script / language statements"}
        ctx.count(); ctx.klass("marker under script/language statements: variant %d" % (i % len(VARIANTS))); ctx.nontriv(("mctx", i, ctx.scale))
        try:
            tt = (ufo2ft.compileTTF if flavor == "ttf" else ufo2ft.compileOTF)(build_font(desc, lib), useProductionNames=False)
            buf = io.BytesIO(); tt.save(buf); buf.seek(0); tt = TTFont(buf)
        except Exception as e:
            ctx.spec_failure(case, "compile raised %s: %s\n%s" % (type(e).__name__, e, traceback.format_exc()[-1200:]))
            continue
        sc = Layout(tt).scripts()
        got = sorted((t, lg) for t, langs in sc.items() for lg in langs)
        want = sorted((t, lg if lg == "dflt" else lg.ljust(4)) for t, lg in declared)
        if got != want:
            ctx.spec_failure(dict(case, language_systems=got), "the compiled GPOS has the language systems %r; the feature file declares %r" % (got, want))
        for t, langs in sc.items():
            for lg, feats in langs.items():
                if ("kern" in feats) != ("mark" in feats):
                    ctx.spec_failure(dict(case, script=t, language=lg, features=feats), "language system %s/%s exposes %r: the generated kern and mark features go together" % (t, lg.strip(), feats))


def explore(ctx):
    marker_context_section(ctx)
    declared_tag_section(ctx)
    lookup_refs_section(ctx)
    rules_section(ctx)
    master_only_kerning_section(ctx)
    cross_script_section(ctx)
    import ufo2ft
    from fontTools.ttLib import TTFont
    rng = ctx.subrng("reach")
    cases, meta = [], []
    for i in range(ctx.budget(60, 400)):
        desc = gen(rng, unkerned_extra=(i % 6 == 3), ambiguous_extra=(i % 6 == 5))
        if i % 6 == 5:
            ctx.klass("an undeclared right-to-left script kerned against digits only")
        lib = rng.choice(["ufoLib2", "defcon"])
        case = {"font": jsonable({k: (v if k != "kerning" else {"%s|%s" % kk: vv for kk, vv in v.items()}) for k, v in desc.items()}), "lib": lib}
        try:
            tt = ufo2ft.compileTTF(build_font(desc, lib), useProductionNames=False)
            buf = io.BytesIO(); tt.save(buf); buf.seek(0); tt = TTFont(buf)
        except Exception as e:
            ctx.spec_failure(case, "compile raised %s: %s\n%s" % (type(e).__name__, e, traceback.format_exc()[-1200:]))
            continue
        lay = Layout(tt)
        sc = lay.scripts()
        obs = [(t, [f for f in langs.get("dflt", []) if f in GEN]) for t, langs in sc.items()]
        present = sorted({f for _, fs in obs for f in fs})
        plain = [f for f in present if f not in ("kern", "dist")]
        kern_tags = [t for t, fs in obs if "kern" in fs]
        dist_tags = [t for t, fs in obs if "dist" in fs]
        g_i = "(mkRI %s %s %s %s)" % (
            G.lst([G.tup(G.s(a), G.s(b)) for a, b in desc["languagesystems"]], "(str * str)"),
            G.lst([G.s(t) for t in kern_tags], "str"), G.lst([G.s(t) for t in dist_tags], "str"),
            G.lst([G.s(f) for f in plain], "str"))
        g_obs = G.lst([G.tup(G.s(t), G.lst([G.s(f) for f in fs], "str")) for t, fs in obs], "(str * list str)")
        cases.append((g_i, g_obs))
        meta.append(dict(case, observed={t: fs for t, fs in obs}, plain=plain))
        # every language system of a script exposes the same generated features as that script's default one
        # (judged where the default one is complete: the incomplete default is what the Coq predicate / F6 are about)
        for t, langs in sc.items():
            dset = set(f for f in langs.get("dflt", []) if f in GEN)
            for lg, fs in langs.items():
                if lg != "dflt" and set(f for f in fs if f in GEN) != dset:
                    ctx.spec_failure(dict(case, script=t, language=lg, default=sorted(dset), this=sorted(set(fs) & set(GEN))),
                                     "language system %s/%s exposes generated features %r, the script's default language system %r" % (
                                         t, lg.strip(), sorted(set(fs) & set(GEN)), sorted(dset)))
        ctx.count()
        ctx.klass("languagesystems:" + desc["mode"])
        if desc["lib"]:
            ctx.klass("non-exported glyph of another script + multi-script glyph in kerning")
        if plain and kern_tags and len(obs) > 1:
            ctx.nontriv(("r", i, ctx.scale))
    vals = ctx.coq_eval(IMPORTS, FN, [G.tup(a, b) for a, b in cases], chunk=60, tag="Reach")
    for v, (gi, go), case in zip(vals, cases, meta):
        if v is None:
            continue
        if not v & 2:
            declared = {s for s, l in (case["font"]["languagesystems"] or [["DFLT", "dflt"]]) if l == "dflt"}
            missing = [(t, f) for t, fs in case["observed"].items() if ("kern" in fs or "dist" in fs)
                       for f in case["plain"] if f not in fs]
            # F6 is about scripts of the font's own (exported) glyphs that no languagesystem statement names; a script
            # that no exported glyph belongs to must not be registered at all
            exported = set(case["font"]["exported_script_tags"]) | {"DFLT"}
            # ... and that have kerning pairs of their OWN (that is why the kern block names them); a script without any
            # kerning of its own has no business in the kern block
            kerned = set(case["font"].get("kerned_script_tags", exported)) | {"DFLT"}
            undeclared = [m for m in missing if m[0] not in declared and m[0] in exported and m[0] in kerned]
            real = [m for m in missing if m[0] in declared or m[0] not in exported or m[0] not in kerned]
            if real or not missing:
                ctx.spec_failure(dict(case, missing=real or "spec false"), "script(s) declared by languagesystem lack generated features: %r" % (real,))
            else:
                ctx.spec_failure(dict(case, missing=undeclared),
                                 "scripts registered only by the generated kern/dist block lack %r" % (undeclared[:4],), signature=F6_SIG)
        elif not v & 1:
            ctx.corr_mismatch(case, "model script list differs from the compiled ScriptList")
        if not v & 1 and not v & 2:
            ctx.corr_mismatch(case, "model script list differs from the compiled ScriptList")
    if meta:
        ctx.sample({"languagesystems": meta[0]["font"]["languagesystems"], "observed": meta[0]["observed"]})
