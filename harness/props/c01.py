"""C01 -- CFF outlines and advances equal the source with components resolved."""
import io, traceback
from fractions import Fraction as Fr
from harness import gterm as G, geom
from harness.fonts import build_font, gen_component_font, jsonable, number_range_error

PID = "C01"
LEVEL_TEXT = ("Proof: Coq theorems, for all glyph sets / component depths / non-singular affine transforms, that the pen chain "
              "ufo2ft drives (flat decomposition with composed matrices, reversal by sign of the composed determinant) equals the "
              "nested resolved outline as a list of contours (nothing lost, duplicated, reordered); reversal is an involution "
              "commuting with affine maps; det is multiplicative; otRound is nearest-integer-halves-up; and the DecomposeComponentsFilter "
              "pass as BaseFilter drives it -- glyph by glyph, IN PLACE, in ANY visiting order -- raises nothing, keeps widths/anchors "
              "and leaves every visited glyph flat with exactly its nested resolved outline (invariant over the fold). Tied to /repo by "
              "correspondence at two levels: OTFPreProcessor's glyph set vs the Gallina in-place pass run in the visiting order observed on "
              "the real filter (exact rationals, point level; this also pins the behaviour for singular matrices, where the order matters) "
              "and compiled CFF/CFF2 outlines + hmtx vs the rounded model; the nested spec `resolve` is evaluated in Coq on the "
              "implementation's output; quadratic glyphs are additionally checked against an independent segment-level reference."
              " The list of default filters of the CFF pre-processor is NOT hand-modelled: OTFPreProcessor.initDefaultFilters is translated from /repo's current source into Gallina on every run (harness/pipeline_from_source.py -> Generated/Pipelines.v, fail-closed) and proved, for all option values, to be 'colour layers (colour fonts), decompose every composite, remove overlaps exactly when asked' -- naming an overlap backend alone changes nothing; the translation is compared with the real pre-processor objects over all option combinations.")
LEVEL_NOTE = ("Trusted: Coq kernel; hand-written model of fontTools' DecomposingFilterPointPen/TransformPointPen/ReverseContourPointPen "
              "and T2CharStringPen rounding (validated by correspondence only); exact-rational arithmetic on dyadic inputs stands for "
              "IEEE doubles; charstring encode/decode, specialiser and subroutinisers are environment (C12). Theorems cover closed "
              "well-formed contours and non-singular component matrices; open contours and singular matrices are only exercised by "
              "the correspondence run.")
TECHNIQUE = "Coq proof (decompose = resolve for all glyph sets) + vm_compute correspondence of model/spec against OTFPreProcessor and compiled CFF"
IMPORTS = "From U2F Require Import Base.Prelude Geometry.Model Geometry.Cff."
RULE = ("random component DAGs (3-12 glyphs quick, up to 40 thorough; depth <= 4/6; shared bases; matrices from identity/scale/"
        "non-uniform/shear/rot90/mirror-x/mirror-y/point-reflection/mirror+scale/general; coordinates from integers, x.5, quarters, "
        "64ths, negatives, +-16000; line/cubic/quadratic contours starting on or off curve; widths incl. x.5) x both UFO libraries x "
        "roundTolerance {None,0,0.25,0.5} x cffVersion {1,2} x optimizeCFF {0,1,2}. Non-trivial = the font has a component whose "
        "matrix is not the identity 2x2; distinct by generated content."
        " A third of the compiled cases carry outline-preserving lib pre-filters (flattenComponents, decomposeTransformedComponents, propagateAnchors).")
ASSUMPTIONS = ["IEEE-double evaluation of the affine maps is exact on the generated dyadic inputs",
               "fontTools charstring compile/decompile returns the absolute rounded points it was given"]
TRUSTED_EXTRA = ["harness/geom.py segment-level reference renderer (independent restatement used for quadratic glyphs)"]

FN_STRUCT = "fun c : ((glyphset * list str) * list (str * list contour)) => c01_struct (fst (fst c)) (snd (fst c)) (snd c)"
FN_SEM = "fun c : (Qc * glyphset * list (str * (list contour * Z))) => c01_sem (fst (fst c)) (snd (fst c)) (snd c)"


def nontrivial(desc):
    return any(tuple(t[:4]) != (1, 0, 0, 1) for g in desc["glyphs"] for _, t in g["components"])


def has_q(desc, name, seen=None):
    by = {g["name"]: g for g in desc["glyphs"]}
    seen = seen or set()
    if name in seen:
        return False
    seen.add(name)
    g = by[name]
    if any(p[2] == "qcurve" or all(q[2] == "off" for q in c) for c in g["contours"] for p in c):
        return True
    return any(has_q(desc, b, seen) for b, _ in g["components"])


def degenerate(segs):
    """consecutive coincident on-curve points (zero-length segments) make the start point ambiguous"""
    for s in segs:
        if s[0] != "closed":
            return True
        pts = [s[1]] + [sg[-1] for sg in s[2]]
        if any(pts[i] == pts[i + 1] for i in range(len(pts) - 1)) or len(s[2]) < 2:
            return True
    return False


def flat(s):
    kind, start, segs, _ = s
    out = [start]
    shape = [kind]
    for sg in segs:
        shape.append((sg[0], len(sg[1]) if sg[0] != "line" else 0))
        if sg[0] != "line":
            out.extend(sg[1])
        out.append(sg[-1])
    return shape, out


def approx_same(ref, got, eps):
    """same segment structure (same start: no rounding happened that could merge points) and every
    coordinate within eps"""
    if len(ref) != len(got):
        return False
    for a, b in zip(ref, got):
        sb, pb = flat(b)
        ok = False
        kind, start, segs, _ = a
        for i in range(len(segs)):       # the start point of a closed contour is immaterial
            rot = (kind, segs[i - 1][-1], segs[i:] + segs[:i], ())
            sa, pa = flat(rot)
            if sa == sb and len(pa) == len(pb) and all(
                    abs(x[0] - y[0]) <= eps and abs(x[1] - y[1]) <= eps for x, y in zip(pa, pb)):
                ok = True
                break
        if not ok:
            return False
    return True


def approx_same_perm(ref, got, eps):
    """approx_same up to the order of the contours (folding a non-exported component into its user moves the folded contours
    in front of the remaining components: C13)"""
    if len(ref) != len(got):
        return False
    rest = list(got)
    for a in ref:
        hit = next((k for k, b in enumerate(rest) if approx_same([a], [b], eps)), None)
        if hit is None:
            return False
        rest.pop(hit)
    return True


def renamed_section(ctx):
    """production names (renaming through public.postscriptNames: plain, swapping two names, chains, two glyphs colliding on one
    name with a later glyph literally carrying the de-duplicated name) must not move outlines or advances between glyphs:
    judged by glyph INDEX -- glyph k of the compiled CFF / CFF2 font draws the resolved outline of source glyph k"""
    import ufo2ft
    from fontTools.ttLib import TTFont
    rng = ctx.subrng("renamed")
    for i in range(ctx.budget(10, 60)):
        desc = gen_component_font(rng, n=rng.randint(4, 7), max_depth=2, widths="int")
        for g in desc["glyphs"]:
            g["contours"] = [[(Fr(round(x)), Fr(round(y)), t) for x, y, t in c] for c in g["contours"]]
            g["components"] = [(b, tuple(t[:4]) + (Fr(round(t[4])), Fr(round(t[5])))) for b, t in g["components"]]
        names = [g["name"] for g in desc["glyphs"]]
        a, b, c = names[0], names[1], names[2]
        kind = ["collide-late", "swap", "chain", "collide", "plain"][i % 5]
        ps = {"swap": {a: b, b: a}, "chain": {a: b, b: c, c: "glyph.c"}, "plain": {a: "uni0041.x", b: "glyph00002"},
              "collide": {a: "dup", b: "dup"}, "collide-late": {a: "dup", b: "dup", c: "dup.1"}}[kind]
        desc["glyphOrder"] = list(names)
        desc["lib"] = {"public.postscriptNames": ps}
        ver = [1, 2][(i // 5) % 2]
        lib = ["ufoLib2", "defcon"][i % 2]
        case = {"font": jsonable(desc), "lib": lib, "options": {"cffVersion": ver, "useProductionNames": True}, "rename_kind": kind, "level": "renamed"}
        ctx.count(); ctx.klass("sem:renamed:%s/cff%d" % (kind, ver)); ctx.nontriv(("ren", i, ctx.scale))
        try:
            tt = ufo2ft.compileOTF(build_font(desc, lib), cffVersion=ver)
            buf = io.BytesIO(); tt.save(buf); buf.seek(0); tt = TTFont(buf)
        except Exception as e:
            ctx.spec_failure(case, "compileOTF raised %s: %s\n%s" % (type(e).__name__, e, traceback.format_exc()[-1200:]))
            continue
        order = tt.getGlyphOrder()
        gs = tt.getGlyphSet()
        by = {g["name"]: g for g in desc["glyphs"]}
        if len(order) != len(names) + 1:
            ctx.spec_failure(case, "glyph count %d, expected %d" % (len(order), len(names) + 1))
            continue
        for k, g in enumerate(desc["glyphs"]):
            final = order[k + 1]
            try:
                ref = [geom.round_segments(geom.elevate(sg, inexact_guard=True), Fr(1, 2)) for sg in geom.ref_resolve(by, g["name"])]
            except geom.NearHalf:
                continue
            if degenerate(ref):
                continue
            got = geom.recorded_to_segments(geom.drawn_segments(gs[final]))
            norm = lambda ss: [geom.cyc_canon(geom.merge_axis_lines(x)) for x in ss]
            if norm(ref) != norm(got):
                ctx.spec_failure(dict(case, glyph_index=k + 1, source_glyph=g["name"], final_name=final),
                                 "glyph #%d (source %r, final name %r) does not draw its own resolved source outline" % (k + 1, g["name"], final))
                break
            if tt["hmtx"][final][0] != geom.ot_round(g["width"]):
                ctx.spec_failure(dict(case, glyph_index=k + 1, source_glyph=g["name"]), "advance of glyph #%d is %r, source width %s" % (
                    k + 1, tt["hmtx"][final][0], g["width"]))
                break


def designspace_section(ctx):
    """the designspace entry points for CFF outlines (compileInterpolatableOTFsFromDS, compileVariableCFF2): with an explicit
    roundTolerance below 1/2 every master's outlines -- and the variable font's default outlines -- stay within that tolerance
    of the resolved source (fractional coordinates and component offsets), exactly as compileOTF does it"""
    import ufo2ft
    from fontTools.ttLib import TTFont
    from harness import dsgen
    rng = ctx.subrng("designspace-otf")
    for i in range(ctx.budget(6, 30)):
        lib = ["ufoLib2", "defcon"][i % 2]
        tol_opt = [0, 0, 0.25][i % 3]
        tol = Fr(tol_opt)
        base = dsgen.base_master(rng, kinds=("line", "curve"), max_depth=2, int_coords=False, anchors=False,
                                 classes=["identity", "scale", "mirror_x"])
        for g in base["glyphs"]:       # halves and quarters: every coordinate sits well away from an integer
            g["contours"] = [[(Fr(round(x)) + Fr(rng.choice([1, 2, 3]), 4), Fr(round(y)) + Fr(rng.choice([1, 2, 3]), 4), t) for x, y, t in c] for c in g["contours"]]
            g["components"] = [(b, tuple(t[:4]) + (Fr(round(t[4])) + Fr(1, 2), Fr(round(t[5])) + Fr(1, 4))) for b, t in g["components"]]
        masters = [base, dsgen.perturb(rng, base, 1)]
        how = ["compileInterpolatableOTFsFromDS", "compileVariableCFF2"][(i // 3) % 2]
        plain = [g for g in masters[1]["glyphs"] if g["contours"] and not g["components"]]
        if how == "compileInterpolatableOTFsFromDS" and i % 3 == 1 and len(plain) >= 2:
            # a glyph drawn with contours in the first master is a MIRRORED component of another glyph in the last one (the
            # masters of this function need not be compatible: each is judged against its own source)
            plain[0]["contours"] = []
            plain[0]["components"] = [(plain[1]["name"], (Fr(-1), Fr(0), Fr(0), Fr(1), Fr(700) + Fr(1, 2), Fr(1, 4)))]
            ctx.klass("sem:designspace: contours in one master, mirrored component in the other")
        flat_pre = i % 3 == 2
        if flat_pre:
            # flattenComponents asked for as a PRE-filter by the masters' libs (it has no option of its own on the CFF paths):
            # nested components are folded with each master's OWN inner offsets
            for k_, m_ in enumerate(masters):
                m_.setdefault("lib", {})["com.github.googlei18n.ufo2ft.filters"] = [{"name": "flattenComponents", "pre": True}]
                leaf = next((g for g in m_["glyphs"] if g["contours"] and not g["components"]), None)
                if leaf is not None:
                    # always: a composite of a composite whose INNER offset differs from master to master
                    one_ = (Fr(1), Fr(0), Fr(0), Fr(1))
                    m_["glyphs"] = [g for g in m_["glyphs"] if g["name"] not in ("nest.inner", "nest.outer")] + [
                        {"name": "nest.inner", "unicodes": [], "width": Fr(500), "contours": [], "anchors": [],
                         "components": [(leaf["name"], one_ + (Fr(20 + 40 * k_) + Fr(1, 2), Fr(32 + 10 * k_) + Fr(1, 4)))]},
                        {"name": "nest.outer", "unicodes": [], "width": Fr(600), "contours": [], "anchors": [],
                         "components": [("nest.inner", one_ + (Fr(7) + Fr(1, 2), Fr(3) + Fr(1, 4))), (leaf["name"], one_ + (Fr(300) + Fr(1, 2), Fr(1, 4)))]}]
                    if m_.get("glyphOrder"):
                        m_["glyphOrder"] = [g["name"] for g in m_["glyphs"]]
            ctx.klass("sem:designspace: flattenComponents as a pre-filter from the lib")
        case = {"function": how, "options": {"roundTolerance": tol_opt}, "lib": lib, "font": jsonable(base), "last_master": jsonable(masters[1]),
                "flatten_pre_filter": flat_pre, "level": "designspace CFF"}
        ctx.count(); ctx.klass("sem:designspace:%s/tol=%s" % (how, tol_opt)); ctx.nontriv(("ds", i, ctx.scale))
        try:
            ds, fonts = dsgen.make_designspace(rng, masters, lib, instances=False)
            if how == "compileInterpolatableOTFsFromDS":
                outs = [(k, sd.font) for k, sd in enumerate(ufo2ft.compileInterpolatableOTFsFromDS(ds, roundTolerance=tol_opt, useProductionNames=False).sources)]
            else:
                outs = [(0, ufo2ft.compileVariableCFF2(ds, roundTolerance=tol_opt, useProductionNames=False))]
        except Exception as e:
            ctx.spec_failure(case, "%s raised %s: %s\n%s" % (how, type(e).__name__, e, traceback.format_exc()[-1200:]))
            continue
        for k, tt in outs:
            buf = io.BytesIO(); tt.save(buf); buf.seek(0); tt = TTFont(buf)
            gs = tt.getGlyphSet()
            by = {g["name"]: g for g in masters[k]["glyphs"]}
            bad = None
            for g in masters[k]["glyphs"]:
                try:
                    exact = [geom.elevate(sg, inexact_guard=False) for sg in geom.ref_resolve(by, g["name"])]
                except geom.NearHalf:
                    continue
                if degenerate(exact) or any(abs(v) > 16000 for sgm in exact for pt in flat(sgm)[1] for v in pt):
                    continue
                got = geom.recorded_to_segments(geom.drawn_segments(gs[g["name"]]), snap_eps=Fr(1, 2))
                npts = sum(len(flat(sgm)[1]) for sgm in exact)
                if not approx_same(exact, got, tol + Fr(1, 10) + Fr(npts, 150)):
                    bad = g["name"]
                    break
            if bad:
                ctx.spec_failure(dict(case, master=k, glyph=bad), "master %d: outline of %r moved by more than roundTolerance %s from the resolved source outline" % (k, bad, tol))
                break


def color_layer_section(ctx):
    """colour fonts built from colour LAYERS: the layer's glyphs are exported as `<name>.<layer>` alternates, and a composite of
    the layer refers to the LAYER's glyph of that name, not the default layer's.  Two composites of one layer share a base whose
    layer outline differs from the default layer's; every alternate's CFF outline is the layer glyph resolved within the layer"""
    import ufo2ft
    from fontTools.ttLib import TTFont
    from fontTools.pens.recordingPen import RecordingPen
    PAL, MAP = "com.github.googlei18n.ufo2ft.colorPalettes", "com.github.googlei18n.ufo2ft.colorLayerMapping"

    def box(glyph, x0, y0, x1, y1):
        pen = glyph.getPen(); pen.moveTo((x0, y0)); pen.lineTo((x1, y0)); pen.lineTo((x1, y1)); pen.lineTo((x0, y1)); pen.closePath()
    for i in range(ctx.budget(4, 8)):
        lib = ["ufoLib2", "defcon"][i % 2]
        ver = [1, 2][(i // 2) % 2]
        desc = {"glyphs": [{"name": n, "unicodes": [u], "width": 600, "contours": [], "components": [], "anchors": []}
                           for n, u in (("a", 0x61), ("acute", 0xB4), ("grave", 0x60), ("aacute", 0xE1), ("agrave", 0xE0))],
                "glyphOrder": ["a", "acute", "grave", "aacute", "agrave"], "lib": {PAL: [[(1.0, 0.0, 0.0, 1.0)]]}}
        case = {"font": jsonable(desc), "lib": lib, "options": {"cffVersion": ver}, "level": "colour layers",
                "layer_color1": "a = box(100,0,400,300); aacute = a + acute@(0,350); agrave = a + grave@(0,350) (the default layer's a is box(50,0,550,500))"}
        ctx.count(); ctx.klass("sem:colour layers/cff%d" % ver); ctx.nontriv(("col", i, ctx.scale))
        try:
            font = build_font(desc, lib)
            for n, b in (("a", (50, 0, 550, 500)), ("acute", (200, 520, 300, 600)), ("grave", (250, 520, 350, 600))):
                box(font[n], *b)
            for n, m_ in (("aacute", "acute"), ("agrave", "grave")):
                font[n].getPen().addComponent("a", (1, 0, 0, 1, 0, 0)); font[n].getPen().addComponent(m_, (1, 0, 0, 1, 0, 0))
            layer = font.newLayer("color1")
            for n, b in (("a", (100, 0, 400, 300)), ("acute", (210, 10, 290, 60)), ("grave", (260, 10, 340, 60))):
                g = layer.newGlyph(n); g.width = 600; box(g, *b)
            for n, m_ in (("aacute", "acute"), ("agrave", "grave")):
                g = layer.newGlyph(n); g.width = 600
                g.getPen().addComponent("a", (1, 0, 0, 1, 0, 0)); g.getPen().addComponent(m_, (1, 0, 0, 1, 0, 350))
            font.lib[MAP] = [("color1", 0)]
            tt = ufo2ft.compileOTF(font, cffVersion=ver, useProductionNames=False)
            b_ = io.BytesIO(); tt.save(b_); tt = TTFont(io.BytesIO(b_.getvalue()))
        except Exception as e:
            ctx.spec_failure(case, "compileOTF raised %s: %s\n%s" % (type(e).__name__, e, traceback.format_exc()[-1000:]))
            continue
        gs = tt.getGlyphSet()
        want = {"a.color1": [(100, 0)], "aacute.color1": [(100, 0), (210, 360)], "agrave.color1": [(100, 0), (260, 360)],
                "a": [(50, 0)], "aacute": [(50, 0), (200, 520)], "agrave": [(50, 0), (250, 520)]}
        for n, starts in want.items():
            if n not in gs:
                ctx.spec_failure(dict(case, glyph=n), "the compiled colour font has no glyph %r (glyph order %r)" % (n, tt.getGlyphOrder()))
                break
            rp = RecordingPen(); gs[n].draw(rp)
            got = [a[0] for op, a in rp.value if op == "moveTo"]
            if got != starts:
                ctx.spec_failure(dict(case, glyph=n, contour_starts=got), "%r: its contours start at %r; resolved within its own layer they start at %r" % (n, got, starts))
                break


def explore(ctx):
    color_layer_section(ctx)
    from harness.pipeline_check import pipeline_section
    pipeline_section(ctx, "otf")
    renamed_section(ctx)
    designspace_section(ctx)
    import ufo2ft
    from ufo2ft.preProcessor import OTFPreProcessor
    from fontTools.ttLib import TTFont

    # ---------------- structural: the pre-processed glyph set
    rng = ctx.subrng("struct")
    cases, meta = [], []
    for i in range(ctx.budget(60, 500)):
        big = (not ctx.quick()) and i % 10 == 0
        desc = gen_component_font(rng, n=rng.randint(12, 40) if big else None, max_depth=6 if big else 4,
                                  singular=(i % 7 == 0))
        lib = rng.choice(["ufoLib2", "defcon"])
        visits = []
        try:
            font = build_font(desc, lib)
            # the order in which BaseFilter hands the glyphs to the filter (decreasing computed component depth,
            # ties in glyph-set order) is observed, not modelled: the theorem holds for every visiting order
            from ufo2ft.filters.decomposeComponents import DecomposeComponentsFilter
            orig_filter = DecomposeComponentsFilter.filter

            def spy(self, glyph, _orig=orig_filter, _v=visits):
                _v.append(glyph.name)
                return _orig(self, glyph)
            DecomposeComponentsFilter.filter = spy
            try:
                gset = OTFPreProcessor(font).process()
            finally:
                DecomposeComponentsFilter.filter = orig_filter
        except Exception as e:
            ctx.spec_failure({"font": jsonable(desc), "lib": lib}, "OTFPreProcessor raised %s: %s\n%s" % (
                type(e).__name__, e, traceback.format_exc()[-1500:]))
            continue
        obs = []
        leftover = []
        for g in desc["glyphs"]:
            cs, comps = geom.glyph_points(gset[g["name"]])
            if comps:
                leftover.append(g["name"])
            obs.append((g["name"], cs))
        sing = any(t[0] * t[3] - t[1] * t[2] == 0 for g in desc["glyphs"] for _, t in g["components"])
        case = {"font": jsonable(desc), "lib": lib, "level": "OTFPreProcessor glyph set", "singular_matrix": sing}
        if sing:
            ctx.klass("struct:singular-matrix(model-only)")
        ctx.count()
        ctx.klass("struct:" + lib)
        if nontrivial(desc):
            ctx.nontriv(("s", i, ctx.scale))
        if leftover:
            ctx.spec_failure(case, "components left after OTF pre-processing in %r" % leftover)
            continue
        order = list(visits)
        cases.append(G.tup(G.tup(geom.g_glyphset(desc["glyphs"]), G.lst([G.s(n) for n in order], "str")),
                           G.lst([G.tup(G.s(n), geom.g_contours(cs)) for n, cs in obs], "(str * list contour)")))
        meta.append(case)
    vals = ctx.coq_eval(IMPORTS, FN_STRUCT, cases, chunk=8, tag="Struct")
    for v, case in zip(vals, meta):
        if v is None:
            continue
        if not v & 2 and not case["singular_matrix"]:
            # with a collapsing (det = 0) matrix "mirrored" is undefined; only model = code is required there
            ctx.spec_failure(case, "pre-processed outline differs from the nested resolved outline (Coq resolve)")
        elif not v & 1:
            ctx.corr_mismatch(case, "Gallina decompose differs from OTFPreProcessor output")
    if meta:
        ctx.sample({"structural_case_glyphs": meta[0]["font"]["glyphs"][:3]})

    # ---------------- semantic: compiled CFF
    rng = ctx.subrng("sem")
    cases, meta = [], []
    for i in range(ctx.budget(50, 400)):
        desc = gen_component_font(rng, max_depth=4)
        # CFF has no open paths and no on-curve-less contours in this generator
        lib = rng.choice(["ufoLib2", "defcon"])
        tol_opt = rng.choice([None, 0, 0.25, 0.5])
        tol = Fr(1, 2) if tol_opt is None else Fr(tol_opt)
        kw = {"useProductionNames": False, "cffVersion": rng.choice([1, 2]), "optimizeCFF": rng.choice([0, 1, 2])}
        if tol_opt is not None:
            kw["roundTolerance"] = tol_opt
        if i % 3 == 1:
            # outline-preserving filters requested through the UFO lib run before the decomposition and must not change
            # what is drawn (flattening composes the nested matrices itself)
            fl = [[{"name": "flattenComponents", "pre": True}], [{"name": "decomposeTransformedComponents", "pre": True}],
                  [{"name": "flattenComponents", "pre": True}, {"name": "propagateAnchors", "pre": True}]][(i // 3) % 3]
            desc["lib"] = {"com.github.googlei18n.ufo2ft.filters": fl}
            ctx.klass("sem:lib filters " + "+".join(f["name"] for f in fl))
            # always: a composite whose FIRST component is offset-only and whose second is scaled (and one nesting it): a filter
            # that decomposes only part of the components must not move the others' contours behind them
            plainz = [g["name"] for g in desc["glyphs"] if g["contours"] and not g["components"]]
            if len(plainz) >= 1:
                p0, p1 = plainz[0], plainz[-1]
                desc["glyphs"].append({"name": "ord.mix", "unicodes": [], "width": Fr(600), "contours": [], "anchors": [],
                                       "components": [(p0, (Fr(1), Fr(0), Fr(0), Fr(1), Fr(10), Fr(-100))),
                                                      (p1, (Fr(1, 2), Fr(0), Fr(0), Fr(1, 2), Fr(300), Fr(0))),
                                                      (p0, (Fr(1), Fr(0), Fr(0), Fr(1), Fr(601), Fr(11)))]})
                desc["glyphs"].append({"name": "ord.outer", "unicodes": [], "width": Fr(700), "contours": [], "anchors": [],
                                       "components": [("ord.mix", (Fr(1), Fr(0), Fr(0), Fr(1), Fr(5), Fr(5))),
                                                      (p0, (Fr(-1), Fr(0), Fr(0), Fr(1), Fr(900), Fr(0)))]})
        skipped = []
        if i % 4 == 2:
            # a glyph that others use as a component (possibly mirrored, possibly through nesting) is not exported: it is
            # folded into its users, whose outlines must still be the resolved source outlines
            used = sorted({b for g in desc["glyphs"] for b, _ in g["components"]})
            if used:
                skipped = [rng.choice(used)]
                if i % 8 == 2:
                    kw["skipExportGlyphs"] = list(skipped)
                else:
                    desc.setdefault("lib", {})["public.skipExportGlyphs"] = list(skipped)
                ctx.klass("sem:non-exported component")
        if i % 5 == 3:
            # options that choose HOW something optional would be done must not switch it on: a backend for overlap removal
            # (overlap removal itself not requested, or explicitly declined)
            kw["overlapsBackend"] = ["booleanOperations", "pathops"][(i // 5) % 2]
            if (i // 10) % 2:
                kw["removeOverlaps"] = False
            ctx.klass("sem:overlapsBackend named, removeOverlaps off")
        elif i % 5 == 4 and kw["optimizeCFF"] == 2:
            kw["subroutinizer"] = ["cffsubr", "compreffor"][(i // 5) % 2] if kw["cffVersion"] == 1 else "cffsubr"
            ctx.klass("sem:subroutinizer named")
        if i % 4 == 2:
            # fractional PostScript width hints in the font info (interpolated instance UFOs have them), and glyphs whose raw
            # width IS the fractional default / differs from the fractional nominal by a half: the advance a CFF charstring
            # carries is still the source width rounded half up, the same number as in hmtx
            dw, nw = [(Fr(975, 2), Fr(1125, 2)), (Fr(500), Fr(2401, 4)), (Fr(1025, 2), Fr(480))][(i // 4) % 3]
            desc["info"] = dict(desc.get("info", {}), postscriptDefaultWidthX=float(dw), postscriptNominalWidthX=float(nw))
            for k, g in enumerate(desc["glyphs"][:3]):
                g["width"] = [dw, nw + Fr(75, 2), Fr(600)][k]
            ctx.klass("sem:fractional postscriptDefaultWidthX / NominalWidthX")
        case = {"font": jsonable(desc), "lib": lib, "options": kw, "level": "compileOTF"}
        try:
            tt = ufo2ft.compileOTF(build_font(desc, lib), **kw)
            buf = io.BytesIO(); tt.save(buf); buf.seek(0); tt = TTFont(buf)
        except Exception as e:
            by = {g["name"]: g for g in desc["glyphs"]}
            big = False
            for g in desc["glyphs"]:
                try:
                    big = big or any(abs(v) > 16000 for sgm in geom.ref_resolve(by, g["name"]) for pt in flat(sgm)[1] for v in pt)
                except Exception:
                    pass
            # (a number-range error counts as "no font exists" only when the SOURCE's own resolved outline is that large)
            if big and (isinstance(e, (ValueError, OverflowError)) or number_range_error(e)) or "does not fit" in str(e):
                # nested scaled components pushed a coordinate beyond what head/CFF numbers can hold: no font exists
                ctx.klass("outside_opentype_number_range_rejected")
                continue
            ctx.spec_failure(case, "compileOTF raised %s: %s\n%s" % (type(e).__name__, e, traceback.format_exc()[-1500:]))
            continue
        gs = tt.getGlyphSet()
        by = {g["name"]: g for g in desc["glyphs"]}
        obs = []
        ctx.count()
        ctx.klass("sem:tol=%s/cff%d/opt%d" % (tol_opt, kw["cffVersion"], kw["optimizeCFF"]))
        if nontrivial(desc):
            ctx.nontriv(("c", i, ctx.scale))
        for g in desc["glyphs"]:
            name = g["name"]
            if name in skipped:
                if name in tt.getGlyphOrder():
                    ctx.spec_failure(dict(case, glyph=name), "non-exported glyph %r is in the compiled font" % name)
                continue
            adv = tt["hmtx"][name][0]
            # independent segment-level reference (all glyphs, incl. quadratic)
            try:
                exact = [geom.elevate(s, inexact_guard=(tol >= Fr(1, 2))) for s in geom.ref_resolve(by, name)]
                ref = [geom.round_segments(s, tol) for s in exact]
            except geom.NearHalf:
                ctx.klass("float_guard_rejected")
                continue
            got = geom.recorded_to_segments(geom.drawn_segments(gs[name]), snap_eps=(Fr(1, 2) if tol < Fr(1, 2) else None))
            if degenerate(ref):
                ctx.klass("degenerate_zero_length_skipped")
                continue
            if any(abs(v) > 16000 for sgm in exact for pt in flat(sgm)[1] for v in pt):
                # a Type 2 charstring delta must fit 16.16 fixed point: |coordinate| <= 16000 keeps every delta in range
                ctx.klass("outside_charstring_number_range_skipped")
                continue
            if tol < Fr(1, 2):
                # unrounded coordinates are stored as fixed-point deltas (and cffsubr's tx re-encodes them with
                # two decimals), which accumulates along a contour: the statement's "moved by no more than the
                # tolerance" is checked with 0.1 unit of encoding slack
                npts = sum(len(flat(sgm)[1]) for sgm in exact)
                # each delta is re-encoded with <= 0.005 error and the errors add up along the whole charstring
                if not (approx_same_perm if skipped else approx_same)(exact, got, tol + Fr(1, 10) + Fr(npts, 150)):
                    ctx.spec_failure(dict(case, glyph=name), "compiled outline of %r moved by more than roundTolerance %s from the "
                                     "resolved source outline" % (name, tol))
            elif skipped and sorted(repr(geom.cyc_canon(geom.merge_axis_lines(s))) for s in ref) == \
                    sorted(repr(geom.cyc_canon(geom.merge_axis_lines(s))) for s in got):
                # same contours; their order may differ where a non-exported component was folded in (C13)
                continue
            elif [geom.cyc_canon(s) for s in ref] != [geom.cyc_canon(s) for s in got] and kw["optimizeCFF"] >= 1 and \
                    [geom.cyc_canon(geom.merge_axis_lines(s)) for s in ref] == [geom.cyc_canon(geom.merge_axis_lines(s)) for s in got]:
                # same outline; the specialiser folded a straight axis-parallel run of two lines into one (observation O7)
                ctx.klass("collinear_axis_run_merged_by_specialiser")
                continue
            elif [geom.cyc_canon(s) for s in ref] != [geom.cyc_canon(s) for s in got]:
                ctx.spec_failure(dict(case, glyph=name), "compiled outline of %r differs from the rounded resolved source outline "
                                 "(segment-level reference): got %r want %r" % (name, jsonable(got)[:3], jsonable(ref)[:3]))
            if adv != geom.ot_round(g["width"]):
                ctx.spec_failure(dict(case, glyph=name), "hmtx advance %r != otRound(width %s)" % (adv, g["width"]))
            if "CFF " in tt:
                from fontTools.pens.basePen import NullPen
                cs = tt["CFF "].cff[0].CharStrings[name]; cs.draw(NullPen())
                if cs.width != geom.ot_round(g["width"]):
                    ctx.spec_failure(dict(case, glyph=name), "the CFF charstring of %r carries the advance %r; the source width %s rounds to %d" % (
                        name, cs.width, g["width"], geom.ot_round(g["width"])))
            if not has_q(desc, name) and tol >= Fr(1, 2) and not skipped:
                obs.append((name, geom.drawn_points(gs[name]), adv))
        if obs:
            cases.append(G.tup(G.tup(geom.g_q(tol), geom.g_glyphset(desc["glyphs"])),
                               G.lst([G.tup(G.s(n), G.tup(geom.g_contours(cs), G.z(a))) for n, cs, a in obs],
                                     "(str * (list contour * Z))")))
            meta.append(case)
    vals = ctx.coq_eval(IMPORTS, FN_SEM, cases, chunk=8, tag="Sem")
    for v, case in zip(vals, meta):
        if v is None:
            continue
        if not v & 2:
            ctx.spec_failure(case, "compiled CFF outline/advance differs from round(resolve) evaluated in Coq")
        elif not v & 1:
            ctx.corr_mismatch(case, "Gallina cff_view(decompose) differs from compiled CFF", level="semantic")
    if meta:
        ctx.sample({"semantic_case_options": meta[0]["options"], "glyph": meta[0]["font"]["glyphs"][0]})

    # ---------------- negative width is rejected
    for lib in ("ufoLib2", "defcon"):
        desc = {"glyphs": [{"name": "a", "width": Fr(-10), "contours": [[(0, 0, "line"), (10, 0, "line"), (5, 9, "line")]]}]}
        ctx.count()
        try:
            ufo2ft.compileOTF(build_font(desc, lib))
            ctx.spec_failure({"font": jsonable(desc)}, "negative advance width was accepted")
        except ValueError:
            ctx.klass("negative_width_rejected")
