"""C16 -- any valid font info compiles; explicit values win, absent ones fall back."""
import io, math, traceback, unicodedata
from fractions import Fraction as Fr
from harness import gterm as G, geom
from harness.fonts import build_font, jsonable

PID = "C16"
LEVEL_TEXT = ("Proof + correspondence: Coq theorems -- for every string and EVERY Unicode decomposition function the generated "
              "PostScript font name has only printable ASCII, no space and none of []{}<>()/% (character sets regenerated from the "
              "source; the pre-repair code is shown refuted); explicit vertical-metrics attributes are returned as given; the "
              "derived usWinAscent/usWinDescent/sTypoLineGap are never negative for any input (pre-repair formula shown refuted); "
              "intListToNum sets bit k iff start+k is listed; the vertical tables are built exactly when all three vhea metrics are "
              "present and the generated .notdef's advance height is never rejected (Info/Vertical.v, after repair F22). The thirteen "
              "vertical-metric fallback functions, getAttrWithFallback and the two fallback tables are TRANSLATED from /repo's fontInfoData.py on "
              "every run (harness/info_from_source.py, fail-closed) and proved equal to the hand model AND to the documented fallbacks stated "
              "with literal numbers; explicit-wins / derived-fits / a consistency theorem are restated about the translated code. The models are compared with normalizeStringForPostscript, "
              "intListToNum and with the OS/2, hhea, head fields of compiled+reloaded TTF/OTF fonts for random subsets of "
              "present/absent attributes; `explicit_ok` is evaluated in Coq on the implementation's fields. Name-table strings, "
              "CFF top-dict strings, other OS/2/post fields and compile/save/reload totality for non-ASCII names are checked on "
              "the implementation against an independent Python restatement (observed, not modelled)."
              " The name-table merge of a variable font's info override (InfoCompiler.setupTable_name) is TRANSLATED from /repo's source on every run (harness/name_from_source.py -> Generated/NameMergeGen.v), proved equal to the model of Info/NameMerge.v, and compared with the real method on random record lists; theorems for all record lists: the override's record wins, no record of a name the override writes survives from the default source, the predefined Windows-English names are exactly the override's, every other record is untouched, keys are distinct.")
LEVEL_NOTE = ("Trusted: Coq kernel, hand models (correspondence-tested), constants reader, harness, unicodedata (NFKD is a section "
              "variable in the theorems and a per-case table in the correspondence). Float arithmetic of the fallbacks "
              "(upm*0.8, int(upm*1.2)) is modelled exactly; cases where IEEE evaluation differs from the exact value are dropped "
              "and counted. |italicAngle| <= 45 and metrics within int16 are the generator's notion of spec-valid, representable "
              "input.")
TECHNIQUE = "Coq proofs (PostScript-name cleanliness for all decompositions, explicit-wins, derived-fits, bit packing; the metric fallbacks and the variable-font name-table merge translated from source on every run and proved equal to their models / the documented values) + vm_compute correspondence on compiled fonts"
IMPORTS = "From U2F Require Import Base.Prelude Geometry.Model Info.PSName Info.Fallback."
RULE = ("(a) strings over ASCII incl. exception characters/spaces, Latin-1, NBSP and other Zs, full-width forms, CJK, Cyrillic, "
        "combining marks, C0/C1 controls, astral characters -> normalizeStringForPostscript (both allowSpaces) vs the Gallina "
        "model given the real NFKD table of the string's characters; thorough sweeps all 1 112 064 scalar values through the real "
        "function. (b) random subsets of 13 vertical-metrics attributes (values incl. negatives, x.5, zero) compiled to TTF/OTF. "
        "(c) names: ASCII/accented/Cyrillic/CJK/emoji family and style names, styleMap names, versions. (d) bit lists. "
        "(e) variable fonts whose designspace <variable-font> carries public.fontInfo overrides (incl. 0 / [] / False / '' where the "
        "default master's value is not), TTF and CFF2, both libraries: the override must appear in the table field. "
        "Non-trivial = at least one attribute absent and one explicit (b), or a non-ASCII character (a, c).")
ASSUMPTIONS = ["unicodedata.normalize('NFKD', c) is a function of c", "generated values are within the binary fields' ranges"]

STR_POOL = (list("AaBbZz019-_.") + list("[](){}<>/% ") + [" ", " ", "　", "（", "）", "［", "％",
            "／", "﹙", "é", "ü", "ß", "Ж", "я", "明", "朝", "́", "©", "™",
            "\x01", "\x1f", "\x7f", "\x85", "​", "\U0001f600", "\U0001d400", "①", "½", "ﬁ", "⑴", "㎒"])

FN_PS = ("fun c : (list (Z * list Z) * bool * str * str) => let '(tbl, sp, s, got) := c in "
         "(if list_eqb Z.eqb (normalize_ps (nfkd_of_table tbl) sp s) got then 1 else 0) + "
         "(if (if sp then forallb (fun x => ps_clean_char x || Z.eqb x 32) got else ps_clean got) then 2 else 0)")
FN_VM = ("fun c : (info * vmetrics) => let '(i, o) := c in "
         "(if vmetrics_eqb (table_metrics i) o then 1 else 0) + (if explicit_ok i o then 2 else 0)")
FN_BITS = ("fun c : (list Z * Z * nat * Z) => let '(l, st, len, got) := c in "
           "if Z.eqb (int_list_to_num l st len) got then 3 else 0")

ATTRS = ["unitsPerEm", "ascender", "descender", "capHeight", "xHeight", "openTypeOS2TypoAscender", "openTypeOS2TypoDescender",
         "openTypeOS2TypoLineGap", "openTypeHheaAscender", "openTypeHheaDescender", "openTypeHheaLineGap",
         "openTypeOS2WinAscent", "openTypeOS2WinDescent"]


def g_optq(v):
    return "(@None Qc)" if v is None else "(Some %s)" % geom.g_q(v)


def simple_glyphs():
    return [{"name": "a", "width": 500, "unicodes": [0x61], "contours": [[(0, 0, "line"), (100, 0, "line"), (50, 100, "line")]]},
            {"name": "b", "width": 600, "unicodes": [0x62], "contours": []}]


def float_exact_ok(info):
    """the fallbacks multiply by decimal literals in IEEE arithmetic: keep cases where that equals the exact value"""
    upm = info.get("unitsPerEm", 1000)
    f = float(upm)
    for k, fr in ((0.8, Fr(4, 5)), (0.2, Fr(1, 5)), (0.7, Fr(7, 10)), (0.5, Fr(1, 2))):
        if math.floor(f * k + 0.5) != math.floor(Fr(upm) * fr + Fr(1, 2)):
            return False
    return int(f * 1.2) == math.floor(Fr(upm) * Fr(6, 5))


def name_merge_section(ctx):
    """InfoCompiler.setupTable_name on its own -- the merge of the override's name records into the default source's table -- on
    random record lists, against the translation of the method (Generated/NameMergeGen.v, proved equal to Info/NameMerge.v).  The
    method is called on a bare object whose two name tables are given; the base class's table builder (which would fill the
    override's table from an info object) is replaced by a no-op for the duration of the call, inside this process only"""
    from unittest import mock
    from fontTools.ttLib import newTable
    from fontTools.ttLib.tables._n_a_m_e import makeName
    from ufo2ft.infoCompiler import InfoCompiler
    from ufo2ft.outlineCompiler import BaseOutlineCompiler
    rng = ctx.subrng("name-merge")
    IDS, PLATS, STRS = [1, 2, 4, 6, 16, 17, 25, 255, 256, 257, 300], [(3, 1), (3, 10), (1, 0), (0, 4)], ["Fam", "Other", "Regular", "Bold", "", "x"]

    def records(n):
        out = []
        for _ in range(n):
            plat, enc = rng.choice(PLATS)
            lang = rng.choice([0x409, 0x409, 0x409, 0x407, 0]) if plat == 3 else 0
            out.append(((rng.choice(IDS), plat, enc, lang), rng.choice(STRS)))
        return out
    cases, meta = [], []
    for i in range(ctx.budget(150, 1200)):
        orig_r, temp_r = records(rng.randint(0, 9)), records(rng.randint(0, 6))
        if i % 3 == 0 and orig_r:
            # the override rewrites some of the default source's names: same key, the other Windows encoding, or not at all
            for (k, v) in rng.sample(orig_r, min(3, len(orig_r))):
                how = rng.random()
                if how < 0.4:
                    temp_r.append((k, rng.choice(STRS)))
                elif how < 0.8 and k[1] == 3:
                    temp_r.append(((k[0], 3, 11 - k[2] if k[2] in (1, 10) else 1, k[3]), rng.choice(STRS)))
        tables = []
        for recs in (temp_r, orig_r):
            t = newTable("name"); t.names = [makeName(v, k[0], k[1], k[2], k[3]) for k, v in recs]; tables.append(t)
        obj = InfoCompiler.__new__(InfoCompiler)
        obj.otf, obj.orig_otf = {"name": tables[0]}, {"name": tables[1]}
        case = {"override_records": jsonable(temp_r), "default_source_records": jsonable(orig_r)}
        ctx.count(); ctx.klass("name merge: %s" % ("override touches the source's names" if i % 3 == 0 else "independent lists"))
        try:
            with mock.patch.object(BaseOutlineCompiler, "setupTable_name", lambda self: None):
                InfoCompiler.setupTable_name(obj)
            got = [((n.nameID, n.platformID, n.platEncID, n.langID), n.string) for n in tables[1].names]
        except Exception as e:
            ctx.spec_failure(case, "InfoCompiler.setupTable_name raised %s: %s\n%s" % (type(e).__name__, e, traceback.format_exc()[-800:]))
            continue
        if got != orig_r:
            ctx.nontriv(("nm", i, ctx.scale))
        g = lambda recs: G.lst([G.tup("(%s, %s, %s, %s)" % tuple(G.z(x) for x in k), G.s(v)) for k, v in recs], "(nkey * str)")
        cases.append(G.tup(g(temp_r), g(orig_r), g(got)))
        meta.append(dict(case, merged=jsonable(got)))
        # the statement itself, on the real result: no name (id, platform, language) that the override writes keeps a record the
        # override did not write; no predefined Windows-English name survives that the override does not yield
        tkeys = {k for k, _ in temp_r}
        ttriples = {(k[0], k[1], k[3]) for k in tkeys}
        tlast = {}
        for k, v in temp_r:
            tlast[k] = v
        for k, v in got:
            if (k[0], k[1], k[3]) in ttriples and (k not in tkeys or tlast[k] != v):
                ctx.spec_failure(dict(case, merged=jsonable(got), record=jsonable((k, v))), "the merged table carries %r = %r for a name the override writes as %r" % (
                    k, v, sorted((kk, vv) for kk, vv in tlast.items() if (kk[0], kk[1], kk[3]) == (k[0], k[1], k[3]))))
                break
            if k[0] < 256 and k[1] == 3 and k[3] == 0x409 and k not in tkeys:
                ctx.spec_failure(dict(case, merged=jsonable(got), record=jsonable((k, v))), "the merged table keeps the predefined Windows-English name %r = %r that the overridden info does not yield" % (k, v))
                break
    vals = ctx.coq_eval("From U2F Require Import Base.Prelude Info.NameMerge Generated.NameMergeGen.",
                        "fun c : (list (nkey * str) * list (nkey * str) * list (nkey * str)) => let '(t, o, r) := c in "
                        "(if ndict_eqb (tr_name_merge t o) r then 1 else 0) + (if ndict_eqb (name_merge t o) r then 2 else 0)", cases, chunk=150, tag="NameMerge")
    for v, case in zip(vals, meta):
        if v is not None and v != 3:
            ctx.corr_mismatch(case, "the name table InfoCompiler.setupTable_name leaves differs from %s" % (
                "the Gallina model name_merge (Info/NameMerge.v)" if not v & 2 else "the translation of the method (Generated/NameMergeGen.v)"))


def explore(ctx):
    name_merge_section(ctx)
    import ufo2ft
    from fontTools.ttLib import TTFont
    from ufo2ft.fontInfoData import normalizeStringForPostscript, intListToNum

    # ---------------- (a) PostScript name normalisation
    rng = ctx.subrng("ps")
    cases, meta = [], []
    for i in range(ctx.budget(400, 3000)):
        s = "".join(rng.choice(STR_POOL) if rng.random() < 0.9 else chr(rng.choice([rng.randint(0x20, 0x2FF), rng.randint(0x2000, 0x33FF),
                    rng.randint(0xFE00, 0xFFEF), rng.randint(0x10000, 0x1FFFF)])) for _ in range(rng.randint(0, 12)))
        s = "".join(ch for ch in s if not 0xD800 <= ord(ch) <= 0xDFFF)
        sp = rng.random() < 0.4
        got = normalizeStringForPostscript(s, allowSpaces=sp)
        tbl = {ord(ch): [ord(x) for x in unicodedata.normalize("NFKD", ch)] for ch in set(s)}
        cases.append(G.tup(G.lst([G.tup(G.z(k), G.lst([G.z(x) for x in v], "Z")) for k, v in tbl.items()], "(Z * list Z)"),
                           G.b(sp), G.s(s), G.s(got)))
        meta.append({"string": s, "codepoints": [hex(ord(c)) for c in s], "allowSpaces": sp, "impl": got})
        ctx.count()
        ctx.klass("psname:allowSpaces=%s" % sp)
        if any(ord(c) > 126 or ord(c) < 32 for c in s):
            ctx.nontriv(("ps", s, sp))
    vals = ctx.coq_eval(IMPORTS, FN_PS, cases, chunk=250, tag="PS")
    for v, case in zip(vals, meta):
        if v is None:
            continue
        if not v & 2:
            ctx.spec_failure(case, "normalizeStringForPostscript output contains a space/control/exception/non-ASCII character")
        elif not v & 1:
            ctx.corr_mismatch(case, "Gallina normalize_ps differs from normalizeStringForPostscript")
    if meta:
        ctx.sample(meta[0])
    if not ctx.quick():
        bad = []
        for cp in range(0x110000):
            if 0xD800 <= cp <= 0xDFFF:
                continue
            out = normalizeStringForPostscript(chr(cp), allowSpaces=False)
            if any(ord(x) < 33 or ord(x) > 126 or x in "[](){}<>/%" for x in out):
                bad.append(cp)
        ctx.count(0x110000 - 0x800)
        ctx.notes["full_scalar_value_sweep_offenders"] = len(bad)
        if bad:
            ctx.spec_failure({"codepoints": [hex(c) for c in bad[:20]], "n": len(bad)},
                             "normalizeNameForPostscript lets %d code points through (first %s)" % (len(bad), hex(bad[0])))

    # ---------------- (d) bit lists
    rng = ctx.subrng("bits")
    cases, meta = [], []
    for i in range(ctx.budget(200, 2000)):
        start, length = rng.choice([(0, 16), (0, 32), (32, 32), (64, 32), (96, 32), (0, 8), (8, 8)])
        l = [rng.randint(-2, 130) for _ in range(rng.randint(0, 10))]
        got = intListToNum(l, start, length)
        cases.append(G.tup(G.lst([G.z(x) for x in l], "Z"), G.z(start), G.nat(length), G.z(got)))
        meta.append({"intList": l, "start": start, "length": length, "impl": got})
        ctx.count(); ctx.klass("intListToNum")
        if l:
            ctx.nontriv(("bits", tuple(l), start, length))
    vals = ctx.coq_eval(IMPORTS, FN_BITS, cases, chunk=500, tag="Bits")
    for v, case in zip(vals, meta):
        if v is not None and v != 3:
            ctx.spec_failure(case, "intListToNum does not set exactly the listed bits")

    # ---------------- (b) vertical metrics fallbacks
    rng = ctx.subrng("vm")
    cases, meta = [], []
    vcases, vmeta = [], []
    for i in range(ctx.budget(50, 400)):
        info = {}
        for a in ATTRS:
            if rng.random() < 0.45:
                if a == "unitsPerEm":
                    v = rng.choice([1000, 2048, 16, 16384, 1001, 999, rng.randint(16, 4000), 1000, Fr(2001, 2)])
                elif a in ("openTypeOS2WinAscent", "openTypeOS2WinDescent"):
                    v = rng.choice([0, 800, rng.randint(0, 3000), Fr(rng.randint(0, 4000), 2)])
                elif a in ("descender", "openTypeOS2TypoDescender", "openTypeHheaDescender"):
                    v = rng.choice([-200, 0, -rng.randint(0, 2000), Fr(-rng.randint(0, 4000), 2), 100, -2000])
                elif a.endswith("LineGap"):
                    v = rng.choice([0, 200, rng.randint(0, 500), Fr(rng.randint(0, 1000), 2)])
                else:
                    v = rng.choice([800, 0, rng.randint(0, 3000), Fr(rng.randint(0, 6000), 2), -100, -rng.randint(0, 500)])
                if a.startswith("openType"):
                    v = math.floor(Fr(v))        # UFO3: the openType* metrics are integers; the generic ones may be floats
                info[a] = Fr(v)
        if i % 10 == 0:
            # rounding ties in the FALLBACK route: fractional ascender / descender (UFO allows floats there) with no OS/2 or hhea
            # overrides; even and odd integer parts, positive and negative
            info = {"unitsPerEm": Fr(1000), "ascender": Fr([1601, 1603, 1501][(i // 10) % 3], 2), "descender": Fr([-403, -401, -499][(i // 10) % 3], 2)}
            if (i // 10) % 2:
                info["openTypeOS2TypoLineGap"] = Fr(100)
        if not float_exact_ok(info):
            ctx.klass("float_guard_rejected")
            continue
        flavor = rng.choice(["ttf", "otf"])
        lib = rng.choice(["ufoLib2", "defcon"])
        desc = {"glyphs": simple_glyphs(), "info": dict(info), "no_info_defaults": True}
        # every subset of the three vhea metrics (they have no fallback: the vertical tables are built only when all
        # three are present; a partial set is valid font info and must simply compile without them)
        VH = ("openTypeVheaVertTypoAscender", "openTypeVheaVertTypoDescender", "openTypeVheaVertTypoLineGap")
        vh = {a: [500, -500, 0, 120, -1, 1000][(i + k) % 6] for k, a in enumerate(VH) if (i % 8) >> k & 1}
        desc["info"].update(vh)
        case = {"info": jsonable(info), "vhea_info": vh, "flavor": flavor, "lib": lib}
        try:
            tt = (ufo2ft.compileTTF if flavor == "ttf" else ufo2ft.compileOTF)(build_font(desc, lib))
            buf = io.BytesIO(); tt.save(buf); buf.seek(0); tt = TTFont(buf)
        except Exception as e:
            ctx.spec_failure(case, "compile/save of spec-valid info raised %s: %s\n%s" % (type(e).__name__, e, traceback.format_exc()[-1000:]))
            continue
        ctx.klass("vhea attributes present: %d of 3" % len(vh))
        if ("vhea" in tt) != (len(vh) == 3):
            ctx.spec_failure(case, "vertical tables %s although %d of the 3 vhea metrics are set" % ("built" if "vhea" in tt else "missing", len(vh)))
        elif "vhea" in tt and (tt["vhea"].ascent, tt["vhea"].descent, tt["vhea"].lineGap) != tuple(vh[a] for a in VH):
            ctx.spec_failure(case, "explicit vhea metrics %r came out as %r" % (vh, (tt["vhea"].ascent, tt["vhea"].descent, tt["vhea"].lineGap)))
        vcases.append(G.tup("(mkInfo %s)" % " ".join(g_optq(info.get(a)) for a in ATTRS),
                            *[G.opt(None if a not in vh else G.z(vh[a]), "Z") for a in VH], G.b("vhea" in tt),
                            G.opt(G.z(tt["vmtx"][".notdef"][0]) if "vmtx" in tt else None, "Z")))
        vmeta.append(dict(case, vertical_tables="vhea" in tt, notdef_advance_height=tt["vmtx"][".notdef"][0] if "vmtx" in tt else None))
        o, h = tt["OS/2"], tt["hhea"]
        obs = (tt["head"].unitsPerEm, o.sxHeight, o.sCapHeight, o.sTypoAscender, o.sTypoDescender, o.sTypoLineGap,
               o.usWinAscent, o.usWinDescent, h.ascent, h.descent, h.lineGap)
        cases.append(G.tup("(mkInfo %s)" % " ".join(g_optq(info.get(a)) for a in ATTRS),
                           "(mkVM %s)" % " ".join(G.z(v) for v in obs)))
        meta.append(dict(case, impl_fields=list(obs)))
        ctx.count(); ctx.klass("metrics:%s/%s" % (flavor, lib))
        if 0 < len(info) < len(ATTRS):
            ctx.nontriv(("vm", repr(sorted(info.items()))))
    vv = ctx.coq_eval(IMPORTS + "\nFrom U2F Require Import Info.Vertical.",
                      "fun c : (info * option Z * option Z * option Z * bool * option Z) => let '(i, a, d, g, built, nh) := c in "
                      "if vertical_obs_ok i a d g built nh then 3 else 2", vcases, chunk=100, tag="Vert")
    for v, case in zip(vv, vmeta):
        if v is not None and v != 3:
            ctx.corr_mismatch(case, "vertical tables / the generated .notdef's advance height differ from Info/Vertical.v "
                                    "(built iff all three vhea metrics; height = max(ascender - descender, 0))")
    vals = ctx.coq_eval(IMPORTS, FN_VM, cases, chunk=100, tag="VM")
    for v, case in zip(vals, meta):
        if v is None:
            continue
        if not v & 2:
            ctx.spec_failure(case, "an explicit attribute does not appear (rounded) in its table field, or usWin* is negative")
        elif not v & 1:
            # the Gallina table_metrics IS the documented fallback (exact rational formula, each integral field rounded half up):
            # a field that differs from it is a concrete failing input, not only a broken correspondence
            ctx.spec_failure(case, "an OS/2 / hhea / head field is not the documented fallback value rounded half up "
                                   "(Gallina table_metrics differs from the compiled fields %r)" % (case.get("impl_fields"),))
    if meta:
        ctx.sample(meta[0])

    names_and_totality(ctx)
    varfont_overrides(ctx)


def varfont_overrides(ctx):
    """public.fontInfo overrides of a designspace <variable-font> are explicitly set attributes of that variable font:
    each must appear in its table field, also when its value is 0 / empty / False and the default master's is not."""
    import ufo2ft
    from fontTools.ttLib import TTFont
    from harness import dsgen
    rng = ctx.subrng("vf-info")
    cases, meta = [], []
    VM = [a for a in ATTRS if a != "unitsPerEm"]
    for i in range(ctx.budget(10, 60)):
        info0 = {"unitsPerEm": Fr(1000), "ascender": Fr(800), "descender": Fr(-200), "xHeight": Fr(500), "capHeight": Fr(700),
                 "openTypeOS2TypoLineGap": Fr(200), "openTypeHheaLineGap": Fr(100), "openTypeOS2WinDescent": Fr(250)}
        extra0 = {"italicAngle": -10, "postscriptUnderlinePosition": -80, "postscriptUnderlineThickness": 60,
                  "postscriptIsFixedPitch": True, "openTypeOS2Type": [2], "openTypeHheaCaretOffset": 30,
                  "openTypeOS2WeightClass": 400, "openTypeOS2WidthClass": 5, "trademark": "tm", "versionMajor": 1, "versionMinor": 0}
        ov = {}
        for a in VM:
            if rng.random() < 0.4:
                if a.endswith("Descender") or a == "descender":
                    ov[a] = Fr(rng.choice([0, -100, -300]))
                elif a == "openTypeOS2WinDescent" or a == "openTypeOS2WinAscent" or a.endswith("LineGap"):
                    ov[a] = Fr(rng.choice([0, 0, 90, 300]))
                else:
                    ov[a] = Fr(rng.choice([0, 0, 650, 900]))
        pool = {"italicAngle": [0, 0, -5.5], "postscriptUnderlinePosition": [0, 0, -120], "postscriptUnderlineThickness": [0, 33],
                "postscriptIsFixedPitch": [False], "openTypeOS2Type": [[], [3]], "openTypeHheaCaretOffset": [0, 0, 12],
                "openTypeOS2WeightClass": [700, 1], "openTypeOS2WidthClass": [1, 9], "trademark": ["", "vf tm"],
                "versionMajor": [0, 2]}
        ovx = {k: rng.choice(v) for k, v in pool.items() if rng.random() < 0.5}
        masters = []
        for k in range(2):
            masters.append({"glyphs": [{"name": "a", "width": 500 + 40 * k, "unicodes": [0x61],
                                        "contours": [[(0, 0, "line"), (100 + 30 * k, 0, "line"), (50, 100 + 10 * k, "line")]]},
                                       {"name": "b", "width": 600, "unicodes": [0x62], "contours": []}],
                            "glyphOrder": ["a", "b"],
                            "info": dict({"familyName": "Fam", "styleName": "M%d" % k}, **dict(info0, **extra0)), "no_info_defaults": True})
        lib = ["ufoLib2", "defcon"][i % 2]
        fn = ["compileVariableTTFs", "compileVariableCFF2s"][(i // 2) % 2]
        override = dict({k: int(v) for k, v in ov.items()}, **ovx)
        # the family name overridden ACROSS the line between the two Windows encodings of a name record (BMP only: encoding 1;
        # beyond the BMP: encoding 10), both ways, and within one encoding
        src_fam, vf_fam = [("Fam", None), ("Fam", "Fam \U0001F600"), ("Fam \U0001F600", "Plain"), ("Fam", "Other")][i % 4]
        for m_ in masters:
            m_["info"]["familyName"] = src_fam
        if vf_fam is not None:
            override["familyName"] = vf_fam
        # the style name overridden so that the typographic names (IDs 16 / 17) come and go: masters styled 'M0' (not one of
        # the four legacy styles: IDs 16 / 17 written) overridden to 'Regular' (IDs 16 / 17 equal 1 / 2: left out), and back
        src_style, vf_style = [(None, None), ("M0", "Regular"), ("Regular", "Black"), ("M0", "Bold Italic")][(i // 4) % 4]
        if src_style is not None:
            masters[0]["info"]["styleName"] = src_style
            override["styleName"] = vf_style
        # vertical metrics: the sources have all three or none; the override sets all three
        VH = ("openTypeVheaVertTypoAscender", "openTypeVheaVertTypoDescender", "openTypeVheaVertTypoLineGap")
        src_vert, ov_vert = [(False, False), (True, True), (False, True), (True, False)][(i // 2) % 4]
        if src_vert:
            for m_ in masters:
                m_["info"].update(dict(zip(VH, (500, -500, 1000))))
        if ov_vert:
            override.update(dict(zip(VH, (440, -560, 0))))
        # a SECOND variable font in the same document overrides one unrelated attribute only: every other field of it -- and of a
        # static font compiled from the default master afterwards -- shows the source's values, not the first font's overrides
        ds, fonts = dsgen.make_designspace(rng, masters, lib, instances=False, vf_info=[override, {"openTypeNameDesigner": "Second"}])
        case = {"function": fn, "lib": lib, "default_master_info": jsonable(dict(info0, **extra0)), "variable_font_public.fontInfo": jsonable(override)}
        ctx.count(); ctx.klass("vf-info:%s/%s" % (fn, lib))
        if any(not v for v in override.values()):
            ctx.nontriv(("vf-info", i, ctx.scale))
        try:
            built = getattr(ufo2ft, fn)(ds)
            static_after = (ufo2ft.compileTTF if "TTF" in fn else ufo2ft.compileOTF)(fonts[0])
            loaded = []
            for one in (built["VF0"], built["VF1"], static_after):
                buf = io.BytesIO(); one.save(buf); buf.seek(0); loaded.append(TTFont(buf))
        except Exception as e:
            ctx.spec_failure(case, "%s with public.fontInfo overrides raised %s: %s\n%s" % (fn, type(e).__name__, e, traceback.format_exc()[-1000:]))
            continue
        if vf_fam is not None:
            recs = [(n.nameID, n.platformID, n.platEncID, n.toUnicode()) for n in loaded[0]["name"].names if n.nameID in (1, 4, 16)]
            stale = [r for r in recs if not r[3].startswith(vf_fam)]
            if stale or not recs:
                ctx.spec_failure(dict(case, name_records=recs), "the variable font's family name is overridden to %r, but it carries the name records %r" % (vf_fam, stale or recs))
        # names: the override is the variable font's info -- its legacy and typographic family / style names are those of a
        # static font compiled from the default master carrying the same info
        try:
            import copy as _copy
            m0 = _copy.deepcopy(masters[0]); m0["info"].update({k: v for k, v in override.items() if k in ("familyName", "styleName", "trademark")})
            ref = (ufo2ft.compileTTF if "TTF" in fn else ufo2ft.compileOTF)(build_font(m0, lib))
            want_n = {k: ref["name"].getDebugName(k) for k in (1, 2, 16, 17)}
            got_n = {k: loaded[0]["name"].getDebugName(k) for k in (1, 2, 16, 17)}
            win = sorted({(n.nameID, n.toUnicode()) for n in loaded[0]["name"].names if n.nameID in (1, 2, 16, 17)})
            if got_n != want_n or len(win) != len([k for k in want_n if want_n[k] is not None]):
                ctx.spec_failure(dict(case, name_records=win, static_font_with_the_same_info=want_n),
                                 "the variable font's family / style records are %r; a static font with the same info (family %r, style %r) has %r" % (
                                     win, m0["info"]["familyName"], m0["info"]["styleName"], want_n))
        except Exception as e:
            ctx.spec_failure(case, "reference compile raised %s: %s" % (type(e).__name__, e))
        if src_vert:
            vh = loaded[0]["vhea"] if "vhea" in loaded[0] else None
            wantv = (440, -560, 0) if ov_vert else (500, -500, 1000)
            gotv = None if vh is None else (vh.ascent, vh.descent, vh.lineGap)
            if gotv != wantv:
                ctx.spec_failure(dict(case, vhea=gotv), "vertical header of the variable font: (ascent, descent, lineGap) = %r; the %s say %r" % (
                    gotv, "overrides" if ov_vert else "sources", wantv))
        elif ov_vert:
            ctx.klass("vf-info: vertical metrics overridden on a font without vertical tables (nothing to appear in)")
        for tt, ov, ovx, case in ((loaded[0], ov, ovx, case),
                                  (loaded[1], {}, {}, dict(case, judged="the second variable font of the document (overrides the designer only)")),
                                  (loaded[2], {}, {}, dict(case, judged="the default master compiled alone afterwards"))):
          eff = dict(info0, **ov)
          o, h, post = tt["OS/2"], tt["hhea"], tt["post"]
          obs = (tt["head"].unitsPerEm, o.sxHeight, o.sCapHeight, o.sTypoAscender, o.sTypoDescender, o.sTypoLineGap,
                 o.usWinAscent, o.usWinDescent, h.ascent, h.descent, h.lineGap)
          cases.append(G.tup("(mkInfo %s)" % " ".join(g_optq(eff.get(a)) for a in ATTRS), "(mkVM %s)" % " ".join(G.z(v) for v in obs)))
          meta.append(dict(case, impl_fields=list(obs)))
          effx = dict(extra0, **ovx)
          checks = [("italicAngle", abs(post.italicAngle - effx["italicAngle"]) < 1e-3, post.italicAngle),
                    ("postscriptUnderlinePosition", post.underlinePosition == geom.ot_round(Fr(effx["postscriptUnderlinePosition"])), post.underlinePosition),
                    ("postscriptUnderlineThickness", post.underlineThickness == geom.ot_round(Fr(effx["postscriptUnderlineThickness"])), post.underlineThickness),
                    ("postscriptIsFixedPitch", bool(post.isFixedPitch) == bool(effx["postscriptIsFixedPitch"]), post.isFixedPitch),
                    ("openTypeOS2Type", o.fsType == sum(1 << b for b in set(effx["openTypeOS2Type"])), o.fsType),
                    ("openTypeHheaCaretOffset", h.caretOffset == effx["openTypeHheaCaretOffset"], h.caretOffset),
                    ("openTypeOS2WeightClass", o.usWeightClass == effx["openTypeOS2WeightClass"], o.usWeightClass),
                    ("openTypeOS2WidthClass", o.usWidthClass == effx["openTypeOS2WidthClass"], o.usWidthClass),
                    ("trademark", (tt["name"].getDebugName(7) or "") == effx["trademark"] or (effx["trademark"] == "" and "trademark" in ovx), tt["name"].getDebugName(7))]
          for attr, ok, got in checks:
              if not ok:
                  ctx.spec_failure(dict(case, attribute=attr), "variable font: %s should be %r (override %s), table holds %r" % (
                      attr, effx[attr], "given" if attr in ovx else "absent: default master's value", got))
    vals = ctx.coq_eval(IMPORTS, FN_VM, cases, chunk=100, tag="VFInfo")
    for v, case in zip(vals, meta):
        if v is None:
            continue
        if not v & 2:
            ctx.spec_failure(case, "variable font: an overriding attribute does not appear (rounded) in its OS/2 / hhea field")
        elif not v & 1:
            ctx.corr_mismatch(case, "Gallina fallback model on (default master info + overrides) differs from the variable font's fields")


# ---------------------------------------------------------------- names / totality (direct, independent restatement)
FAMILIES = ["Test", "My Font", "Café Sans", "Привет", "明朝", "Νέα Γραμματοσειρά", "A(B)[C]", "Emoji \U0001f600 Font", "x" * 40, "Ünï cödé"]
STYLES = ["Regular", "Bold", "Italic", "Bold Italic", "Light", "Condensed Black", "regular", " Bold ", "Курсив", "細"]
SMSN = ["regular", "bold", "italic", "bold italic"]


def ref_names(info):
    """independent restatement of the documented name fallbacks"""
    fam = info.get("familyName", "New Font")
    sty = info.get("styleName", "Regular")
    pfam = info.get("openTypeNamePreferredFamilyName", fam)
    psub = info.get("openTypeNamePreferredSubfamilyName", sty)
    smsn = info.get("styleMapStyleName")
    if smsn is None:
        smsn = psub.strip().lower() if psub.strip().lower() in SMSN else "regular"
    smfn = info.get("styleMapFamilyName")
    if smfn is None:
        st = info.get("styleMapStyleName") or psub
        if st.lower() in SMSN:
            st = ""
        smfn = (pfam + " " + st).strip()
    vmaj, vmin = info.get("versionMajor", 0), info.get("versionMinor", 0)
    version = info.get("openTypeNameVersion", "Version %d.%s" % (vmaj, str(vmin).zfill(3)))
    from ufo2ft.fontInfoData import normalizeStringForPostscript
    ps = info.get("postscriptFontName")
    if ps is None:
        ps = normalizeStringForPostscript("%s-%s" % (pfam, psub), allowSpaces=False)
    vendor = info.get("openTypeOS2VendorID", "NONE")
    # the unique ID starts with the version string without its "Version " label (the generated strings carry the label at most
    # once, at the start, so "without the label" has one reading)
    uid = info.get("openTypeNameUniqueID", "%s;%s;%s" % (version[len("Version "):] if version.startswith("Version ") else version, vendor, ps))
    names = {1: smfn, 2: smsn.title(), 3: uid, 4: "%s %s" % (pfam, psub), 5: version,
             6: normalizeStringForPostscript(ps) if ps else ps, 16: pfam, 17: psub}
    resolved = dict(names)
    if names[1] == names[16] and names[2] == names[17]:
        del names[16], names[17]
    return names, ps, smsn, resolved


def names_and_totality(ctx):
    import ufo2ft
    from fontTools.ttLib import TTFont
    rng = ctx.subrng("names")
    name_cases = []
    for i in range(ctx.budget(40, 300)):
        info = {}
        if rng.random() < 0.85:
            info["familyName"] = rng.choice(FAMILIES)
        if rng.random() < 0.8:
            info["styleName"] = rng.choice(STYLES)
        if rng.random() < 0.25:
            info["openTypeNamePreferredFamilyName"] = rng.choice(FAMILIES)
        if rng.random() < 0.25:
            info["openTypeNamePreferredSubfamilyName"] = rng.choice(STYLES)
        if rng.random() < 0.3:
            info["styleMapStyleName"] = rng.choice(SMSN)
        if rng.random() < 0.2:
            info["styleMapFamilyName"] = rng.choice(FAMILIES)
        if rng.random() < 0.5:
            info["versionMajor"] = rng.randint(0, 20)
            info["versionMinor"] = rng.choice([0, 1, 5, 50, 999, 1234, 5000])      # (any non-negative integer is valid)
        if rng.random() < 0.2:
            info["postscriptFontName"] = rng.choice(["MyFont-Regular", "Custom_PS", "Foo-BoldItalic"])
        if i % 4 == 1:
            # an explicit version string: with the usual label, and free-form ones (made of letters of the word "Version",
            # starting with a blank, without any label)
            info["openTypeNameVersion"] = ["Version 2.500", "revision 3", "snapshot-7", " 1.500", "1.0", "Version 1.002;beta", "ver 5",
                                           "no version"][(i // 4) % 8]
        if i % 8 == 3:
            info["openTypeNameUniqueID"] = "explicit;unique;id"
        # always: names at the edges of the encodings a CFF table stores (ASCII for the font name and Weight, Latin-1 for the
        # other strings): U+0100 alone, the Windows-1252 block that Latin-1 lacks, Latin-1 letters, a full-width letter
        if i % 8 == 2:
            info["familyName"] = ["\u0100hua", "\u0152uvre d\u2019Art", "Caf\u00e9 \u00ff", "\u20ac uro"][(i // 8) % 4]
        if i % 8 == 5:
            extra_w = {"postscriptWeightName": ["\u00e9", "\u00ffRegular", "\u0100tea", "Semi\u2011Bold", "Regular"][(i // 8) % 5]}
        else:
            extra_w = {}
        odd_ps = i % 8 == 7
        if odd_ps:
            info["postscriptFontName"] = ["\uff33ans-Regular", "S\u00e9-Regular", "\u0100-Bold"][(i // 8) % 3]
        if rng.random() < 0.3:
            info["openTypeOS2VendorID"] = rng.choice(["ABCD", "XY", "G"])
        extra = {}
        if rng.random() < 0.5:
            extra = {"openTypeOS2WeightClass": rng.choice([100, 400, 700, 950, 1]), "openTypeOS2WidthClass": rng.randint(1, 9),
                     "italicAngle": rng.choice([0, -12, 10.5, -45, 45]), "postscriptUnderlinePosition": rng.choice([-75, -100.5, 0]),
                     "postscriptUnderlineThickness": rng.choice([50, 20.5, 1]), "copyright": rng.choice(["(c) 2020 Me", "© Ünïcode ™", "版权"]),
                     "trademark": rng.choice(["TM™", "Ⓡ reg", "plain"]), "openTypeOS2Type": rng.choice([[], [2], [3, 8], [1]]),
                     "openTypeOS2Selection": rng.choice([[], [7], [7, 8]]), "openTypeNameDesigner": rng.choice(["Jörg", "设计师", "D"]),
                     "openTypeOS2Panose": [rng.randint(0, 9) for _ in range(10)], "postscriptIsFixedPitch": rng.random() < 0.5,
                     "openTypeNameLicense": "OFL", "openTypeNameDescription": "Описание"}
            extra = {k: v for k, v in extra.items() if rng.random() < 0.6}
        extra = dict(extra, **extra_w)
        desc = {"glyphs": simple_glyphs(), "info": dict(info, **extra), "no_info_defaults": True}
        for flavor in ("ttf", "otf"):
            lib = rng.choice(["ufoLib2", "defcon"])
            case = {"info": jsonable(dict(info, **extra)), "flavor": flavor, "lib": lib}
            ctx.count(); ctx.klass("names:" + flavor)
            if any(ord(c) > 127 for v in info.values() if isinstance(v, str) for c in v):
                ctx.nontriv(("names", i, flavor, ctx.scale))
            try:
                tt = (ufo2ft.compileTTF if flavor == "ttf" else ufo2ft.compileOTF)(build_font(desc, lib))
                buf = io.BytesIO(); tt.save(buf); buf.seek(0); tt = TTFont(buf)
            except Exception as e:
                ctx.spec_failure(case, "compile/save of spec-valid info raised %s: %s\n%s" % (type(e).__name__, e, traceback.format_exc()[-1000:]))
                continue
            want, ps, smsn, resolved = ref_names(info)
            name_cases.append((resolved, {nid: tt['name'].getDebugName(nid) for nid in (1, 2, 3, 4, 5, 6, 16, 17)}, case))
            nt = tt["name"]
            for nid in (1, 2, 3, 4, 5, 6, 16, 17):
                got = nt.getDebugName(nid)
                w = want.get(nid)
                if odd_ps and nid in (3, 6):
                    continue        # (an explicit PostScript name that is not ASCII: only "compiles, saves, CFF name is ASCII" is judged)
                if (w or None) != got:
                    ctx.spec_failure(case, "name ID %d is %r, documented value %r" % (nid, got, w))
            psname = nt.getDebugName(6)
            if "postscriptFontName" not in info and any(ord(c) < 33 or ord(c) > 126 or c in "[](){}<>/%" for c in psname or ""):
                ctx.spec_failure(case, "generated PostScript name %r has illegal characters" % psname)
            if "versionMajor" in info and int(tt["head"].fontRevision + 1e-6) != info["versionMajor"]:
                ctx.spec_failure(case, "versionMajor %d, versionMinor %d: head.fontRevision is %.4f -- the explicitly set major version is its integer part" % (
                    info["versionMajor"], info["versionMinor"], tt["head"].fontRevision))
            o = tt["OS/2"]
            for attr, field in (("openTypeOS2WeightClass", "usWeightClass"), ("openTypeOS2WidthClass", "usWidthClass")):
                if attr in extra and getattr(o, field) != extra[attr]:
                    ctx.spec_failure(case, "%s = %r but OS/2.%s = %r" % (attr, extra[attr], field, getattr(o, field)))
            if "openTypeOS2VendorID" in info and o.achVendID != info["openTypeOS2VendorID"].ljust(4):
                ctx.spec_failure(case, "vendor id %r -> %r" % (info["openTypeOS2VendorID"], o.achVendID))
            post = tt["post"]
            if "postscriptUnderlineThickness" in extra and post.underlineThickness != geom.ot_round(Fr(extra["postscriptUnderlineThickness"])):
                ctx.spec_failure(case, "underlineThickness %r -> %r" % (extra["postscriptUnderlineThickness"], post.underlineThickness))
            if "postscriptUnderlinePosition" in extra and post.underlinePosition != geom.ot_round(Fr(extra["postscriptUnderlinePosition"])):
                ctx.spec_failure(case, "underlinePosition %r -> %r" % (extra["postscriptUnderlinePosition"], post.underlinePosition))
            if "italicAngle" in extra and abs(post.italicAngle - extra["italicAngle"]) > 1e-3:
                ctx.spec_failure(case, "italicAngle %r -> %r" % (extra["italicAngle"], post.italicAngle))
            # the absent sub- / superscript X offsets fall back to where the slanted stem is at that height: a superscript
            # raised by Y sits Y * tan(-italicAngle) to the right (a right-leaning font has a NEGATIVE angle), a subscript
            # lowered by Y as much to the left
            ang = extra.get("italicAngle", 0)
            t_ = math.tan(math.radians(-ang)) if ang else 0
            for field, want_x in (("ySuperscriptXOffset", o.ySuperscriptYOffset * t_), ("ySubscriptXOffset", -o.ySubscriptYOffset * t_)):
                if abs(getattr(o, field) - want_x) > 0.51:
                    ctx.spec_failure(dict(case, field=field), "OS/2.%s = %d with italicAngle %r; the slanted stem is at x = %.1f at that height (Y offsets: superscript %d up, subscript %d down)" % (
                        field, getattr(o, field), ang, want_x, o.ySuperscriptYOffset, o.ySubscriptYOffset))
            sel = set(extra.get("openTypeOS2Selection", []))
            sel |= {"regular": {6}, "bold": {5}, "italic": {0}, "bold italic": {0, 5}}[smsn]
            if o.fsSelection != sum(1 << b for b in sel):
                ctx.spec_failure(case, "fsSelection %r, expected bits %r" % (o.fsSelection, sorted(sel)))
            if "openTypeOS2Type" in extra and o.fsType != sum(1 << b for b in set(extra["openTypeOS2Type"])):
                ctx.spec_failure(case, "fsType %r for %r" % (o.fsType, extra["openTypeOS2Type"]))
            for nid, attr in ((0, "copyright"), (7, "trademark"), (9, "openTypeNameDesigner"), (13, "openTypeNameLicense"),
                              (10, "openTypeNameDescription")):
                if attr in extra and nt.getDebugName(nid) != extra[attr]:
                    ctx.spec_failure(case, "name ID %d %r != %s %r" % (nid, nt.getDebugName(nid), attr, extra[attr]))
            if flavor == "otf":
                td = tt["CFF "].cff.topDictIndex[0]
                for fld in ("FullName", "FamilyName", "Notice", "Copyright"):
                    v = getattr(td, fld, "") or ""
                    try:
                        v.encode("latin-1")
                    except UnicodeEncodeError:
                        ctx.spec_failure(case, "CFF %s %r is not Latin-1 encodable" % (fld, v))
                if not odd_ps and tt["CFF "].cff.fontNames[0] != (normalize6(ps)):
                    ctx.spec_failure(case, "CFF font name %r, expected %r" % (tt["CFF "].cff.fontNames[0], ps))
                for label, v in (("font name", tt["CFF "].cff.fontNames[0]), ("Weight", getattr(td, "Weight", "") or "")):
                    if any(ord(c) > 126 or ord(c) < 32 for c in v):
                        ctx.spec_failure(case, "CFF %s %r is not ASCII" % (label, v))
    name_records_correspondence(ctx, name_cases)


def name_records_correspondence(ctx, name_cases):
    """Info/NameTable.v (which records are written, given the resolved values) against the compiled name table"""
    cases, meta = [], []
    for resolved, got, case in name_cases:
        vals = G.lst([G.tup(G.nat(k), G.s(v or "")) for k, v in sorted(resolved.items())], "(nat * str)")
        obs = G.lst([G.tup(G.nat(k), G.s(v)) for k, v in sorted(got.items()) if v], "(nat * str)")
        cases.append(G.tup(vals, obs)); meta.append(dict(case, resolved_names=resolved, name_table=got))
    vals = ctx.coq_eval("From U2F Require Import Base.Prelude Info.NameTable.",
                        "fun c : (list (nat * str) * list (nat * str)) => if recs_eqb (name_records (fst c)) (snd c) then 3 else 2",
                        cases, chunk=100, tag="NameRecs")
    for v, case in zip(vals, meta):
        if v is not None and v != 3:
            ctx.corr_mismatch(case, "Gallina name_records differs from the compiled name table (IDs 1-6, 16, 17)")


def normalize6(ps):
    return ps
